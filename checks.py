"""Registry of checks: property id -> units (gosym runs) + bounds + assumptions."""

Q = ("quick",)
T = ("thorough",)
QT = ("quick", "thorough")

COMMON_ASSUME = [
    "go/ssa translates the source faithfully; gosym's SSA semantics/intrinsics are right (validated by native replay of symbolic witness paths, not proved)",
    "math/big is exact (big.Int modelled as SMT mathematical Int; big.Rat as an unnormalised pair with positive denominator)",
    "every claim is bounded as stated under coverage.bounds; nothing outside is claimed",
]


def unit(pkg, files, run, tiers=QT, **kw):
    u = {"pkg": pkg, "files": files, "run": run, "tiers": tiers}
    u.update(kw)
    return u


CHECKS = {}

CHECKS["C24"] = {
    "level": "other",
    "explanation": "Bounded symbolic execution of the real NewPortionSpecific/NewAllotment/Allotment.Allocate from go/ssa: portions are symbolic rationals (arbitrary numerators/denominators), the amount an unbounded symbolic integer; z3 decides sum==amount, floor<=part<=floor+1, bonus-is-prefix for every value.",
    "bounds": {"quick": "n <= 3 portions (explicit) and n <= 3 with one 'remaining' at any position; amount unbounded >= 0",
               "thorough": "n <= 5 portions explicit, n <= 4 with 'remaining'"},
    "outside": "allotments with more portions than the bound; the compiler's VisitAllotment sum check (covered by C22/C27 corpus runs)",
    "assumptions": COMMON_ASSUME,
    "units": [
        unit("./internal/machine", ["machine/c24.go"], "^Harness_C24_n[123]$", Q),
        unit("./internal/machine", ["machine/c24.go"], "^Harness_C24_n[23]_remaining$", Q),
        unit("./internal/machine", ["machine/c24.go"], "^Harness_C24_n[123]$", T),
        unit("./internal/machine", ["machine/c24.go"], "^Harness_C24_n[23]_remaining$", T),
        unit("./internal/machine", ["machine/c24.go"], "^Harness_C24_n4$", T),
        unit("./internal/machine", ["machine/c24.go"], "^Harness_C24_n5$", T),
        unit("./internal/machine", ["machine/c24.go"], "^Harness_C24_n4_remaining$", T),
    ],
}


VM_FILES = ["vm/lib.go", "vm/corpus.go"]
VM_GROUPS_Q = ["0[1-7]", "0[89]|1[0-4]", "1[5-9]|2[01]", "2[2-8]", "29|3[0-4]"]


def vm_units(labels):
    us = []
    for g in VM_GROUPS_Q:
        us.append(unit("./internal/machine/vm", VM_FILES, f"^Harness_VM_(?:{g})_", QT, flags={"labels": labels}, reach=["end", "success-path"]))
    return us


CHECKS["C22"] = {
    "level": "other",
    "explanation": "The real compiler produces each program of a corpus of program shapes; the real Machine (ResolveResources/ResolveBalances/Execute, Funding.Take/TakeMax/Concat, Allotment.Allocate) is executed symbolically with symbolic amounts, caps, overdraft limits, rational portions and account balances of any sign. z3 decides for every value: posting amounts >= 0, statement asset, sum of postings == sent amount (for 'send [A *]': the reference definition of available funds), 'kept' yields no posting, tracked balances == initial + postings.",
    "bounds": {"quick": "34 program shapes (in-order/allotment/max sources and destinations, overdraft clauses, send-all, kept, save, balance() variable, multi-send, repeated accounts); all numeric inputs unbounded", "thorough": "same corpus"},
    "outside": "programs outside the shape corpus; the ANTLR front end is run concretely (not symbolically); account names are concrete per shape",
    "assumptions": COMMON_ASSUME,
    "units": vm_units("^C22:"),
}

CHECKS["C23"] = {
    "level": "other",
    "explanation": "Same corpus and engine as C22: for every successful execution and every non-world source account that is not declared unbounded, z3 decides initial + sum(postings) >= min(initial, -bound) with bound 0 or the symbolic 'up to' amount; multi-statement shapes cover spending funds received earlier in the script.",
    "bounds": CHECKS["C22"]["bounds"],
    "outside": CHECKS["C22"]["outside"],
    "assumptions": COMMON_ASSUME,
    "units": vm_units("^C23:"),
}

CORE_FILES = ["core/c01.go"]

CHECKS["C01"] = {
    "level": "other",
    "explanation": "Go half of the conservation invariant: the real Transaction.VolumeUpdates is executed symbolically on postings whose accounts and assets are symbolic names (every equality pattern: repeated accounts, source == destination, shared assets) and whose amounts are unbounded symbolic integers; z3 decides per asset that total input == total output == total of the amounts, rows have unique sorted keys, and the argument is not mutated. The SQL half (upsert, PIT reads) is not covered yet.",
    "bounds": {"quick": "P <= 2 postings per transaction", "thorough": "P <= 3 postings"},
    "outside": "more postings per transaction than the bound; the SQL upsert and all read queries (no PostgreSQL semantics encoded yet); names are atoms (strings of the form a%06d), i.e. only equality/order of names is explored",
    "assumptions": COMMON_ASSUME,
    "units": [
        unit("./internal", CORE_FILES, "^Harness_C01_VolumeUpdates_p[12]$", QT, flags={"labels": "^C01:"}),
        unit("./internal", CORE_FILES, "^Harness_C01_VolumeUpdates_p3$", T, flags={"labels": "^C01:", "max-paths": 400000}, timeout_s=7000),
    ],
}

CHECKS["C15"] = {
    "level": "other",
    "explanation": "Go half of revert exactness: the real Postings.Reverse / Transaction.Reverse are executed symbolically (symbolic names, unbounded amounts): reversed order, swapped ends, asset and amount kept, receiver not mutated, and T followed by its reverse nets every (account, asset) to zero through the real VolumeUpdates.",
    "bounds": {"quick": "N <= 4 postings (net-zero through VolumeUpdates: N <= 2)", "thorough": "N <= 6 postings (net-zero: N <= 2)"},
    "outside": "the controller's revertTransaction (timestamps, metadata mark, already-reverted, concurrency) and the SQL update are not covered yet",
    "assumptions": COMMON_ASSUME,
    "units": [
        unit("./internal", CORE_FILES, "^Harness_C15_Reverse_n[1-4]$", QT, flags={"labels": "^C15:"}),
        unit("./internal", CORE_FILES, "^Harness_C15_Reverse_n[56]$", T, flags={"labels": "^C15:"}),
    ],
}

STORE_SWAPS = [
    {"file": "internal/storage/ledger/volumes.go", "methods": [("*Store", "UpdateVolumes")]},
    {"file": "internal/storage/ledger/transactions.go", "methods": [("*Store", "InsertTransaction")]},
    {"file": "internal/storage/ledger/moves.go", "methods": [("*Store", "InsertMoves")]},
]

CHECKS["C03"] = {
    "level": "other",
    "explanation": "The real (*Store).CommitTransaction is executed symbolically (symbolic names in every equality pattern, unbounded amounts, symbolic pre-commit volumes) with its three SQL-issuing callees replaced by models via a method-swap overlay generated from the current tree. z3 decides: transaction PCV = pre + own deltas for exactly the touched pairs; moves are [source, destination] per posting in posting order and each move's PCV equals an independently computed forward fold (the code unwinds in reverse); preCommitVolumes (SubtractPostings) equals the pre-state and does not mutate its receiver.",
    "bounds": {"quick": "P <= 2 postings, MOVES_HISTORY ON and OFF", "thorough": "P <= 3 postings"},
    "outside": "the SQL of UpdateVolumes/InsertTransaction/InsertMoves (modelled: upsert returns pre+delta; RETURNING binds into the argument pointees) and immutability of stored PCV columns under later UPDATE statements",
    "assumptions": COMMON_ASSUME + ["model of UpdateVolumes: returns pre-volumes + the row's delta per (account, asset); model of InsertMoves: records the moves"],
    "units": [
        unit("./internal/storage/ledger", ["storage/c03.go"], "^Harness_C03_Commit_p(1|2|2_off)$", QT, swaps=STORE_SWAPS, flags={"labels": "^C03:", "max-decisions": 3000}),
        unit("./internal/storage/ledger", ["storage/c03.go"], "^Harness_C03_Commit_p3$", T, swaps=STORE_SWAPS, flags={"labels": "^C03:", "max-paths": 400000, "max-decisions": 6000}, timeout_s=7000),
    ],
}
