"""Registry of checks: property id -> units (gosym runs) + bounds + assumptions."""

Q = ("quick",)
T = ("thorough",)
QT = ("quick", "thorough")

COMMON_ASSUME = [
    "go/ssa translates the source faithfully; gosym's SSA semantics/intrinsics are right (validated by native replay of symbolic witness paths, not proved)",
    "math/big is exact (big.Int modelled as SMT mathematical Int; big.Rat as an unnormalised pair with positive denominator)",
    "every claim is bounded as stated under coverage.bounds; nothing outside is claimed",
]


def unit(pkg, files, run, tiers=QT, **kw):
    u = {"pkg": pkg, "files": files, "run": run, "tiers": tiers}
    u.update(kw)
    return u


CHECKS = {}

CHECKS["C24"] = {
    "level": "other",
    "explanation": "Bounded symbolic execution of the real NewPortionSpecific/NewAllotment/Allotment.Allocate from go/ssa: portions are symbolic rationals (arbitrary numerators/denominators), the amount an unbounded symbolic integer; z3 decides sum==amount, floor<=part<=floor+1, bonus-is-prefix for every value.",
    "bounds": {"quick": "n <= 3 portions (explicit) and n <= 3 with one 'remaining' at any position; amount unbounded >= 0",
               "thorough": "n <= 5 portions explicit, n <= 4 with 'remaining'"},
    "outside": "allotments with more portions than the bound; the compiler's VisitAllotment sum check (covered by C22/C27 corpus runs)",
    "assumptions": COMMON_ASSUME,
    "units": [
        unit("./internal/machine", ["machine/c24.go"], "^Harness_C24_n[123]$", Q),
        unit("./internal/machine", ["machine/c24.go"], "^Harness_C24_n[23]_remaining$", Q),
        unit("./internal/machine", ["machine/c24.go"], "^Harness_C24_n[123]$", T),
        unit("./internal/machine", ["machine/c24.go"], "^Harness_C24_n[23]_remaining$", T),
        unit("./internal/machine", ["machine/c24.go"], "^Harness_C24_n4$", T),
        unit("./internal/machine", ["machine/c24.go"], "^Harness_C24_n5$", T),
        unit("./internal/machine", ["machine/c24.go"], "^Harness_C24_n4_remaining$", T),
    ],
}
