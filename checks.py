"""Registry of checks: property id -> units (gosym runs) + bounds + assumptions."""

Q = ("quick",)
T = ("thorough",)
QT = ("quick", "thorough")

COMMON_ASSUME = [
    "go/ssa translates the source faithfully; gosym's SSA semantics/intrinsics are right (validated by native replay of symbolic witness paths, not proved)",
    "math/big is exact (big.Int modelled as SMT mathematical Int; big.Rat as an unnormalised pair with positive denominator)",
    "every claim is bounded as stated under coverage.bounds; nothing outside is claimed",
]


def unit(pkg, files, run, tiers=QT, **kw):
    u = {"pkg": pkg, "files": files, "run": run, "tiers": tiers}
    u.update(kw)
    return u


CHECKS = {}

CHECKS["C24"] = {
    "level": "other",
    "explanation": "Bounded symbolic execution of the real NewPortionSpecific/NewAllotment/Allotment.Allocate from go/ssa: portions are symbolic rationals (arbitrary numerators/denominators), the amount an unbounded symbolic integer; z3 decides sum==amount, floor<=part<=floor+1, bonus-is-prefix for every value.",
    "bounds": {"quick": "n <= 3 portions (explicit) and n <= 3 with one 'remaining' at any position; amount unbounded >= 0",
               "thorough": "n <= 4 portions explicit, n <= 4 with 'remaining' (n = 5: one of the five 'sum == amount' queries — nonlinear integer arithmetic over five symbolic rationals — comes back unknown within the query timeout; Harness_C24_n5 stays in the harness file, unregistered)"},
    "outside": "allotments with more portions than the bound; the compiler's VisitAllotment sum check (covered by C22/C27 corpus runs)",
    "assumptions": COMMON_ASSUME,
    "units": [
        unit("./internal/machine", ["machine/c24.go"], "^Harness_C24_n[123]$", Q),
        unit("./internal/machine", ["machine/c24.go"], "^Harness_C24_n[23]_remaining$", Q),
        unit("./internal/machine", ["machine/c24.go"], "^Harness_C24_n[123]$", T),
        unit("./internal/machine", ["machine/c24.go"], "^Harness_C24_n[23]_remaining$", T),
        unit("./internal/machine", ["machine/c24.go"], "^Harness_C24_n4$", T),
        unit("./internal/machine", ["machine/c24.go"], "^Harness_C24_n4_remaining$", T),
    ],
}


VM_FILES = ["vm/lib.go", "vm/corpus.go", "vm/corpus_wild_gen.go"]
VM_GROUPS_Q = ["0[1-7]", "0[89]|1[0-4]", "1[5-9]|2[01]", "2[2-8]", "29|3[0-8]", "4[1-5]"]


def vm_units(labels):
    us = []
    for g in VM_GROUPS_Q:
        us.append(unit("./internal/machine/vm", VM_FILES, f"^Harness_VM_(?:{g})_", QT, flags={"labels": labels}, reach=["end", "success-path"]))
    # shapes every run of which is refused (amounts of another asset than the statement's): no success path to witness
    us.append(unit("./internal/machine/vm", VM_FILES, "^Harness_VM_(?:39|40)_", QT, flags={"labels": labels}, reach=["end", "error-path"]))
    return us


CHECKS["C22"] = {
    "level": "other",
    "explanation": "The real compiler produces each program of a corpus of program shapes; the real Machine (ResolveResources/ResolveBalances/Execute, Funding.Take/TakeMax/Concat, Allotment.Allocate) is executed symbolically with symbolic amounts, caps, overdraft limits, rational portions and account balances of any sign. z3 decides for every value: posting amounts >= 0, statement asset, sum of postings == sent amount (for 'send [A *]': the reference definition of available funds), 'kept' yields no posting, tracked balances == initial + postings.",
    "bounds": {"quick": "45 program shapes (in-order/allotment/max sources and destinations, overdraft clauses, send-all, kept, save, balance() variable, multi-send, repeated accounts, two balance() variables on one account, a number variable handed over as JSON text, variables read from account metadata, caps / overdraft allowances in another asset); all numeric inputs unbounded", "thorough": "same corpus"},
    "outside": "programs outside the shape corpus; the ANTLR front end is run concretely (not symbolically); account names are concrete per shape",
    "assumptions": COMMON_ASSUME,
    "units": vm_units("^C22:"),
}

CHECKS["C23"] = {
    "level": "other",
    "explanation": "Same corpus and engine as C22: for every successful execution and every non-world source account that is not declared unbounded, z3 decides initial + sum(postings) >= min(initial, -bound) with bound 0 or the symbolic 'up to' amount; multi-statement shapes cover spending funds received earlier in the script.",
    "bounds": CHECKS["C22"]["bounds"],
    "outside": CHECKS["C22"]["outside"],
    "assumptions": COMMON_ASSUME,
    "units": vm_units("^C23:"),
}

CORE_FILES = ["core/c01.go"]

CHECKS["C01"] = {
    "level": "other",
    "explanation": "Go half of the conservation invariant: the real Transaction.VolumeUpdates is executed symbolically on postings whose accounts and assets are symbolic names (every equality pattern: repeated accounts, source == destination, shared assets) and whose amounts are unbounded symbolic integers; z3 decides per asset that total input == total output == total of the amounts, rows have unique sorted keys, and the argument is not mutated. The SQL half (upsert, PIT reads) is not covered yet.",
    "bounds": {"quick": "P <= 2 postings per transaction", "thorough": "P <= 3 postings"},
    "outside": "more postings per transaction than the bound; the SQL upsert and all read queries (no PostgreSQL semantics encoded yet); names are atoms (strings of the form a%06d), i.e. only equality/order of names is explored",
    "assumptions": COMMON_ASSUME,
    "units": [
        unit("./internal", CORE_FILES, "^Harness_C01_VolumeUpdates_p[12]$", QT, flags={"labels": "^C01:"}),
        unit("./internal", CORE_FILES, "^Harness_C01_VolumeUpdates_p3$", T, flags={"labels": "^C01:", "max-paths": 400000}, timeout_s=7000),
    ],
}

REVERT_SHAPES = "8 shapes of the reverted transaction (single, from world, chain a->b->c, two-asset chain, same pair twice, self-posting, to world, ping-pong) x force x atEffectiveDate, optionally followed by a later transaction that spends the credited funds"

CHECKS["C15"] = {
    "level": "other",
    "explanation": "(a) The real Postings.Reverse / Transaction.Reverse are executed symbolically (symbolic names, unbounded amounts): reversed order, swapped ends, asset and amount kept, receiver not mutated, and T followed by its reverse nets every (account, asset) to zero through the real VolumeUpdates. (b) The real revertTransaction/forgeLog run on the store model with symbolic amounts and symbolic starting balances: one new transaction whose postings are T's reversed and swapped, the revert metadata mark (plus request metadata), timestamp = T's timestamp iff atEffectiveDate else the revert time, T marked reverted, balances restored (T plus its revert is neutral), a non-forced revert refused with insufficient funds exactly when some non-world account would end negative and then without effect, a second revert fails with already-reverted and no effect, a revert of the revert re-applies T; no reachable panic.",
    "bounds": {"quick": "(a) N <= 4 postings (net-zero through VolumeUpdates: N <= 2); (b) " + REVERT_SHAPES, "thorough": "(a) N <= 6 postings; (b) same"},
    "outside": "concurrent reverts of one transaction and the SQL of the revert update (updateTxWithRetrieve) — not covered; transactions outside the listed shapes",
    "assumptions": COMMON_ASSUME + ["(b) uses the store model: see C07"],
    "units": [
        unit("./internal", CORE_FILES, "^Harness_C15_Reverse_n[1-4]$", QT, flags={"labels": "^C15:"}),
        unit("./internal", CORE_FILES, "^Harness_C15_Reverse_n[56]$", T, flags={"labels": "^C15:"}),
        unit("./internal/controller/ledger", ["ctrl/dbmodel.go", "ctrl/lib.go", "ctrl/c25.go", "ctrl/ops.go", "ctrl/ops_gen.go", "ctrl/revert.go", "ctrl/revert_gen.go", "ctrl/refreplay.go", "ctrl/events.go", "ctrl/events_gen.go", "ctrl/c36.go", "ctrl/c28.go", "ctrl/schema.go", "ctrl/conc.go", "ctrl/c37.go", "ctrl/c13fields.go", "ctrl/nativebun.go", "ctrl/export.go", "ctrl/c14c18.go"], "^Harness_REVC_", QT, flags={"labels": "^C15:", "max-decisions": 4000}, reach=["end"]),
        unit("./internal/controller/ledger", ["ctrl/dbmodel.go", "ctrl/lib.go", "ctrl/c25.go", "ctrl/ops.go", "ctrl/ops_gen.go", "ctrl/revert.go", "ctrl/revert_gen.go", "ctrl/refreplay.go", "ctrl/events.go", "ctrl/events_gen.go", "ctrl/c36.go", "ctrl/c28.go", "ctrl/schema.go", "ctrl/conc.go", "ctrl/c37.go", "ctrl/c13fields.go", "ctrl/nativebun.go", "ctrl/export.go", "ctrl/c14c18.go"], "^Harness_REVS_", QT, flags={"labels": "^C15:", "max-decisions": 4000}, reach=["end"]),
    ],
}

STORE_SWAPS = [
    {"file": "internal/storage/ledger/volumes.go", "methods": [("*Store", "UpdateVolumes")]},
    {"file": "internal/storage/ledger/transactions.go", "methods": [("*Store", "InsertTransaction")]},
    {"file": "internal/storage/ledger/moves.go", "methods": [("*Store", "InsertMoves")]},
]

CHECKS["C03"] = {
    "level": "other",
    "explanation": "The real (*Store).CommitTransaction is executed symbolically (symbolic names in every equality pattern, unbounded amounts, symbolic pre-commit volumes) with its three SQL-issuing callees replaced by models via a method-swap overlay generated from the current tree. z3 decides: transaction PCV = pre + own deltas for exactly the touched pairs; moves are [source, destination] per posting in posting order and each move's PCV equals an independently computed forward fold (the code unwinds in reverse); preCommitVolumes (SubtractPostings) equals the pre-state and does not mutate its receiver.",
    "bounds": {"quick": "P <= 2 postings, MOVES_HISTORY ON and OFF", "thorough": "P <= 3 postings"},
    "outside": "the SQL of UpdateVolumes/InsertTransaction/InsertMoves (modelled: upsert returns pre+delta; RETURNING binds into the argument pointees) and immutability of stored PCV columns under later UPDATE statements",
    "assumptions": COMMON_ASSUME + ["model of UpdateVolumes: returns pre-volumes + the row's delta per (account, asset); model of InsertMoves: records the moves"],
    "units": [
        unit("./internal/storage/ledger", ["storage/c03.go"], "^Harness_C03_Commit_p(1|2|2_off)$", QT, swaps=STORE_SWAPS, flags={"labels": "^C03:", "max-decisions": 3000}),
        unit("./internal/storage/ledger", ["storage/c03.go"], "^Harness_C03_Commit_p3$", T, swaps=STORE_SWAPS, flags={"labels": "^C03:", "max-paths": 400000, "max-decisions": 6000}, timeout_s=7000),
    ],
}

CTRL_FILES = ["ctrl/dbmodel.go", "ctrl/lib.go", "ctrl/c25.go", "ctrl/ops.go", "ctrl/ops_gen.go", "ctrl/revert.go", "ctrl/revert_gen.go", "ctrl/refreplay.go", "ctrl/events.go", "ctrl/events_gen.go", "ctrl/c36.go", "ctrl/c28.go", "ctrl/schema.go", "ctrl/conc.go", "ctrl/c37.go", "ctrl/c13fields.go", "ctrl/nativebun.go", "ctrl/export.go", "ctrl/c14c18.go"]
CTRL_PKG = "./internal/controller/ledger"
DBMODEL_ASSUME = [
    "dbmodel (harness/ctrl/dbmodel.go) stands for the SQL store below the controller's Store interface: tables as Go values, transactional write sets applied on Commit and dropped on Rollback, autocommit on a non-transactional handle, unique keys (ledger,id), (ledger,reference), (ledger,idempotency_key), (ledger,address), non-transactional sequences, 'a failed statement aborts the transaction', transaction_date() constant inside a transaction. It is trusted, not verified (no PostgreSQL in the sandbox)",
    "encoding/json is modelled as a JSON-tree (marshal/unmarshal by the documented rules, custom MarshalJSON/UnmarshalJSON executed symbolically); SHA-256 is exact on concrete content and an injective function on symbolic content",
]
OPS_LIST = "24 write requests covering all 7 log processors (create via postings (incl. a self-posting) / script with tx+account metadata / reference conflict / metadata override / bad script / no postings / forced overdraft; revert plain / at effective date / forced / insufficient / missing; save+delete transaction metadata (present, absent target, absent key); save+delete account metadata (existing, new account); insert schema)"


def ctrl_units(modes_q, modes_t, labels, decisions=4000):
    us = []
    for tiers, modes in ((QT, modes_q), (T, modes_t)):
        for m in modes:
            us.append(unit(CTRL_PKG, CTRL_FILES, f"^Harness_{m}_", tiers, flags={"labels": labels, "max-decisions": decisions, "max-paths": 200000}, reach=["end"], timeout_s=1500 if tiers == QT else 7000))
    return us


CHECKS["C25"] = {
    "level": "other",
    "explanation": "A postings request goes through the real TxToScriptData, the real Numscript compiler and VM, the real createTransaction/forgeLog on the store model. Posting amounts are unbounded symbolic integers (fresh per posting) and every touched account starts from arbitrary symbolic volumes; the account/asset equality pattern is one of a set of shapes. z3 decides: the returned and the stored postings equal the submitted ones field by field and in order (zero amounts kept); the request fails iff the in-order fold takes a non-world source below zero, with the insufficient-funds error, never with force; a rejected request stores nothing.",
    "bounds": {"quick": "10 posting-list shapes with symbolic amounts and balances (1-3 postings: single, received-then-spent, two from one source, self-posting, duplicate, two assets, to world, ping-pong; force on/off) + 14 concrete-amount shapes (zero, 2^64+5, 12 distinct accounts)", "thorough": "same"},
    "outside": "posting lists outside the listed equality patterns and longer than 3 symbolic postings; Postings.Validate / API decoding of the request; the interpreter runtime",
    "assumptions": COMMON_ASSUME + DBMODEL_ASSUME,
    "units": [
        unit(CTRL_PKG, CTRL_FILES, "^Harness_C25_", QT, flags={"labels": "^C25:", "max-decisions": 3000}, reach=["end"]),
        unit(CTRL_PKG, CTRL_FILES, "^Harness_C25S_", QT, flags={"labels": "^C25:", "max-decisions": 3000}, reach=["end"]),
    ],
}

CHECKS["C07"] = {
    "level": "other",
    "explanation": "Every write kind runs through the real DefaultController and logProcessor (forgeLog, forgeLogRetry, runTx, runLog, fetchLogWithIK) on the store model, from a committed history whose amounts are symbolic. Fault schedule: any one or two (thorough: three) store call(s) of the operation — BeginTX, reads, every write, InsertLog, Commit — fails with a generic, deadlock or serialization error (the choice of call and kind are explored exhaustively; amounts stay symbolic). Decided: an operation that returns an error leaves the committed state (transactions, logs, volumes, accounts, metadata, moves, schemas) identical to the pre-state; DryRun=true leaves it identical as well — also when a store call fails and the retry path is taken — and returns the log type, postings, metadata and post-commit volumes that the same request returns as a real write on an identical ledger.",
    "bounds": {"quick": OPS_LIST + "; history of 5 writes (3 transactions, 2 metadata writes) with symbolic amounts; <= 2 injected store failures per operation (<= 1 with symbolic amounts)", "thorough": "<= 3 injected store failures per operation (<= 2 with symbolic amounts)"},
    "outside": "a crash of the process or connection in the middle of COMMIT (PostgreSQL atomicity is assumed); events (C31); more than 2 faults; histories other than the 5-write one",
    "assumptions": COMMON_ASSUME + DBMODEL_ASSUME,
    "units": ctrl_units(["OPS_wet", "OPS_wetfault", "OPS_wetfault2", "OPS_dry", "OPS_dryfault", "OPS_dryfault2", "SYM_wet", "SYM_dry", "SYM_wetfault", "SYM_dryfault"], ["OPS_wetfault3", "SYM_wetfault2"], "^C07:"),
}

CHECKS["C08"] = {
    "level": "other",
    "explanation": "Same harnesses as C07, other assertions: a successful non-dry-run write appends exactly one log whose id is greater than every earlier id and equals the returned one (also after a deadlock retry); failed and dry-run writes append none — a dry run also when store calls fail and the retry path is taken (their state is unchanged, C07); and the payload alone determines the state: running the real importLog on the emitted log over a copy of the pre-state yields the same transactions (ids, postings, metadata, reference, timestamp, revert mark, post-commit volumes), volumes, accounts (address, first usage, metadata), moves and schemas as the live write did.",
    "bounds": {"quick": OPS_LIST + "; symbolic amounts; <= 2 injected store failures", "thorough": "<= 3 injected failures"},
    "outside": "log ids under concurrency (C16); hash chain (C09); insertion_date/updated_at stamps are not part of the replay relation; schema-carrying ledgers (chart default metadata) are covered under C29",
    "assumptions": COMMON_ASSUME + DBMODEL_ASSUME,
    "units": ctrl_units(["OPS_wet", "OPS_wetfault", "OPS_wetfault2", "SYM_wet", "SYM_wetfault", "OPS_dry", "OPS_dryfault", "OPS_dryfault2"], ["OPS_wetfault3"], "^C08:"),
}

CHECKS["C13"] = {
    "level": "other",
    "explanation": "Sequential half of exactly-once: each write kind is sent twice with one idempotency key through the real forgeLog/fetchLogWithIK/ComputeIdempotencyHash on the store model (symbolic amounts): the replay succeeds, is flagged as a hit, returns the original log id/type and transaction, and the committed state equals the state after the first request (also for a DryRun replay); a different input under the same key is rejected with ErrInvalidIdempotencyInput and has no effect — also when it differs from the first in exactly one field (every field of every request kind: script, vars, timestamp, metadata, reference, account metadata, runtime; force, atEffectiveDate, transaction id, revert metadata; targets, keys and values of metadata writes and deletes), the different value being symbolic; with one store failure injected into the replay the caller gets a hit or the injected/retryable error, never a business error, and still no second effect.",
    "bounds": {"quick": OPS_LIST + "; 2-4 requests per key; <= 1 injected store failure in the replay", "thorough": "same"},
    "outside": "concurrent requests sharing a key (needs the thread scheduler on the store model: not covered yet)",
    "assumptions": COMMON_ASSUME + DBMODEL_ASSUME,
    "units": ctrl_units(["OPS_ik", "OPS_ikfault", "SYM_ik", "SYM_ikfault", "C13F"], [], "^C13:"),
}

CHECKS["C02"] = {
    "level": "other",
    "explanation": "Controller half of the volume invariant: after the symbolic 5-write history and one more request of each kind (successful, failed, reverting), every stored (account, asset) volume equals the fold of the postings of the committed transactions (reverts included) and every posting is reflected; failed and dry-run writes change no volume. The fold is recomputed independently from the committed transaction list.",
    "bounds": {"quick": OPS_LIST + "; symbolic amounts", "thorough": "same"},
    "outside": "the SQL of the upsert and of the read queries (accounts, volumes, aggregated balances) — not encoded; the store model adds VolumeUpdates() to the rows",
    "assumptions": COMMON_ASSUME + DBMODEL_ASSUME,
    "units": ctrl_units(["OPS_fold", "SYM_fold", "SYM_wet", "SYM_dry"], [], "^C02:"),
}


CHECKS["C31"] = {
    "level": "other",
    "explanation": "The real ControllerWithEvents wraps the real DefaultController on the store model; a recording listener snapshots, at the instant of each callback, how many logs are durably committed. Cases: a single request of every kind (wet / dry-run / with one or two injected store failures, including a failing COMMIT and the deadlock-retry path); a caller-owned SQL transaction (BeginTX, one or two writes, Commit or Rollback, with an injected failure) as the atomic bulk uses it; and the state tracker's sequence on an initializing ledger (BeginTX -> LockLedger -> write -> Commit/Rollback). Decided: no callback for failed, dry-run or rolled-back writes or when the commit fails; exactly one callback of the matching kind per committed write; every callback happens when its write is already committed.",
    "bounds": {"quick": OPS_LIST + "; <= 2 injected failures for single requests (3 in the thorough tier), <= 1 inside a caller-owned transaction; 7 pairs of writes inside a caller-owned transaction; amounts symbolic in the EVS/EVTS harnesses", "thorough": "<= 3 injected failures for single requests"},
    "outside": "the middle layers of the production stack (traces, cache, too-many-clients retry) are not in the harness stack; the bulker's own use of BeginTX is covered by C32's harness; the Listener implementation (bus publisher) itself",
    "assumptions": COMMON_ASSUME + DBMODEL_ASSUME,
    "units": [
        unit(CTRL_PKG, CTRL_FILES, "^Harness_EVC_(wet|dry)_", QT, flags={"labels": "^C31:", "max-decisions": 4000}, reach=["end"]),
        unit(CTRL_PKG, CTRL_FILES, "^Harness_EVC_(wetfault|dryfault)_", QT, flags={"labels": "^C31:", "max-decisions": 4000}, reach=["end"]),
        unit(CTRL_PKG, CTRL_FILES, "^Harness_EVC_wetfault2_", QT, flags={"labels": "^C31:", "max-decisions": 4000, "max-paths": 200000}, reach=["end"]),
        unit(CTRL_PKG, CTRL_FILES, "^Harness_EVS_", QT, flags={"labels": "^C31:", "max-decisions": 4000}, reach=["end"]),
        unit(CTRL_PKG, CTRL_FILES, "^Harness_EVTS?_", QT, flags={"labels": "^C31:", "max-decisions": 4000}, reach=["end"]),
        unit(CTRL_PKG, CTRL_FILES, "^Harness_EVL_", QT, flags={"labels": "^C31:", "max-decisions": 4000}, reach=["end"]),
        unit(CTRL_PKG, CTRL_FILES, "^Harness_EVC_wetfault3_", T, flags={"labels": "^C31:", "max-decisions": 4000, "max-paths": 400000}, reach=["end"], timeout_s=7000),
    ],
}


BULK_EXTRA = [{"pkg": "internal/controller/ledger", "files": CTRL_FILES}]

CHECKS["C32"] = {
    "level": "other",
    "explanation": "The real Bulker.Run/run/processElement drive the real ControllerWithEvents + DefaultController on the store model. Every assignment of element kinds (succeeding and failing creates, metadata writes, forced revert, a spend whose outcome depends on the symbolic balance, metadata delete) to the positions of a bulk is explored, for atomic / continueOnFailure on and off; amounts are symbolic in the BULKS harnesses. The reference sends the same elements one by one to a plain controller on an identical ledger following the documented rule. Decided: exactly one result per element, in order; an element succeeds in the bulk iff the rule applies it and it succeeds on its own, with the same log id and transaction; the final state equals the reference state (atomic with a failure: the pre-state); failed and skipped elements report an error.",
    "bounds": {"quick": "N <= 2 elements over 8 element kinds, N = 3 over 5 kinds; atomic x continueOnFailure; parallelism 1 (pond replaced by a synchronous single worker: exact for one worker)", "thorough": "N = 4 over 5 kinds"},
    "outside": "Parallel=true (only the option validation is covered); bulks longer than the bound; HTTP decoding of the bulk (C38)",
    "assumptions": COMMON_ASSUME + DBMODEL_ASSUME + ["github.com/alitto/pond is modelled as a synchronous single worker: Submit runs the task, StopAndWait returns"],
    "units": [
        unit("./internal/api/bulking", ["bulk/c32.go"], "^Harness_BULK_n[12]", QT, extra=BULK_EXTRA, flags={"labels": "^C32:", "max-decisions": 6000}, reach=["end"]),
        unit("./internal/api/bulking", ["bulk/c32.go"], "^Harness_BULK_n3", QT, extra=BULK_EXTRA, flags={"labels": "^C32:", "max-decisions": 6000}, reach=["end"]),
        unit("./internal/api/bulking", ["bulk/c32.go"], "^Harness_BULKS_", QT, extra=BULK_EXTRA, flags={"labels": "^C32:", "max-decisions": 6000, "max-paths": 100000}, reach=["end"]),
        unit("./internal/api/bulking", ["bulk/c32.go"], "^Harness_BULK_n4", T, extra=BULK_EXTRA, flags={"labels": "^C32:", "max-decisions": 8000, "max-paths": 400000}, reach=["end"], timeout_s=7000),
    ],
}

CHECKS["C31"]["units"] += [
    unit("./internal/api/bulking", ["bulk/c32.go"], "^Harness_BULK_n[12]", QT, extra=BULK_EXTRA, flags={"labels": "^C31:", "max-decisions": 6000}, reach=["end"]),
    unit("./internal/api/bulking", ["bulk/c32.go"], "^Harness_BULK_n3", QT, extra=BULK_EXTRA, flags={"labels": "^C31:", "max-decisions": 6000}, reach=["end"]),
]
CHECKS["C31"]["explanation"] += " Bulk cases: the real Bulker (atomic and non-atomic, every assignment of succeeding/failing element kinds to <= 3 positions) on the same stack: one callback per committed element, none for a rolled-back atomic bulk, atomic-bulk callbacks only after the bulk's commit."


CHECKS["C36"] = {
    "level": "other",
    "explanation": "(a) A monetary script variable given as a JSON number n (an unbounded symbolic integer >= 0) is decoded by the real json.Unmarshal into the real ScriptV1 (v2 API, bulk) resp. v1 Script and converted by the real ToCore: z3 decides that the string handed to the machine is exactly \"<asset> n\" — the float64/int() path is encoded with IEEE-754 semantics, so a rounding is a counterexample; the same for an amount given as a string of digits. (b) An amount a (unbounded symbolic integer, plus the concrete magnitudes 2^53+1, 2^63, 2^64+1, 10^30, a 39-digit number, 0) travels through TxToScriptData, the compiler, the VM, CommitTransaction: recorded posting, volumes, balances, post-commit volumes and the log payload equal a exactly, sums/differences are exact, and a request for one unit more than the balance is refused.",
    "bounds": {"quick": "n, a unbounded (no width bound: big.Int is a mathematical integer in the encoding); float64 conversions through bit-vectors for |n| < 2^70 and reals beyond", "thorough": "same"},
    "outside": "PostgreSQL numeric arithmetic and column types, the bun/pgx transport and the HTTP JSON encoders are not encoded; SQL aggregation and filtering of amounts (balance filters) are not covered; JSON numbers written with a fraction or an exponent",
    "assumptions": COMMON_ASSUME + DBMODEL_ASSUME,
    "units": [
        unit(CTRL_PKG, CTRL_FILES, "^Harness_C36_amount_", QT, flags={"labels": "^(C36:|no-panic)", "max-decisions": 4000}, reach=["end"]),
        unit("./internal/machine/vm", ["vm/c36.go"], "^Harness_C36_", QT, libs=["jsongen"], flags={"labels": "^(C36:|no-panic)"}, reach=["end"]),
        unit("./internal/api/v1", ["apiv1/c38.go"], "^Harness_C36_", QT, libs=["jsongen"], flags={"labels": "^(C36:|no-panic)"}, reach=["end"]),
    ],
}
CHECKS["C38"] = {
    "level": "other",
    "explanation": "Request-decoding kernels, executed symbolically with a bounded arbitrary JSON value (shape explored exhaustively; integer and string leaves symbolic) substituted for one field at a time of an otherwise valid request (type confusion on every field): v2/bulk ScriptV1 (UnmarshalJSON + ToCore), v1 Script.ToCore, the bulk element decoder (BulkElement.UnmarshalJSON, UnmarshalBulkElementPayload) followed by the real Bulker.processElement on the real controller over the store model, and the import-stream decoder (Log.UnmarshalJSON, LogType.UnmarshalJSON, HydrateLog, SavedMetadata/DeletedMetadata.UnmarshalJSON), and pagination cursors: an arbitrary JSON document (whole, or one field at a time of a valid column / offset cursor) is base64-encoded, decoded by the real UnmarshalCursor and run through the real PaginatedResourceRepository.Paginate, paginator Paginate / BuildCursor on pages that may be empty. Decided: no reachable panic; a bulk element that is refused leaves the committed state unchanged; a decoded log carries a payload.",
    "bounds": {"quick": "substituted value: null / bool / unbounded integer / 4 non-integer numbers / string of <= 4 symbolic bytes / array of <= 2 such values / object over 2 keys (depth 1; depth 2 for script variables); one corrupted field per request; 6 bulk element kinds, 5 log kinds", "thorough": "depth 2 for bulk elements as well"},
    "outside": "the HTTP layer: chi router, middlewares, query-string and header parsing, and the mapping of errors to status codes are not encoded (net/http is beyond the executor) — in particular 'the answer is 4xx rather than 5xx' is not decided, only 'an error, not a panic, and no effect'; filter bodies; cursor modifiers of the API layer (page-size clamping); two or more corrupted fields at once",
    "assumptions": COMMON_ASSUME + DBMODEL_ASSUME + ["time.Parse, base64 decoding, strings.ToUpper and strconv.ParseUint of a symbolic string are over-approximated (error, or an arbitrary value)"],
    "units": [
        unit("./internal/machine/vm", ["vm/c36.go"], "^Harness_C38_", QT, libs=["jsongen"], flags={"labels": "^(C38:|no-panic)", "max-paths": 200000}, reach=["end"]),
        unit("./internal/api/v1", ["apiv1/c38.go"], "^Harness_C38_", QT, libs=["jsongen"], flags={"labels": "^(C38:|no-panic)", "max-paths": 200000}, reach=["end"]),
        unit("./internal", ["core/c38.go"], "^Harness_C38_log_", QT, libs=["jsongen"], flags={"labels": "^(C38:|no-panic)", "max-paths": 200000}, reach=["end"]),
        unit("./internal/api/bulking", ["bulk/c32.go", "bulk/c38.go"], "^Harness_C38_bulk_(create|revert)", QT, libs=["jsongen"], extra=BULK_EXTRA, flags={"labels": "^(C38:|no-panic)", "max-paths": 400000, "max-decisions": 6000}, reach=["end"]),
        unit("./internal/storage/common", ["common/c21.go", "common/c38.go"], "^Harness_C38_cursor_", QT, libs=["jsongen"], swaps=[{"file": "internal/storage/common/paginator_column.go", "methods": [("", "findPaginationFieldPath"), ("", "findPaginationField")]}], flags={"labels": "^(C38:|no-panic)", "max-paths": 200000}, reach=["end"]),
        unit("./internal/api/bulking", ["bulk/c32.go", "bulk/c38.go"], "^Harness_C38_bulk_(add|delete)", QT, libs=["jsongen"], extra=BULK_EXTRA, flags={"labels": "^(C38:|no-panic)", "max-paths": 400000, "max-decisions": 6000}, reach=["end"]),
    ],
}


CHECKS["C28"] = {
    "level": "other",
    "explanation": "(a) Regex inclusion decided by z3 over the strings theory, both sides read from the current source: the strings the Numscript lexer accepts as ACCOUNT / ASSET literals (NumScript.g4), filtered by the validation VisitLit applies to that literal kind (read from compiler.go), are all inside accounts.Pattern / assets.Pattern; a witness is replayed through the real compiler, VM and controller and the stored postings are inspected. (b) Value flow: machine.NewValueFromString — the single door through which variables and account metadata enter a script as account, asset or monetary — is executed on a symbolic string (SMT strings, the repo's regexes translated to str.in_re): an accepted account/asset/monetary matches the documented pattern (written out independently in the harness), is the submitted value, and a monetary amount is >= 0. (c) Postings path: Postings.Validate accepts a posting of symbolic strings only if source, destination and asset match the patterns and the amount is >= 0. Amount >= 0 and statement asset of script postings are C22's obligations.",
    "bounds": {"quick": "literals of <= 6 bytes, variable values of <= 8 bytes, posting fields of <= 6 bytes; amounts unbounded", "thorough": "literals of <= 10 bytes"},
    "outside": "strings longer than the bounds; the interpreter runtime (external library); import of a stream that no export produced; non-ASCII white space in strings.TrimSpace-like preprocessing (modelled for ASCII)",
    "assumptions": COMMON_ASSUME + ["SMT-LIB regular expressions generated from regexp/syntax (Go side) and from Python's sre parser (lexer rules) denote the same languages as the RE2 patterns they come from"],
    "units": [
        unit("./internal", ["core/c28.go"], "^Harness_C28_", QT, flags={"labels": "^(C28:|no-panic)"}, reach=["end"]),
        unit("./internal/machine", ["machine/c28.go"], "^Harness_C28_(account|asset|monetary)_value$", QT, flags={"labels": "^(C28:|no-panic)"}, reach=["end", "accepted", "rejected"]),
        unit("./internal/machine", ["machine/c28.go"], "^Harness_C28_monetary_value_json", QT, flags={"labels": "^(C28:|no-panic)"}, reach=["end", "rejected"]),
        {"kind": "py", "module": "c28_lexer", "pkg": "pychecks", "files": [], "run": "c28_lexer", "tiers": QT, "reach": ["end"],
         "replay_unit": unit(CTRL_PKG, CTRL_FILES, "^Replay_C28_", QT)},
    ],
}


CHART_SHAPES = "charts: root {acc: node, bank: leaf}; a node has an optional fixed child 'in', an optional variable child '$id' (no pattern / ^[0-9]+$ / ^i), else a fixed child 'out', optional .self (+ .metadata); children are leaves (optional default metadata) or interior non-account segments with one leaf below"
CHECKS["C30"] = {
    "level": "other",
    "explanation": "Every chart of a bounded shape family is decoded by the real ChartOfAccounts/ChartSegment.UnmarshalJSON, marshalled by the real MarshalJSON methods and decoded again (also inside the SchemaData envelope), all through the JSON-tree model; then a symbolic address (1-3 segments, each an SMT string over the segment alphabet) is classified by the real findAccountSchema against both charts: same accept/reject verdict and same default metadata before and after the round trip. The decoders range over Go maps: for depth-1 charts every iteration order of each map of 2-3 entries is explored as a fork (first decode, second decode), since Go leaves the order unspecified.",
    "bounds": {"quick": CHART_SHAPES + "; depth 1 (the node's children are leaves); addresses of <= 3 segments of <= 3 bytes; map orders: maps of <= 3 entries, addresses of <= 2 segments", "thorough": "reduced depth 2: a child of the node may itself be a node of a slim sub-family (optional fixed child, optional ^[0-9]+$ variable child, optional .self); map orders with addresses of <= 3 segments. The full depth-2 family (Harness_CHART_d2_len3, kept in the harness file) needs more than two hours and ~20 GB and is not registered"},
    "outside": "transaction templates and query templates of a schema (compared under C37); the text layer of encoding/json and the jsonb column (the tree model assumes they preserve the tree); charts outside the family; strings.Split of the address (findAccountSchema is called with the segment list)",
    "assumptions": COMMON_ASSUME + ["encoding/json is modelled as a JSON tree (see C07)", "regexp patterns are translated to SMT-LIB regular expressions"],
    "units": [
        unit("./internal", ["core/chart.go"], "^Harness_CHART_d1_", QT, flags={"labels": "^(C30:|no-panic)", "max-paths": 200000, "max-decisions": 2000}, reach=["end"]),
        unit("./internal", ["core/chart.go"], "^Harness_CHART_order1_", QT, flags={"labels": "^(C30:|no-panic)", "max-paths": 200000, "max-decisions": 2000}, reach=["end"]),
        unit("./internal", ["core/chart.go"], "^Harness_CHART_order2_", QT, flags={"labels": "^(C30:|no-panic)", "max-paths": 200000, "max-decisions": 2000}, reach=["end"]),
        unit("./internal", ["core/chart.go"], "^Harness_CHART_d2r_", T, flags={"labels": "^(C30:|no-panic)", "max-paths": 400000, "max-decisions": 3000}, reach=["end"], timeout_s=3000),
        unit("./internal", ["core/chart.go"], "^Harness_CHART_orderT[12]_", T, flags={"labels": "^(C30:|no-panic)", "max-paths": 400000, "max-decisions": 2000}, reach=["end"], timeout_s=3000),
    ],
}


CHECKS["C29"] = {
    "level": "other",
    "explanation": "(a) Chart semantics: the real ChartOfAccounts.UnmarshalJSON + findAccountSchema against an independent declarative acceptance predicate evaluated on the JSON the chart was written in (a fixed sub-segment named like the address segment is taken, and only then; otherwise the variable sub-segment when its pattern matches; the last segment must land on an account node), for every chart of a bounded shape family and a symbolic address; the default metadata of the matched account is the reference's. (b) Enforcement: the real runLog/createTransaction/saveAccountMetadata/ValidateWithSchema/AccountsWithDefaultMetadata on the store model, enforcement mode strict/audit x schema version missing/known/unknown x transaction templates defined/used, the destination account carrying a symbolic segment: in strict mode an accepted write names an existing schema, its posting accounts are accepted by the chart, and a template is used when templates exist; a refusal carries the matching error and leaves no effect; audit mode only logs; chart default metadata is applied on the first insert of an account and never re-applied.",
    "bounds": {"quick": CHART_SHAPES + "; depth 1; addresses of <= 3 segments of <= 3 bytes; (b) one chart (fixed, pattern-variable and nested fixed segments), 13 mode/version/template combinations (incl. a request naming a template and carrying its own script)", "thorough": "reduced chart depth 2 (second level from a slim sub-family; the full depth-2 family does not finish dependably: > 2 h, ~20 GB)"},
    "outside": "charts outside the family; strings.Split of the address in (a); revert / metadata-only writes under a schema other than saveAccountMetadata; the interpreter runtime",
    "assumptions": COMMON_ASSUME + DBMODEL_ASSUME,
    "units": [
        unit("./internal", ["core/chart.go"], "^Harness_CHART_d1_", QT, flags={"labels": "^(C29:|no-panic)", "max-paths": 200000, "max-decisions": 2000}, reach=["end"]),
        unit(CTRL_PKG, CTRL_FILES, "^Harness_SCHEMA_", QT, flags={"labels": "^(C29:|no-panic)", "max-decisions": 4000}, reach=["end"]),
        unit("./internal", ["core/chart.go"], "^Harness_CHART_order1_", QT, flags={"labels": "^(C29:|no-panic)", "max-paths": 200000, "max-decisions": 2000}, reach=["end"]),
        unit("./internal", ["core/chart.go"], "^Harness_CHART_d2r_", T, flags={"labels": "^(C29:|no-panic)", "max-paths": 400000, "max-decisions": 3000}, reach=["end"], timeout_s=3000),
    ],
}


CHECKS["C27"] = {
    "level": "other",
    "explanation": "Decided part of 'never crashes': (a) every program of the 45-shape corpus, compiled by the real compiler, is executed by the real Machine through vm.Run with ANY typed variable values (amounts and numbers of any sign, portions n/d with any n and any d != 0, so also above 100% and negative) and any balances: no reachable panic, a failed run returns no (partial) result, a successful one returns every posting, the program counter only moves forward (the loop terminates within the executor's step bound on every path). (b) machine.NewValueFromString — the door for variable JSON and account metadata — on a symbolic string for every variable type (account, asset, string, number, monetary, portion; regexes, SplitN, big.Rat.SetString and FindStringSubmatch are encoded over SMT strings): no panic, an error carries no value, an accepted portion lies in [0,1]. Number variables are additionally read from every kind of JSON literal (null, booleans, strings, fractions, arrays, ...) both directly and through SetVarsFromJSON + ResolveResources, and an accepted value must have the requested type.",
    "bounds": {"quick": "45 program shapes; all numeric values unbounded; value strings of <= 6 bytes (portion <= 5, monetary 4+1+3)", "thorough": "same"},
    "outside": "'compiling any byte string': the ANTLR ATN simulator and the generated parser cannot be executed on symbolic bytes within reach — compilation of arbitrary text is NOT decided; programs outside the corpus; SetVarsFromJSON's JSON layer",
    "assumptions": COMMON_ASSUME + ["FindStringSubmatch on a symbolic subject returns some decomposition of the subject along the pattern (Go's leftmost-first choice when it is unique, as for the repo's patterns)"],
    "units": [
        unit("./internal/machine/vm", VM_FILES, "^Harness_VMW_(0|1[0-6])", QT, flags={"labels": "^(C27:|no-panic)"}, reach=["end"]),
        unit("./internal/machine/vm", VM_FILES, "^Harness_VMW_(1[7-9]|2|3|4)", QT, flags={"labels": "^(C27:|no-panic)"}, reach=["end"]),
        unit("./internal/machine", ["machine/c27.go"], "^Harness_C27_", QT, flags={"labels": "^(C27:|no-panic)"}, reach=["end"]),
    ],
}


SQL_ASSUME = [
    "the statements are the ones the real store emits: captured on every run from the real Store methods and resource handlers on real bun (pgdialect) through a recording database/sql driver (harness/sqlcap), for the feature configuration at hand",
    "sqlsym's semantics of the SQL subset (three-valued logic, joins, GROUP BY, DISTINCT ON, first_value windows, CTEs, jsonb as a finite map over 2 keys) is the documented PostgreSQL semantics; no PostgreSQL is available to test that, and SQL counterexamples are re-evaluated on the concrete instance only (sql_replayed_on_postgres: false)",
    "page sizes are not smaller than the result (LIMIT never cuts); ORDER BY is not compared (results are compared as sets)",
]


def py_unit(module, run, args, tiers=QT, **kw):
    u = {"kind": "py", "module": module, "pkg": "pychecks", "files": [], "run": run, "tiers": tiers, "args": args, "reach": ["end"]}
    u.update(kw)
    return u


CHECKS["C05"] = {
    "level": "other",
    "explanation": "Every point-in-time / window read statement the real store emits — volumes (PIT, OOT, PIT+OOT x effective / insertion date), aggregated balances (PIT, first_value over post-commit [effective] volumes), accounts (PIT listing, expand volumes / effectiveVolumes) and transactions (PIT listing, revert mark) — is evaluated by the SQL evaluator over symbolic tables (moves, accounts_volumes, accounts, accounts_metadata, transactions, transactions_metadata; several ledgers, accounts and assets; arbitrary dates, so 'exactly on a recorded date' is covered) with symbolic PIT and OOT, and z3 decides that the result equals the fold of the moves in the window written directly as a formula: every returned row is right and every entity with history in the window is returned exactly once; an account appears iff first used by then; a transaction iff dated by then, its revert mark only if reverted by then. Reads based on first_value(post_commit[_effective]_volumes) are decided under the row invariants of C03 (post-commit volumes by insertion order) and C04 (effective volumes).",
    "bounds": {"quick": "K <= 3 present rows per table", "thorough": "K <= 4 rows per table"},
    "outside": "grouped volumes (groupLvl > 0: string_to_array/array_to_string are not in the SQL subset); filters combined with PIT (C20); PostgreSQL's casting of date strings; tables with more rows than K",
    "assumptions": COMMON_ASSUME[2:] + SQL_ASSUME,
    "technique": "bounded symbolic evaluation (z3) of the SQL text captured from the real store, against a reference fold",
    "units": [py_unit("reads", "reads-C05", ["--props", "C05"])],
}

CHECKS["C17"] = {
    "level": "other",
    "explanation": "Read half: the account and transaction read statements the real store emits, with and without PIT, are evaluated over symbolic tables including the metadata history tables (jsonb as a finite map): without PIT the current metadata is returned; with PIT and the history feature on, the metadata of the revision with the greatest revision number among those dated <= the instant (empty when there is none). The same under each history feature switched off separately is part of C35.",
    "bounds": {"quick": "K <= 3 rows per table (so <= 3 revisions), 2 metadata keys", "thorough": "K <= 4"},
    "outside": "the write half: the SQL of the metadata updates and the history triggers (revision numbering, updated_at) is not encoded yet; metadata filters; more than 2 keys",
    "assumptions": COMMON_ASSUME[2:] + SQL_ASSUME,
    "technique": "bounded symbolic evaluation (z3) of the SQL text captured from the real store, against a reference fold",
    "units": [py_unit("reads", "reads-C17", ["--props", "C17"])],
}

CHECKS["C35"] = {
    "level": "other",
    "explanation": "Read half of the feature-flag property: for each of 7 feature configurations (default, MOVES_HISTORY=OFF, MOVES_HISTORY_POST_COMMIT_EFFECTIVE_VOLUMES=DISABLED, ACCOUNT_METADATA_HISTORY=DISABLED, TRANSACTION_METADATA_HISTORY=DISABLED, HASH_LOGS=DISABLED, minimal) every read of the C05/C17 families is issued against the real store: either the store refuses it naming the feature the configuration lacks, or the emitted SQL is evaluated on symbolic tables populated as that configuration populates them (no moves without MOVES_HISTORY, NULL effective volumes without the effective-volumes triggers, empty history tables without the history triggers) and must equal the same reference as under the default configuration (current metadata when the history feature is off).",
    "bounds": {"quick": "7 configurations x 40 read statements, K <= 3 rows per table", "thorough": "K <= 4"},
    "outside": "the write half (same transactions/logs/volumes under any two configurations; moves inserted iff MOVES_HISTORY=ON; advisory lock iff HASH_LOGS=SYNC) is not covered by a check yet; the 48-way cross product of feature values (one feature flipped at a time, plus minimal)",
    "assumptions": COMMON_ASSUME[2:] + SQL_ASSUME + ["which triggers a configuration installs is taken from the feature semantics documented in pkg/features, not derived from the migration templates"],
    "technique": "bounded symbolic evaluation (z3) of the SQL text captured from the real store per feature configuration, against a reference fold",
    "units": [py_unit("reads", "reads-C35", ["--props", "C35"])],
}

CHECKS["C19"] = {
    "level": "other",
    "explanation": "Non-interference for reads: every read statement of the C05/C17 families (captured from the real store for a ledger sharing its bucket, and again with the alone-in-bucket optimisation on) is shown equal to a function of THIS ledger's rows only, for every content of the other ledgers' rows in the same symbolic tables — the tables hold rows of arbitrary ledgers, the reference only looks at rows whose ledger column equals this ledger. With the optimisation on (ledger predicate omitted) the same is decided under 'every row of the bucket belongs to this ledger'.",
    "bounds": {"quick": "K <= 3 rows per table, any number of distinct ledger names among them", "thorough": "K <= 4"},
    "outside": "write statements and trigger bodies (not encoded yet); that the alone-in-bucket flag is only set while the bucket holds one ledger (Driver/Factory code, not checked here); several server processes sharing a bucket",
    "assumptions": COMMON_ASSUME[2:] + SQL_ASSUME,
    "technique": "bounded symbolic evaluation (z3) of the SQL text captured from the real store, against a reference over this ledger's rows",
    "units": [py_unit("reads", "reads-C19", ["--props", "C19"])],
}


CHECKS["C04"] = {
    "level": "other",
    "explanation": "The current bodies of set_effective_volumes (BEFORE INSERT) and update_effective_volumes (AFTER INSERT) are resolved from the migration files on every run and executed by a PL/pgSQL interpreter on a symbolic moves table. Inductive step: K present rows with distinct seq, arbitrary ledgers/accounts/assets/effective dates (ties allowed) satisfying InvE — post_commit_effective_volumes(m) = fold of the moves of m's (ledger, account, asset) that are not after m in (effective_date, seq) order — then one more row with the greatest seq and an arbitrary effective date (in the past, equal, in the future): before-trigger, insert, after-trigger; z3 decides that InvE holds on the K+1 rows (and on the first insert into an empty partition). One step covers histories of any length. The reads that consume the column (ListAccounts / GetAccount with expand effectiveVolumes and PIT, aggregated balances at a PIT by effective date) are decided in C05 under InvE.",
    "bounds": {"quick": "K <= 4 pre-existing moves + the inserted one", "thorough": "K <= 7"},
    "outside": "a multi-row INSERT is taken as successive single-row steps (a volatile trigger function sees the rows inserted earlier by the same statement: documented behaviour, assumed); Moves.ComputePostCommitEffectiveVolumes and the transaction-level expand; concurrency between two inserting transactions",
    "assumptions": COMMON_ASSUME[2:] + SQL_ASSUME[1:2] + ["the migration resolver keeps the last 'create [or replace] function' of each name in numeric migration order", "row triggers fire per inserted row: BEFORE sets new.*, AFTER sees the row"],
    "technique": "bounded symbolic execution (z3) of the PL/pgSQL trigger bodies resolved from the migrations: one inductive step from an arbitrary state satisfying the invariant",
    "units": [py_unit("c04_triggers", "c04", [])],
}

CHECKS["C18"] = {
    "level": "other",
    "explanation": "SQL half: the UpsertAccounts statement (data_batch VALUES, existing_accounts, updated_rows UPDATE ... FROM, inserted_rows INSERT ... SELECT) and the UpdateAccountsMetadata upsert, as emitted by the real store, are executed by the DML executor on a symbolic accounts table: an absent account is inserted with first_usage = the batch row's date (or transaction_date()), metadata = defaults || metadata; a present one keeps its insertion date, gets first_usage = least(old, new), metadata merged and the defaults NOT re-applied; no other row (of this or another ledger) changes. Go half: AccountsWithDefaultMetadata / upsertTransactionAccounts are exercised by the controller harnesses of C07/C08/C29 (every write that involves an account reaches UpsertAccounts on the transaction's handle; replay reproduces the accounts).",
    "bounds": {"quick": "batch of 2 accounts (one with metadata, date and chart defaults, one without), accounts table of K <= 3 rows", "thorough": "K <= 4"},
    "outside": "PIT listing of accounts by first_usage is C05; batches larger than 2; duplicate addresses inside one batch",
    "assumptions": COMMON_ASSUME[2:] + SQL_ASSUME + ["all sub-statements of one WITH statement read the same snapshot"],
    "technique": "bounded symbolic execution (z3) of the DML text captured from the real store, against the documented effect",
    "units": [py_unit("writes", "writes-C18", ["--props", "C18"])],
}

CHECKS["C01"]["units"].append(py_unit("writes", "writes-C01", ["--props", "C01"]))
CHECKS["C01"]["units"].append(py_unit("reads", "reads-C01", ["--props", "C01"]))
CHECKS["C01"]["explanation"] = CHECKS["C01"]["explanation"].replace(" The SQL half (upsert, PIT reads) is not covered yet.", "") + " SQL half: the UpdateVolumes upsert captured from the real store, executed on a symbolic accounts_volumes table, preserves 'sum of inputs = sum of outputs per asset' whenever the written deltas are balanced (which the Go half shows), and the aggregated-balance reads at a PIT report conserved totals when every move has its twin (the pairing shown by C03)."
CHECKS["C01"]["outside"] = "more postings per transaction than the bound; tables with more than K <= 3 (thorough 4) rows; volumes listings with PIT are compared with the fold (C05) rather than re-checked for conservation; names are atoms in the Go half"
CHECKS["C01"]["assumptions"] = COMMON_ASSUME + SQL_ASSUME
CHECKS["C02"]["units"].append(py_unit("writes", "writes-C02", ["--props", "C02"]))
CHECKS["C02"]["units"].append(py_unit("reads", "reads-C02", ["--props", "C02"]))
CHECKS["C02"]["explanation"] += " SQL link: the UpdateVolumes upsert captured from the real store adds exactly the deltas to the (account, asset) rows it names, creates them when absent, changes nothing else and RETURNs the post values; the aggregated-balances read returns the sums of the volume rows of this ledger; volumes listings are covered by C05 (window 'none')."
CHECKS["C02"]["outside"] = "GetAccount / ListAccounts expand=volumes without PIT is covered in C05; the store model adds VolumeUpdates() to the rows (linked to the SQL by the upsert obligation for 2 rows at a time)"
CHECKS["C02"]["assumptions"] = COMMON_ASSUME + DBMODEL_ASSUME + SQL_ASSUME
CHECKS["C15"]["units"].append(py_unit("writes", "writes-C15", ["--props", "C15"]))
CHECKS["C15"]["explanation"] += " (c) SQL link: the revert update captured from the real store (updateTxWithRetrieve) marks exactly the row (id, ledger) whose reverted_at is null, returns it with modified=true, and otherwise returns the existing row with modified=false and changes nothing."
CHECKS["C15"]["outside"] = "concurrent reverts of one transaction (row-lock behaviour of PostgreSQL); transactions outside the listed shapes"
CHECKS["C15"]["assumptions"] = COMMON_ASSUME + DBMODEL_ASSUME + SQL_ASSUME
CHECKS["C17"]["units"].append(py_unit("writes", "writes-C17", ["--props", "C17"]))
CHECKS["C17"]["explanation"] += " Write half: the metadata statements captured from the real store (UpdateAccountsMetadata upsert, DeleteAccountMetadata, Update/DeleteTransactionMetadata) executed on symbolic tables: last-write-wins merge per key, a delete removes exactly the key, the modified flag tells whether anything changed, no other row changes."
CHECKS["C17"]["units"].append(py_unit("c17_history", "c17-history", []))
CHECKS["C17"]["explanation"] += " History triggers: the bodies of insert_/update_account_metadata_history and insert_/update_transaction_metadata_history (resolved from the migrations) and the row triggers that fire them (read from default_bucket.go) are executed by the PL/pgSQL interpreter on a symbolic history table: one inductive step shows that after an update dated d (not before the entity's recorded dates) the as-of function the PIT reads compute returns the new metadata from d on and what it returned before for earlier instants, that a creation starts the history at its date, that the unique (ledger, entity, revision) key is kept and that no other entity's history changes."
CHECKS["C17"]["outside"] = "updates dated before a recorded revision of the same entity (import of out-of-order dates); that updated_at is what the store passes as the write's date (Go side, covered by the controller harnesses); metadata filters (C20); more than 2 keys"
CHECKS["C19"]["units"].append(py_unit("writes", "writes-C19", ["--props", "C19"]))
CHECKS["C19"]["explanation"] += " Writes: every captured write statement (volume upsert, account upserts, metadata updates and deletes, revert update) executed on symbolic tables leaves every row of another ledger — and every row it does not name — unchanged."
CHECKS["C19"]["outside"] = "trigger bodies and log/transaction inserts (sequences); that the alone-in-bucket flag is only set while the bucket holds one ledger; several server processes sharing a bucket"


FILTER_FAMILY = "leaves of every documented kind per resource (exact / $in / 'a:' / ':b' / 'a::c' / 'a:...' / 'a:b:...' addresses; metadata match and exists; balance[asset] and balance comparisons; dates; ids; reference; reverted; reverted_at; log type) alone and negated, plus $and / $or / $not templates up to depth 3 over 3-5 representative leaves; every filter with and without a point in time; list and count statements"

CHECKS["C20"] = {
    "level": "other",
    "explanation": "A family of filter ASTs is generated, handed to the real store (real ResourceRepository.buildFilteredDataset, ResolveFilter, BuildDataset, collectAddressFilters, canPushAddressFilterToLateral, go-libs query.Builder, bun) through the recording SQL driver, and the statement emitted for each filter is evaluated by the SQL evaluator on symbolic tables (rows of several ledgers; addresses as strings whose segment arrays are uninterpreted functions of the string; transactions with posting slots; jsonb metadata over 2 keys). Filter values are sentinels mapped to symbolic variables, distinct per leaf. An independent reference evaluator (pychecks/filters.py) gives the meaning of the AST per entity; z3 decides that the list statement returns exactly the entities whose filter is true, once each, that the count statement counts them, and that no scalar sub-query of the statement can yield more than one row (an SQL error). Resources: accounts, transactions, volumes (current and at a PIT by effective date), aggregated balances (per-asset sums over the matching accounts), logs. The lateral push-down of address filters is covered through the volumes / aggregated statements (templates with $or / $not over partial addresses).",
    "bounds": {"quick": "K <= 2 rows per table, 2 posting slots per transaction; " + FILTER_FAMILY + " (pairs as combinations, triples over 3 leaves, PIT for ASTs of <= 2 leaves)", "thorough": "K <= 3 rows per table; for accounts, transactions and logs: pairs and triples as permutations over all representative leaves, 4 more templates, PIT for every AST; for volumes and aggregated balances the quick family, and K <= 2 for the PIT form of aggregated balances (K = 3 does not finish within the query timeout)"},
    "outside": "reading of the filter language where the property is silent (stated in DESIGN.md): an atom over an absent attribute (balance of a never-held asset, reverted_at of a non-reverted transaction, absent reference) is unknown and Kleene logic applies; $like; grouped volumes; volumes by insertion date and OOT windows with filters; strings needing SQL / jsonpath escaping (escapeSQL / escapeJSONPath are not exercised: sentinels are plain); ordering of the page (C21); tables larger than K",
    "assumptions": COMMON_ASSUME[2:] + SQL_ASSUME + ["row invariants: address_array / sources_arrays / destinations_arrays are the segments of the address they sit next to; every accounts_volumes / moves row has its accounts row in the same ledger; post-commit effective volumes (InvE, C04)"],
    "technique": "bounded symbolic evaluation (z3) of the SQL text captured from the real store for a generated family of filter ASTs, against an independent reference evaluator of the filter language",
    "units": [py_unit("filters", "filters-" + r, ["--props", "C20", "--resources", r], timeout_s=6000) for r in ("accounts", "transactions", "volumes", "aggregated", "logs")],
}

CHECKS["C20"]["units"].append(py_unit("c20_rowinv", "c20-row-invariants", []))
CHECKS["C20"]["explanation"] += " Row invariants: the statements the real store emits when it writes accounts and transactions with multi-segment addresses are captured, and the literal rows are compared with the reading the filter obligations assume (address_array = the segments of the address; sources / destinations / *_arrays = the ends of the postings and their exploded forms) — decided on concrete captured text, not by the solver."

CHECKS["C19"]["units"].append(py_unit("filters", "filters-C19", ["--props", "C19", "--resources", "accounts,volumes,aggregated,transactions"], timeout_s=3000))
CHECKS["C19"]["explanation"] += " Filtered reads: the C20 family of filter statements (balance / metadata / address sub-selects included), shared bucket and alone-in-bucket, is decided against a reference that only looks at this ledger's rows."


CHECKS["C35"]["units"].append(py_unit("filters", "filters-C35", ["--props", "C35", "--resources", "accounts,volumes,aggregated,transactions"], timeout_s=3000))
CHECKS["C35"]["explanation"] += " Filtered reads: for every non-default feature configuration, every single-leaf filter (and its negation) of the C20 family on accounts, volumes, aggregated balances and transactions, with and without a PIT, is either refused naming a feature the configuration lacks, or decided correct on the tables as that configuration populates them (metadata at a PIT reads the current metadata when the history feature is off)."

C21_SWAPS = [{"file": "internal/storage/common/paginator_column.go", "methods": [("", "findPaginationFieldPath"), ("", "findPaginationField")]}]

CHECKS["C21"] = {
    "level": "other",
    "explanation": "Two halves joined by a page specification. Go half (gosym): the real columnPaginator.BuildCursor and OffsetPaginator.BuildCursor, the real cursor encoding (encodeCursor / paginate.EncodeCursor: JSON + base64) and decoding (UnmarshalCursor) are executed symbolically on n entities with symbolic, strictly increasing keys: starting from the initial query the next cursors are followed to the end, from every page the previous cursor is followed, and from the last page the previous cursors are followed all the way back (reverse branch), each page reached backwards being asked for its next page again. The SQL of a page is replaced by its specification (rows on the requested side of the pagination id, effective order, cut at pageSize+1; offset .. offset+pageSize+1). Decided: for a symbolic page size (and offset) the statement asks for exactly pageSize+1 rows (skipping offset rows); the concatenation of the pages is every entity exactly once in the requested order; no page exceeds the page size; hasMore iff a next cursor; first page has no previous cursor; previous returns exactly the page before; walking back returns each earlier page and its next cursor leads forward again. SQL half (pychecks/c21_pages): for every (resource, order, reverse, pagination id set/unset, page size) and (resource, order, offset, page size) the statement captured from the real paginators is evaluated with exact LIMIT/OFFSET semantics on a symbolic table and z3 decides it returns exactly the specified page, and its outermost ORDER BY is the effective order.",
    "bounds": {"quick": "Go half: n <= 7 entities, page sizes 1-4, both orders, column and offset paginators (19 walks; keys symbolic); SQL half: K <= 4 rows, page sizes 1-2, offsets 0-3, transactions and logs by id, accounts by address, volumes by account", "thorough": "SQL half: K <= 5 rows for the id-sorted resources, K <= 4 for the address-sorted ones, page sizes 1-3"},
    "outside": "findPaginationFieldPath / findPaginationField (reflection plumbing that reads the `bun` tag: replaced for the harness entity by their evident result through a swap overlay); date-typed pagination columns (not unique keys); volumes rows of one account in several assets tie on the sort column 'account' (PostgreSQL's tie order is not modelled: the SQL half assumes distinct accounts); grouped volumes; filters and PIT combined with pagination (the filter is carried verbatim inside the cursor: covered by the encode/decode round trip; its SQL by C20); listings changing between pages",
    "assumptions": COMMON_ASSUME + SQL_ASSUME[:2] + ["base64 is a bijection (decoding a text produced by EncodeToString gives the encoded bytes back)", DBMODEL_ASSUME[1]],
    "technique": "symbolic execution (gosym, z3) of the real cursor code over a page specification + bounded symbolic evaluation (z3) of the captured paginated SQL against that specification",
    "units": [unit("./internal/storage/common", ["common/c21.go"], "^Harness_C21_(col|off|limit)_", QT, swaps=C21_SWAPS, flags={"labels": "^(C21:|no-panic)", "max-decisions": 4000}, reach=["end"]),
              py_unit("c21_pages", "c21-pages", [])],
}

CHECKS["C37"] = {
    "level": "other",
    "explanation": "The real DefaultController.RunQuery (GetSchema, queries.ResolveFilterTemplate with resolveFilter / resolveValue / ReplaceVariables / ParseTemplate, QueryTemplateParams.Overwrite and UnmarshalJSON, templateParamsToQuery, runQueryFromCursor with the real UnmarshalCursor) runs on the store model, after the template went through the real InsertSchema validation; the store model's Paginate methods record the query they are handed. The expected query is built independently from the rule of the property: the filter is the template body with the variables substituted (go-libs query constructors; compared through the builders' own JSON encoding), each parameter is the request's if given, else the template's if given, else the default, capped at the maximum page size. Variable values are symbolic (strings, unbounded integers as json.Number, booleans), declared defaults are used when the call gives none; 8 x 8 shapes of (template params, request params): absent, {}, page size only, sort only, end time only, expand only, sort column without order, everything; page sizes at 1, 20, 99, 100, 101, 1000 against a maximum of 100. A cursor produced for a template query (symbolic pagination id / bottom / reverse / order, PIT, expand, filter with a symbolic value) handed back to RunQuery reaches the store as the same column query. That equal queries return equal rows is the store's determinism (C20 / C21 decide what a query returns).",
    "bounds": {"quick": "9 template bodies over transactions, accounts, logs ($match/$gte/$lt/$gt/$in/$not/$and/$or/$exists, string templates 'ref-${r}', 'users:${u}:main', numeric, boolean and date variables, a default value, no body) x 64 parameter shapes; volumes with 3 x 3 option shapes (groupBy, insertionDate); one cursor continuation", "thorough": "same"},
    "outside": "the HTTP decoding of the RunQuery request; float64 variable values (the JSON decoder of the API uses json.Number); rows returned by the store (see C20, C21); template validation errors (only well-formed templates are run); dates with a zone offset (time.LoadLocation is outside the executor)",
    "assumptions": COMMON_ASSUME + DBMODEL_ASSUME,
    "units": [unit(CTRL_PKG, CTRL_FILES, "^Harness_C37_", QT, flags={"labels": "^(C37:|no-panic)", "max-decisions": 4000, "max-paths": 200000}, reach=["end"])],
}

CHECKS["C35"]["units"].append(py_unit("c35_writes", "c35-writes", []))
CHECKS["C35"]["explanation"] += " Write half: the statements every write method of the real store emits are captured per configuration and compared with the default configuration's: apart from the INSERT into moves (emitted iff MOVES_HISTORY=ON) and InsertLog's advisory lock (taken iff HASH_LOGS=SYNC) they are the same text, so transactions, logs, volumes, accounts and metadata are written identically (what the configuration-dependent triggers add is C04 / C17 / C09)."
CHECKS["C35"]["outside"] = "the 48-way cross product of feature values (one feature flipped at a time, plus minimal); the write half compares statement texts (decided by equality, not by the solver)"

CHECKS["C02"]["units"].append(unit("./internal/storage/ledger", ["storage/bunhook.go", "storage/c10.go", "storage/c02.go"], "^Harness_C02_store_", QT, flags={"labels": "^(C02:|no-panic)", "max-decisions": 3000}, reach=["end"]))
CHECKS["C02"]["explanation"] += " Go-to-SQL link: the real Store.UpdateVolumes runs with symbolic deltas (Input == Output and zero included) up to its INSERT (bun object opaque); the model handed to the statement is read back and must be exactly the rows it was asked to apply."

CHECKS["C14"] = {
    "level": "other",
    "explanation": "What the code contributes to reference uniqueness is (a) the definition of the unique index, resolved from the migration files on every run (create / drop / rename followed in order), (b) the value the real InsertTransaction writes for a transaction without reference (captured SQL, executed by the DML executor), (c) the constraint name the Go code turns into ErrTransactionReferenceConflict (read from transactions.go). z3 decides over every content of a symbolic transactions table that the resolved index admits: no two transactions of one ledger share a non-empty reference; the index forbids nothing more (equal references in two ledgers are admitted); a transaction without reference is never subject to the index; the mapped constraint name is that unique index. The rollback of the losing writer and the error seen by the caller are covered by C07 (operation create_ref_conflict on the store model).",
    "bounds": {"quick": "K <= 3 transactions in the table", "thorough": "K <= 4"},
    "outside": "PostgreSQL's enforcement of a unique index under concurrent inserts (the second inserter waits for the first transaction to end, then fails) is assumed, not modelled: 'exactly one of two concurrent creates commits' rests on it",
    "assumptions": COMMON_ASSUME[2:] + SQL_ASSUME + ["a unique index admits a table content iff no two rows satisfying the index predicate agree on all index columns (NULLs are distinct)"],
    "technique": "bounded symbolic check (z3) over every table content admitted by the index definition resolved from the migrations, plus symbolic execution of the captured INSERT",
    "units": [py_unit("c14_reference", "c14", [])],
}


CHECKS["C14"]["units"].append(unit(CTRL_PKG, CTRL_FILES, "^Harness_C14C_", QT, flags={"labels": "^(C14:|no-panic)", "max-decisions": 4000}, reach=["end"]))
CHECKS["C14"]["explanation"] += " Controller side (gosym, store model): a create that reuses a reference, with any one store call of the request failing (generic / deadlock / serialization) or none, fails with the reference conflict or the injected failure, with the reference conflict when nothing was injected and also when the conflict is met on the deadlock-retry path, and leaves no trace."
CHECKS["C18"]["units"].append(unit(CTRL_PKG, CTRL_FILES, "^Harness_C18C_", QT, flags={"labels": "^(C18:|no-panic)", "max-decisions": 4000}, reach=["end"]))
CHECKS["C18"]["explanation"] += " Controller side (gosym, store model): an account created by a future-dated, back-dated or undated transaction and then met by the others in any of 4 orders has, after each write, first usage = the earliest effective date so far (the value the real createTransaction / AccountsWithDefaultMetadata hand to UpsertAccounts)."

CHECKS["C34"] = {
    "level": "other",
    "explanation": "create_block's row-selection query is extracted from the current body of the function (resolved from the migrations on every run) and evaluated by the SQL evaluator on a symbolic logs table (several ledgers, symbolic ids, symbolic block size) in which every row carries a 'committed when the builder first runs' bit; create_blocks' loop is unrolled to quiescence on the rows visible first, then on all rows. Decided: when ids commit in id order, the block ranges partition the ledger's log ids and every block's hashed rows are exactly the committed logs of its range; for an arbitrary commit order the same obligation is checked and yields the recorded finding (a log committing after a higher id is never hashed).",
    "bounds": {"quick": "K <= 3 logs, block size symbolic >= 1, two builder runs", "thorough": "K <= 4"},
    "outside": "the digest itself (uninterpreted: only WHICH rows it is computed over is compared) and its text framing; more than two builder runs; the cron schedule and the Run loop of the worker (one run is decided); the SQL of the ledgers listing itself (answered from its recorded builder calls: filter, pagination predicate, order, limit)",
    "assumptions": COMMON_ASSUME[2:] + SQL_ASSUME[1:2] + ["READ COMMITTED: a run of the procedure sees exactly the rows committed before it; sequence values are drawn at insert time and never rolled back; without HASH_LOGS=SYNC nothing orders log commits by id (InsertLog takes the advisory lock only for SYNC: shown by the captured SQL per feature set)"],
    "technique": "bounded symbolic evaluation (z3) of the selection query of the stored procedure, resolved from the migrations, over symbolic tables with a symbolic commit schedule",
    "units": [py_unit("c34_blocks", "c34", []),
              unit("./internal/storage", ["worker/c34.go"], "^Harness_C34W_", QT, swaps=C21_SWAPS, extra=[{"pkg": "internal/storage/common", "files": ["worker/c34common.go"]}], flags={"labels": "^(C34:|no-panic)", "max-decisions": 6000}, reach=["end"])],
}


CHECKS["C10"] = {
    "level": "other",
    "explanation": "Reduced scope: the FRAMING of the hashed text. Both sides are read from the current source on every run — SQL: the concatenation that builds marshalledAsJSON in the body of the insert trigger set_log_hash and of compute_hash (resolved from the migrations); Go: the anonymous struct Log.ComputeHash encodes (field order, JSON names, omitempty) in internal/log.go. With the log type, idempotency key and schema version as symbolic strings (over an alphabet that needs no JSON escaping) and the payload / date renderings as opaque strings shared by both sides, z3 decides whether the two byte strings can differ. For logs without schema version they cannot; for logs with one the trigger's text differs (recorded finding); compute_hash agrees with Go on every such input. Go half (gosym): the real (*Store).InsertLog runs up to its INSERT (bun objects opaque, the model handed to the INSERT read back; natively: real bun over a recording driver, the memento parsed from the statement text) for three payload kinds whose free-text fields (reference, metadata keys and values, account metadata, deleted key, idempotency key) are symbolic strings; the text PostgreSQL hashes is assembled around the stored memento with the framing decided above, hashed with the SHA-256 model (injective on symbolic content), and compared with the hash the real Log.ComputeHash computes for the same log. An encoder that does not escape HTML is modelled (its rendering of a symbolic string differs from the default one exactly when the string holds <, > or &).",
    "bounds": {"quick": "idempotency key and schema version of <= 2 bytes over [a-zA-Z0-9_-], type <= 12 bytes", "thorough": "<= 3 bytes"},
    "outside": "everything below the framing: encode(memento,'escape') vs the Go rendering of the payload, to_json(date), jsonb key order and number formatting, and the JSON escaping Go applies to the idempotency key and schema version while SQL concatenates them raw (quotes, backslashes, <, >, &, control and non-ASCII characters are excluded from the quantification — a second suspected source of disagreement that this check cannot decide); the previous-hash prefix (base64) is compared only by reading",
    "assumptions": ["the migration resolver keeps the last definition of each function", "payload and date renderings are equal on both sides (not encodable: PostgreSQL text functions)", "bun stores an empty schema version as NULL (nullzero tag)"],
    "technique": "string-theory query (z3) over the two framings extracted from the current SQL and Go sources",
    "units": [py_unit("c10_hash", "c10", []),
              unit("./internal/storage/ledger", ["storage/bunhook.go", "storage/c10.go"], "^Harness_C10_", QT, flags={"labels": "^(C10:|no-panic)", "max-decisions": 4000}, reach=["end"])],
}


CONC_ASSUME = DBMODEL_ASSUME + ["concurrent mode of the store model (trusted, documented READ COMMITTED behaviour): a statement sees what is committed when it starts plus its own transaction's writes; SELECT ... FOR UPDATE / upserts / updates take row locks, unique-key inserts and the advisory lock take key locks, all held until the transaction ends; a lock wait re-reads the latest committed version; closing a wait-for cycle is reported to the requester as a deadlock; sequence values are drawn at once and never rolled back; context switches happen before the statements through which transactions can interact and before Commit"]


def conc_unit(rx, labels, tiers=QT):
    return unit(CTRL_PKG, CTRL_FILES, rx, tiers, flags={"labels": labels, "max-decisions": 6000, "max-paths": 200000}, reach=["end"])


CHECKS["C13"]["units"].append(conc_unit("^Harness_CONCS?_same_ik_", "^(C13:|no-panic)"))
CHECKS["C13"]["explanation"] += " Concurrent half: two requests under one idempotency key run as two logical threads on the store model in concurrent mode, every interleaving at statement boundaries: at most one effect; two successes are one write and one hit returning the same log; the loser of a same-input race never gets a business error (insufficient funds) that contradicts the committed outcome — also when the first request spent everything (amount = balance, symbolic); a different input under the key gets a validation/conflict error."
CHECKS["C13"]["outside"] = "more than two concurrent requests; never-used (account, asset) pairs under concurrency"
CHECKS["C13"]["assumptions"] = COMMON_ASSUME + CONC_ASSUME
CHECKS["C15"]["units"].append(conc_unit("^Harness_CONC_two_reverts$", "^(C15:|no-panic)"))
CHECKS["C15"]["explanation"] += " (d) Two concurrent reverts of one transaction (all interleavings on the store model): at most one succeeds, the other gets already-reverted (or a deadlock), exactly one revert transaction exists."
CHECKS["C15"]["assumptions"] = COMMON_ASSUME + CONC_ASSUME + SQL_ASSUME

CHECKS["C06"] = {
    "level": "other",
    "explanation": "Sequential part: the VM corpus (C23) and the postings path (C25) decide that a committed transaction never takes a non-world source below min(initial balance, -allowance) for symbolic amounts, balances and allowances; the revert clause (non-forced revert refused exactly when some non-world account would end negative, never a panic) is decided by the revert harnesses on 8 transaction shapes. Concurrent part: two writers as logical threads on the store model in concurrent mode, every interleaving at statement boundaries, amounts / balances / allowance symbolic: two spenders of one account (default allowance and 'allowing overdraft up to X'), two writers overdrawing a never-used account within an allowance (recorded finding), a spender racing the non-forced revert of the transfer that funded it: the committed balance is never below the allowance, equals the initial balance minus the committed writes, a refused writer is refused for funds (justified by the committed balance) or by a deadlock.",
    "bounds": {"quick": "2 concurrent writers, all interleavings at the statement boundaries through which transactions interact; 3 race shapes; amounts and balances symbolic in the CONCS harnesses; " + REVERT_SHAPES, "thorough": "same"},
    "outside": "3 and more writers; the row-lock behaviour of PostgreSQL itself (trusted model); the never-used-pair race is decided under PostgreSQL's documented one-snapshot rule for a statement with a data-modifying CTE (recorded finding: model-level, not runnable here)",
    "assumptions": COMMON_ASSUME + CONC_ASSUME,
    "units": [
        conc_unit("^Harness_CONCS?_two_spenders", "^(C06:|no-panic)"),
        conc_unit("^Harness_CONCS?_spend_vs_revert", "^(C06:|no-panic)"),
        unit(CTRL_PKG, CTRL_FILES, "^Harness_REVS_", QT, flags={"labels": "^(C06:|no-panic)", "max-decisions": 4000}, reach=["end"]),
        unit(CTRL_PKG, CTRL_FILES, "^Harness_C25S_", QT, flags={"labels": "^(C06:|no-panic)", "max-decisions": 3000}, reach=["end"]),
    ],
}

CHECKS["C06"]["units"].append(py_unit("writes", "writes-C06", ["--props", "C06"]))
CHECKS["C06"]["explanation"] += " SQL of the balance read: the GetBalances statement captured from the real store (zero-row insert CTE + SELECT ... FOR UPDATE over the requested pairs) evaluated on symbolic tables returns exactly the existing rows of the requested (account, asset) pairs of this ledger with their stored volumes, and no other row (the row the CTE inserts for a never-used pair is not visible to the SELECT of the same statement: PostgreSQL's snapshot rule, which is why such a pair reads as zero)."

CHECKS["C16"] = {
    "level": "other",
    "explanation": "Two writers on disjoint accounts of one ledger run as logical threads on the store model in concurrent mode (sequence values drawn at statement time, never rolled back; commit order recorded by the model), every interleaving, with HASH_LOGS=SYNC and DISABLED. Decided: transaction ids and log ids are unique; with HASH_LOGS=SYNC (advisory lock held from InsertLog to commit) log ids increase in commit order. Transaction ids are drawn by CommitTransaction BEFORE the log lock is taken and nothing serialises them with the commit: the check finds the interleaving in which the later commit carries the smaller transaction id (recorded finding). SQL half (pychecks/c16_ids): the statement list of one write (CommitTransaction then InsertLog) is captured from the real store for two ledgers of a bucket and for HASH_LOGS=SYNC / DISABLED; W writers run it under a symbolic schedule (integer instants per statement and per end of transaction, commit or rollback symbolic, writers assigned symbolically to the two ledgers) with the documented semantics of nextval and of the advisory-lock function the statement actually names (blocking / try / session); z3 decides uniqueness, 'ids increase in commit order' for log and transaction ids, and that lock keys and sequence names differ between ledgers. Without HASH_LOGS=SYNC nothing orders log ids with commits (recorded finding). The unique (ledger, id) keys of transactions and logs are resolved from the migrations by the C14 machinery.",
    "bounds": {"quick": "2 concurrent writers, all interleavings (Go model: one ledger; SQL schedule: two ledgers, commit/rollback symbolic)", "thorough": "SQL schedule with 3 writers"},
    "outside": "PostgreSQL's sequence and advisory-lock implementation (semantics trusted as stated); row locks between writers touching the same accounts are not part of the SQL schedule model (the Go model has them)",
    "assumptions": COMMON_ASSUME + CONC_ASSUME,
    "units": [conc_unit("^Harness_CONC_ids_", "^(C16:|no-panic)"),
              py_unit("c16_ids", "C16_ids", [])],
}

CHECKS["C09"] = {
    "level": "other",
    "explanation": "Linearity of the chain: InsertLog of the real store takes pg_advisory_xact_lock(ledger id) iff HASH_LOGS=SYNC (captured SQL per feature set, checked under C35's captures); on the store model in concurrent mode, where set_log_hash chains a new log on the log with the greatest id visible to the statement, two concurrent writers in every interleaving never chain from the same predecessor and the chain follows log-id order. Recomputation: the text the insert trigger hashes (read from the migrations) against the text Log.ComputeHash hashes (struct read from internal/log.go), free fields symbolic, decided by z3 (the machinery of C10); the schema-version gap of the trigger is a recorded finding.",
    "bounds": {"quick": "2 concurrent writers, all interleavings, HASH_LOGS=SYNC", "thorough": "same"},
    "outside": "the hash value itself (opaque in the model: predecessor id only); recomputation from exported logs; more than two writers; the advisory-lock implementation of PostgreSQL",
    "assumptions": COMMON_ASSUME + CONC_ASSUME,
    "units": [conc_unit("^Harness_CONC_ids_sync$", "^(C09:|no-panic)"), py_unit("c10_hash", "c09-recompute", ["--prop", "C09"])],
}


SYS_EXTRA = [{"pkg": "internal/controller/ledger", "files": CTRL_FILES}]

CHECKS["C11"] = {
    "level": "other",
    "explanation": "The real ledger state tracker (controllerFacade: handleState, BeginTX, Import, withLock, markInUse) wraps the real DefaultController (Export, Import, importLog and every write) on the store model. The statements the tracker issues itself on the *bun.Tx / connection it is given (UPDATE _system.ledgers SET state .. WHERE state = 'initializing'; SELECT setval(<sequence>, max(id)); SELECT .. FROM _system.ledgers) are opaque bun objects in the symbolic build, answered by the store model (state column transactional, setval non-transactional and strict); in the native replay build they run on real bun over a database/sql driver backed by the same model. A source ledger with the 5-write history (amounts symbolic in the _sym harness) is exported through the real Export, the stream is imported into a fresh ledger through the tracker; decided: export and import succeed, the copy's transactions (ids, postings, metadata, references, timestamps, revert marks, post-commit volumes), accounts, metadata, volumes, moves, schemas and logs (ids, types, payloads, hashes as the model chains them) equal the source's; the first write after the import — single request, or the atomic bulk's path Controller.BeginTX / write / Commit — succeeds, carries transaction and log ids max+1, moves the ledger to in-use, and the next write through the other path continues with max+2.",
    "bounds": {"quick": "two source histories: 5 writes (3 transactions, 2 metadata writes; symbolic amounts in one harness) and that history extended by every request of the 24-operation list (reverts plain / at effective date / forced, metadata writes and deletes, schema insert, failing requests); 2 writes after the import, both orders of (single, atomic)", "thorough": "same"},
    "outside": "the HTTP import / export handlers and the stream encoding (log decoding is under C38); the non-atomic bulk is a sequence of single requests (C32); PostgreSQL's own handling of explicit ids vs sequences is as the store model states it (an INSERT with an explicit id leaves the sequence alone; a drawn id that exists violates the unique index)",
    "assumptions": COMMON_ASSUME + CONC_ASSUME,
    "units": [unit("./internal/controller/system", ["system/c12.go"], "^Harness_C11_", QT, extra=SYS_EXTRA, flags={"labels": "^(C11:|no-panic)", "max-decisions": 6000}, reach=["end"])],
}

CHECKS["C12"] = {
    "level": "other",
    "explanation": "Same stack as C11. Decided: after an accepted write — a single request, or an atomic bulk (BeginTX / write / Commit) as the very first write — an import of a foreign stream whose log and transaction ids do not collide with anything is rejected with an import error and leaves the committed state untouched; an import whose first log id is not after the existing logs (symbolic id) is rejected without effect; a stream of three logs with symbolic ids on an empty ledger is accepted iff the ids increase, and no log is imported out of order; and, with the store model in concurrent mode, an import racing the first write of the ledger (single request or atomic bulk) in every interleaving at the store's statement boundaries ends in one of two ways: the import is accepted, is complete, and the write succeeds after it with ids following the imported ones — or the import is rejected as an import error with no effect and the write succeeds on the empty ledger. The ledger lock is the advisory lock the real code takes (session-level on a dedicated connection for Import, transaction-level for the first write), as the store model implements it.",
    "bounds": {"quick": "2 logical threads (import of 2 logs x one write), all interleavings; 3 sequential scenarios", "thorough": "same"},
    "outside": "several server processes (the tracker's in-memory copy of the state is per request here, as GetLedgerController builds it); imports of more than 2 logs under concurrency; PostgreSQL's advisory-lock implementation",
    "assumptions": COMMON_ASSUME + CONC_ASSUME,
    "units": [unit("./internal/controller/system", ["system/c12.go"], "^Harness_C12_", QT, extra=SYS_EXTRA, flags={"labels": "^(C12:|C11:|no-panic)", "max-decisions": 6000}, reach=["end"])],
}


CHECKS["C33"] = {
    "level": "other",
    "explanation": "The real replication Manager (StartPipeline / startPipeline with its persisting goroutine, StopPipeline, ResetPipeline), the real PipelineHandler (Run, Shutdown) and the real DriverFacade run as logical threads of the executor — goroutines, channels, select, mutexes, wait groups and contexts of the code under test included; time.After fires when every thread is blocked (time passes only at quiescence), rand is 0. The storage, the log source and the exporter driver are harness objects behind the interfaces the package defines (Storage, LogFetcher, drivers.Driver / Factory). Goroutines of the package run eagerly; a thread that reaches a storage or exporter call (an explicit yield) is resumed by a decision, at any later scheduling point — so the order of StorePipelineState / Accept against everything else is explored. Injected failures: the fetch of a page and the exporter's Accept fail at symbolically chosen calls. Decided: the exporter is called with every log, in id order, never skipping (re-delivery allowed), until all are acknowledged — across failures, a stop/start at any point of the delivery, and a reset at any point; after a reset the delivery restarts from the first log; every value written by StorePipelineState is at most the greatest id acknowledged since the last reset. The last obligation fails in the recorded schedule (finding).",
    "bounds": {"quick": "one pipeline, 2-4 logs, page sizes 1-2, <= 2 exporter failures or 1 fetch failure; stop/start and reset after 0..n acknowledged logs; schedules: eager goroutines, decisions at storage / exporter calls", "thorough": "same"},
    "outside": "manager Run / synchronizePipelines / Stop (restart of the manager is represented by stop + start from the persisted position); several pipelines sharing an exporter; drivers' own batching; schedules in which a goroutine of the package is preempted elsewhere than at a blocking operation or a storage / exporter call; liveness beyond the explored bounds (a path that exceeds the decision bound is inconclusive); native replay of arbitrary schedules (real goroutines cannot be stepped: the recorded schedule is replayed by a dedicated native harness that forces it with gates)",
    "assumptions": COMMON_ASSUME + ["timers only delay: a time.After channel with a positive duration delivers when every logical thread is blocked", "logging is a no-op"],
    "units": [unit("./internal/replication", ["replication/c33.go"], "^Harness_C33_", QT, flags={"labels": "^(C33:|no-panic)", "max-decisions": 6000, "max-paths": 100000},
                   reach=["end"], validate_witnesses=0, replay_by_label={"_reset_||^C33:persisted-position-never-ahead-of-acknowledged$": "Replay_C33_stale_store_after_reset",
                                    "_(stop_start|deliver)_||^C33:": "Replay_C33_stop_during_push_retry"})],
}

CHECKS["C34"]["explanation"] += " Go worker (gosym): one AsyncBlockRunner.run through the real storagecommon.Iterate, systemstore.Ledgers().Paginate, PaginatedResourceRepository and cursor encoding, on tables of 3, 17 and 31 ledgers (1, 2 and 3 pages of the default page size) whose ledgers at the interesting positions (first, around the page boundaries, last) are, by choice, in use / still 'initializing' (imported or never written) / not ASYNC / deleted: create_blocks is called exactly once for every listed ASYNC ledger, in that ledger's bucket, with the configured block size, and for no other ledger."
CHECKS["C34"]["bounds"]["quick"] += "; worker: 3 / 17 / 31 ledgers, 4-way choice for 3-4 of them"

# the real Store.CommitTransaction's move list (shared harness with C03): the move inserted last for a pair carries the final volumes
for _p in ("C01", "C05"):
    CHECKS[_p]["units"].append(unit("./internal/storage/ledger", ["storage/c03.go"], "^Harness_C03_Commit_p(1|2)$", QT, swaps=STORE_SWAPS, flags={"labels": "^%s:" % _p, "max-decisions": 3000}))
    CHECKS[_p]["explanation"] += " Go link to the insertion-date PIT reads: the real (*Store).CommitTransaction hands its moves to the INSERT in an order in which the LAST move of every (account, asset) records the volumes the transaction leaves behind (seq follows the row order; the reads take the greatest seq)."

CHECKS["C09"]["units"].append(unit("./internal/storage/ledger", ["storage/bunhook.go", "storage/c10.go"], "^Harness_C10_", QT, flags={"labels": "^(C09:|no-panic)", "max-decisions": 4000}, reach=["end"]))
CHECKS["C09"]["explanation"] += " Stored bytes (shared harness with C10): the memento the real InsertLog hands to its INSERT — which the database hashes verbatim — hashes, inside the SQL framing, to what Log.ComputeHash computes for the same log, for payloads of every log type with symbolic free-text fields (so also text that JSON encoders may or may not escape)."
CHECKS["C09"]["outside"] = CHECKS["C09"]["outside"].replace("the hash value itself (opaque in the model: predecessor id only)", "the hash value in the concurrent model (opaque: predecessor id only; the stored bytes of a single log are covered)")

CHECKS["C04"]["units"].append(py_unit("reads", "reads-C04", ["--props", "C04"]))
CHECKS["C04"]["explanation"] += " Read side: the transactions listing with expand=effectiveVolumes, as emitted by the real store (with and without a PIT), evaluated on symbolic transactions / moves tables, reports for every listed transaction exactly the (account, asset) pairs it moved, each with the post-commit effective volumes recorded by the transaction's last move (greatest seq) on the pair."
CHECKS["C04"]["outside"] = CHECKS["C04"]["outside"].replace("Moves.ComputePostCommitEffectiveVolumes and the transaction-level expand", "Moves.ComputePostCommitEffectiveVolumes")

CHECKS["C13"]["units"].append(py_unit("writes", "writes-C13", ["--props", "C13"]))
CHECKS["C13"]["explanation"] += " SQL link: the ReadLogWithIdempotencyKey statement captured from the real store, evaluated on a symbolic logs table holding logs of several ledgers, returns a log iff THIS ledger holds one with the key, and then that log (the lookup the store model stands for)."

CHECKS["C18"]["units"].append(unit(CTRL_PKG, CTRL_FILES, "^Harness_C25_", QT, flags={"labels": "^(C18:|no-panic)", "max-decisions": 3000}, reach=["end"]))
CHECKS["C18"]["explanation"] += " Precondition of the SQL half: on the posting-list shapes of the C25 corpus (repeated accounts, source = destination, twelve accounts) and on the create requests of the operation list (a script that sets metadata on its own destination account, account metadata given next to the postings) the batch the real controller hands to UpsertAccounts names every account once."
CHECKS["C18"]["outside"] = CHECKS["C18"]["outside"].replace("; duplicate addresses inside one batch", "; duplicate addresses inside one batch on the SQL side (the Go side shows the controller never builds one, on the C25 shapes)")
CHECKS["C18"]["units"].append(unit(CTRL_PKG, CTRL_FILES, "^Harness_OPS_wet_create_", QT, flags={"labels": "^(C18:|no-panic)", "max-decisions": 4000}, reach=["end"]))

CHECKS["C38"]["units"].append(unit("./internal/storage/ledger", ["storage/bunhook.go", "storage/c38expand.go"], "^Harness_C38_(expand|filter_ops)_", QT, flags={"labels": "^(C38:|no-panic)", "max-decisions": 2000}, reach=["end"]))
CHECKS["C38"]["explanation"] += " The expand parameter: the real Expand methods of the accounts, transactions, logs and volumes resource handlers get a symbolic value that is none of the documented ones: it is refused or ignored, never built into the statement (bun opaque; strcase.SnakeCase of a symbolic string is an arbitrary string)."
CHECKS["C38"]["bounds"]["quick"] += "; expand values of <= 8 symbolic bytes"
CHECKS["C38"]["explanation"] += " Cursors: besides 'no panic', every ORDER BY expression of a statement emitted for a decoded cursor sorts by a field of the resource (the column of a cursor is client text)."
CHECKS["C38"]["explanation"] += " Filters: for each of the six ledger resource handlers and the system store's ledgers listing, every (field, operator) pair its schema admits (the field and operator lists are read from the real schema at run time; indexed and bare map fields) with a value the field type validates is resolved by the real ResolveFilter without a panic, to a predicate or an error."
CHECKS["C38"]["outside"] = CHECKS["C38"]["outside"].replace("filter bodies; ", "the parsing of filter bodies by go-libs query.ParseJSON (the handlers' resolution of every admitted field/operator pair is covered); ")
CHECKS["C20"]["explanation"] += " $in over string fields (logs.type, transactions.reference) is part of the leaf families."
CHECKS["C38"]["units"].append(unit("./internal/storage/system", ["sysstore/c38.go"], "^Harness_C38_filter_ops_", QT, flags={"labels": "^(C38:|no-panic)", "max-decisions": 2000}, reach=["end"]))
