// Copyright 2013 The Go Authors. All rights reserved.
// Use of this source code is governed by a BSD-style
// license that can be found in the LICENSE file.

package main

// Values
//
// All interpreter values are "boxed" in the empty interface, value.
// The range of possible dynamic types within value are:
//
// - bool
// - numbers (all built-in int/float/complex types are distinguished)
// - string
// - map[value]value --- maps for which  usesBuiltinMap(keyType)
//   *hashmap        --- maps for which !usesBuiltinMap(keyType)
// - chan value
// - []value --- slices
// - iface --- interfaces.
// - structure --- structs.  Fields are ordered and accessed by numeric indices.
// - array --- arrays.
// - *value --- pointers.  Careful: *value is a distinct type from *array etc.
// - *ssa.Function \
//   *ssa.Builtin   } --- functions.  A nil 'func' is always of type *ssa.Function.
//   *closure      /
// - tuple --- as returned by Return, Next, "value,ok" modes, etc.
// - iter --- iterators from 'range' over map or string.
// - bad --- a poison pill for locals that have gone out of scope.
// - rtype -- the interpreter's concrete implementation of reflect.Type
// - **deferred -- the address of a frame's defer stack for a Defer._Stack.
//
// Note that nil is not on this list.
//
// Pay close attention to whether or not the dynamic type is a pointer.
// The compiler cannot help you since value is an empty interface.

import (
	"bytes"
	"fmt"
	"go/token"
	"go/types"
	"io"
	"strings"
	"unsafe"

	"golang.org/x/tools/go/ssa"
)

type value any

type tuple []value

type array []value

type iface struct {
	t types.Type // never an "untyped" type
	v value
}

type structure []value

// For map, array, *array, slice, string or channel.
type iter interface {
	// next returns a Tuple (key, value, ok).
	// key and value are unaliased, e.g. copies of the sequence element.
	next() tuple
}

type closure struct {
	Fn  *ssa.Function
	Env []value
}

type bad struct{}

type rtype struct {
	t types.Type
}

// Hash functions and equivalence relation:


func sameType(x, y types.Type) bool {
	if x == nil {
		return y == nil
	}
	return y != nil && types.Identical(x, y)
}

// equalsV returns x == y as a Go bool or, when symbolic values are involved,
// a symBool.
func equalsV(t types.Type, x, y value) value {
	if isSym(x) || isSym(y) {
		return symBinop(token.EQL, t, x, y)
	}
	switch x := x.(type) {
	case bool:
		return x == y.(bool)
	case int:
		return x == y.(int)
	case int8:
		return x == y.(int8)
	case int16:
		return x == y.(int16)
	case int32:
		return x == y.(int32)
	case int64:
		return x == y.(int64)
	case uint:
		return x == y.(uint)
	case uint8:
		return x == y.(uint8)
	case uint16:
		return x == y.(uint16)
	case uint32:
		return x == y.(uint32)
	case uint64:
		return x == y.(uint64)
	case uintptr:
		return x == y.(uintptr)
	case float32:
		return x == y.(float32)
	case float64:
		return x == y.(float64)
	case complex64:
		return x == y.(complex64)
	case complex128:
		return x == y.(complex128)
	case string:
		return x == y.(string)
	case *value:
		return x == y.(*value)
	case *chanv:
		return x == y.(*chanv)
	case structure:
		ys := y.(structure)
		tStruct := t.Underlying().(*types.Struct)
		acc := "true"
		for i, n := 0, tStruct.NumFields(); i < n; i++ {
			if f := tStruct.Field(i); f.Name() != "_" {
				acc = sAnd(acc, boolTerm(equalsV(f.Type(), x[i], ys[i])))
				if acc == "false" {
					return false
				}
			}
		}
		return mkBool(acc)
	case array:
		ya := y.(array)
		tElt := t.Underlying().(*types.Array).Elem()
		acc := "true"
		for i, xi := range x {
			acc = sAnd(acc, boolTerm(equalsV(tElt, xi, ya[i])))
			if acc == "false" {
				return false
			}
		}
		return mkBool(acc)
	case iface:
		yi := y.(iface)
		if !sameType(x.t, yi.t) {
			return false
		}
		if x.t == nil {
			return true
		}
		return equalsV(x.t, x.v, yi.v)
	case rtype:
		return types.Identical(x.t, y.(rtype).t)
	case bigv:
		// only reachable through struct comparison of big.Int, which Go forbids
		panic(engineErr("comparison of big.Int values with =="))
	case unsafe.Pointer:
		return x == y.(unsafe.Pointer)
	}
	panic(targetRuntimeError(fmt.Sprintf("runtime error: comparing uncomparable type %s", t)))
}

func equals(t types.Type, x, y value) bool {
	return X.branch(equalsV(t, x, y), "equals")
}

// load returns the value of type T in *addr.
func load(T types.Type, addr *value) value {
	switch T := T.Underlying().(type) {
	case *types.Struct:
		v := (*addr).(structure)
		a := make(structure, len(v))
		for i := range a {
			a[i] = load(T.Field(i).Type(), &v[i])
		}
		return a
	case *types.Array:
		v := (*addr).(array)
		a := make(array, len(v))
		for i := range a {
			a[i] = load(T.Elem(), &v[i])
		}
		return a
	default:
		return *addr
	}
}

// store stores value v of type T into *addr.
func store(T types.Type, addr *value, v value) {
	switch T := T.Underlying().(type) {
	case *types.Struct:
		lhs := (*addr).(structure)
		rhs := v.(structure)
		for i := range lhs {
			store(T.Field(i).Type(), &lhs[i], rhs[i])
		}
	case *types.Array:
		lhs := (*addr).(array)
		rhs := v.(array)
		for i := range lhs {
			store(T.Elem(), &lhs[i], rhs[i])
		}
	default:
		*addr = v
	}
}

// Prints in the style of built-in println.
// (More or less; in gc println is actually a compiler intrinsic and
// can distinguish println(1) from println(interface{}(1)).)
func writeValue(buf *bytes.Buffer, v value) {
	switch v := v.(type) {
	case nil, bool, int, int8, int16, int32, int64, uint, uint8, uint16, uint32, uint64, uintptr, float32, float64, complex64, complex128, string:
		fmt.Fprintf(buf, "%v", v)

	case *omap:
		buf.WriteString("map[")
		if v != nil {
			for i, k := range v.keys {
				if i > 0 {
					buf.WriteString(" ")
				}
				writeValue(buf, k)
				buf.WriteString(":")
				writeValue(buf, v.vals[i])
			}
		}
		buf.WriteString("]")

	case symBool:
		buf.WriteString("<sym " + clip(v.t, 80) + ">")
	case symInt:
		buf.WriteString("<sym " + clip(v.t, 80) + ">")
	case symStr:
		buf.WriteString("<sym " + clip(v.t, 80) + ">")
	case symAtom:
		buf.WriteString("<atom " + clip(v.t, 80) + ">")
	case bigv:
		buf.WriteString("<big " + clip(v.t, 80) + ">")

	case *chanv:
		fmt.Fprintf(buf, "%p", v)


	case *value:
		if v == nil {
			buf.WriteString("<nil>")
		} else {
			fmt.Fprintf(buf, "%p", v)
		}

	case iface:
		fmt.Fprintf(buf, "(%s, ", v.t)
		writeValue(buf, v.v)
		buf.WriteString(")")

	case structure:
		buf.WriteString("{")
		for i, e := range v {
			if i > 0 {
				buf.WriteString(" ")
			}
			writeValue(buf, e)
		}
		buf.WriteString("}")

	case array:
		buf.WriteString("[")
		for i, e := range v {
			if i > 0 {
				buf.WriteString(" ")
			}
			writeValue(buf, e)
		}
		buf.WriteString("]")

	case []value:
		buf.WriteString("[")
		for i, e := range v {
			if i > 0 {
				buf.WriteString(" ")
			}
			writeValue(buf, e)
		}
		buf.WriteString("]")

	case *ssa.Function, *ssa.Builtin, *closure:
		fmt.Fprintf(buf, "%p", v) // (an address)

	case rtype:
		buf.WriteString(v.t.String())

	case tuple:
		// Unreachable in well-formed Go programs
		buf.WriteString("(")
		for i, e := range v {
			if i > 0 {
				buf.WriteString(", ")
			}
			writeValue(buf, e)
		}
		buf.WriteString(")")

	default:
		fmt.Fprintf(buf, "<%T>", v)
	}
}

// Implements printing of Go values in the style of built-in println.
func toString(v value) string {
	var b bytes.Buffer
	writeValue(&b, v)
	return b.String()
}

// ------------------------------------------------------------------------
// Iterators

type stringIter struct {
	*strings.Reader
	i int
}

func (it *stringIter) next() tuple {
	okv := make(tuple, 3)
	ch, n, err := it.ReadRune()
	ok := err != io.EOF
	okv[0] = ok
	if ok {
		okv[1] = it.i
		okv[2] = ch
	}
	it.i += n
	return okv
}

