package main

// strings.Builder and concrete fast paths for package strings / strconv.

import (
	"fmt"
	"go/types"
	"strconv"
	"strings"
	"unicode/utf8"
)

// sbuf is the payload of a strings.Builder / bytes.Buffer modelled as pieces.
type sbuf struct{ ps []piece }

func builderBuf(a value) (structure, *sbuf) {
	s := derefStruct(a, "strings.Builder")
	b, ok := s[len(s)-1].(*sbuf)
	if !ok {
		b = &sbuf{}
		s[len(s)-1] = b
	}
	return s, b
}

func strList(v value) []string {
	var out []string
	for _, e := range v.([]value) {
		out = append(out, e.(string))
	}
	return out
}

func strSlice(l []string) value {
	out := make([]value, len(l))
	for i, s := range l {
		out[i] = s
	}
	return out
}

func allConcrete(a []value) bool {
	for _, v := range a {
		if isSym(v) {
			return false
		}
		if l, ok := v.([]value); ok {
			for _, e := range l {
				if isSym(e) {
					return false
				}
			}
		}
	}
	return true
}

func init() {
	I := intrinsics
	I["(*strings.Builder).WriteString"] = func(fr *frame, a []value) value {
		_, b := builderBuf(a[0])
		switch s := a[1].(type) {
		case string:
			b.ps = append(b.ps, piece{s: s})
			return tuple{len(s), iface{}}
		case symStr:
			b.ps = append(b.ps, piece{s: s.t, sym: true})
			return tuple{symInt{"(str.len " + s.t + ")", types.Int}, iface{}}
		case symAtom:
			b.ps = append(b.ps, piece{s: atomStrTerm(s.t), sym: true})
			return tuple{7, iface{}}
		}
		panic(engineErr("Builder.WriteString"))
	}
	I["(*strings.Builder).WriteByte"] = func(fr *frame, a []value) value {
		_, b := builderBuf(a[0])
		switch c := a[1].(type) {
		case uint8:
			b.ps = append(b.ps, piece{s: string([]byte{c})})
		case symInt:
			b.ps = append(b.ps, piece{s: "(str.from_code " + c.t + ")", sym: true})
		}
		return iface{}
	}
	I["(*strings.Builder).WriteRune"] = func(fr *frame, a []value) value {
		_, b := builderBuf(a[0])
		r, ok := a[1].(int32)
		if !ok {
			panic(engineErr("Builder.WriteRune(symbolic)"))
		}
		s := string(r)
		b.ps = append(b.ps, piece{s: s})
		return tuple{len(s), iface{}}
	}
	I["(*strings.Builder).Write"] = func(fr *frame, a []value) value {
		_, b := builderBuf(a[0])
		bs := a[1].([]value)
		for _, e := range bs {
			if isSym(e) {
				panic(engineErr("Builder.Write(symbolic bytes)"))
			}
		}
		b.ps = append(b.ps, piece{s: bytesToString(bs)})
		return tuple{len(bs), iface{}}
	}
	I["(*strings.Builder).String"] = func(fr *frame, a []value) value {
		_, b := builderBuf(a[0])
		return joinPieces(b.ps)
	}
	I["(*strings.Builder).Len"] = func(fr *frame, a []value) value {
		_, b := builderBuf(a[0])
		n := 0
		var symTerms []string
		for _, p := range b.ps {
			if p.sym {
				symTerms = append(symTerms, "(str.len "+p.s+")")
			} else {
				n += len(p.s)
			}
		}
		if len(symTerms) == 0 {
			return n
		}
		return symInt{"(+ " + strconv.Itoa(n) + " " + strings.Join(symTerms, " ") + ")", types.Int}
	}
	I["(*strings.Builder).Grow"] = func(fr *frame, a []value) value { return nil }
	I["(*strings.Builder).Reset"] = func(fr *frame, a []value) value {
		_, b := builderBuf(a[0])
		b.ps = nil
		return nil
	}
	I["(*strings.Builder).Cap"] = func(fr *frame, a []value) value { return 0 }

	// concrete fast paths (fall back to the interpreted source when symbolic)
	type sf = func(a []value) value
	fast := map[string]sf{
		"strings.Split":      func(a []value) value { return strSlice(strings.Split(a[0].(string), a[1].(string))) },
		"strings.SplitN":     func(a []value) value { return strSlice(strings.SplitN(a[0].(string), a[1].(string), a[2].(int))) },
		"strings.Fields":     func(a []value) value { return strSlice(strings.Fields(a[0].(string))) },
		"strings.Join":       func(a []value) value { return strings.Join(strList(a[0]), a[1].(string)) },
		"strings.Replace":    func(a []value) value { return strings.Replace(a[0].(string), a[1].(string), a[2].(string), a[3].(int)) },
		"strings.ReplaceAll": func(a []value) value { return strings.ReplaceAll(a[0].(string), a[1].(string), a[2].(string)) },
		"strings.TrimSpace":  func(a []value) value { return strings.TrimSpace(a[0].(string)) },
		"strings.ToLower":    func(a []value) value { return strings.ToLower(a[0].(string)) },
		"strings.ToUpper":    func(a []value) value { return strings.ToUpper(a[0].(string)) },
		"strings.TrimPrefix": func(a []value) value { return strings.TrimPrefix(a[0].(string), a[1].(string)) },
		"strings.TrimSuffix": func(a []value) value { return strings.TrimSuffix(a[0].(string), a[1].(string)) },
		"strings.Trim":       func(a []value) value { return strings.Trim(a[0].(string), a[1].(string)) },
		"strings.TrimLeft":   func(a []value) value { return strings.TrimLeft(a[0].(string), a[1].(string)) },
		"strings.TrimRight":  func(a []value) value { return strings.TrimRight(a[0].(string), a[1].(string)) },
		"strings.Repeat":     func(a []value) value { return strings.Repeat(a[0].(string), a[1].(int)) },
		"strings.EqualFold":  func(a []value) value { return strings.EqualFold(a[0].(string), a[1].(string)) },
		"strings.Count":      func(a []value) value { return strings.Count(a[0].(string), a[1].(string)) },
		"strings.LastIndex":  func(a []value) value { return strings.LastIndex(a[0].(string), a[1].(string)) },
		"strings.IndexByte":  func(a []value) value { return strings.IndexByte(a[0].(string), a[1].(byte)) },
		"strings.IndexRune":  func(a []value) value { return strings.IndexRune(a[0].(string), a[1].(int32)) },
		"strings.ContainsRune": func(a []value) value { return strings.ContainsRune(a[0].(string), a[1].(int32)) },
		"strings.ContainsAny": func(a []value) value { return strings.ContainsAny(a[0].(string), a[1].(string)) },
		"strings.IndexAny":   func(a []value) value { return strings.IndexAny(a[0].(string), a[1].(string)) },
		"strings.Title":      func(a []value) value { return strings.Title(a[0].(string)) },
		"strings.Cut": func(a []value) value {
			x, y, ok := strings.Cut(a[0].(string), a[1].(string))
			return tuple{x, y, ok}
		},
		"strconv.Itoa":       func(a []value) value { return strconv.Itoa(a[0].(int)) },
		"strconv.Quote":      func(a []value) value { return strconv.Quote(a[0].(string)) },
		"strconv.FormatInt":  func(a []value) value { return strconv.FormatInt(a[0].(int64), a[1].(int)) },
		"strconv.FormatUint": func(a []value) value { return strconv.FormatUint(a[0].(uint64), a[1].(int)) },
		"strconv.FormatBool": func(a []value) value { return strconv.FormatBool(a[0].(bool)) },
		"unicode/utf8.RuneCountInString": func(a []value) value { return utf8.RuneCountInString(a[0].(string)) },
		"unicode/utf8.ValidString":       func(a []value) value { return utf8.ValidString(a[0].(string)) },
	}
	for name, f := range fast {
		f := f
		name := name
		prev := I[name]
		I[name] = func(fr *frame, a []value) value {
			if allConcrete(a) {
				return f(a)
			}
			if r, ok := structStringFn(name, a); ok {
				return r
			}
			if prev != nil {
				return prev(fr, a)
			}
			return symStringFn(fr, name, a)
		}
	}
	errRes := func(fr *frame, err error) value {
		if err == nil {
			return iface{}
		}
		return newErrorString(fr.i, err.Error())
	}
	I["strconv.Atoi"] = func(fr *frame, a []value) value {
		s, ok := a[0].(string)
		if !ok {
			panic(engineErr("strconv.Atoi(symbolic)"))
		}
		n, err := strconv.Atoi(s)
		return tuple{n, errRes(fr, err)}
	}
	I["strconv.ParseInt"] = func(fr *frame, a []value) value {
		s, ok := a[0].(string)
		if !ok {
			panic(engineErr("strconv.ParseInt(symbolic)"))
		}
		n, err := strconv.ParseInt(s, a[1].(int), a[2].(int))
		return tuple{n, errRes(fr, err)}
	}
	I["strconv.ParseUint"] = func(fr *frame, a []value) value {
		s, ok := a[0].(string)
		if !ok {
			base, bits := int(asInt64(a[1])), int(asInt64(a[2]))
			if it, isInt := intOfString(a[0]); isInt && base == 10 && (bits == 64 || bits == 0) {
				// the decimal rendering of integer it: accepted iff 0 <= it < 2^64
				if X.branch(mkBool("(and (>= "+it+" 0) (<= "+it+" 18446744073709551615))"), "parseuint-range") {
					return tuple{symInt{it, types.Uint64}, iface{}}
				}
				return tuple{uint64(0), newErrorString(fr.i, "strconv.ParseUint: parsing symbolic: invalid syntax or out of range")}
			}
			// an arbitrary string: a syntax/range error, or some value
			if X.choose("ParseUint(symbolic)", 2) == 0 {
				return tuple{uint64(0), newErrorString(fr.i, "strconv.ParseUint: parsing symbolic: invalid syntax")}
			}
			v := X.fresh("parseuint", "Int")
			X.addPC("(and (>= " + v + " 0) (<= " + v + " 18446744073709551615))")
			return tuple{symInt{v, types.Uint64}, iface{}}
		}
		n, err := strconv.ParseUint(s, a[1].(int), a[2].(int))
		return tuple{n, errRes(fr, err)}
	}
	I["strconv.ParseBool"] = func(fr *frame, a []value) value {
		s, ok := a[0].(string)
		if !ok {
			panic(engineErr("strconv.ParseBool(symbolic)"))
		}
		n, err := strconv.ParseBool(s)
		return tuple{n, errRes(fr, err)}
	}
	I["strconv.ParseFloat"] = func(fr *frame, a []value) value {
		s, ok := a[0].(string)
		if !ok {
			panic(engineErr("strconv.ParseFloat(symbolic)"))
		}
		n, err := strconv.ParseFloat(s, a[1].(int))
		return tuple{n, errRes(fr, err)}
	}
}

// structStringFn: package-strings functions decided on the structure of a symbolic string.
func structStringFn(name string, a []value) (value, bool) {
	switch name {
	case "strings.Split", "strings.SplitN", "strings.Cut":
		sep, ok := a[1].(string)
		if !ok {
			return nil, false
		}
		n := -1
		if name == "strings.SplitN" {
			n = a[2].(int)
		}
		if name == "strings.Cut" {
			n = 2
		}
		parts, ok := splitStruct(a[0], sep, n)
		if !ok {
			if n != 2 {
				return nil, false
			}
			// first occurrence of sep, through the string theory (exact)
			st, sp := strTerm(a[0]), smtStrLit(sep)
			if X.branch(mkBool("(str.contains "+st+" "+sp+")"), "split-contains") {
				idx := "(str.indexof " + st + " " + sp + " 0)"
				head := symStr{"(str.substr " + st + " 0 " + idx + ")"}
				tail := symStr{fmt.Sprintf("(str.substr %s (+ %s %d) (- (str.len %s) (+ %s %d)))", st, idx, len(sep), st, idx, len(sep))}
				parts = []value{head, tail}
			} else {
				parts = []value{a[0]}
			}
		}
		if name == "strings.Cut" {
			if len(parts) == 2 {
				return tuple{parts[0], parts[1], true}, true
			}
			return tuple{parts[0], "", false}, true
		}
		return []value(parts), true
	}
	return nil, false
}

// symStringFn models a few package-strings functions on symbolic operands.
func symStringFn(fr *frame, name string, a []value) value {
	switch name {
	case "strings.Join":
		l := a[0].([]value)
		sep := a[1]
		var ps []piece
		for i, e := range l {
			if i > 0 {
				ps = append(ps, toPiece(sep))
			}
			ps = append(ps, toPiece(e))
		}
		return joinPieces(ps)
	case "strings.TrimPrefix":
		s, p := strTerm(a[0]), strTerm(a[1])
		return symStr{"(ite (str.prefixof " + p + " " + s + ") (str.substr " + s + " (str.len " + p + ") (- (str.len " + s + ") (str.len " + p + "))) " + s + ")"}
	case "strings.TrimSuffix":
		s, p := strTerm(a[0]), strTerm(a[1])
		return symStr{"(ite (str.suffixof " + p + " " + s + ") (str.substr " + s + " 0 (- (str.len " + s + ") (str.len " + p + "))) " + s + ")"}
	case "strings.TrimSpace":
		// exact for ASCII subjects: s = l ++ m ++ r, l and r white space, m neither starts nor ends with white space
		st := strTerm(a[0])
		l, m, r := X.fresh("trim.l", "String"), X.fresh("trim.m", "String"), X.fresh("trim.r", "String")
		ws := "(re.union (str.to_re \" \") (re.range \"\\u{9}\" \"\\u{d}\"))"
		isWS := func(c string) string { return "(str.in_re " + c + " " + ws + ")" }
		X.addPC("(= " + st + " (str.++ " + l + " " + m + " " + r + "))")
		X.addPC("(str.in_re " + l + " (re.* " + ws + "))")
		X.addPC("(str.in_re " + r + " (re.* " + ws + "))")
		X.addPC("(or (= " + m + " \"\") (and (not " + isWS("(str.at "+m+" 0)") + ") (not " + isWS("(str.at "+m+" (- (str.len "+m+") 1))") + ")))")
		X.res.Notes = appendUniq(X.res.Notes, "strings.TrimSpace of a symbolic string: ASCII white space only (subjects are assumed ASCII)")
		return symStr{m}
	case "strings.ToUpper", "strings.ToLower":
		// opaque: some string of the same length (over-approximation, see DESIGN.md)
		v := X.fresh(strings.TrimPrefix(name, "strings."), "String")
		X.addPC("(= (str.len " + v + ") (str.len " + strTerm(a[0]) + "))")
		X.res.Notes = appendUniq(X.res.Notes, name+" of a symbolic string is an arbitrary string of the same length")
		return symStr{v}
	case "strings.ReplaceAll":
		return symStr{"(str.replace_all " + strTerm(a[0]) + " " + strTerm(a[1]) + " " + strTerm(a[2]) + ")"}
	case "strings.Count":
		// only used for splitting bounds; unsupported symbolically
	}
	panic(engineErr(fmt.Sprintf("%s on symbolic operands", name)))
}

func toPiece(v value) piece {
	switch v := v.(type) {
	case string:
		return piece{s: v}
	case symStr:
		return piece{s: v.t, sym: true}
	case symAtom:
		return piece{s: atomStrTerm(v.t), sym: true}
	}
	panic(engineErr(fmt.Sprintf("toPiece %T", v)))
}

func init() {
	// bytes.TrimSpace on symbolic bytes whose text provably neither starts nor ends with white space (a JSON document
	// produced by Marshal; a concatenation whose outer pieces are literals): unchanged. Anything else is interpreted.
	intrinsics["bytes.TrimSpace"] = func(fr *frame, a []value) value {
		sb, ok := a[0].(symBytes)
		if !ok {
			return notHandled{}
		}
		if sb.str == nil && sb.tree != nil {
			return sb
		}
		if ss, ok := sb.str.(symStr); ok {
			if ps, known := strStruct[ss.t]; known && len(ps) > 0 {
				first, last := ps[0], ps[len(ps)-1]
				edge := func(c byte) bool { return c != ' ' && (c < 9 || c > 13) }
				if !first.sym && !last.sym && len(first.s) > 0 && len(last.s) > 0 && edge(first.s[0]) && edge(last.s[len(last.s)-1]) {
					return sb
				}
			}
		}
		panic(engineErr("bytes.TrimSpace of symbolic bytes with unknown edges"))
	}
}

// bytes.Buffer holding symbolic content: once symbolic bytes are written into a buffer its content is kept as pieces
// in a side table (the real struct cannot hold them); purely concrete buffers run the real code.
var symBuffers = map[*value]*sbuf{}

func init() {
	bufOf := func(a value) (*value, *sbuf) {
		p, ok := a.(*value)
		if !ok {
			return nil, nil
		}
		return p, symBuffers[p]
	}
	concreteContent := func(p *value) string {
		s := derefStruct(p, "bytes.Buffer") // buf []byte, off int, lastRead
		b, _ := s[0].([]value)
		off := int(asInt64(s[1]))
		if off > len(b) {
			off = len(b)
		}
		return bytesToString(b[off:])
	}
	intrinsics["(*bytes.Buffer).Write"] = func(fr *frame, a []value) value {
		p, sb := bufOf(a[0])
		arg, isSymArg := a[1].(symBytes)
		if p == nil || (sb == nil && !isSymArg) {
			return notHandled{}
		}
		if sb == nil {
			sb = &sbuf{ps: []piece{{s: concreteContent(p)}}}
			symBuffers[p] = sb
		}
		if isSymArg {
			sb.ps = append(sb.ps, toPiece(bytesText(arg)))
			return tuple{0, iface{}}
		}
		b := a[1].([]value)
		sb.ps = append(sb.ps, piece{s: bytesToString(b)})
		return tuple{len(b), iface{}}
	}
	intrinsics["(*bytes.Buffer).Bytes"] = func(fr *frame, a []value) value {
		_, sb := bufOf(a[0])
		if sb == nil {
			return notHandled{}
		}
		return symBytes{str: joinPieces(sb.ps)}
	}
	intrinsics["(*bytes.Buffer).String"] = func(fr *frame, a []value) value {
		_, sb := bufOf(a[0])
		if sb == nil {
			return notHandled{}
		}
		return joinPieces(sb.ps)
	}
	intrinsics["bytes.TrimSuffix"] = func(fr *frame, a []value) value {
		sb, ok := a[0].(symBytes)
		suf, okc := a[1].([]value)
		if !ok || !okc {
			return notHandled{}
		}
		suffix := bytesToString(suf)
		txt := bytesText(sb)
		if ss, isSym := txt.(symStr); isSym {
			if ps, known := strStruct[ss.t]; known && len(ps) > 0 && !ps[len(ps)-1].sym {
				last := ps[len(ps)-1].s
				if strings.HasSuffix(last, suffix) {
					cp := append([]piece(nil), ps[:len(ps)-1]...)
					cp = append(cp, piece{s: strings.TrimSuffix(last, suffix)})
					return symBytes{str: joinPieces(cp)}
				}
				if len(last) >= len(suffix) {
					return sb // ends with a literal that is not the suffix
				}
			}
			st, sp := ss.t, smtStrLit(suffix)
			return symBytes{str: symStr{"(ite (str.suffixof " + sp + " " + st + ") (str.substr " + st + " 0 (- (str.len " + st + ") (str.len " + sp + "))) " + st + ")"}}
		}
		return notHandled{}
	}
}

func init() {
	// github.com/stoewer/go-strcase.SnakeCase of a symbolic string: some string (over-approximation: the callers only
	// splice it into a statement); concrete operands run the real code
	intrinsics["github.com/stoewer/go-strcase.SnakeCase"] = func(fr *frame, a []value) value {
		if _, ok := a[0].(string); ok {
			return notHandled{}
		}
		v := X.fresh("snakecase", "String")
		X.res.Notes = appendUniq(X.res.Notes, "strcase.SnakeCase of a symbolic string is an arbitrary string")
		return symStr{v}
	}
}
