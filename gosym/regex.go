package main

// regexp.(*Regexp).MatchString / Match on a symbolic string: the (concrete) pattern
// is parsed with regexp/syntax and translated to an SMT-LIB regular expression;
// the match becomes (str.in_re s R). Concrete subjects are left to the real matcher.

import (
	"fmt"
	"regexp/syntax"
	"strings"
)

func smtChar(r rune) string {
	if r >= 0x20 && r < 0x7f && r != '"' && r != '\\' {
		return "\"" + string(r) + "\""
	}
	return fmt.Sprintf("\"\\u{%x}\"", r)
}

func reToSMT(re *syntax.Regexp) (string, error) {
	switch re.Op {
	case syntax.OpEmptyMatch:
		return "(str.to_re \"\")", nil
	case syntax.OpLiteral:
		var sb strings.Builder
		for _, r := range re.Rune {
			if re.Flags&syntax.FoldCase != 0 {
				return "", fmt.Errorf("case-insensitive literal")
			}
			if r >= 0x20 && r < 0x7f && r != '"' && r != '\\' {
				sb.WriteRune(r)
			} else {
				sb.WriteString(fmt.Sprintf("\\u{%x}", r))
			}
		}
		return "(str.to_re \"" + sb.String() + "\")", nil
	case syntax.OpCharClass:
		var parts []string
		for i := 0; i+1 < len(re.Rune); i += 2 {
			lo, hi := re.Rune[i], re.Rune[i+1]
			if hi > 0xff {
				hi = 0xff // subjects are byte strings
			}
			if lo > hi {
				continue
			}
			if lo == hi {
				parts = append(parts, "(str.to_re "+smtChar(lo)+")")
			} else {
				parts = append(parts, "(re.range "+smtChar(lo)+" "+smtChar(hi)+")")
			}
		}
		switch len(parts) {
		case 0:
			return "re.none", nil
		case 1:
			return parts[0], nil
		}
		return "(re.union " + strings.Join(parts, " ") + ")", nil
	case syntax.OpAnyCharNotNL:
		return "(re.diff re.allchar (str.to_re \"\\u{a}\"))", nil
	case syntax.OpAnyChar:
		return "re.allchar", nil
	case syntax.OpCapture:
		return reToSMT(re.Sub[0])
	case syntax.OpStar, syntax.OpPlus, syntax.OpQuest:
		s, err := reToSMT(re.Sub[0])
		if err != nil {
			return "", err
		}
		op := map[syntax.Op]string{syntax.OpStar: "re.*", syntax.OpPlus: "re.+", syntax.OpQuest: "re.opt"}[re.Op]
		return "(" + op + " " + s + ")", nil
	case syntax.OpRepeat:
		s, err := reToSMT(re.Sub[0])
		if err != nil {
			return "", err
		}
		if re.Max < 0 {
			return fmt.Sprintf("(re.++ ((_ re.^ %d) %s) (re.* %s))", re.Min, s, s), nil
		}
		return fmt.Sprintf("((_ re.loop %d %d) %s)", re.Min, re.Max, s), nil
	case syntax.OpConcat, syntax.OpAlternate:
		var parts []string
		for _, sub := range re.Sub {
			s, err := reToSMT(sub)
			if err != nil {
				return "", err
			}
			parts = append(parts, s)
		}
		if len(parts) == 1 {
			return parts[0], nil
		}
		op := "re.++"
		if re.Op == syntax.OpAlternate {
			op = "re.union"
		}
		return "(" + op + " " + strings.Join(parts, " ") + ")", nil
	}
	return "", fmt.Errorf("regexp operator %v is not translated", re.Op)
}

var regexCache = map[string]string{}

// patternToSMT translates a whole pattern; anchors are supported at the two ends only.
func patternToSMT(pat string) (string, error) {
	if r, ok := regexCache[pat]; ok {
		return r, nil
	}
	re, err := syntax.Parse(pat, syntax.Perl)
	if err != nil {
		return "", err
	}
	re = re.Simplify()
	begin, end := false, false
	subs := []*syntax.Regexp{re}
	if re.Op == syntax.OpConcat {
		subs = re.Sub
	}
	if len(subs) > 0 && (subs[0].Op == syntax.OpBeginText || subs[0].Op == syntax.OpBeginLine && subs[0].Flags&syntax.OneLine != 0) {
		begin = true
		subs = subs[1:]
	}
	if len(subs) > 0 && subs[len(subs)-1].Op == syntax.OpEndText {
		end = true
		subs = subs[:len(subs)-1]
	}
	var parts []string
	if !begin {
		parts = append(parts, "re.all")
	}
	for _, s := range subs {
		t, err := reToSMT(s)
		if err != nil {
			return "", err
		}
		parts = append(parts, t)
	}
	if !end {
		parts = append(parts, "re.all")
	}
	var out string
	switch len(parts) {
	case 0:
		out = "(str.to_re \"\")"
	case 1:
		out = parts[0]
	default:
		out = "(re.++ " + strings.Join(parts, " ") + ")"
	}
	regexCache[pat] = out
	return out, nil
}

func init() {
	match := func(fr *frame, a []value) value {
		var subj value
		switch s := a[1].(type) {
		case string, []value:
			return notHandled{}
		case symStr:
			subj = s
		case symAtom:
			subj = symStr{atomStrTerm(s.t)}
		case symBytes:
			subj = bytesText(s)
			if _, ok := subj.(string); ok {
				return notHandled{}
			}
		default:
			panic(engineErr(fmt.Sprintf("regexp match on %T", a[1])))
		}
		re := derefStruct(a[0], "regexp.Regexp")
		pat, ok := re[0].(string)
		if !ok {
			panic(engineErr("regexp.Regexp without a concrete pattern"))
		}
		smt, err := patternToSMT(pat)
		if err != nil {
			panic(engineErr("regexp " + pat + ": " + err.Error()))
		}
		return mkBool("(str.in_re " + strTerm(subj) + " " + smt + ")")
	}
	intrinsics["(*regexp.Regexp).MatchString"] = match
	intrinsics["(*regexp.Regexp).Match"] = match
}
