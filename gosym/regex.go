package main

// regexp.(*Regexp).MatchString / Match on a symbolic string: the (concrete) pattern
// is parsed with regexp/syntax and translated to an SMT-LIB regular expression;
// the match becomes (str.in_re s R). Concrete subjects are left to the real matcher.

import (
	"fmt"
	"regexp/syntax"
	"strings"
)

func smtChar(r rune) string {
	if r >= 0x20 && r < 0x7f && r != '"' && r != '\\' {
		return "\"" + string(r) + "\""
	}
	return fmt.Sprintf("\"\\u{%x}\"", r)
}

func reToSMT(re *syntax.Regexp) (string, error) {
	switch re.Op {
	case syntax.OpEmptyMatch:
		return "(str.to_re \"\")", nil
	case syntax.OpLiteral:
		var sb strings.Builder
		for _, r := range re.Rune {
			if re.Flags&syntax.FoldCase != 0 {
				return "", fmt.Errorf("case-insensitive literal")
			}
			if r >= 0x20 && r < 0x7f && r != '"' && r != '\\' {
				sb.WriteRune(r)
			} else {
				sb.WriteString(fmt.Sprintf("\\u{%x}", r))
			}
		}
		return "(str.to_re \"" + sb.String() + "\")", nil
	case syntax.OpCharClass:
		var parts []string
		for i := 0; i+1 < len(re.Rune); i += 2 {
			lo, hi := re.Rune[i], re.Rune[i+1]
			if hi > 0xff {
				hi = 0xff // subjects are byte strings
			}
			if lo > hi {
				continue
			}
			if lo == hi {
				parts = append(parts, "(str.to_re "+smtChar(lo)+")")
			} else {
				parts = append(parts, "(re.range "+smtChar(lo)+" "+smtChar(hi)+")")
			}
		}
		switch len(parts) {
		case 0:
			return "re.none", nil
		case 1:
			return parts[0], nil
		}
		return "(re.union " + strings.Join(parts, " ") + ")", nil
	case syntax.OpAnyCharNotNL:
		return "(re.diff re.allchar (str.to_re \"\\u{a}\"))", nil
	case syntax.OpAnyChar:
		return "re.allchar", nil
	case syntax.OpCapture:
		return reToSMT(re.Sub[0])
	case syntax.OpStar, syntax.OpPlus, syntax.OpQuest:
		s, err := reToSMT(re.Sub[0])
		if err != nil {
			return "", err
		}
		op := map[syntax.Op]string{syntax.OpStar: "re.*", syntax.OpPlus: "re.+", syntax.OpQuest: "re.opt"}[re.Op]
		return "(" + op + " " + s + ")", nil
	case syntax.OpRepeat:
		s, err := reToSMT(re.Sub[0])
		if err != nil {
			return "", err
		}
		if re.Max < 0 {
			return fmt.Sprintf("(re.++ ((_ re.^ %d) %s) (re.* %s))", re.Min, s, s), nil
		}
		return fmt.Sprintf("((_ re.loop %d %d) %s)", re.Min, re.Max, s), nil
	case syntax.OpConcat, syntax.OpAlternate:
		var parts []string
		for _, sub := range re.Sub {
			s, err := reToSMT(sub)
			if err != nil {
				return "", err
			}
			parts = append(parts, s)
		}
		if len(parts) == 1 {
			return parts[0], nil
		}
		op := "re.++"
		if re.Op == syntax.OpAlternate {
			op = "re.union"
		}
		return "(" + op + " " + strings.Join(parts, " ") + ")", nil
	}
	return "", fmt.Errorf("regexp operator %v is not translated", re.Op)
}

var regexCache = map[string]string{}

// patternToSMT translates a whole pattern; anchors are supported at the two ends only.
func patternToSMT(pat string) (string, error) {
	if r, ok := regexCache[pat]; ok {
		return r, nil
	}
	re, err := syntax.Parse(pat, syntax.Perl)
	if err != nil {
		return "", err
	}
	re = re.Simplify()
	begin, end := false, false
	subs := []*syntax.Regexp{re}
	if re.Op == syntax.OpConcat {
		subs = re.Sub
	}
	if len(subs) > 0 && (subs[0].Op == syntax.OpBeginText || subs[0].Op == syntax.OpBeginLine && subs[0].Flags&syntax.OneLine != 0) {
		begin = true
		subs = subs[1:]
	}
	if len(subs) > 0 && subs[len(subs)-1].Op == syntax.OpEndText {
		end = true
		subs = subs[:len(subs)-1]
	}
	var parts []string
	if !begin {
		parts = append(parts, "re.all")
	}
	for _, s := range subs {
		t, err := reToSMT(s)
		if err != nil {
			return "", err
		}
		parts = append(parts, t)
	}
	if !end {
		parts = append(parts, "re.all")
	}
	var out string
	switch len(parts) {
	case 0:
		out = "(str.to_re \"\")"
	case 1:
		out = parts[0]
	default:
		out = "(re.++ " + strings.Join(parts, " ") + ")"
	}
	regexCache[pat] = out
	return out, nil
}

func init() {
	match := func(fr *frame, a []value) value {
		var subj value
		switch s := a[1].(type) {
		case string, []value:
			return notHandled{}
		case symStr:
			subj = s
		case symAtom:
			subj = symStr{atomStrTerm(s.t)}
		case symBytes:
			subj = bytesText(s)
			if _, ok := subj.(string); ok {
				return notHandled{}
			}
		default:
			panic(engineErr(fmt.Sprintf("regexp match on %T", a[1])))
		}
		re := derefStruct(a[0], "regexp.Regexp")
		pat, ok := re[0].(string)
		if !ok {
			panic(engineErr("regexp.Regexp without a concrete pattern"))
		}
		smt, err := patternToSMT(pat)
		if err != nil {
			panic(engineErr("regexp " + pat + ": " + err.Error()))
		}
		return mkBool("(str.in_re " + strTerm(subj) + " " + smt + ")")
	}
	intrinsics["(*regexp.Regexp).MatchString"] = match
	intrinsics["(*regexp.Regexp).Match"] = match
}

// ---------------------------------------------------------------------------
// FindStringSubmatch on a symbolic subject.
//
// The subject is decomposed along the pattern: every component of a
// concatenation becomes a fresh string constrained to the component's language,
// capture groups record their component. Optional groups and alternations that
// contain captures fork. This is the set of all decompositions; it coincides with
// Go's leftmost-first choice when the decomposition is unique (true for the
// patterns of the repo: digit runs separated by non-digit literals), otherwise it
// over-approximates (any violation is confirmed by native replay).

type subm struct {
	caps  map[int]string // capture index -> term
	conds []string
}

func hasCapture(re *syntax.Regexp) bool {
	if re.Op == syntax.OpCapture {
		return true
	}
	for _, s := range re.Sub {
		if hasCapture(s) {
			return true
		}
	}
	return false
}

func (sm *subm) build(re *syntax.Regexp) (string, error) {
	if !hasCapture(re) {
		switch re.Op {
		case syntax.OpBeginText, syntax.OpEndText, syntax.OpEmptyMatch:
			return "\"\"", nil
		}
		r, err := reToSMT(re)
		if err != nil {
			return "", err
		}
		v := X.fresh("re.part", "String")
		sm.conds = append(sm.conds, "(str.in_re "+v+" "+r+")")
		return v, nil
	}
	switch re.Op {
	case syntax.OpCapture:
		t, err := sm.build(re.Sub[0])
		if err != nil {
			return "", err
		}
		sm.caps[re.Cap] = t
		return t, nil
	case syntax.OpConcat:
		var ts []string
		for _, s := range re.Sub {
			t, err := sm.build(s)
			if err != nil {
				return "", err
			}
			ts = append(ts, t)
		}
		return "(str.++ " + strings.Join(ts, " ") + " \"\")", nil
	case syntax.OpQuest:
		if X.choose("regexp-optional-group", 2) == 0 {
			return sm.build(re.Sub[0])
		}
		return "\"\"", nil
	case syntax.OpAlternate:
		k := X.choose("regexp-alternative", len(re.Sub))
		return sm.build(re.Sub[k])
	}
	return "", fmt.Errorf("capture group under operator %v", re.Op)
}

func init() {
	intrinsics["(*regexp.Regexp).FindStringSubmatch"] = func(fr *frame, a []value) value {
		var subj string
		switch s := a[1].(type) {
		case string:
			return notHandled{}
		case symStr:
			subj = s.t
		case symAtom:
			subj = atomStrTerm(s.t)
		default:
			panic(engineErr(fmt.Sprintf("FindStringSubmatch on %T", a[1])))
		}
		re := derefStruct(a[0], "regexp.Regexp")
		pat := re[0].(string)
		whole, err := patternToSMT(pat)
		if err != nil {
			panic(engineErr("regexp " + pat + ": " + err.Error()))
		}
		if !X.branch(mkBool("(str.in_re "+subj+" "+whole+")"), "regexp-match") {
			return []value(nil)
		}
		ast, err := syntax.Parse(pat, syntax.Perl)
		if err != nil {
			panic(engineErr(err.Error()))
		}
		ast = ast.Simplify()
		if !(strings.HasPrefix(pat, "^") && strings.HasSuffix(pat, "$")) {
			panic(engineErr("FindStringSubmatch on a symbolic subject needs a pattern anchored at both ends: " + pat))
		}
		sm := &subm{caps: map[int]string{}}
		t, err := sm.build(ast)
		if err != nil {
			panic(engineErr("regexp " + pat + ": " + err.Error()))
		}
		X.assume(mkBool("(and (= " + subj + " " + t + ") " + strings.Join(append(sm.conds, "true"), " ") + ")"))
		out := []value{a[1]}
		for i := 1; i <= ast.MaxCap(); i++ {
			if c, ok := sm.caps[i]; ok {
				if c == "\"\"" {
					out = append(out, "")
				} else {
					out = append(out, symStr{c})
				}
			} else {
				out = append(out, "")
			}
		}
		return out
	}
}
