package main

// Symbolic values and SMT term construction.
//
// Every symbolic value carries an SMT-LIB2 term (a string). Machine integers
// are modelled as mathematical Int terms that are kept inside the range of
// their Go type by an explicit wrap after arithmetic; big.Int values are
// mathematical Ints (faithful: arbitrary precision); strings are SMT strings
// whose characters are bytes (code points 0..255).

import (
	"fmt"
	"go/token"
	"go/types"
	"math/big"
	"strconv"
	"strings"
)

type symBool struct{ t string }

type symInt struct {
	t string
	k types.BasicKind
}

type symStr struct{ t string }

type symF64 struct{ t string }

// symAtom is a symbolic *name*: it denotes the string "a%06d" of an SMT Int in
// [0, 999999]. Equality and order between atoms are integer comparisons, which
// keeps map-key and sorting reasoning in linear arithmetic; any other string
// operation converts the atom to an SMT string term (atomStrTerm).
type symAtom struct{ t string }

func atomStrTerm(t string) string {
	pad := "(ite (< " + t + " 10) \"00000\" (ite (< " + t + " 100) \"0000\" (ite (< " + t + " 1000) \"000\" (ite (< " + t + " 10000) \"00\" (ite (< " + t + " 100000) \"0\" \"\")))))"
	return "(str.++ \"a\" " + pad + " (str.from_int " + t + "))"
}

// atomOfConcrete returns the atom index denoted by a concrete string, if it has the atom shape.
func atomOfConcrete(s string) (int, bool) {
	if len(s) != 7 || s[0] != 'a' {
		return 0, false
	}
	n := 0
	for i := 1; i < 7; i++ {
		if s[i] < '0' || s[i] > '9' {
			return 0, false
		}
		n = n*10 + int(s[i]-'0')
	}
	return n, true
}

// bigv is the payload of a math/big.Int: field 0 of the big.Int structure.
// c != nil means concrete.
type bigv struct {
	t string
	c *big.Int
}

func isSym(v value) bool {
	switch v.(type) {
	case symBool, symInt, symStr, symF64, symAtom:
		return true
	}
	return false
}

func smtInt(n *big.Int) string {
	if n.Sign() < 0 {
		return "(- " + new(big.Int).Neg(n).String() + ")"
	}
	return n.String()
}

func smtInt64(n int64) string { return smtInt(big.NewInt(n)) }

func smtStrLit(s string) string {
	var b strings.Builder
	b.WriteByte('"')
	for i := 0; i < len(s); i++ {
		c := s[i]
		switch {
		case c == '"':
			b.WriteString(`""`)
		case c >= 0x20 && c < 0x7f && c != '\\':
			b.WriteByte(c)
		default:
			fmt.Fprintf(&b, `\u{%x}`, c)
		}
	}
	b.WriteByte('"')
	return b.String()
}

func mkBig(c *big.Int) bigv       { return bigv{t: smtInt(c), c: c} }
func mkBigT(t string) bigv        { return bigv{t: t} }
func (b bigv) concrete() bool     { return b.c != nil }
func bigZero() bigv               { return mkBig(new(big.Int)) }
func bigFromInt64(n int64) bigv   { return mkBig(big.NewInt(n)) }
func bigFromUint64(n uint64) bigv { return mkBig(new(big.Int).SetUint64(n)) }

func sNot(t string) string {
	if t == "true" {
		return "false"
	}
	if t == "false" {
		return "true"
	}
	if strings.HasPrefix(t, "(not ") && strings.HasSuffix(t, ")") && balanced(t[5:len(t)-1]) {
		return t[5 : len(t)-1]
	}
	return "(not " + t + ")"
}

func balanced(s string) bool {
	d := 0
	inStr := false
	for i := 0; i < len(s); i++ {
		c := s[i]
		if inStr {
			if c == '"' {
				inStr = false
			}
			continue
		}
		switch c {
		case '"':
			inStr = true
		case '(':
			d++
		case ')':
			d--
			if d < 0 {
				return false
			}
		case ' ':
			if d == 0 {
				return false
			}
		}
	}
	return d == 0
}

func sAnd(a, b string) string {
	if a == "true" {
		return b
	}
	if b == "true" {
		return a
	}
	if a == "false" || b == "false" {
		return "false"
	}
	return "(and " + a + " " + b + ")"
}

func sOr(a, b string) string {
	if a == "false" {
		return b
	}
	if b == "false" {
		return a
	}
	if a == "true" || b == "true" {
		return "true"
	}
	return "(or " + a + " " + b + ")"
}

// boolTerm returns the SMT term of a (possibly concrete) Go bool value.
func boolTerm(v value) string {
	switch v := v.(type) {
	case bool:
		if v {
			return "true"
		}
		return "false"
	case symBool:
		return v.t
	}
	panic(engineErr(fmt.Sprintf("boolTerm: %T", v)))
}

func mkBool(t string) value {
	switch t {
	case "true":
		return true
	case "false":
		return false
	}
	return symBool{t}
}

// intKindOf returns the basic kind of a concrete integer value.
func intKindOf(v value) (types.BasicKind, bool) {
	switch v.(type) {
	case int:
		return types.Int, true
	case int8:
		return types.Int8, true
	case int16:
		return types.Int16, true
	case int32:
		return types.Int32, true
	case int64:
		return types.Int64, true
	case uint:
		return types.Uint, true
	case uint8:
		return types.Uint8, true
	case uint16:
		return types.Uint16, true
	case uint32:
		return types.Uint32, true
	case uint64:
		return types.Uint64, true
	case uintptr:
		return types.Uintptr, true
	}
	return 0, false
}

func kindBits(k types.BasicKind) (bits uint, signed bool) {
	switch k {
	case types.Int, types.Int64:
		return 64, true
	case types.Int8:
		return 8, true
	case types.Int16:
		return 16, true
	case types.Int32:
		return 32, true
	case types.Uint, types.Uint64, types.Uintptr:
		return 64, false
	case types.Uint8:
		return 8, false
	case types.Uint16:
		return 16, false
	case types.Uint32:
		return 32, false
	}
	panic(engineErr(fmt.Sprintf("kindBits: %v", k)))
}

func kindRange(k types.BasicKind) (lo, hi *big.Int) {
	bits, signed := kindBits(k)
	if signed {
		hi = new(big.Int).Lsh(big.NewInt(1), bits-1)
		lo = new(big.Int).Neg(hi)
		hi.Sub(hi, big.NewInt(1))
		return
	}
	lo = new(big.Int)
	hi = new(big.Int).Lsh(big.NewInt(1), bits)
	hi.Sub(hi, big.NewInt(1))
	return
}

// intTerm returns the SMT Int term of a concrete or symbolic machine integer.
func intTerm(v value) string {
	switch v := v.(type) {
	case symInt:
		return v.t
	case uint, uint8, uint16, uint32, uint64, uintptr:
		return new(big.Int).SetUint64(asUint64ish(v)).String()
	}
	return smtInt64(asInt64(v))
}

func asUint64ish(x value) uint64 {
	switch x := x.(type) {
	case uint:
		return uint64(x)
	case uint8:
		return uint64(x)
	case uint16:
		return uint64(x)
	case uint32:
		return uint64(x)
	case uint64:
		return x
	case uintptr:
		return uint64(x)
	}
	panic(engineErr("asUint64ish"))
}

// wrapTerm maps an arbitrary Int term into the range of kind k (two's complement wrap).
func wrapTerm(k types.BasicKind, t string) string {
	bits, signed := kindBits(k)
	m := new(big.Int).Lsh(big.NewInt(1), bits)
	if !signed {
		return "(mod " + t + " " + m.String() + ")"
	}
	h := new(big.Int).Lsh(big.NewInt(1), bits-1)
	return "(- (mod (+ " + t + " " + h.String() + ") " + m.String() + ") " + h.String() + ")"
}

// concreteInt builds a concrete Go value of kind k from a big integer (assumed in range).
func concreteInt(k types.BasicKind, n *big.Int) value {
	switch k {
	case types.Int:
		return int(n.Int64())
	case types.Int8:
		return int8(n.Int64())
	case types.Int16:
		return int16(n.Int64())
	case types.Int32:
		return int32(n.Int64())
	case types.Int64:
		return n.Int64()
	case types.Uint:
		return uint(n.Uint64())
	case types.Uint8:
		return uint8(n.Uint64())
	case types.Uint16:
		return uint16(n.Uint64())
	case types.Uint32:
		return uint32(n.Uint64())
	case types.Uint64:
		return n.Uint64()
	case types.Uintptr:
		return uintptr(n.Uint64())
	}
	panic(engineErr("concreteInt"))
}

// truncated division on Int terms (Go semantics), divisor assumed non-zero.
func tdivTerm(x, y string) string {
	// sign(x)*sign(y) * (|x| div |y|)
	return "(let ((tx " + x + ") (ty " + y + ")) (let ((q (div (abs tx) (abs ty)))) (ite (= (>= tx 0) (>= ty 0)) q (- q))))"
}

func symBinop(op token.Token, t types.Type, x, y value) value {
	// names (atoms)
	xa, xIsAtom := x.(symAtom)
	ya, yIsAtom := y.(symAtom)
	if xIsAtom || yIsAtom {
		if r, ok := atomCompare(op, x, y, xa, ya, xIsAtom, yIsAtom); ok {
			return r
		}
		// fall through to SMT strings
	}
	// strings
	_, xs := x.(symStr)
	_, ys := y.(symStr)
	if xs || ys || xIsAtom || yIsAtom {
		xt, yt := strTerm(x), strTerm(y)
		switch op {
		case token.ADD:
			if !xIsAtom && !yIsAtom {
				return joinPieces([]piece{toPiece(x), toPiece(y)})
			}
			return symStr{"(str.++ " + xt + " " + yt + ")"}
		case token.EQL:
			if r, ok := unifyEq(x, y); ok {
				return r
			}
			return mkBool("(= " + xt + " " + yt + ")")
		case token.NEQ:
			if r, ok := unifyEq(x, y); ok {
				if b, isB := r.(bool); isB {
					return !b
				}
				return mkBool(sNot(r.(symBool).t))
			}
			return mkBool("(not (= " + xt + " " + yt + "))")
		case token.LSS:
			return mkBool("(str.< " + xt + " " + yt + ")")
		case token.LEQ:
			return mkBool("(str.<= " + xt + " " + yt + ")")
		case token.GTR:
			return mkBool("(str.< " + yt + " " + xt + ")")
		case token.GEQ:
			return mkBool("(str.<= " + yt + " " + xt + ")")
		}
		panic(engineErr(fmt.Sprintf("symbolic string op %s", op)))
	}
	// bools
	_, xb := x.(symBool)
	_, yb := y.(symBool)
	if xb || yb {
		xt, yt := boolTerm(x), boolTerm(y)
		switch op {
		case token.EQL:
			return mkBool("(= " + xt + " " + yt + ")")
		case token.NEQ:
			return mkBool("(not (= " + xt + " " + yt + "))")
		case token.AND:
			return mkBool(sAnd(xt, yt))
		case token.OR:
			return mkBool(sOr(xt, yt))
		}
		panic(engineErr(fmt.Sprintf("symbolic bool op %s", op)))
	}
	// floats
	_, xf := x.(symF64)
	_, yf := y.(symF64)
	if xf || yf {
		return symFloatBinop(op, x, y)
	}
	// machine ints
	var k types.BasicKind
	if sx, ok := x.(symInt); ok {
		k = sx.k
	} else if sy, ok := y.(symInt); ok {
		// shifts: kind of result is kind of x
		if kk, ok := intKindOf(x); ok {
			k = kk
		} else {
			k = sy.k
		}
	}
	xt, yt := intTerm(x), intTerm(y)
	switch op {
	case token.ADD:
		return symInt{wrapTerm(k, "(+ "+xt+" "+yt+")"), k}
	case token.SUB:
		return symInt{wrapTerm(k, "(- "+xt+" "+yt+")"), k}
	case token.MUL:
		return symInt{wrapTerm(k, "(* "+xt+" "+yt+")"), k}
	case token.QUO, token.REM:
		if X.branch(mkBool("(= "+yt+" 0)"), "div-by-zero") {
			panic(targetRuntimeError("runtime error: integer divide by zero"))
		}
		q := tdivTerm(xt, yt)
		if op == token.QUO {
			return symInt{wrapTerm(k, q), k}
		}
		return symInt{"(- " + xt + " (* " + yt + " " + q + "))", k}
	case token.EQL:
		return mkBool("(= " + xt + " " + yt + ")")
	case token.NEQ:
		return mkBool("(not (= " + xt + " " + yt + "))")
	case token.LSS:
		return mkBool("(< " + xt + " " + yt + ")")
	case token.LEQ:
		return mkBool("(<= " + xt + " " + yt + ")")
	case token.GTR:
		return mkBool("(> " + xt + " " + yt + ")")
	case token.GEQ:
		return mkBool("(>= " + xt + " " + yt + ")")
	case token.SHL:
		if _, ok := y.(symInt); !ok {
			n := asUint64ish(unsignedOf(y))
			if n < 64 {
				p := new(big.Int).Lsh(big.NewInt(1), uint(n))
				return symInt{wrapTerm(k, "(* "+xt+" "+p.String()+")"), k}
			}
		}
	case token.SHR:
		if _, ok := y.(symInt); !ok {
			n := asUint64ish(unsignedOf(y))
			if n < 64 {
				p := new(big.Int).Lsh(big.NewInt(1), uint(n))
				// arithmetic/logical shift right == floor division by 2^n on the in-range value
				return symInt{"(div " + xt + " " + p.String() + ")", k}
			}
		}
	case token.AND:
		// x & (2^n - 1) with concrete mask on unsigned or non-negative operand
		if _, ok := y.(symInt); !ok {
			m := new(big.Int)
			m.SetString(intTerm(y), 10)
			m1 := new(big.Int).Add(m, big.NewInt(1))
			if m.Sign() >= 0 && m1.BitLen() > 0 && new(big.Int).And(m1, m).Sign() == 0 {
				_, signed := kindBits(k)
				if !signed {
					return symInt{"(mod " + xt + " " + m1.String() + ")", k}
				}
			}
		}
	}
	panic(engineErr(fmt.Sprintf("unsupported symbolic int op %s on %T,%T", op, x, y)))
}

func unsignedOf(y value) value {
	switch y := y.(type) {
	case int:
		return uint64(y)
	case int8:
		return uint64(y)
	case int16:
		return uint64(y)
	case int32:
		return uint64(y)
	case int64:
		return uint64(y)
	}
	return y
}

// atomCompare decides comparisons involving atoms in integer arithmetic when possible.
func atomCompare(op token.Token, x, y value, xa, ya symAtom, xIsAtom, yIsAtom bool) (value, bool) {
	switch op {
	case token.EQL, token.NEQ, token.LSS, token.LEQ, token.GTR, token.GEQ:
	default:
		return nil, false
	}
	var xt, yt string
	switch {
	case xIsAtom && yIsAtom:
		xt, yt = xa.t, ya.t
	case xIsAtom:
		ys, ok := y.(string)
		if !ok {
			return nil, false
		}
		if n, ok := atomOfConcrete(ys); ok {
			xt, yt = xa.t, itoa(n)
		} else {
			// a concrete string that is not an atom: never equal; order decided against the atom language
			return atomVsOther(op, ys, false)
		}
	default:
		xs, ok := x.(string)
		if !ok {
			return nil, false
		}
		if n, ok := atomOfConcrete(xs); ok {
			xt, yt = itoa(n), ya.t
		} else {
			return atomVsOther(op, xs, true)
		}
	}
	switch op {
	case token.EQL:
		return mkBool("(= " + xt + " " + yt + ")"), true
	case token.NEQ:
		return mkBool("(not (= " + xt + " " + yt + "))"), true
	case token.LSS:
		return mkBool("(< " + xt + " " + yt + ")"), true
	case token.LEQ:
		return mkBool("(<= " + xt + " " + yt + ")"), true
	case token.GTR:
		return mkBool("(> " + xt + " " + yt + ")"), true
	case token.GEQ:
		return mkBool("(>= " + xt + " " + yt + ")"), true
	}
	return nil, false
}

// atomVsOther compares an arbitrary atom with a concrete non-atom string c.
// concreteOnLeft tells whether c is the left operand.
func atomVsOther(op token.Token, c string, concreteOnLeft bool) (value, bool) {
	// every atom lies in ["a000000", "a999999"]
	lo, hi := "a000000", "a999999"
	var cLess, cGreater bool // c < every atom, c > every atom
	switch {
	case c < lo:
		cLess = true
	case c > hi:
		cGreater = true
	default:
		return nil, false // c sits inside the atom range without being an atom (e.g. "a12"): use SMT strings
	}
	atomLess := cGreater // atom < c
	_ = cLess
	var r bool
	switch op {
	case token.EQL:
		r = false
	case token.NEQ:
		r = true
	case token.LSS:
		if concreteOnLeft {
			r = !atomLess
		} else {
			r = atomLess
		}
	case token.LEQ:
		if concreteOnLeft {
			r = !atomLess
		} else {
			r = atomLess
		}
	case token.GTR:
		if concreteOnLeft {
			r = atomLess
		} else {
			r = !atomLess
		}
	case token.GEQ:
		if concreteOnLeft {
			r = atomLess
		} else {
			r = !atomLess
		}
	}
	return r, true
}

func strTerm(v value) string {
	switch v := v.(type) {
	case string:
		return smtStrLit(v)
	case symStr:
		return v.t
	case symAtom:
		return atomStrTerm(v.t)
	}
	panic(engineErr(fmt.Sprintf("strTerm: %T", v)))
}

func symUnop(op token.Token, x value) value {
	switch x := x.(type) {
	case symBool:
		if op == token.NOT {
			return mkBool(sNot(x.t))
		}
	case symInt:
		switch op {
		case token.SUB:
			return symInt{wrapTerm(x.k, "(- "+x.t+")"), x.k}
		case token.XOR:
			// ^x == -x-1 (signed) ; max - x (unsigned)
			_, signed := kindBits(x.k)
			if signed {
				return symInt{"(- (- " + x.t + ") 1)", x.k}
			}
			_, hi := kindRange(x.k)
			return symInt{"(- " + hi.String() + " " + x.t + ")", x.k}
		}
	case symF64:
		if op == token.SUB {
			return symF64{"(fp.neg " + x.t + ")"}
		}
	}
	panic(engineErr(fmt.Sprintf("unsupported symbolic unop %s on %T", op, x)))
}

// ---- floats ----

const fpSort = "(_ FloatingPoint 11 53)"

func f64Term(v value) string {
	switch v := v.(type) {
	case symF64:
		return v.t
	case float64:
		// exact: use hex bits
		return fmt.Sprintf("((_ to_fp 11 53) #x%016x)", mathFloat64bits(v))
	}
	panic(engineErr(fmt.Sprintf("f64Term: %T", v)))
}

func symFloatBinop(op token.Token, x, y value) value {
	xt, yt := f64Term(x), f64Term(y)
	switch op {
	case token.ADD:
		return symF64{"(fp.add RNE " + xt + " " + yt + ")"}
	case token.SUB:
		return symF64{"(fp.sub RNE " + xt + " " + yt + ")"}
	case token.MUL:
		return symF64{"(fp.mul RNE " + xt + " " + yt + ")"}
	case token.QUO:
		return symF64{"(fp.div RNE " + xt + " " + yt + ")"}
	case token.EQL:
		return mkBool("(fp.eq " + xt + " " + yt + ")")
	case token.NEQ:
		return mkBool("(not (fp.eq " + xt + " " + yt + "))")
	case token.LSS:
		return mkBool("(fp.lt " + xt + " " + yt + ")")
	case token.LEQ:
		return mkBool("(fp.leq " + xt + " " + yt + ")")
	case token.GTR:
		return mkBool("(fp.gt " + xt + " " + yt + ")")
	case token.GEQ:
		return mkBool("(fp.geq " + xt + " " + yt + ")")
	}
	panic(engineErr(fmt.Sprintf("unsupported symbolic float op %s", op)))
}

// symConv converts symbolic basic values between basic types.
func symConv(dst *types.Basic, x value) value {
	dk := dst.Kind()
	switch x := x.(type) {
	case symInt:
		if dst.Info()&types.IsInteger != 0 {
			slo, shi := kindRange(x.k)
			dlo, dhi := kindRange(dk)
			if slo.Cmp(dlo) >= 0 && shi.Cmp(dhi) <= 0 {
				return symInt{x.t, dk}
			}
			return symInt{wrapTerm(dk, x.t), dk}
		}
		if dk == types.Float64 {
			return intTermToFloat(x.t)
		}
	case symF64:
		if dk == types.Float64 {
			return x
		}
		if dst.Info()&types.IsInteger != 0 {
			// Go: truncation toward zero; out-of-range result is implementation
			// specific. amd64 (CVTTSD2SQ) yields the "integer indefinite" value
			// 0x8000000000000000 for int64/int; we model exactly that for the
			// 64-bit signed kinds and refuse other kinds.
			if dk == types.Int || dk == types.Int64 {
				lo := "((_ to_fp 11 53) RNE (- 9223372036854775808.0))"
				hi := "((_ to_fp 11 53) RNE 9223372036854775808.0)"
				inr := "(and (fp.geq " + x.t + " " + lo + ") (fp.lt " + x.t + " " + hi + "))"
				// through bit-vectors (fp.to_sbv): far easier for the solver than to_int/fp.to_real
				tr := "(let ((b__ ((_ fp.to_sbv 64) RTZ " + x.t + "))) (ite (bvslt b__ #x0000000000000000) (- (bv2int b__) 18446744073709551616) (bv2int b__)))"
				return symInt{"(ite " + inr + " " + tr + " (- 9223372036854775808))", dk}
			}
		}
	case symStr:
		if dk == types.String {
			return x
		}
	case symAtom:
		if dk == types.String {
			return x
		}
	case symBool:
		if dk == types.Bool {
			return x
		}
	}
	panic(engineErr(fmt.Sprintf("unsupported symbolic conversion %T -> %s", x, dst)))
}

func mathFloat64bits(f float64) uint64 {
	// avoid importing math in several files
	return float64bits(f)
}

func itoa(i int) string { return strconv.Itoa(i) }


// intTermToFloat converts an integer term to float64 (round to nearest even). For
// |n| < 2^70 the conversion goes through a bit-vector (int2bv + to_fp), which the
// solver handles well; outside that range through the reals.
func intTermToFloat(t string) value {
	const lim = "1180591620717411303424" // 2^70
	small := "(and (> " + t + " (- " + lim + ")) (< " + t + " " + lim + "))"
	if X.branch(mkBool(small), "int-to-float-range") {
		// two's complement on 72 bits holds every value of the range
		return symF64{"((_ to_fp 11 53) RNE ((_ int2bv 72) " + t + "))"}
	}
	return symF64{"((_ to_fp 11 53) RNE (to_real " + t + "))"}
}
