package main

// Path exploration by decision-prefix re-execution.
//
// A harness is executed from its first instruction once per path. Whenever the
// executor meets a branch whose condition is a symbolic term it consults the
// decision prefix of the current path; past the prefix it asks the solver which
// sides are feasible under the path condition, follows one and queues the
// other. All decisions about values are the solver's: the executor enumerates
// paths, never inputs.

import (
	"go/types"
	"fmt"
	"os"
	"regexp"
	"runtime"
	"sort"
	"strings"
	"time"

	"golang.org/x/tools/go/ssa"
)

// engineErr is the panic value for "the executor cannot handle this" —
// never a verdict about the code under test.
type engineErr string

// pathEnd terminates the current path silently.
type pathEnd struct{ reason string }

// targetRuntimeError is a Go run-time panic raised by the executor on behalf of
// the program (divide by zero, nil map write, ...).
type targetRuntimeError string

func (e targetRuntimeError) Error() string { return string(e) }
func (e targetRuntimeError) RuntimeError() {}

func isEnginePanic(r any) bool {
	switch r.(type) {
	case engineErr, pathEnd:
		return true
	}
	return false
}

type decision struct {
	choice int
	key    string // what was decided (term or label), to detect divergent replays
}

type violation struct {
	Harness   string            `json:"harness"`
	Label     string            `json:"label"`
	Kind      string            `json:"kind"` // assert | panic
	Model     map[string]string `json:"model"`
	Decisions []int             `json:"decisions"`
	Choices   []int             `json:"choices"`
	Detail    string            `json:"detail,omitempty"`
	PC        []string          `json:"pc,omitempty"`
}

type assertStat struct {
	Checked      int `json:"checked"`
	Unsat        int `json:"discharged_unsat"`
	ConcreteTrue int `json:"concrete_true"`
	UnderSymPC   int `json:"concrete_under_symbolic_path_condition"`
	Sat          int `json:"sat"`
	Unknown      int `json:"unknown"`
}

type harnessResult struct {
	Name          string                 `json:"name"`
	Paths         int                    `json:"paths"`
	PathsDone     int                    `json:"paths_completed"`
	PathsAssumeUn int                    `json:"paths_ended_by_assume"`
	Reach         map[string]int         `json:"reach"`
	Asserts       map[string]*assertStat `json:"asserts"`
	Violations    []violation            `json:"violations"`
	Inconclusive  []string               `json:"inconclusive"`
	Notes         []string               `json:"notes,omitempty"`
	Queries       int                    `json:"queries"`
	Sat           int                    `json:"sat"`
	Unsat         int                    `json:"unsat"`
	Unknown       int                    `json:"unknown"`
	SolverErrors  int                    `json:"solver_errors"`
	SolverS       float64                `json:"solver_s"`
	MaxQueryS     float64                `json:"max_query_s"`
	WallS         float64                `json:"wall_s"`
	MaxDecisions  int                    `json:"max_decisions_on_a_path"`
	Funcs         []string               `json:"functions_executed"`
	Intrinsics    []string               `json:"intrinsics_used"`
	Stubs         []string               `json:"stubs_used"`
	SymPaths      int                    `json:"paths_with_symbolic_pc"`
	Samples       []map[string]any       `json:"samples,omitempty"`
	Witnesses     []violation            `json:"witnesses,omitempty"`
	funcSet       map[string]bool
	intrSet       map[string]bool
	stubSet       map[string]bool
}

type executor struct {
	timeType types.Type // time.Time (set by the time.After model)
	sol       *solver
	prefix    []decision
	pos       int
	trace     []decision
	pc        []string
	work      [][]decision
	consts    []string
	nameCount map[string]int
	res       *harnessResult
	cfg       *config
	pathNotes []string
	mapOrders bool // verifMapOrders: explore iteration orders of small maps
	steps     int64
	ghost     map[string]value
	sch       *scheduler
	deadlocks int
	sideTab   map[*value]*mutexState
	clock     int64
	uuids     int
}

type config struct {
	maxPaths     int
	maxDecisions int
	maxViol      int
	maxSteps     int64
	panicsAre    string // "violation" (default) | "ignore"
	trace        bool
	deadline     time.Time
	maxWitness   int
	labels       *regexp.Regexp
}

// X is the executor of the path being run.
var X *executor

func quoteSym(name string) string {
	ok := true
	for _, c := range name {
		if !(c >= 'a' && c <= 'z' || c >= 'A' && c <= 'Z' || c >= '0' && c <= '9' || c == '_' || c == '.') {
			ok = false
		}
	}
	if ok && len(name) > 0 && !(name[0] >= '0' && name[0] <= '9') {
		return name
	}
	return "|" + strings.NewReplacer("|", "/", "\\", "/").Replace(name) + "|"
}

// fresh declares a new symbolic constant for this path.
func (x *executor) fresh(name, sort string) string {
	x.nameCount[name]++
	if n := x.nameCount[name]; n > 1 {
		name = fmt.Sprintf("%s#%d", name, n)
	}
	q := quoteSym(name)
	x.sol.declare(q, sort)
	x.consts = append(x.consts, q)
	return q
}

func (x *executor) addPC(t string) {
	if t == "true" {
		return
	}
	x.pc = append(x.pc, t)
}

func (x *executor) inconclusive(why string) {
	for _, w := range x.res.Inconclusive {
		if w == why {
			return
		}
	}
	x.res.Inconclusive = append(x.res.Inconclusive, why)
}

func (x *executor) take(key string, n int) (int, bool) {
	if x.pos < len(x.prefix) {
		d := x.prefix[x.pos]
		if d.key != key {
			panic(engineErr(fmt.Sprintf("divergent replay at decision %d: expected %q, got %q", x.pos, d.key, key)))
		}
		x.pos++
		x.trace = append(x.trace, d)
		return d.choice, true
	}
	if len(x.trace) >= x.cfg.maxDecisions {
		x.inconclusive(fmt.Sprintf("unwinding bound: more than %d decisions on one path", x.cfg.maxDecisions))
		panic(pathEnd{"decision bound"})
	}
	return 0, false
}

func (x *executor) commit(key string, choice int, others []int) {
	for _, o := range others {
		alt := make([]decision, len(x.trace), len(x.trace)+1)
		copy(alt, x.trace)
		alt = append(alt, decision{o, key})
		x.work = append(x.work, alt)
	}
	x.trace = append(x.trace, decision{choice, key})
	x.pos++
	if len(x.trace) > x.res.MaxDecisions {
		x.res.MaxDecisions = len(x.trace)
	}
}

// branch decides a (possibly symbolic) boolean.
func (x *executor) branch(c value, why string) bool {
	if b, ok := c.(bool); ok {
		return b
	}
	t := c.(symBool).t
	key := t
	if d, ok := x.take(key, 2); ok {
		if d == 1 {
			x.addPC(t)
			return true
		}
		x.addPC(sNot(t))
		return false
	}
	rT := x.sol.check(x.pc, t)
	x.sol.popQuery()
	rF := "sat"
	if rT != "unsat" {
		rF = x.sol.check(x.pc, sNot(t))
		x.sol.popQuery()
	}
	if rT == "unknown" || rT == "error" || rF == "unknown" || rF == "error" {
		// exploring a possibly infeasible side is sound for "holds"; a violation
		// needs a sat answer of its own.
		x.res.Notes = appendUniq(x.res.Notes, "branch feasibility unknown at least once (both sides explored)")
	}
	switch {
	case rT != "unsat" && rF != "unsat":
		x.commit(key, 1, []int{0})
		x.addPC(t)
		return true
	case rT != "unsat":
		x.commit(key, 1, nil)
		x.addPC(t)
		return true
	case rF != "unsat":
		x.commit(key, 0, nil)
		x.addPC(sNot(t))
		return false
	}
	panic(pathEnd{"path condition unsatisfiable"})
}

func appendUniq(l []string, s string) []string {
	for _, e := range l {
		if e == s {
			return l
		}
	}
	return append(l, s)
}

// choose forks n ways without consulting the solver.
func (x *executor) choose(label string, n int) int {
	return x.chooseKey("choose:"+label, n)
}

// chooseKey: an n-way fork under an arbitrary decision key (only "choose:" keys are handed to native replays).
func (x *executor) chooseKey(key string, n int) int {
	if d, ok := x.take(key, n); ok {
		return d
	}
	var others []int
	for i := 1; i < n; i++ {
		others = append(others, i)
	}
	x.commit(key, 0, others)
	return 0
}

// concretize forks over the feasible values of a symbolic integer in [lo,hi].
func (x *executor) concretize(v value, lo, hi int) int {
	s, ok := v.(symInt)
	if !ok {
		return int(asInt64(v))
	}
	key := "conc:" + s.t
	if d, ok := x.take(key, hi-lo+1); ok {
		x.addPC(fmt.Sprintf("(= %s %s)", s.t, smtInt64(int64(d))))
		return d
	}
	var feas []int
	for i := lo; i <= hi; i++ {
		r := x.sol.check(x.pc, fmt.Sprintf("(= %s %s)", s.t, smtInt64(int64(i))))
		x.sol.popQuery()
		if r != "unsat" {
			feas = append(feas, i)
		}
	}
	r := x.sol.check(x.pc, fmt.Sprintf("(or (< %s %d) (> %s %d))", s.t, lo, s.t, hi))
	x.sol.popQuery()
	if r != "unsat" {
		x.inconclusive(fmt.Sprintf("concretize: %s can lie outside [%d,%d]", s.t, lo, hi))
	}
	if len(feas) == 0 {
		panic(pathEnd{"no feasible value"})
	}
	x.commit(key, feas[0], feas[1:])
	x.addPC(fmt.Sprintf("(= %s %s)", s.t, smtInt64(int64(feas[0]))))
	return feas[0]
}

func (x *executor) assume(c value) {
	if b, ok := c.(bool); ok {
		if !b {
			x.res.PathsAssumeUn++
			panic(pathEnd{"assume false"})
		}
		return
	}
	t := c.(symBool).t
	if x.pos < len(x.prefix) {
		// replaying: feasibility was established when this prefix was created
		x.addPC(t)
		return
	}
	r := x.sol.check(x.pc, t)
	x.sol.popQuery()
	if r == "unsat" {
		x.res.PathsAssumeUn++
		panic(pathEnd{"assume unsat"})
	}
	x.addPC(t)
}

func (x *executor) choices() []int {
	cs := []int{}
	for _, d := range x.trace {
		if strings.HasPrefix(d.key, "choose:") {
			cs = append(cs, d.choice)
		}
	}
	return cs
}

func (x *executor) stat(label string) *assertStat {
	st := x.res.Asserts[label]
	if st == nil {
		st = &assertStat{}
		x.res.Asserts[label] = st
	}
	return st
}

func (x *executor) model() map[string]string {
	names := append([]string(nil), x.consts...)
	sort.Strings(names)
	return x.sol.values(names)
}

func (x *executor) violate(kind, label, detail string, extra string) {
	// obtain a model of pc ∧ extra
	r := x.sol.check(x.pc, extra)
	var m map[string]string
	if r == "sat" {
		m = x.model()
	}
	x.sol.popQuery()
	if r == "unsat" && extra == "" {
		// a definite answer: no input drives execution down this path (a branch whose feasibility the solver could not
		// decide in time was kept, and is refuted now): the path is infeasible, nothing is claimed or missed on it
		x.res.Notes = appendUniq(x.res.Notes, "a kept branch of undecided feasibility was refuted later: infeasible path dropped")
		panic(pathEnd{"infeasible path"})
	}
	if r != "sat" {
		x.inconclusive(fmt.Sprintf("%s %q: no model for the failing path (%s)", kind, label, r))
		panic(pathEnd{"violation without model"})
	}
	var ds []int
	for _, d := range x.trace {
		ds = append(ds, d.choice)
	}
	pc := append([]string(nil), x.pc...)
	if extra != "" {
		pc = append(pc, extra)
	}
	x.res.Violations = append(x.res.Violations, violation{
		Harness: x.res.Name, Label: label, Kind: kind, Model: m, Decisions: ds, Choices: x.choices(), Detail: detail, PC: pc,
	})
	panic(pathEnd{"violation"})
}

func (x *executor) assert(label string, c value) {
	st := x.stat(label)
	st.Checked++
	if b, ok := c.(bool); ok {
		if b {
			st.ConcreteTrue++
			if len(x.pc) > 0 {
				st.UnderSymPC++
			}
			return
		}
		st.Sat++
		x.violate("assert", label, "assertion is concretely false on this path", "")
	}
	t := c.(symBool).t
	neg := sNot(t)
	r := x.sol.check(x.pc, neg)
	if r == "sat" {
		st.Sat++
		m := x.model()
		x.sol.popQuery()
		var ds []int
		for _, d := range x.trace {
			ds = append(ds, d.choice)
		}
		x.res.Violations = append(x.res.Violations, violation{
			Harness: x.res.Name, Label: label, Kind: "assert", Model: m, Decisions: ds, Choices: x.choices(),
			PC: append(append([]string(nil), x.pc...), neg),
		})
		panic(pathEnd{"violation"})
	}
	x.sol.popQuery()
	switch r {
	case "unsat":
		st.Unsat++
		if len(x.res.Samples) < 6 {
			x.res.Samples = append(x.res.Samples, map[string]any{
				"obligation": label, "result": "unsat", "pc_conjuncts": len(x.pc), "negated_goal_bytes": len(neg),
				"goal": clip(t, 400),
			})
		}
	default:
		st.Unknown++
		x.inconclusive(fmt.Sprintf("assert %q: solver answered %s", label, r))
	}
	x.addPC(t)
}

func clipLines(s string, n int) string {
	ls := strings.Split(s, "\n")
	if len(ls) > n+1 {
		ls = ls[:n+1]
	}
	return strings.Join(ls, "\n")
}

func clip(s string, n int) string {
	if len(s) > n {
		return s[:n] + "…"
	}
	return s
}

// runHarness explores all paths of fn.
func runHarness(i *interpreter, fn *ssa.Function, name string, sol *solver, cfg *config) *harnessResult {
	res := &harnessResult{Name: name, Reach: map[string]int{}, Asserts: map[string]*assertStat{},
		funcSet: map[string]bool{}, intrSet: map[string]bool{}, stubSet: map[string]bool{}}
	t0 := time.Now()
	q0, s0, u0, k0, e0, ns0 := sol.queries, sol.sat, sol.unsat, sol.unknown, sol.errors, sol.timeNS
	sol.maxQuery = 0
	work := [][]decision{nil}
	for len(work) > 0 {
		if res.Paths >= cfg.maxPaths {
			res.Inconclusive = appendUniq(res.Inconclusive, fmt.Sprintf("path bound: more than %d paths (%d pending)", cfg.maxPaths, len(work)))
			break
		}
		if !cfg.deadline.IsZero() && time.Now().After(cfg.deadline) {
			res.Inconclusive = appendUniq(res.Inconclusive, fmt.Sprintf("time bound reached with %d paths pending", len(work)))
			break
		}
		if len(res.Violations) >= cfg.maxViol {
			break
		}
		// depth-first: take the most recently queued prefix
		p := work[len(work)-1]
		work = work[:len(work)-1]
		x := &executor{sol: sol, prefix: p, nameCount: map[string]int{}, res: res, cfg: cfg, ghost: map[string]value{}}
		X = x
		bunCalls, bunLastModel, bunLastRaw = nil, nil, nil
		res.Paths++
		runPath(i, fn, x)
		if len(x.pc) > 0 {
			res.SymPaths++
		}
		work = append(work, x.work...)
	}
	res.WallS = time.Since(t0).Seconds()
	res.Queries = sol.queries - q0
	res.Sat, res.Unsat, res.Unknown, res.SolverErrors = sol.sat-s0, sol.unsat-u0, sol.unknown-k0, sol.errors-e0
	res.SolverS = float64(sol.timeNS-ns0) / 1e9
	res.MaxQueryS = sol.maxQuery.Seconds()
	for f := range res.funcSet {
		res.Funcs = append(res.Funcs, f)
	}
	sort.Strings(res.Funcs)
	for f := range res.intrSet {
		res.Intrinsics = append(res.Intrinsics, f)
	}
	sort.Strings(res.Intrinsics)
	for f := range res.stubSet {
		res.Stubs = append(res.Stubs, f)
	}
	sort.Strings(res.Stubs)
	return res
}

func runPath(i *interpreter, fn *ssa.Function, x *executor) {
	defer func() {
		r := recover()
		if x.cfg.trace {
			var ks []string
			for _, d := range x.trace {
				ks = append(ks, fmt.Sprintf("%s=%d", clip(d.key, 60), d.choice))
			}
			fmt.Fprintf(os.Stderr, "path decisions: %s\n", strings.Join(ks, " | "))
		}
		if r == nil {
			x.res.PathsDone++
			return
		}
		switch r := r.(type) {
		case pathEnd:
			if x.cfg.trace {
				fmt.Fprintf(os.Stderr, "path end: %s\n", r.reason)
			}
			return
		case engineErr:
			x.inconclusive("engine: " + string(r) + clipLines(i.panicStack, 6))
			if x.cfg.trace {
				buf := make([]byte, 1<<14)
				n := runtime.Stack(buf, false)
				fmt.Fprintf(os.Stderr, "engine error: %s\n%s\n", string(r), buf[:n])
			}
			return
		default:
			msg := panicMessage(r)
			if looksLikeEngineBug(r, msg) {
				x.inconclusive("engine: " + msg + " @ " + lastPos(i))
				if x.cfg.trace {
					buf := make([]byte, 1<<14)
					n := runtime.Stack(buf, false)
					fmt.Fprintf(os.Stderr, "engine bug: %s\n%s\n", msg, buf[:n])
				}
				return
			}
			if x.cfg.panicsAre == "ignore" {
				x.res.PathsDone++
				return
			}
			// a reachable panic of the program under test
			func() {
				defer func() {
					if r2 := recover(); r2 != nil {
						if _, ok := r2.(pathEnd); !ok {
							x.inconclusive(fmt.Sprintf("engine: while reporting panic: %v", r2))
						}
					}
				}()
				x.violate("panic", "no-panic", msg+" @ "+lastPos(i)+i.panicStack, "")
			}()
		}
	}()
	defer func() {
		if x.sch != nil {
			x.sch.finish()
		}
	}()
	callSSA(i, nil, 0, fn, nil, nil)
	if x.sch != nil {
		x.sch.checkFailure()
	}
}

func panicMessage(r any) string {
	switch r := r.(type) {
	case targetPanic:
		return "panic: " + describePanicValue(r.v)
	case runtime.Error:
		return r.Error()
	case error:
		return r.Error()
	case string:
		return r
	}
	return fmt.Sprintf("%T: %v", r, r)
}

func looksLikeEngineBug(r any, msg string) bool {
	if _, ok := r.(targetPanic); ok {
		return false
	}
	if _, ok := r.(targetRuntimeError); ok {
		return false
	}
	if strings.Contains(msg, "main.") && strings.Contains(msg, "interface conversion") {
		return true
	}
	for _, p := range []string{"unexpected", "no code for function", "unknown built-in", "cannot call", "get: no value", "illegal map type",
		"cannot convert", "invalid binary op", "invalid unary op", "unsupported", "cannot range", "cannot widen", "illegal operand", "zero:", "constValue"} {
		if strings.Contains(msg, p) {
			return true
		}
	}
	return false
}
