package main

// gosym — bounded symbolic execution of Go functions from go/ssa, deciding
// harness assertions with an SMT solver.
//
// usage: gosym -dir /repo -pkg ./internal/machine -overlay virt=real[,virt=real] \
//              -run 'Harness_C24_.*' -out result.json

import (
	"encoding/json"
	"flag"
	"fmt"
	"go/types"
	"os"
	"regexp"
	"sort"
	"strings"
	"time"

	"golang.org/x/tools/go/packages"
	"golang.org/x/tools/go/ssa"
	"golang.org/x/tools/go/ssa/ssautil"
)

type runResult struct {
	Dir       string           `json:"dir"`
	Pkg       string           `json:"pkg"`
	Solver    string           `json:"solver"`
	LoadS     float64          `json:"load_s"`
	InitS     float64          `json:"init_s"`
	Harnesses []*harnessResult `json:"harnesses"`
	Errors    []string         `json:"errors,omitempty"`
	InitNotes []string         `json:"init_notes,omitempty"`
}

func (i *interpreter) isTarget(path string) bool {
	return strings.HasPrefix(path, "github.com/formancehq/ledger")
}

func main() {
	dir := flag.String("dir", "/repo", "module directory")
	pkgPat := flag.String("pkg", "", "package pattern holding the harnesses (e.g. ./internal/machine)")
	overlay := flag.String("overlay", "", "comma separated virtual=real overlay file pairs")
	run := flag.String("run", "^Harness_", "regexp selecting harness functions")
	out := flag.String("out", "", "result JSON file (default stdout)")
	solverBin := flag.String("solver", "z3-new", "solver binary (z3-new, z3, cvc5)")
	timeoutMS := flag.Int("timeout-ms", 30000, "per-query solver timeout")
	maxPaths := flag.Int("max-paths", 20000, "path bound per harness")
	maxDec := flag.Int("max-decisions", 400, "decision (unwinding) bound per path")
	maxViol := flag.Int("max-violations", 1, "stop a harness after this many violations")
	maxSteps := flag.Int64("max-steps", 50_000_000, "instruction bound per path")
	budget := flag.Duration("budget", 0, "wall-clock budget per harness (0 = none)")
	trace := flag.Bool("trace", false, "verbose engine diagnostics")
	itrace := flag.Bool("itrace", false, "trace every instruction")
	smtlog := flag.String("smtlog", "", "write the solver dialogue to this file")
	stubs := flag.String("stub", "go.opentelemetry.io/,github.com/sirupsen/logrus,github.com/formancehq/go-libs/v5/pkg/observe", "comma separated package path prefixes whose functions are no-op stubs")
	noInit := flag.String("noinit", "runtime,internal/,syscall,os,sync,reflect,unsafe,crypto/,net,vendor/,golang.org/x/sys,golang.org/x/net,google.golang.org,github.com/jackc,github.com/uptrace,database/sql", "comma separated package path prefixes whose init is skipped")
	tags := flag.String("tags", "", "build tags")
	memo := flag.String("memo", "github.com/formancehq/ledger/internal/machine/script/compiler.Compile,github.com/formancehq/ledger/internal/machine/script/compiler.CompileFull,regexp.MustCompile,regexp.Compile", "comma separated pure functions memoised across paths")
	labelsRe := flag.String("labels", "", "only check assertions whose label matches this regexp")
	maxWitness := flag.Int("witnesses", 2, "concrete witnesses of complete paths kept per harness")
	flag.Parse()

	res := &runResult{Dir: *dir, Pkg: *pkgPat, Solver: *solverBin}
	fail := func(format string, a ...any) {
		res.Errors = append(res.Errors, fmt.Sprintf(format, a...))
		writeResult(*out, res)
		os.Exit(3)
	}
	for _, p := range strings.Split(*stubs, ",") {
		if p != "" {
			stubPrefixes = append(stubPrefixes, p)
		}
	}

	for _, p := range strings.Split(*memo, ",") {
		if p != "" {
			memoFns[p] = true
		}
	}
	t0 := time.Now()
	ov := map[string][]byte{}
	if *overlay != "" {
		for _, pair := range strings.Split(*overlay, ",") {
			kv := strings.SplitN(pair, "=", 2)
			if len(kv) != 2 {
				fail("bad overlay pair %q", pair)
			}
			b, err := os.ReadFile(kv[1])
			if err != nil {
				fail("overlay: %v", err)
			}
			ov[kv[0]] = b
		}
	}
	cfg := &packages.Config{
		Mode:    packages.LoadAllSyntax,
		Dir:     *dir,
		Overlay: ov,
		Env:     append(os.Environ(), "GOFLAGS=-mod=mod", "GOPROXY=off"),
	}
	if *tags != "" {
		cfg.BuildFlags = []string{"-tags=" + *tags}
	}
	initial, err := packages.Load(cfg, strings.Split(*pkgPat, ",")...)
	if err != nil {
		fail("load: %v", err)
	}
	nerr := 0
	packages.Visit(initial, nil, func(p *packages.Package) {
		for _, e := range p.Errors {
			if nerr < 20 {
				res.Errors = append(res.Errors, e.Error())
			}
			nerr++
		}
	})
	if nerr > 0 {
		writeResult(*out, res)
		os.Exit(3)
	}
	prog, pkgs := ssautil.AllPackages(initial, ssa.InstantiateGenerics|ssa.SanityCheckFunctions*0)
	prog.Build()
	res.LoadS = time.Since(t0).Seconds()

	mode := Mode(0)
	if *itrace {
		mode |= EnableTracing
	}
	i := &interpreter{
		prog:    prog,
		globals: make(map[*ssa.Global]*value),
		mode:    mode,
		sizes:   &types.StdSizes{WordSize: 8, MaxAlign: 8},
	}
	theInterp = i
	var noInitPrefixes []string
	for _, p := range strings.Split(*noInit, ",") {
		if p != "" {
			noInitPrefixes = append(noInitPrefixes, p)
		}
	}
	i.skipInit = func(path string) bool {
		for _, p := range noInitPrefixes {
			if strings.HasPrefix(path, p) {
				return true
			}
		}
		for _, p := range stubPrefixes {
			if strings.HasPrefix(path, p) {
				return true
			}
		}
		return false
	}
	if rp := prog.ImportedPackage("runtime"); rp != nil {
		i.runtimeErrorString = rp.Type("errorString").Object().Type()
	}
	initReflect(i)
	for _, pkg := range prog.AllPackages() {
		for _, m := range pkg.Members {
			if g, ok := m.(*ssa.Global); ok {
				cell := zero(mustDeref(g.Type()))
				i.globals[g] = &cell
			}
		}
	}

	// run package initialisers once
	t1 := time.Now()
	dummy := &harnessResult{Reach: map[string]int{}, Asserts: map[string]*assertStat{}, funcSet: map[string]bool{}, intrSet: map[string]bool{}, stubSet: map[string]bool{}}
	for _, pkg := range pkgs {
		if pkg == nil {
			continue
		}
		X = &executor{res: dummy, cfg: &config{maxDecisions: 1 << 30}, nameCount: map[string]int{}}
		func() {
			defer func() {
				if r := recover(); r != nil {
					res.InitNotes = append(res.InitNotes, fmt.Sprintf("init of %s: %s @ %s", pkg.Pkg.Path(), panicMessage(r), lastPos(i)))
				}
			}()
			call(i, nil, 0, pkg.Func("init"), nil)
		}()
	}
	res.InitNotes = append(res.InitNotes, i.initNotes...)
	res.InitNotes = append(res.InitNotes, dummy.Inconclusive...)
	res.InitS = time.Since(t1).Seconds()

	var logw *os.File
	if *smtlog != "" {
		logw, err = os.Create(*smtlog)
		if err != nil {
			fail("smtlog: %v", err)
		}
		defer logw.Close()
	}
	var sol *solver
	if logw != nil {
		sol = newSolver(*solverBin, *timeoutMS, logw)
	} else {
		sol = newSolver(*solverBin, *timeoutMS, nil)
	}
	defer sol.close()

	re, err := regexp.Compile(*run)
	if err != nil {
		fail("bad -run: %v", err)
	}
	type hf struct {
		name string
		fn   *ssa.Function
	}
	var hs []hf
	for _, pkg := range pkgs {
		if pkg == nil {
			continue
		}
		for name, m := range pkg.Members {
			if fn, ok := m.(*ssa.Function); ok && re.MatchString(name) && fn.Signature.Params().Len() == 0 && fn.Blocks != nil {
				hs = append(hs, hf{name, fn})
			}
		}
	}
	sort.Slice(hs, func(a, b int) bool { return hs[a].name < hs[b].name })
	if len(hs) == 0 {
		fail("no harness matches %q", *run)
	}
	for _, h := range hs {
		c := &config{maxPaths: *maxPaths, maxDecisions: *maxDec, maxViol: *maxViol, maxSteps: *maxSteps, panicsAre: "violation", trace: *trace, maxWitness: *maxWitness}
		if *labelsRe != "" {
			c.labels = regexp.MustCompile(*labelsRe)
		}
		if *budget > 0 {
			c.deadline = time.Now().Add(*budget)
		}
		r := runHarness(i, h.fn, h.name, sol, c)
		res.Harnesses = append(res.Harnesses, r)
		fmt.Fprintf(os.Stderr, "gosym: %-50s paths=%d done=%d queries=%d viol=%d inconclusive=%d wall=%.1fs\n",
			h.name, r.Paths, r.PathsDone, r.Queries, len(r.Violations), len(r.Inconclusive), r.WallS)
	}
	writeResult(*out, res)
}

func writeResult(out string, res *runResult) {
	b, _ := json.MarshalIndent(res, "", " ")
	if out == "" {
		os.Stdout.Write(b)
		os.Stdout.WriteString("\n")
		return
	}
	os.WriteFile(out, b, 0o644)
}
