package main

// Structured symbolic strings.
//
// A symbolic string built by concatenating literals and decimal renderings of
// integers ("USD/2 " ++ itoa(x)) keeps its construction as a list of pieces,
// keyed by its SMT term. Splitting on a separator that cannot occur inside a
// rendered integer, parsing a rendered integer back (big.Int.SetString), and
// comparing two such strings are then decided on the structure — (= x y) on
// the integer terms — instead of through str.from_int / str.to_int, which the
// solvers handle poorly. Every rule below is an equivalence, so nothing is
// over- or under-approximated; when no rule applies the SMT string term is used.

import (
	"regexp"
	"strings"
)

var strStruct = map[string][]piece{}

// intPieceTerm is the canonical string term of the decimal rendering of integer term it.
func intPieceTerm(it string) string {
	return "(ite (< " + it + " 0) (str.++ \"-\" (str.from_int (- " + it + "))) (str.from_int " + it + "))"
}

func regIntString(it string) string {
	t := intPieceTerm(it)
	if _, ok := strStruct[t]; !ok {
		strStruct[t] = []piece{{s: t, sym: true, it: it}}
	}
	return t
}

func normPieces(ps []piece) []piece {
	var out []piece
	for _, p := range ps {
		if p.sym {
			sub, ok := strStruct[p.s]
			switch {
			case ok && len(sub) == 1 && sub[0].s == p.s:
				out = append(out, sub[0])
			case ok:
				out = append(out, normPieces(sub)...)
			default:
				out = append(out, p)
			}
			continue
		}
		if p.s == "" {
			continue
		}
		if n := len(out); n > 0 && !out[n-1].sym {
			out[n-1].s += p.s
			continue
		}
		out = append(out, p)
	}
	return out
}

// structOf returns the pieces of a string value when they are known.
func structOf(v value) ([]piece, bool) {
	switch s := v.(type) {
	case string:
		if s == "" {
			return nil, true
		}
		return []piece{{s: s}}, true
	case symStr:
		ps, ok := strStruct[s.t]
		return ps, ok
	}
	return nil, false
}

func onlyIntPieces(ps []piece) bool {
	for _, p := range ps {
		if p.sym && p.it == "" {
			return false
		}
	}
	return true
}

func cannotOccurInInt(sep string) bool {
	if sep == "" {
		return false
	}
	for i := 0; i < len(sep); i++ {
		c := sep[i]
		if c == '-' || c >= '0' && c <= '9' {
			return false
		}
	}
	return true
}

// splitStruct splits a structured string on sep (n as in strings.SplitN; n<0 = all).
// ok is false when the rule does not apply.
func splitStruct(v value, sep string, n int) ([]value, bool) {
	if _, isSym := v.(symStr); !isSym {
		return nil, false
	}
	ps, ok := structOf(v)
	if !ok || n == 0 || sep == "" {
		return nil, false
	}
	for _, p := range ps {
		if !p.sym {
			continue
		}
		if p.it != "" {
			if !cannotOccurInInt(sep) {
				return nil, false
			}
			continue
		}
		// an arbitrary symbolic piece is atomic for the split only if it provably cannot contain
		// (or, with its neighbours, complete) the separator: ask the solver under the path condition
		if len(sep) != 1 {
			return nil, false
		}
		r := X.sol.check(X.pc, "(str.contains "+p.s+" "+smtStrLit(sep)+")")
		X.sol.popQuery()
		if r != "unsat" {
			return nil, false
		}
	}
	var parts [][]piece
	cur := []piece{}
	for _, p := range ps {
		if p.sym {
			cur = append(cur, p)
			continue
		}
		rest := p.s
		for {
			if n > 0 && len(parts) == n-1 {
				break
			}
			i := strings.Index(rest, sep)
			if i < 0 {
				break
			}
			cur = append(cur, piece{s: rest[:i]})
			parts = append(parts, cur)
			cur = []piece{}
			rest = rest[i+len(sep):]
		}
		cur = append(cur, piece{s: rest})
	}
	parts = append(parts, cur)
	out := make([]value, len(parts))
	for i, p := range parts {
		out[i] = joinPieces(p)
	}
	return out, true
}

var canonInt = `(-?(?:0|[1-9][0-9]*))`

// unifyEq decides x == y on the structure. ok is false when no rule applies.
func unifyEq(x, y value) (value, bool) {
	_, xs := x.(symStr)
	_, ys := y.(symStr)
	if !xs && !ys {
		return nil, false
	}
	px, okx := structOf(x)
	py, oky := structOf(y)
	if !okx || !oky || !onlyIntPieces(px) || !onlyIntPieces(py) {
		return nil, false
	}
	// concrete vs structured: match the concrete text against the skeleton
	if !xs || !ys {
		var conc string
		var st []piece
		if xs {
			conc, st = y.(string), px
		} else {
			conc, st = x.(string), py
		}
		// the rule needs literal neighbours of integer pieces not to look like part of a number
		for i, p := range st {
			if !p.sym {
				continue
			}
			if i > 0 && st[i-1].sym {
				return nil, false
			}
			if i > 0 {
				l := st[i-1].s
				if c := l[len(l)-1]; c == '-' || c >= '0' && c <= '9' {
					return nil, false
				}
			}
			if i+1 < len(st) {
				if st[i+1].sym {
					return nil, false
				}
				if c := st[i+1].s[0]; c >= '0' && c <= '9' {
					return nil, false
				}
			}
		}
		var re strings.Builder
		re.WriteString("^")
		for _, p := range st {
			if p.sym {
				re.WriteString(canonInt)
			} else {
				re.WriteString(regexp.QuoteMeta(p.s))
			}
		}
		re.WriteString("$")
		m := regexp.MustCompile(re.String()).FindStringSubmatch(conc)
		if m == nil {
			return false, true
		}
		if m[0] == "-0" {
			return false, true
		}
		acc := "true"
		k := 1
		for _, p := range st {
			if p.sym {
				if m[k] == "-0" {
					return false, true
				}
				lit := m[k]
				if strings.HasPrefix(lit, "-") {
					lit = "(- " + lit[1:] + ")"
				}
				acc = sAnd(acc, "(= "+p.it+" "+lit+")")
				k++
			}
		}
		return mkBool(acc), true
	}
	// structured vs structured with the same skeleton
	if len(px) != len(py) {
		return nil, false
	}
	acc := "true"
	for i := range px {
		if px[i].sym != py[i].sym {
			return nil, false
		}
		if !px[i].sym {
			if px[i].s != py[i].s {
				// different literal skeletons: equality could still hold through digit
				// boundaries ("1" ++ itoa(x) vs itoa(y)); leave it to the solver
				return nil, false
			}
			continue
		}
		acc = sAnd(acc, "(= "+px[i].it+" "+py[i].it+")")
	}
	// same skeleton: pieces are separated by identical literals; equality of the
	// strings is equivalent to equality of the integers when no literal adjacent
	// to an integer piece starts/ends with a digit or '-'
	for i, p := range px {
		if p.sym {
			if i > 0 && px[i-1].sym {
				return nil, false
			}
			if i > 0 {
				l := px[i-1].s
				if c := l[len(l)-1]; c == '-' || c >= '0' && c <= '9' {
					return nil, false
				}
			}
			if i+1 < len(px) && !px[i+1].sym {
				if c := px[i+1].s[0]; c >= '0' && c <= '9' {
					return nil, false
				}
			}
			if i+1 < len(px) && px[i+1].sym {
				return nil, false
			}
		}
	}
	return mkBool(acc), true
}

// intOfString returns the integer term when the string is exactly one rendered integer.
func intOfString(v value) (string, bool) {
	s, ok := v.(symStr)
	if !ok {
		return "", false
	}
	ps, ok := strStruct[s.t]
	if !ok || len(ps) != 1 || ps[0].it == "" {
		return "", false
	}
	return ps[0].it, true
}
