package main

// Logical threads.
//
// Each interpreted goroutine runs on a host goroutine, but a baton guarantees
// that exactly one of them executes at any time. Context switches happen only
// at yield points (channel operations, select, mutex/waitgroup operations,
// explicit verifYield, and the yield hook used by the store model). The choice
// of the next thread is a decision of the executor (X.choose), so all
// interleavings at yield points are enumerated like any other fork.

import (
	"strings"
	"fmt"
	"go/types"

	"golang.org/x/tools/go/ssa"
)

type thread struct {
	paused  bool // stopped at an explicit yield (verifYield) under verifYieldChoice: resumed by a decision only
	id      int
	resume  chan struct{}
	done    bool
	enabled func() bool // nil = runnable
	name    string
}

type scheduler struct {
	timers     []*chanv // pending time.After channels (fire when every thread is blocked)
	noBackground bool   // schedule `go` threads of the code under test like harness threads
	choiceAtYields bool // at an explicit yield (verifYield) every runnable thread may be chosen, background ones included
	atExplicit   bool
	preemptAll bool
	explicit   bool
	threads   []*thread
	cur       *thread
	dead      bool
	failure   any // panic raised in a non-main thread
	mainWake  chan struct{}
	preempts  int
	maxPreempt int
}

type chanv struct {
	buf    []value
	cap    int
	closed bool
	taken  int // number of items received so far (for rendezvous)
	sent   int
	recvWaiters int
	timer  bool // a time.After channel that has not fired yet
}

func (x *executor) sched() *scheduler {
	if x.sch == nil {
		t := &thread{id: 0, resume: make(chan struct{}, 1), name: "main"}
		x.sch = &scheduler{threads: []*thread{t}, cur: t, maxPreempt: -1}
	}
	return x.sch
}

func (s *scheduler) runnable() []*thread {
	var r []*thread
	for _, t := range s.threads {
		if !t.done && (t.enabled == nil || t.enabled()) {
			r = append(r, t)
		}
	}
	return r
}

// yield is called by the running thread at a yield point. cond (may be nil)
// tells when this thread can continue.
func (s *scheduler) yield(cond func() bool, why string) {
	// Cooperative by default: an operation that does not block (a send on a buffered channel with
	// room, a receive with data ready, a free mutex) continues without a context switch. Context
	// switches happen where a thread blocks or exits and at explicit yield points (verifYield, the
	// store model's statement boundaries). verifPreempt(true) makes every synchronisation
	// operation a switch point.
	if !s.preemptAll && !s.explicit && (cond == nil || cond()) {
		return
	}
	s.atExplicit = s.explicit
	s.explicit = false
	me := s.cur
	me.enabled = cond
	me.paused = s.atExplicit && s.choiceAtYields
	s.dispatch(me, why)
	me.enabled = nil
	me.paused = false
}

// dispatch picks the next thread and transfers the baton. It returns when me is resumed.
func (s *scheduler) dispatch(me *thread, why string) {
	if s.dead {
		panic(pathEnd{"path is being torn down"})
	}
	r := s.runnable()
	for len(r) == 0 && len(s.timers) > 0 {
		// nobody can run: time passes, a pending timer fires (which one is a decision)
		k := 0
		if len(s.timers) > 1 {
			k = X.choose(fmt.Sprintf("timer:%d", len(s.timers)), len(s.timers))
		}
		t := s.timers[k]
		s.timers = append(s.timers[:k:k], s.timers[k+1:]...)
		t.timer = false
		t.buf = append(t.buf, zero(X.timeType))
		r = s.runnable()
	}
	if len(r) == 0 {
		// deadlock: nobody can run
		s.dead = true
		X.res.Notes = appendUniq(X.res.Notes, "deadlock reached on some path: "+why)
		X.deadlocks++
		panic(targetRuntimeError("deadlock: all logical threads are blocked (" + why + ")"))
	}
	var next *thread
	s.atExplicit = false
	if s.choiceAtYields {
		// threads stopped at an explicit yield wait for a decision; the others go on eagerly (background ones first)
		var paused, eager []*thread
		for _, t := range r {
			if t.paused {
				paused = append(paused, t)
			} else {
				eager = append(eager, t)
			}
		}
		var cont *thread // who continues if no paused thread is resumed
		if bg := s.background(eager); bg != nil {
			cont = bg
		} else if len(eager) > 0 {
			cont = eager[0]
			if len(eager) > 1 {
				cont = eager[X.choose(fmt.Sprintf("sched@%s:%d", why, len(eager)), len(eager))]
			}
		}
		opts := paused
		if cont != nil {
			opts = append([]*thread{cont}, paused...)
		}
		next = opts[0]
		if len(opts) > 1 {
			next = opts[X.choose(fmt.Sprintf("resume@%s:%d", why, len(opts)), len(opts))]
		}
	} else if bg := s.background(r); bg != nil {
		next = bg
	} else if len(r) == 1 {
		next = r[0]
	} else {
		// canonical order: by id; choice is a decision
		k := X.choose(fmt.Sprintf("sched@%s:%d", why, len(r)), len(r))
		next = r[k]
	}
	if next == me {
		return
	}
	s.cur = next
	next.resume <- struct{}{}
	<-me.resume
	if s.dead {
		panic(pathEnd{"path is being torn down"})
	}
}

// background: unless every synchronisation operation is a switch point (verifPreempt), goroutines started by a `go`
// statement of the code under test (as opposed to the harness's verifSpawn threads) run as soon as some thread gives
// up the baton, without a scheduling decision: in the harnesses that rely on this they only drain a channel of their
// own (the VM's Printer) and commute with everything else.
func (s *scheduler) background(r []*thread) *thread {
	if s.preemptAll || s.noBackground {
		return nil
	}
	for _, t := range r {
		if strings.HasPrefix(t.name, "go@") {
			return t
		}
	}
	return nil
}

// spawn starts f as a new logical thread; the spawner keeps the baton.
func (s *scheduler) spawn(name string, f func()) {
	t := &thread{id: len(s.threads), resume: make(chan struct{}, 1), name: name}
	s.threads = append(s.threads, t)
	go func() {
		<-t.resume
		defer func() {
			r := recover()
			t.done = true
			if r != nil {
				if _, ok := r.(pathEnd); !ok || !s.dead {
					if s.failure == nil {
						s.failure = r
					}
				}
				s.dead = true
			}
			// hand the baton on
			if s.dead {
				// wake main so that it can tear the path down
				main := s.threads[0]
				if !main.done {
					s.cur = main
					select {
					case main.resume <- struct{}{}:
					default:
					}
				}
				return
			}
			rn := s.runnable()
			if len(rn) == 0 {
				// everything else blocked: report through main
				s.dead = true
				if s.failure == nil {
					s.failure = targetRuntimeError("deadlock: all logical threads are blocked (thread exit)")
				}
				main := s.threads[0]
				s.cur = main
				select {
				case main.resume <- struct{}{}:
				default:
				}
				return
			}
			var next *thread
			if bg := s.background(rn); bg != nil {
				next = bg
			} else if len(rn) == 1 {
				next = rn[0]
			} else {
				func() {
					defer func() {
						if r := recover(); r != nil {
							s.dead = true
							if s.failure == nil {
								s.failure = r
							}
							next = s.threads[0]
						}
					}()
					k := X.choose(fmt.Sprintf("sched@exit:%d", len(rn)), len(rn))
					next = rn[k]
				}()
			}
			s.cur = next
			next.resume <- struct{}{}
		}()
		if s.dead {
			return
		}
		f()
	}()
}

// finish is called by the main thread when the harness returns or panics:
// it tears down every parked thread.
func (s *scheduler) finish() {
	s.dead = true
	for _, t := range s.threads[1:] {
		if !t.done {
			select {
			case t.resume <- struct{}{}:
			default:
			}
		}
	}
}

// joinAll lets all other threads run to completion (used at the end of a harness
// that wants quiescence): main yields until every other thread is done.
func (s *scheduler) joinAll() {
	s.yield(func() bool {
		for _, t := range s.threads[1:] {
			if !t.done {
				return false
			}
		}
		return true
	}, "join")
	s.checkFailure()
}

func (s *scheduler) checkFailure() {
	if s.failure != nil {
		f := s.failure
		s.failure = nil
		panic(f)
	}
}

// ---- channels ----

func makeChan(capacity int) *chanv { return &chanv{cap: capacity} }

func chanSend(c *chanv, v value) {
	s := X.sched()
	if c == nil {
		s.yield(func() bool { return false }, "send on nil chan")
	}
	if c.closed {
		panic(targetRuntimeError("send on closed channel"))
	}
	if c.cap > 0 {
		s.yield(func() bool { return len(c.buf) < c.cap || c.closed }, "chan send")
		s.checkFailure()
		if c.closed {
			panic(targetRuntimeError("send on closed channel"))
		}
		c.buf = append(c.buf, v)
		return
	}
	// unbuffered: offer the value, then wait until a receiver has taken it
	s.yield(func() bool { return len(c.buf) == 0 || c.closed }, "chan send (offer)")
	s.checkFailure()
	if c.closed {
		panic(targetRuntimeError("send on closed channel"))
	}
	c.buf = append(c.buf, v)
	c.sent++
	mine := c.sent
	s.yield(func() bool { return c.taken >= mine }, "chan send (rendezvous)")
	s.checkFailure()
}

func chanRecvReady(c *chanv) bool { return c != nil && (len(c.buf) > 0 || c.closed) }

func chanRecv(c *chanv) (value, bool) {
	s := X.sched()
	if c == nil {
		s.yield(func() bool { return false }, "recv on nil chan")
	}
	c.recvWaiters++
	s.yield(func() bool { return chanRecvReady(c) }, "chan recv")
	c.recvWaiters--
	s.checkFailure()
	return chanTake(c)
}

func chanTake(c *chanv) (value, bool) {
	if len(c.buf) > 0 {
		v := c.buf[0]
		c.buf = c.buf[1:]
		c.taken++
		return v, true
	}
	return nil, false // closed
}

func chanClose(c *chanv) {
	if c == nil {
		panic(targetRuntimeError("close of nil channel"))
	}
	if c.closed {
		panic(targetRuntimeError("close of closed channel"))
	}
	c.closed = true
}

// doSelect implements the select statement over logical channels.
func doSelect(fr *frame, instr *ssa.Select) value {
	s := X.sched()
	type st struct {
		c    *chanv
		send bool
		v    value
	}
	var sts []st
	for _, state := range instr.States {
		c, _ := fr.get(state.Chan).(*chanv)
		e := st{c: c, send: state.Dir == types.SendOnly}
		if e.send {
			e.v = fr.get(state.Send)
		}
		sts = append(sts, e)
	}
	ready := func() []int {
		var r []int
		for i, e := range sts {
			if e.c == nil {
				continue
			}
			if e.send {
				if e.c.closed || (e.c.cap > 0 && len(e.c.buf) < e.c.cap) || (e.c.cap == 0 && e.c.recvWaiters > 0 && len(e.c.buf) == 0) {
					r = append(r, i)
				}
			} else if chanRecvReady(e.c) {
				r = append(r, i)
			}
		}
		return r
	}
	// a select is a scheduling point
	s.yield(nil, "select")
	s.checkFailure()
	if instr.Blocking {
		for _, e := range sts {
			if !e.send && e.c != nil {
				e.c.recvWaiters++
			}
		}
		s.yield(func() bool { return len(ready()) > 0 }, "select (blocked)")
		for _, e := range sts {
			if !e.send && e.c != nil {
				e.c.recvWaiters--
			}
		}
		s.checkFailure()
	}
	r := ready()
	chosen := -1
	var recv value
	recvOk := false
	if len(r) > 0 {
		k := 0
		if len(r) > 1 {
			k = X.choose(fmt.Sprintf("select:%d", len(r)), len(r))
		}
		chosen = r[k]
		e := sts[chosen]
		if e.send {
			if e.c.closed {
				panic(targetRuntimeError("send on closed channel"))
			}
			e.c.buf = append(e.c.buf, e.v)
			if e.c.cap == 0 {
				e.c.sent++
				mine := e.c.sent
				s.yield(func() bool { return e.c.taken >= mine }, "select send (rendezvous)")
				s.checkFailure()
			}
		} else {
			recv, recvOk = chanTake(e.c)
		}
	}
	res := tuple{chosen, recvOk}
	for i, state := range instr.States {
		if state.Dir == types.RecvOnly {
			var v value
			if i == chosen && recvOk {
				v = recv
			} else {
				v = zero(state.Chan.Type().Underlying().(*types.Chan).Elem())
			}
			res = append(res, v)
		}
	}
	return res
}
