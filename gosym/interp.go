// Copyright 2013 The Go Authors. All rights reserved.
// Use of this source code is governed by a BSD-style
// license that can be found in the LICENSE file.

// Package ssa/interp defines an interpreter for the SSA
// representation of Go programs.
//
// This interpreter is provided as an adjunct for testing the SSA
// construction algorithm.  Its purpose is to provide a minimal
// metacircular implementation of the dynamic semantics of each SSA
// instruction.  It is not, and will never be, a production-quality Go
// interpreter.
//
// The following is a partial list of Go features that are currently
// unsupported or incomplete in the interpreter.
//
// * Unsafe operations, including all uses of unsafe.Pointer, are
// impossible to support given the "boxed" value representation we
// have chosen.
//
// * The reflect package is only partially implemented.
//
// * The "testing" package is no longer supported because it
// depends on low-level details that change too often.
//
// * "sync/atomic" operations are not atomic due to the "boxed" value
// representation: it is not possible to read, modify and write an
// interface value atomically. As a consequence, Mutexes are currently
// broken.
//
// * recover is only partially implemented.  Also, the interpreter
// makes no attempt to distinguish target panics from interpreter
// crashes.
//
// * the sizes of the int, uint and uintptr types in the target
// program are assumed to be the same as those of the interpreter
// itself.
//
// * all values occupy space, even those of types defined by the spec
// to have zero size, e.g. struct{}.  This can cause asymptotic
// performance degradation.
//
// * os.Exit is implemented using panic, causing deferred functions to
// run.
package main

import (
	"fmt"
	"go/token"
	"go/types"
	"os"
	"runtime"
	"slices"
	_ "unsafe"

	"golang.org/x/tools/go/ssa"
)

// memoFns: pure functions of concrete scalar arguments whose result is computed
// once and shared by all paths (e.g. the Numscript compiler). The shared result
// must not be mutated by the code under test.
var memoFns = map[string]bool{}
var memoTab = map[string]value{}

func mustDeref(t types.Type) types.Type {
	if p, ok := t.Underlying().(*types.Pointer); ok {
		return p.Elem()
	}
	panic(engineErr("mustDeref: not a pointer: " + t.String()))
}

type continuation int

const (
	kNext continuation = iota
	kReturn
	kJump
)

// Mode is a bitmask of options affecting the interpreter.
type Mode uint

const (
	DisableRecover Mode = 1 << iota // Disable recover() in target programs; show interpreter crash instead.
	EnableTracing                   // Print a trace of all instructions as they are interpreted.
)

type methodSet map[string]*ssa.Function

// State shared between all interpreted goroutines.
type interpreter struct {
	osArgs             []value                // the value of os.Args
	prog               *ssa.Program           // the SSA program
	globals            map[*ssa.Global]*value // addresses of global variables (immutable)
	mode               Mode                   // interpreter options
	reflectPackage     *ssa.Package           // the fake reflect package
	errorMethods       methodSet              // the method set of reflect.error, which implements the error interface.
	rtypeMethods       methodSet              // the method set of rtype, which implements the reflect.Type interface.
	runtimeErrorString types.Type             // the runtime.errorString type (iff "runtime" is present)
	sizes              types.Sizes            // the effective type-sizing function
	goroutines         int32                  // atomically updated
	lastInstr          ssa.Instruction
	lastFn             *ssa.Function
	unwinding          bool
	panicStack         string
	inited             map[*ssa.Package]bool
	skipInit           func(pkg string) bool
	depth              int
	inInit             map[*ssa.Package]bool
	initNotes          []string
}

type deferred struct {
	fn    value
	args  []value
	instr *ssa.Defer
	tail  *deferred
}

type frame struct {
	i                *interpreter
	caller           *frame
	fn               *ssa.Function
	block, prevBlock *ssa.BasicBlock
	env              map[ssa.Value]value // dynamic values of SSA variables
	locals           []value
	defers           *deferred
	result           value
	panicking        bool
	panic            any
	phitemps         []value // temporaries for parallel phi assignment
}

func (fr *frame) get(key ssa.Value) value {
	switch key := key.(type) {
	case nil:
		// Hack; simplifies handling of optional attributes
		// such as ssa.Slice.{Low,High}.
		return nil
	case *ssa.Function, *ssa.Builtin:
		return key
	case *ssa.Const:
		return constValue(key)
	case *ssa.Global:
		if r, ok := fr.i.globals[key]; ok {
			return r
		}
	}
	if r, ok := fr.env[key]; ok {
		return r
	}
	panic(fmt.Sprintf("get: no value for %T: %v", key, key.Name()))
}

// runDefer runs a deferred call d.
// It always returns normally, but may set or clear fr.panic.
func (fr *frame) runDefer(d *deferred) {
	if fr.i.mode&EnableTracing != 0 {
		fmt.Fprintf(os.Stderr, "%s: invoking deferred function call\n",
			fr.i.prog.Fset.Position(d.instr.Pos()))
	}
	var ok bool
	defer func() {
		if !ok {
			// Deferred call created a new state of panic.
			r := recover()
			if isEnginePanic(r) {
				panic(r)
			}
			fr.panicking = true
			fr.panic = r
		}
	}()
	call(fr.i, fr, d.instr.Pos(), d.fn, d.args)
	ok = true
}

// runDefers executes fr's deferred function calls in LIFO order.
//
// On entry, fr.panicking indicates a state of panic; if
// true, fr.panic contains the panic value.
//
// On completion, if a deferred call started a panic, or if no
// deferred call recovered from a previous state of panic, then
// runDefers itself panics after the last deferred call has run.
//
// If there was no initial state of panic, or it was recovered from,
// runDefers returns normally.
func (fr *frame) runDefers() {
	for d := fr.defers; d != nil; d = d.tail {
		fr.runDefer(d)
	}
	fr.defers = nil
	if fr.panicking {
		panic(fr.panic) // new panic, or still panicking
	}
}

// lookupMethod returns the method set for type typ, which may be one
// of the interpreter's fake types.
func lookupMethod(i *interpreter, typ types.Type, meth *types.Func) *ssa.Function {
	switch typ {
	case rtypeType:
		return i.rtypeMethods[meth.Id()]
	case errorType:
		return i.errorMethods[meth.Id()]
	}
	return i.prog.LookupMethod(typ, meth.Pkg(), meth.Name())
}

// visitInstr interprets a single ssa.Instruction within the activation
// record frame.  It returns a continuation value indicating where to
// read the next instruction from.
func visitInstr(fr *frame, instr ssa.Instruction) continuation {
	switch instr := instr.(type) {
	case *ssa.DebugRef:
		// no-op

	case *ssa.UnOp:
		fr.env[instr] = unop(instr, fr.get(instr.X))

	case *ssa.BinOp:
		fr.env[instr] = binop(instr.Op, instr.X.Type(), fr.get(instr.X), fr.get(instr.Y))

	case *ssa.Call:
		fn, args := prepareCall(fr, &instr.Call)
		fr.env[instr] = call(fr.i, fr, instr.Pos(), fn, args)

	case *ssa.ChangeInterface:
		fr.env[instr] = fr.get(instr.X)

	case *ssa.ChangeType:
		fr.env[instr] = fr.get(instr.X) // (can't fail)

	case *ssa.Convert:
		fr.env[instr] = conv(instr.Type(), instr.X.Type(), fr.get(instr.X))

	case *ssa.SliceToArrayPointer:
		fr.env[instr] = sliceToArrayPointer(instr.Type(), instr.X.Type(), fr.get(instr.X))

	case *ssa.MakeInterface:
		fr.env[instr] = iface{t: instr.X.Type(), v: fr.get(instr.X)}

	case *ssa.Extract:
		fr.env[instr] = fr.get(instr.Tuple).(tuple)[instr.Index]

	case *ssa.Slice:
		fr.env[instr] = slice(fr.get(instr.X), fr.get(instr.Low), fr.get(instr.High), fr.get(instr.Max))

	case *ssa.Return:
		switch len(instr.Results) {
		case 0:
		case 1:
			fr.result = fr.get(instr.Results[0])
		default:
			var res []value
			for _, r := range instr.Results {
				res = append(res, fr.get(r))
			}
			fr.result = tuple(res)
		}
		fr.block = nil
		return kReturn

	case *ssa.RunDefers:
		fr.runDefers()

	case *ssa.Panic:
		panic(targetPanic{fr.get(instr.X)})

	case *ssa.Send:
		chanSend(fr.get(instr.Chan).(*chanv), cloneValue(fr.get(instr.X)))

	case *ssa.Store:
		store(mustDeref(instr.Addr.Type()), fr.get(instr.Addr).(*value), fr.get(instr.Val))

	case *ssa.If:
		succ := 1
		if X.branch(fr.get(instr.Cond), "if") {
			succ = 0
		}
		fr.prevBlock, fr.block = fr.block, fr.block.Succs[succ]
		return kJump

	case *ssa.Jump:
		fr.prevBlock, fr.block = fr.block, fr.block.Succs[0]
		return kJump

	case *ssa.Defer:
		fn, args := prepareCall(fr, &instr.Call)
		defers := &fr.defers
		if into := fr.get(instr.DeferStack); into != nil {
			defers = into.(**deferred)
		}
		*defers = &deferred{
			fn:    fn,
			args:  args,
			instr: instr,
			tail:  *defers,
		}

	case *ssa.Go:
		fn, args := prepareCall(fr, &instr.Call)
		interp := fr.i
		pos := instr.Pos()
		if X.cfg != nil && X.cfg.trace {
			fmt.Fprintf(os.Stderr, "spawn go@%s%s\n", interp.prog.Fset.Position(pos), clipLines(targetStack(fr), 5))
		}
		X.sched().spawn(fmt.Sprintf("go@%s", interp.prog.Fset.Position(pos)), func() {
			call(interp, nil, pos, fn, args)
		})

	case *ssa.MakeChan:
		fr.env[instr] = makeChan(int(asInt64(fr.get(instr.Size))))

	case *ssa.Alloc:
		var addr *value
		if instr.Heap {
			// new
			addr = new(value)
			fr.env[instr] = addr
		} else {
			// local
			addr = fr.env[instr].(*value)
		}
		*addr = zero(mustDeref(instr.Type()))

	case *ssa.MakeSlice:
		capV := fr.get(instr.Cap)
		if _, sym := capV.(symInt); sym {
			// a symbolic capacity with a concrete length (make([]T, 0, len(symbolic))): the capacity is only a
			// reservation, the slice grows by append
			if _, symLen := fr.get(instr.Len).(symInt); !symLen {
				capV = fr.get(instr.Len)
			}
		}
		slice := make([]value, asInt64(capV))
		tElt := instr.Type().Underlying().(*types.Slice).Elem()
		for i := range slice {
			slice[i] = zero(tElt)
		}
		fr.env[instr] = slice[:asInt64(fr.get(instr.Len))]

	case *ssa.MakeMap:
		var reserve int64
		if instr.Reserve != nil {
			reserve = asInt64(fr.get(instr.Reserve))
		}
		if !fitsInt(reserve, fr.i.sizes) {
			panic(fmt.Sprintf("ssa.MakeMap.Reserve value %d does not fit in int", reserve))
		}
		fr.env[instr] = makeMap(instr.Type().Underlying().(*types.Map).Key(), reserve)

	case *ssa.Range:
		fr.env[instr] = rangeIter(fr.get(instr.X))

	case *ssa.Next:
		fr.env[instr] = fr.get(instr.Iter).(iter).next()

	case *ssa.FieldAddr:
		px := fr.get(instr.X).(*value)
		if px == nil {
			panic(targetRuntimeError("runtime error: invalid memory address or nil pointer dereference"))
		}
		fr.env[instr] = &(*px).(structure)[instr.Field]

	case *ssa.Field:
		fr.env[instr] = fr.get(instr.X).(structure)[instr.Field]

	case *ssa.IndexAddr:
		x := fr.get(instr.X)
		idx := fr.get(instr.Index)
		switch x := x.(type) {
		case []value:
			fr.env[instr] = &x[checkIndex(idx, len(x))]
		case *value: // *array
			if x == nil {
				panic(targetRuntimeError("runtime error: invalid memory address or nil pointer dereference"))
			}
			a := (*x).(array)
			fr.env[instr] = &a[checkIndex(idx, len(a))]
		default:
			panic(fmt.Sprintf("unexpected x type in IndexAddr: %T", x))
		}

	case *ssa.Index:
		x := fr.get(instr.X)
		idx := fr.get(instr.Index)

		switch x := x.(type) {
		case array:
			fr.env[instr] = x[checkIndex(idx, len(x))]
		case string:
			fr.env[instr] = x[checkIndex(idx, len(x))]
		case symStr:
			fr.env[instr] = symStrIndex(x, idx)
		case symAtom:
			fr.env[instr] = symStrIndex(symStr{atomStrTerm(x.t)}, idx)
		default:
			panic(fmt.Sprintf("unexpected x type in Index: %T", x))
		}

	case *ssa.Lookup:
		fr.env[instr] = lookup(instr, fr.get(instr.X), fr.get(instr.Index))

	case *ssa.MapUpdate:
		m := fr.get(instr.Map)
		key := fr.get(instr.Key)
		v := fr.get(instr.Value)
		switch m := m.(type) {
		case *omap:
			m.insert(key, v)
		default:
			panic(fmt.Sprintf("illegal map type: %T", m))
		}

	case *ssa.TypeAssert:
		fr.env[instr] = typeAssert(instr, fr.get(instr.X).(iface))

	case *ssa.MakeClosure:
		var bindings []value
		for _, binding := range instr.Bindings {
			bindings = append(bindings, fr.get(binding))
		}
		fr.env[instr] = &closure{instr.Fn.(*ssa.Function), bindings}

	case *ssa.Phi:
		panic(engineErr("unreachable: phi"))

	case *ssa.Select:
		fr.env[instr] = doSelect(fr, instr)

	default:
		panic(fmt.Sprintf("unexpected instruction: %T", instr))
	}

	// if val, ok := instr.(ssa.Value); ok {
	// 	fmt.Println(toString(fr.env[val])) // debugging
	// }

	return kNext
}

// prepareCall determines the function value and argument values for a
// function call in a Call, Go or Defer instruction, performing
// interface method lookup if needed.
func prepareCall(fr *frame, call *ssa.CallCommon) (fn value, args []value) {
	v := fr.get(call.Value)
	if call.Method == nil {
		// Function call.
		fn = v
	} else {
		// Interface method invocation.
		recv := v.(iface)
		if recv.t == nil {
			panic(targetRuntimeError("runtime error: invalid memory address or nil pointer dereference (method " + call.Method.Name() + " invoked on nil interface)"))
		}
		if _, isStub := recv.v.(stubObj); isStub {
			fn = &stubMethod{sig: call.Method.Type().(*types.Signature), name: call.Method.FullName()}
			for _, arg := range call.Args {
				args = append(args, fr.get(arg))
			}
			return
		}
		if f := lookupMethod(fr.i, recv.t, call.Method); f == nil {
			// Unreachable in well-typed programs.
			panic(fmt.Sprintf("method set for dynamic type %v does not contain %s", recv.t, call.Method))
		} else {
			fn = f
		}
		args = append(args, recv.v)
	}
	for _, arg := range call.Args {
		args = append(args, fr.get(arg))
	}
	return
}

// call interprets a call to a function (function, builtin or closure)
// fn with arguments args, returning its result.
// callpos is the position of the callsite.
func call(i *interpreter, caller *frame, callpos token.Pos, fn value, args []value) value {
	switch fn := fn.(type) {
	case *ssa.Function:
		if fn == nil {
			panic("call of nil function") // nil of func type
		}
		return callSSA(i, caller, callpos, fn, args, nil)
	case *closure:
		return callSSA(i, caller, callpos, fn.Fn, args, fn.Env)
	case *ssa.Builtin:
		return callBuiltin(caller, fn, args)
	case *stubMethod:
		if X != nil && X.res != nil {
			X.res.stubSet[fn.name] = true
		}
		return stubResults(fn.sig, args)
	}
	panic(fmt.Sprintf("cannot call %T", fn))
}

func loc(fset *token.FileSet, pos token.Pos) string {
	if pos == token.NoPos {
		return ""
	}
	return " at " + fset.Position(pos).String()
}

// callSSA interprets a call to function fn with arguments args,
// and lexical environment env, returning its result.
// callpos is the position of the callsite.
func callSSA(i *interpreter, caller *frame, callpos token.Pos, fn *ssa.Function, args []value, env []value) value {
	if i.mode&EnableTracing != 0 {
		fset := fn.Prog.Fset
		fmt.Fprintf(os.Stderr, "Entering %s%s.\n", fn, loc(fset, fn.Pos()))
		suffix := ""
		if caller != nil {
			suffix = ", resuming " + caller.fn.String() + loc(fset, callpos)
		}
		defer fmt.Fprintf(os.Stderr, "Leaving %s%s.\n", fn, suffix)
	}
	fr := &frame{
		i:      i,
		caller: caller, // for panic/recover
		fn:     fn,
	}
	if fn.Synthetic == "package initializer" && fn.Pkg != nil {
		if i.skipInit != nil && i.skipInit(fn.Pkg.Pkg.Path()) {
			return nil
		}
		if !i.inInit[fn.Pkg] {
			if i.inInit == nil {
				i.inInit = map[*ssa.Package]bool{}
			}
			i.inInit[fn.Pkg] = true
			// each package initialiser is protected on its own, so that one
			// failing dependency does not abort the initialisation of the rest
			defer func() {
				if r := recover(); r != nil {
					i.initNotes = append(i.initNotes, fmt.Sprintf("init of %s: %s @ %s", fn.Pkg.Pkg.Path(), panicMessage(r), lastPos(i)))
				}
			}()
		}
	}
	if fn.Parent() == nil {
		name := fn.String()
		if fn.Origin() != nil {
			name = fn.Origin().String()
		}
		if in := intrinsics[name]; in != nil {
			if X != nil && X.res != nil {
				X.res.intrSet[name] = true
			}
			if r := in(fr, args); r != (notHandled{}) {
				return r
			}
			// the intrinsic declined (e.g. all operands concrete): interpret the body
		} else if in := harnessAPI[fn.Name()]; in != nil && fn.Blocks == nil {
			return in(fr, args)
		}
		if ext := externals[name]; ext != nil {
			if X != nil && X.res != nil {
				X.res.intrSet[name] = true
			}
			return ext(fr, args)
		}
		if memoFns[name] {
			key := name
			ok := true
			for _, a := range args {
				switch a := a.(type) {
				case string:
					key += "\x00s:" + a
				case int:
					key += fmt.Sprintf("\x00i:%d", a)
				case bool:
					key += fmt.Sprintf("\x00b:%v", a)
				default:
					ok = false
				}
			}
			if ok {
				if r, hit := memoTab[key]; hit {
					return r
				}
				if fn.Blocks != nil {
					defer func(k string) {
						// only cache normal returns
						if fr.block == nil {
							memoTab[k] = fr.result
						}
					}(key)
				}
			}
		}
		if isStubbed(fn) {
			if X != nil && X.res != nil {
				X.res.stubSet[name] = true
			}
			return stubResults(fn.Signature, args)
		}
		if fn.Blocks == nil {
			panic(engineErr("no code for function: " + name))
		}
	}

	// generic function body?
	if fn.TypeParams().Len() > 0 && len(fn.TypeArgs()) == 0 {
		panic(engineErr("interp requires ssa.BuilderMode to include InstantiateGenerics to execute generics"))
	}
	if X != nil && X.res != nil {
		if p := fn.Package(); p != nil && i.isTarget(p.Pkg.Path()) {
			X.res.funcSet[fn.String()] = true
		} else if fn.Origin() != nil && fn.Origin().Package() != nil && i.isTarget(fn.Origin().Package().Pkg.Path()) {
			X.res.funcSet[fn.String()] = true
		}
	}
	i.depth++
	if i.depth > 2000 {
		panic(engineErr("call depth exceeded 2000 (unbounded recursion?)"))
	}
	defer func() { i.depth-- }()

	fr.env = make(map[ssa.Value]value)
	fr.block = fn.Blocks[0]
	fr.locals = make([]value, len(fn.Locals))
	for i, l := range fn.Locals {
		fr.locals[i] = zero(mustDeref(l.Type()))
		fr.env[l] = &fr.locals[i]
	}
	for i, p := range fn.Params {
		fr.env[p] = args[i]
	}
	for i, fv := range fn.FreeVars {
		fr.env[fv] = env[i]
	}
	for fr.block != nil {
		runFrame(fr)
	}
	return fr.result
}

// runFrame executes SSA instructions starting at fr.block and
// continuing until a return, a panic, or a recovered panic.
//
// After a panic, runFrame panics.
//
// After a normal return, fr.result contains the result of the call
// and fr.block is nil.
//
// A recovered panic in a function without named return parameters
// (NRPs) becomes a normal return of the zero value of the function's
// result type.
//
// After a recovered panic in a function with NRPs, fr.result is
// undefined and fr.block contains the block at which to resume
// control.
func runFrame(fr *frame) {
	defer func() {
		if fr.block == nil {
			return // normal return
		}
		if fr.i.mode&DisableRecover != 0 {
			return // let interpreter crash
		}
		r := recover()
		if !fr.i.unwinding {
			fr.i.unwinding = true
			fr.i.panicStack = targetStack(fr)
		}
		if isEnginePanic(r) {
			panic(r)
		}
		if looksLikeEngineBug(r, panicMessage(r)) {
			panic(engineErr(panicMessage(r) + " @ " + lastPos(fr.i)))
		}
		fr.panicking = true
		fr.panic = r
		if fr.i.mode&EnableTracing != 0 {
			fmt.Fprintf(os.Stderr, "Panicking: %T %v.\n", fr.panic, fr.panic)
		}
		fr.runDefers()
		fr.block = fr.fn.Recover
	}()

	for {
		if fr.i.mode&EnableTracing != 0 {
			fmt.Fprintf(os.Stderr, ".%s:\n", fr.block)
		}

		nonPhis := executePhis(fr)
		for _, instr := range nonPhis {
			if fr.i.mode&EnableTracing != 0 {
				if v, ok := instr.(ssa.Value); ok {
					fmt.Fprintln(os.Stderr, "\t", v.Name(), "=", instr)
				} else {
					fmt.Fprintln(os.Stderr, "\t", instr)
				}
			}
			fr.i.lastInstr = instr
			fr.i.lastFn = fr.fn
			fr.i.unwinding = false
			if X != nil {
				X.steps++
				if X.cfg != nil && X.cfg.maxSteps > 0 && X.steps > X.cfg.maxSteps {
					X.inconclusive(fmt.Sprintf("step bound: more than %d instructions on one path", X.cfg.maxSteps))
					panic(pathEnd{"step bound"})
				}
			}
			if visitInstr(fr, instr) == kReturn {
				return
			}
			// Inv: kNext (continue) or kJump (last instr)
		}
	}
}

// executePhis executes the phi-nodes at the start of the current
// block and returns the non-phi instructions.
func executePhis(fr *frame) []ssa.Instruction {
	firstNonPhi := -1
	for i, instr := range fr.block.Instrs {
		if _, ok := instr.(*ssa.Phi); !ok {
			firstNonPhi = i
			break
		}
	}
	// Inv: 0 <= firstNonPhi; every block contains a non-phi.

	nonPhis := fr.block.Instrs[firstNonPhi:]
	if firstNonPhi > 0 {
		phis := fr.block.Instrs[:firstNonPhi]
		// Execute parallel assignment of phis.
		//
		// See "the swap problem" in Briggs et al's "Practical Improvements
		// to the Construction and Destruction of SSA Form" for discussion.
		predIndex := slices.Index(fr.block.Preds, fr.prevBlock)
		fr.phitemps = fr.phitemps[:0]
		for _, phi := range phis {
			phi := phi.(*ssa.Phi)
			if fr.i.mode&EnableTracing != 0 {
				fmt.Fprintln(os.Stderr, "\t", phi.Name(), "=", phi)
			}
			fr.phitemps = append(fr.phitemps, fr.get(phi.Edges[predIndex]))
		}
		for i, phi := range phis {
			fr.env[phi.(*ssa.Phi)] = fr.phitemps[i]
		}
	}
	return nonPhis
}

// doRecover implements the recover() built-in.
func doRecover(caller *frame) value {
	// recover() must be exactly one level beneath the deferred
	// function (two levels beneath the panicking function) to
	// have any effect.  Thus we ignore both "defer recover()" and
	// "defer f() -> g() -> recover()".
	if caller.i.mode&DisableRecover == 0 &&
		caller != nil && !caller.panicking &&
		caller.caller != nil && caller.caller.panicking {
		caller.caller.panicking = false
		p := caller.caller.panic
		caller.caller.panic = nil

		// TODO(adonovan): support runtime.Goexit.
		switch p := p.(type) {
		case targetPanic:
			// The target program explicitly called panic().
			return p.v
		case targetRuntimeError:
			return iface{caller.i.runtimeErrorString, string(p)}
		case runtime.Error:
			// The interpreter encountered a runtime error.
			return iface{caller.i.runtimeErrorString, p.Error()}
		case string:
			// The interpreter explicitly called panic().
			return iface{caller.i.runtimeErrorString, p}
		default:
			panic(fmt.Sprintf("unexpected panic type %T in target call to recover()", p))
		}
	}
	return iface{}
}

