package main

// Models of low-level standard-library functions that the boxed interpreter
// cannot execute from source (sync, sync/atomic, runtime, time, math, ...).

import (
	"fmt"
	"go/types"
	"math"
	"strings"
	"unicode/utf8"

	"go/token"

	"golang.org/x/tools/go/ssa"
)

const (
	tokenADD = token.ADD
	tokenEQL = token.EQL
)

var onceTab = map[*value]*mutexState{}

// per-path side tables keyed by cell identity
type mutexState struct {
	locked  bool
	readers int
}

func (x *executor) side(key string, p *value) *mutexState {
	if x.sideTab == nil {
		x.sideTab = map[*value]*mutexState{}
	}
	m := x.sideTab[p]
	if m == nil {
		m = &mutexState{}
		x.sideTab[p] = m
	}
	return m
}

func cellOf(v value, what string) *value {
	p, ok := v.(*value)
	if !ok {
		panic(engineErr(fmt.Sprintf("%s: receiver is %T", what, v)))
	}
	if p == nil {
		panic(targetRuntimeError("runtime error: invalid memory address or nil pointer dereference (" + what + ")"))
	}
	return p
}

func atomicAdd(old value, delta value) value {
	return binopAdd(old, delta)
}

func binopAdd(x, y value) value {
	if isSym(x) || isSym(y) {
		return symBinop(tokenADD, nil, x, y)
	}
	switch x := x.(type) {
	case int32:
		return x + y.(int32)
	case int64:
		return x + y.(int64)
	case uint32:
		return x + y.(uint32)
	case uint64:
		return x + y.(uint64)
	case uintptr:
		return x + y.(uintptr)
	case int:
		return x + y.(int)
	case uint:
		return x + y.(uint)
	}
	panic(engineErr(fmt.Sprintf("atomic add on %T", x)))
}

func init() {
	I := intrinsics
	load := func(fr *frame, a []value) value { return *cellOf(a[0], "atomic load") }
	store := func(fr *frame, a []value) value { *cellOf(a[0], "atomic store") = a[1]; return nil }
	add := func(fr *frame, a []value) value {
		p := cellOf(a[0], "atomic add")
		*p = atomicAdd(*p, a[1])
		return *p
	}
	swap := func(fr *frame, a []value) value {
		p := cellOf(a[0], "atomic swap")
		old := *p
		*p = a[1]
		return old
	}
	cas := func(fr *frame, a []value) value {
		p := cellOf(a[0], "atomic cas")
		eq := false
		switch o := (*p).(type) {
		case *value:
			ov, ok := a[1].(*value)
			eq = ok && o == ov
		default:
			if isSym(*p) || isSym(a[1]) {
				eq = X.branch(symBinop(tokenEQL, nil, *p, a[1]), "cas")
			} else {
				eq = *p == a[1]
			}
		}
		if eq {
			*p = a[2]
			return true
		}
		return false
	}
	for _, t := range []string{"Int32", "Int64", "Uint32", "Uint64", "Uintptr", "Pointer"} {
		I["sync/atomic.Load"+t] = load
		I["sync/atomic.Store"+t] = store
		I["sync/atomic.Swap"+t] = swap
		I["sync/atomic.CompareAndSwap"+t] = cas
		if t != "Pointer" {
			I["sync/atomic.Add"+t] = add
		}
		for _, p := range []string{"internal/runtime/atomic.", "runtime/internal/atomic."} {
			_ = p
		}
	}
	for _, t := range []string{"Int32", "Int64", "Uint32", "Uint64", "Uintptr"} {
		I["sync/atomic.And"+t] = func(fr *frame, a []value) value { panic(engineErr("atomic.And")) }
	}
	// atomic.Pointer[T]: {_ [0]*T, _ noCopy, v unsafe.Pointer}
	ptrField := func(a value) *value {
		s := derefStruct(a, "atomic.Pointer")
		return &s[len(s)-1]
	}
	I["(*sync/atomic.Pointer[T]).Load"] = func(fr *frame, a []value) value {
		v := *ptrField(a[0])
		if p, ok := v.(*value); ok {
			return p
		}
		return (*value)(nil)
	}
	I["(*sync/atomic.Pointer[T]).Store"] = func(fr *frame, a []value) value { *ptrField(a[0]) = a[1]; return nil }
	I["(*sync/atomic.Pointer[T]).Swap"] = func(fr *frame, a []value) value {
		f := ptrField(a[0])
		old, _ := (*f).(*value)
		*f = a[1]
		return old
	}
	I["(*sync/atomic.Pointer[T]).CompareAndSwap"] = func(fr *frame, a []value) value {
		f := ptrField(a[0])
		old, _ := (*f).(*value)
		if old == a[1].(*value) {
			*f = a[2]
			return true
		}
		return false
	}
	// atomic.Value: {v any}
	I["(*sync/atomic.Value).Load"] = func(fr *frame, a []value) value {
		s := derefStruct(a[0], "atomic.Value")
		if it, ok := s[0].(iface); ok {
			return it
		}
		return iface{}
	}
	I["(*sync/atomic.Value).Store"] = func(fr *frame, a []value) value {
		s := derefStruct(a[0], "atomic.Value")
		s[0] = a[1]
		return nil
	}

	// ---- sync ----
	lock := func(fr *frame, a []value) value {
		p := cellOf(a[0], "Mutex.Lock")
		m := X.side("mutex", p)
		if m.locked || m.readers > 0 {
			X.sched().yield(func() bool { return !m.locked && m.readers == 0 }, "mutex lock")
			X.sched().checkFailure()
		}
		m.locked = true
		return nil
	}
	unlock := func(fr *frame, a []value) value {
		p := cellOf(a[0], "Mutex.Unlock")
		m := X.side("mutex", p)
		if !m.locked {
			panic(targetRuntimeError("fatal error: sync: unlock of unlocked mutex"))
		}
		m.locked = false
		return nil
	}
	I["(*sync.Mutex).Lock"] = lock
	I["(*sync.Mutex).Unlock"] = unlock
	I["(*sync.Mutex).TryLock"] = func(fr *frame, a []value) value {
		m := X.side("mutex", cellOf(a[0], "Mutex.TryLock"))
		if m.locked || m.readers > 0 {
			return false
		}
		m.locked = true
		return true
	}
	I["(*sync.RWMutex).Lock"] = lock
	I["(*sync.RWMutex).Unlock"] = unlock
	I["(*sync.RWMutex).RLock"] = func(fr *frame, a []value) value {
		m := X.side("mutex", cellOf(a[0], "RWMutex.RLock"))
		if m.locked {
			X.sched().yield(func() bool { return !m.locked }, "rwmutex rlock")
			X.sched().checkFailure()
		}
		m.readers++
		return nil
	}
	I["(*sync.RWMutex).RUnlock"] = func(fr *frame, a []value) value {
		m := X.side("mutex", cellOf(a[0], "RWMutex.RUnlock"))
		if m.readers <= 0 {
			panic(targetRuntimeError("fatal error: sync: RUnlock of unlocked RWMutex"))
		}
		m.readers--
		return nil
	}
	I["(*sync.Once).Do"] = func(fr *frame, a []value) value {
		// Once state lives across paths: what it protects (lazily initialised
		// globals) also does; a Once inside a per-path object has a fresh cell anyway.
		p := cellOf(a[0], "Once.Do")
		m := onceTab[p]
		if m == nil {
			m = &mutexState{}
			onceTab[p] = m
		}
		if m.locked {
			return nil
		}
		m.locked = true
		call(fr.i, fr, 0, a[1], nil)
		return nil
	}
	I["(*sync.WaitGroup).Add"] = func(fr *frame, a []value) value {
		m := X.side("wg", cellOf(a[0], "WaitGroup.Add"))
		m.readers += int(asInt64(a[1]))
		if m.readers < 0 {
			panic(targetPanic{iface{t: types.Typ[types.String], v: "sync: negative WaitGroup counter"}})
		}
		return nil
	}
	I["(*sync.WaitGroup).Done"] = func(fr *frame, a []value) value {
		m := X.side("wg", cellOf(a[0], "WaitGroup.Done"))
		m.readers--
		if m.readers < 0 {
			panic(targetPanic{iface{t: types.Typ[types.String], v: "sync: negative WaitGroup counter"}})
		}
		return nil
	}
	I["(*sync.WaitGroup).Wait"] = func(fr *frame, a []value) value {
		m := X.side("wg", cellOf(a[0], "WaitGroup.Wait"))
		if m.readers > 0 {
			X.sched().yield(func() bool { return m.readers == 0 }, "waitgroup wait")
			X.sched().checkFailure()
		}
		return nil
	}
	I["(*sync.WaitGroup).Go"] = func(fr *frame, a []value) value {
		m := X.side("wg", cellOf(a[0], "WaitGroup.Go"))
		m.readers++
		fn := a[1]
		i := fr.i
		X.sched().spawn("wg.Go", func() {
			defer func() { m.readers-- }()
			call(i, nil, 0, fn, nil)
		})
		return nil
	}
	I["(*sync.Pool).Get"] = func(fr *frame, a []value) value {
		s := derefStruct(a[0], "Pool.Get")
		// New is the last field
		nf := s[len(s)-1]
		switch f := nf.(type) {
		case *closure:
			return call(fr.i, fr, 0, f, nil)
		case *ssa.Function:
			if f != nil {
				return call(fr.i, fr, 0, f, nil)
			}
		}
		return iface{}
	}
	I["(*sync.Pool).Put"] = func(fr *frame, a []value) value { return nil }

	// ---- runtime & friends ----
	I["runtime.Callers"] = func(fr *frame, a []value) value { return 0 }
	I["runtime.Caller"] = func(fr *frame, a []value) value { return tuple{uintptr(0), "", 0, false} }
	I["runtime.KeepAlive"] = func(fr *frame, a []value) value { return nil }
	I["runtime.SetFinalizer"] = func(fr *frame, a []value) value { return nil }
	I["runtime.Stack"] = func(fr *frame, a []value) value { return 0 }
	I["runtime/debug.Stack"] = func(fr *frame, a []value) value { return []value(nil) }
	I["runtime/debug.ReadBuildInfo"] = func(fr *frame, a []value) value { return tuple{(*value)(nil), false} }
	I["internal/abi.NoEscape"] = func(fr *frame, a []value) value { return a[0] }
	I["internal/abi.Escape[T]"] = func(fr *frame, a []value) value { return a[0] }
	I["internal/godebug.(*Setting).Value"] = func(fr *frame, a []value) value { return "" }
	I["(*internal/godebug.Setting).Value"] = func(fr *frame, a []value) value { return "" }
	I["(*internal/godebug.Setting).IncNonDefault"] = func(fr *frame, a []value) value { return nil }
	I["internal/race.Enabled"] = nil
	delete(I, "internal/race.Enabled")
	I["os.Getenv"] = func(fr *frame, a []value) value { return "" }
	I["os.LookupEnv"] = func(fr *frame, a []value) value { return tuple{"", false} }
	I["internal/bytealg.IndexByteString"] = func(fr *frame, a []value) value {
		return strings.IndexByte(a[0].(string), a[1].(byte))
	}
	I["internal/bytealg.IndexByte"] = func(fr *frame, a []value) value {
		c := a[1].(byte)
		for i, b := range a[0].([]value) {
			if b.(byte) == c {
				return i
			}
		}
		return -1
	}
	I["internal/bytealg.CountString"] = func(fr *frame, a []value) value {
		return strings.Count(a[0].(string), string([]byte{a[1].(byte)}))
	}
	I["internal/bytealg.IndexString"] = func(fr *frame, a []value) value {
		return strings.Index(a[0].(string), a[1].(string))
	}
	I["internal/bytealg.Equal"] = func(fr *frame, a []value) value {
		x, y := a[0].([]value), a[1].([]value)
		if len(x) != len(y) {
			return false
		}
		for i := range x {
			if x[i] != y[i] {
				return false
			}
		}
		return true
	}
	I["internal/bytealg.Compare"] = func(fr *frame, a []value) value {
		return strings.Compare(bytesToString(a[0].([]value)), bytesToString(a[1].([]value)))
	}
	I["internal/bytealg.MakeNoZero"] = func(fr *frame, a []value) value {
		n := int(asInt64(a[0]))
		s := make([]value, n)
		for i := range s {
			s[i] = byte(0)
		}
		return s
	}
	I["internal/stringslite.Index"] = I["internal/bytealg.IndexString"]
	I["strings.Index"] = func(fr *frame, a []value) value {
		if isSym(a[0]) || isSym(a[1]) {
			return symInt{"(str.indexof " + strTerm(a[0]) + " " + strTerm(a[1]) + " 0)", types.Int}
		}
		return strings.Index(a[0].(string), a[1].(string))
	}
	I["strings.Contains"] = func(fr *frame, a []value) value {
		if isSym(a[0]) || isSym(a[1]) {
			return mkBool("(str.contains " + strTerm(a[0]) + " " + strTerm(a[1]) + ")")
		}
		return strings.Contains(a[0].(string), a[1].(string))
	}
	I["strings.HasPrefix"] = func(fr *frame, a []value) value {
		if isSym(a[0]) || isSym(a[1]) {
			return mkBool("(str.prefixof " + strTerm(a[1]) + " " + strTerm(a[0]) + ")")
		}
		return strings.HasPrefix(a[0].(string), a[1].(string))
	}
	I["strings.HasSuffix"] = func(fr *frame, a []value) value {
		if isSym(a[0]) || isSym(a[1]) {
			return mkBool("(str.suffixof " + strTerm(a[1]) + " " + strTerm(a[0]) + ")")
		}
		return strings.HasSuffix(a[0].(string), a[1].(string))
	}
	I["strings.Compare"] = func(fr *frame, a []value) value {
		if isSym(a[0]) || isSym(a[1]) {
			x, y := strTerm(a[0]), strTerm(a[1])
			return symInt{"(ite (= " + x + " " + y + ") 0 (ite (str.< " + x + " " + y + ") (- 1) 1))", types.Int}
		}
		return strings.Compare(a[0].(string), a[1].(string))
	}
	I["unicode/utf8.ValidString"] = func(fr *frame, a []value) value {
		if s, ok := a[0].(string); ok {
			return utf8.ValidString(s)
		}
		panic(engineErr("utf8.ValidString on a symbolic string"))
	}

	// ---- math ----
	m1 := map[string]func(float64) float64{"Floor": math.Floor, "Ceil": math.Ceil, "Trunc": math.Trunc, "Sqrt": math.Sqrt, "Abs": math.Abs,
		"Log": math.Log, "Log2": math.Log2, "Log10": math.Log10, "Exp": math.Exp, "Round": math.Round}
	for n, f := range m1 {
		f := f
		I["math."+n] = func(fr *frame, a []value) value { return f(a[0].(float64)) }
	}
	I["math.Pow"] = func(fr *frame, a []value) value { return math.Pow(a[0].(float64), a[1].(float64)) }
	I["math.Mod"] = func(fr *frame, a []value) value { return math.Mod(a[0].(float64), a[1].(float64)) }
	I["math.Modf"] = func(fr *frame, a []value) value {
		x, y := math.Modf(a[0].(float64))
		return tuple{x, y}
	}
	I["math.Frexp"] = func(fr *frame, a []value) value {
		x, y := math.Frexp(a[0].(float64))
		return tuple{x, y}
	}
	I["math.IsInf"] = func(fr *frame, a []value) value {
		if f, ok := a[0].(symF64); ok {
			sign := int(asInt64(a[1]))
			switch {
			case sign > 0:
				return mkBool("(and (fp.isInfinite " + f.t + ") (fp.isPositive " + f.t + "))")
			case sign < 0:
				return mkBool("(and (fp.isInfinite " + f.t + ") (fp.isNegative " + f.t + "))")
			}
			return mkBool("(fp.isInfinite " + f.t + ")")
		}
		return math.IsInf(a[0].(float64), int(asInt64(a[1])))
	}
	I["math.IsNaN"] = func(fr *frame, a []value) value {
		if f, ok := a[0].(symF64); ok {
			return mkBool("(fp.isNaN " + f.t + ")")
		}
		return math.IsNaN(a[0].(float64))
	}
	I["math.Float64bits"] = func(fr *frame, a []value) value {
		if _, ok := a[0].(symF64); ok {
			panic(engineErr("math.Float64bits of a symbolic float"))
		}
		return math.Float64bits(a[0].(float64))
	}
	I["math/bits.Len64"] = nil
	delete(I, "math/bits.Len64")

	// ---- time ----
	I["time.Now"] = func(fr *frame, a []value) value {
		// a deterministic, strictly increasing clock: 2030-01-01T00:00:00Z + n s
		X.clock++
		const base = 64029052800 // seconds from 0001-01-01 to 2030-01-01 (UTC)
		return structure{uint64(0), int64(base + X.clock), (*value)(nil)}
	}
	I["time.Sleep"] = func(fr *frame, a []value) value { return nil }
	// uuid: a fresh opaque string per call (never equal to an earlier one)
	I["github.com/google/uuid.NewString"] = func(fr *frame, a []value) value {
		X.uuids++
		return fmt.Sprintf("00000000-0000-4000-8000-%012d", X.uuids)
	}
	I["time.runtimeNano"] = func(fr *frame, a []value) value { return int64(1) }
	I["time.now"] = func(fr *frame, a []value) value { return tuple{int64(1893456000), int32(0), int64(1)} }
}

func bytesToString(b []value) string {
	bs := make([]byte, len(b))
	for i, v := range b {
		bs[i] = v.(byte)
	}
	return string(bs)
}

func init() {
	// go-libs metadata.Metadata.Merge is implemented with dario.cat/mergo (reflection);
	// for map[string]string with WithOverride it is: copy m1, then every key of m2 overrides.
	intrinsics["(github.com/formancehq/go-libs/v5/pkg/types/metadata.Metadata).Merge"] = func(fr *frame, a []value) value {
		ret := makeMap(types.Typ[types.String], 0).(*omap)
		for _, src := range a[:2] {
			m, _ := src.(*omap)
			if m == nil {
				continue
			}
			for i, k := range m.keys {
				ret.insert(k, m.vals[i])
			}
		}
		return ret
	}
}

func init() {
	// github.com/alitto/pond: a worker pool. Modelled as a synchronous single worker
	// (Submit runs the task; exact for a pool of one worker, tasks in FIFO order).
	intrinsics["github.com/alitto/pond.New"] = func(fr *frame, a []value) value {
		t := fr.i.namedType("github.com/alitto/pond", "WorkerPool")
		return newCell(t)
	}
	intrinsics["(*github.com/alitto/pond.WorkerPool).Submit"] = func(fr *frame, a []value) value {
		call(fr.i, fr, 0, a[1], nil)
		return nil
	}
	intrinsics["(*github.com/alitto/pond.WorkerPool).StopAndWait"] = func(fr *frame, a []value) value { return nil }
}


// notHandled is returned by an intrinsic that declines a call; the function body is then interpreted.
type notHandled struct{}

func init() {
	// time.Parse on a symbolic string: the outcome is either a parse error or some instant; which one
	// is irrelevant to the properties checked (the instant is a fixed one), both are explored.
	intrinsics["time.Parse"] = func(fr *frame, a []value) value {
		if _, ok := a[1].(string); ok {
			return notHandled{}
		}
		if X.choose("time.Parse(symbolic)", 2) == 0 {
			return tuple{zero(fr.i.namedType("time", "Time")), newErrorString(fr.i, "parsing time: cannot parse symbolic input")}
		}
		const base = 64029052800 // 2030-01-01T00:00:00Z
		return tuple{structure{uint64(0), int64(base - 86400), (*value)(nil)}, iface{}}
	}
	const glt = "(*github.com/formancehq/go-libs/v5/pkg/types/time.Time).UnmarshalJSON"
	intrinsics[glt] = func(fr *frame, a []value) value {
		sb, ok := a[1].(symBytes)
		if !ok {
			return notHandled{}
		}
		n, serr := treeOfBytes(sb)
		if serr != nil || n.k != jStr {
			return newErrorString(fr.i, "invalid date format")
		}
		pkg := fr.i.prog.ImportedPackage("github.com/formancehq/go-libs/v5/pkg/types/time")
		res := call(fr.i, fr, 0, pkg.Func("ParseTime"), []value{n.s}).(tuple)
		if e, bad := errIfaceOf(res[1]); bad {
			return e
		}
		store(fr.i.namedType("github.com/formancehq/go-libs/v5/pkg/types/time", "Time"), a[0].(*value), res[0])
		return iface{}
	}
}

func init() {
	// github.com/uptrace/bun SelectQuery builder calls that only accumulate query text: the query object is opaque to the
	// harnesses that use it (the text is checked on the captured SQL), each call returns its receiver.
	for _, m := range []string{"Limit", "Offset", "Order", "OrderExpr", "Where", "WhereOr", "Column", "ColumnExpr", "Join", "Group", "GroupExpr", "DistinctOn", "ModelTableExpr", "TableExpr", "With", "NewSelect"} {
		m := m
		intrinsics["(*github.com/uptrace/bun.SelectQuery)."+m] = func(fr *frame, a []value) value {
			bunCalls = append(bunCalls, bunCall{m, append([]value(nil), a[1:]...)})
			return a[0]
		}
	}
	// Model records the destination; Scan / Count hand over to the harness' model of the statement's result:
	//   func verifBunScan(model any) error      func verifBunCountRows() (int, error)
	intrinsics["(*github.com/uptrace/bun.SelectQuery).Model"] = func(fr *frame, a []value) value {
		bunLastModel = a[1]
		return a[0]
	}
	harnessFn := func(fr *frame, name string) *ssa.Function {
		for _, p := range fr.i.prog.AllPackages() {
			if f := p.Func(name); f != nil {
				return f
			}
		}
		panic(engineErr("the harness does not define " + name))
	}
	// the text of an opaque query (used by callers that splice a sub-query into a predicate)
	intrinsics["(*github.com/uptrace/bun.SelectQuery).String"] = func(fr *frame, a []value) value { return "SELECT /* opaque */" }
	intrinsics["(*github.com/uptrace/bun.SelectQuery).Scan"] = func(fr *frame, a []value) value {
		return call(fr.i, fr, 0, harnessFn(fr, "verifBunScan"), []value{bunLastModel})
	}
	intrinsics["(*github.com/uptrace/bun.SelectQuery).Count"] = func(fr *frame, a []value) value {
		return call(fr.i, fr, 0, harnessFn(fr, "verifBunCountRows"), nil)
	}
}

var bunLastModel value

// bunCalls: the builder calls made on SelectQuery objects since the last verifBunReset (read back by the harness
// through verifBunCount / verifBunStr / verifBunInt / verifBunArg to model the statement's result)
type bunCall struct {
	method string
	args   []value
}

var bunCalls []bunCall

func bunNth(method string, i int) *bunCall {
	for k := range bunCalls {
		if bunCalls[k].method == method {
			if i == 0 {
				return &bunCalls[k]
			}
			i--
		}
	}
	return nil
}

func init() {
	H := harnessAPI
	H["verifBunReset"] = func(fr *frame, a []value) value { bunCalls = nil; bunLastModel = nil; return nil }
	H["verifBunCount"] = func(fr *frame, a []value) value {
		n := 0
		for _, c := range bunCalls {
			if c.method == strArg(a[0]) {
				n++
			}
		}
		return n
	}
	H["verifBunStr"] = func(fr *frame, a []value) value {
		if c := bunNth(strArg(a[0]), int(asInt64(a[1]))); c != nil && len(c.args) > 0 {
			if s, ok := c.args[0].(string); ok {
				return s
			}
			if s, ok := c.args[0].(symStr); ok { // text built from symbolic client input is handed over as it is
				return s
			}
			if vs, ok := c.args[0].([]value); ok && len(vs) > 0 { // variadic ...string
				if s, ok := vs[0].(string); ok {
					return s
				}
				if s, ok := vs[0].(symStr); ok {
					return s
				}
			}
		}
		return ""
	}
	H["verifBunInt"] = func(fr *frame, a []value) value {
		if c := bunNth(strArg(a[0]), int(asInt64(a[1]))); c != nil && len(c.args) > 0 {
			switch n := c.args[0].(type) {
			case int:
				return n
			case symInt: // a symbolic int argument is handed over as it is
				return n
			}
		}
		return -1
	}
	// verifBunArgN(method, i, j): the j-th variadic argument of the i-th recorded call
	H["verifBunArgN"] = func(fr *frame, a []value) value {
		if c := bunNth(strArg(a[0]), int(asInt64(a[1]))); c != nil && len(c.args) > 1 {
			j := int(asInt64(a[2]))
			if vs, ok := c.args[1].([]value); ok && j < len(vs) {
				return vs[j]
			}
		}
		return iface{}
	}
	H["verifBunArg"] = func(fr *frame, a []value) value {
		if c := bunNth(strArg(a[0]), int(asInt64(a[1]))); c != nil && len(c.args) > 1 {
			if vs, ok := c.args[1].([]value); ok && len(vs) > 0 {
				return vs[0]
			}
		}
		return iface{}
	}
}


func init() {
	// bun statements issued directly by controller code (the ledger state tracker): UPDATE ... / raw SELECT setval(...)
	// are opaque objects; Exec hands over to the harness' model:
	//   func verifBunExecUpdate() (sql.Result, error)        func verifBunExecRaw(query string) (sql.Result, error)
	harnessFn := func(fr *frame, name string) *ssa.Function {
		for _, p := range fr.i.prog.AllPackages() {
			if f := p.Func(name); f != nil {
				return f
			}
		}
		panic(engineErr("the harness does not define " + name))
	}
	newQuery := func(pkgType string) intrinsicFn {
		return func(fr *frame, a []value) value {
			return newCell(fr.i.namedType("github.com/uptrace/bun", pkgType))
		}
	}
	for _, recv := range []string{"(github.com/uptrace/bun.Tx)", "(*github.com/uptrace/bun.Tx)", "(*github.com/uptrace/bun.DB)", "(github.com/uptrace/bun.Conn)"} {
		intrinsics[recv+".NewUpdate"] = newQuery("UpdateQuery")
		intrinsics[recv+".NewRaw"] = func(fr *frame, a []value) value {
			bunLastRaw = a[1]
			bunCalls = append(bunCalls, bunCall{"NewRaw", append([]value(nil), a[1:]...)})
			return newCell(fr.i.namedType("github.com/uptrace/bun", "RawQuery"))
		}
		intrinsics[recv+".NewSelect"] = newQuery("SelectQuery")
	}
	for _, m := range []string{"Model", "Set", "Where", "Returning", "ModelTableExpr", "Column"} {
		intrinsics["(*github.com/uptrace/bun.UpdateQuery)."+m] = func(fr *frame, a []value) value { return a[0] }
	}
	intrinsics["(*github.com/uptrace/bun.UpdateQuery).Exec"] = func(fr *frame, a []value) value {
		return call(fr.i, fr, 0, harnessFn(fr, "verifBunExecUpdate"), nil)
	}
	intrinsics["(*github.com/uptrace/bun.RawQuery).Exec"] = func(fr *frame, a []value) value {
		return call(fr.i, fr, 0, harnessFn(fr, "verifBunExecRaw"), []value{bunLastRaw})
	}
	// the identity of the running logical thread (0 = the harness' main thread)
	harnessAPI["verifThreadID"] = func(fr *frame, a []value) value {
		if X.sch == nil || X.sch.cur == nil {
			return 0
		}
		return X.sch.cur.id
	}
}

var bunLastRaw value


func init() {
	// time.After: a duration <= 0 is ready at once; otherwise the channel delivers when every logical thread is blocked
	// (time only passes at quiescence: timers delay, they never reorder what can already happen).
	intrinsics["time.After"] = func(fr *frame, a []value) value {
		X.timeType = fr.i.namedType("time", "Time")
		c := makeChan(1)
		if asInt64(a[0]) <= 0 {
			c.buf = append(c.buf, zero(X.timeType))
		} else {
			c.timer = true
			X.sched().timers = append(X.sched().timers, c)
		}
		return c
	}
	intrinsics["math/rand.Int63n"] = func(fr *frame, a []value) value { return int64(0) }
	harnessAPI["verifMapOrders"] = func(fr *frame, a []value) value {
		X.mapOrders = a[0].(bool)
		return nil
	}
	harnessAPI["verifBackground"] = func(fr *frame, a []value) value {
		X.sched().noBackground = !a[0].(bool)
		return nil
	}
	// verifYieldChoice(true): goroutines of the code under test still run eagerly, except that at an explicit verifYield
	// the next thread is a decision among all runnable threads
	harnessAPI["verifYieldChoice"] = func(fr *frame, a []value) value {
		X.sched().choiceAtYields = a[0].(bool)
		return nil
	}
}


func init() {
	// bun INSERT built by the store (InsertLog): opaque; Model is recorded and Exec hands over to the harness:
	//   func verifBunExecInsert(model any) (sql.Result, error)
	harnessFn := func(fr *frame, name string) *ssa.Function {
		for _, p := range fr.i.prog.AllPackages() {
			if f := p.Func(name); f != nil {
				return f
			}
		}
		panic(engineErr("the harness does not define " + name))
	}
	for _, recv := range []string{"(github.com/uptrace/bun.Tx)", "(*github.com/uptrace/bun.Tx)", "(*github.com/uptrace/bun.DB)", "(github.com/uptrace/bun.Conn)"} {
		intrinsics[recv+".NewInsert"] = func(fr *frame, a []value) value {
			return newCell(fr.i.namedType("github.com/uptrace/bun", "InsertQuery"))
		}
	}
	intrinsics["(*github.com/uptrace/bun.InsertQuery).Model"] = func(fr *frame, a []value) value {
		bunLastModel = a[1]
		return a[0]
	}
	for _, m := range []string{"ModelTableExpr", "Returning", "Value", "Column", "On", "Set", "Ignore"} {
		intrinsics["(*github.com/uptrace/bun.InsertQuery)."+m] = func(fr *frame, a []value) value { return a[0] }
	}
	intrinsics["(*github.com/uptrace/bun.InsertQuery).Exec"] = func(fr *frame, a []value) value {
		return call(fr.i, fr, 0, harnessFn(fr, "verifBunExecInsert"), []value{bunLastModel})
	}
}
