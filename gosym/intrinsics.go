package main

// Intrinsics: the harness API (nondet*/verif*), math/big, and a few std
// functions that the boxed-value interpreter cannot execute from source.

import (
	"fmt"
	"go/types"
	"math"
	"math/big"
	"strings"

	"golang.org/x/tools/go/ssa"
)

type intrinsicFn func(fr *frame, args []value) value

var intrinsics = map[string]intrinsicFn{}

// harnessAPI is keyed by bare function name: the declarations are bodiless
// functions in whatever package the harness overlay lives in.
var harnessAPI = map[string]intrinsicFn{}

func float64bits(f float64) uint64 { return math.Float64bits(f) }

func lastPos(i *interpreter) string {
	if i == nil || i.lastInstr == nil {
		return "?"
	}
	pos := i.lastInstr.Pos()
	fn := ""
	if i.lastFn != nil {
		fn = i.lastFn.String()
	}
	if !pos.IsValid() && i.lastFn != nil {
		pos = i.lastFn.Pos()
	}
	return fmt.Sprintf("%s (%s)", i.prog.Fset.Position(pos), fn)
}

// targetStack renders the call stack of the interpreted program (innermost first).
func targetStack(fr *frame) string {
	var sb strings.Builder
	for f, n := fr, 0; f != nil && n < 40; f, n = f.caller, n+1 {
		sb.WriteString("\n    at " + f.fn.String())
	}
	return sb.String()
}

func describePanicValue(v value) string {
	if itf, ok := v.(iface); ok {
		if s, ok := itf.v.(string); ok {
			return s
		}
		if itf.t != nil {
			// error or Stringer?
			if s, ok := tryErrorString(itf); ok {
				return s
			}
			return fmt.Sprintf("(%s) %s", itf.t, toString(itf.v))
		}
	}
	return toString(v)
}

var theInterp *interpreter

func tryErrorString(itf iface) (res string, ok bool) {
	defer func() {
		if r := recover(); r != nil {
			if isEnginePanic(r) {
				res, ok = fmt.Sprintf("(%s)", itf.t), true
				return
			}
			res, ok = "", false
		}
	}()
	if theInterp == nil || itf.t == nil {
		return "", false
	}
	for _, name := range []string{"Error", "String"} {
		ms := theInterp.prog.MethodSets.MethodSet(itf.t)
		sel := ms.Lookup(nil, name)
		if sel == nil {
			continue
		}
		fn := theInterp.prog.MethodValue(sel)
		if fn == nil {
			continue
		}
		r := call(theInterp, nil, 0, fn, []value{itf.v})
		switch r := r.(type) {
		case string:
			return r, true
		case symStr:
			return "<sym " + clip(r.t, 60) + ">", true
		}
	}
	return "", false
}

func isStubbed(fn *ssa.Function) bool {
	pkg := fn.Package()
	if pkg == nil && fn.Origin() != nil {
		pkg = fn.Origin().Package()
	}
	if pkg == nil {
		return false
	}
	path := pkg.Pkg.Path()
	for _, p := range stubPrefixes {
		if strings.HasPrefix(path, p) {
			return true
		}
	}
	return false
}

var stubPrefixes = []string{}

func zeroResults(fn *ssa.Function) value {
	res := fn.Signature.Results()
	switch res.Len() {
	case 0:
		return nil
	case 1:
		return zero(res.At(0).Type())
	}
	return zero(res)
}

func checkIndex(idx value, n int) int64 {
	if s, ok := idx.(symInt); ok {
		// fork over the in-range values; out of range is a run-time panic
		if X.branch(mkBool(fmt.Sprintf("(or (< %s 0) (>= %s %d))", s.t, s.t, n)), "index-range") {
			panic(targetRuntimeError(fmt.Sprintf("runtime error: index out of range [symbolic] with length %d", n)))
		}
		return int64(X.concretize(s, 0, n-1))
	}
	i := asInt64(idx)
	if i < 0 || i >= int64(n) {
		panic(targetRuntimeError(fmt.Sprintf("runtime error: index out of range [%d] with length %d", i, n)))
	}
	return i
}

// ---------------------------------------------------------------------------
// strings (symbolic)

func symStrIndex(s symStr, idx value) value {
	it := intTerm(idx)
	if X.branch(mkBool(fmt.Sprintf("(or (< %s 0) (>= %s (str.len %s)))", it, it, s.t)), "str-index-range") {
		panic(targetRuntimeError("runtime error: index out of range (string)"))
	}
	return symInt{"(str.to_code (str.at " + s.t + " " + it + "))", types.Uint8}
}

func symStrSlice(s symStr, lo, hi value) value {
	l := "0"
	if lo != nil {
		l = intTerm(lo)
	}
	h := "(str.len " + s.t + ")"
	if hi != nil {
		h = intTerm(hi)
	}
	if X.branch(mkBool(fmt.Sprintf("(or (< %s 0) (< %s %s) (> %s (str.len %s)))", l, h, l, h, s.t)), "str-slice-range") {
		panic(targetRuntimeError("runtime error: slice bounds out of range (string)"))
	}
	return symStr{fmt.Sprintf("(str.substr %s %s (- %s %s))", s.t, l, h, l)}
}

// strTree: SMT term of the text of a JSON document whose tree is known -> the tree
var strTree = map[string]*jnode{}

func symStrConv(dst types.Type, s symStr) value {
	if b, ok := dst.(*types.Basic); ok && b.Kind() == types.String {
		return s
	}
	if sl, ok := dst.(*types.Slice); ok {
		if b, ok := sl.Elem().Underlying().(*types.Basic); ok && b.Kind() == types.Uint8 {
			if n, ok := strTree[s.t]; ok {
				return symBytes{str: s, tree: n}
			}
			return symBytes{str: s}
		}
	}
	panic(engineErr("conversion of a symbolic string to " + dst.String()))
}

// ---------------------------------------------------------------------------
// math/big.Int

func derefStruct(v value, what string) structure {
	p, ok := v.(*value)
	if !ok {
		panic(engineErr(fmt.Sprintf("%s: receiver is %T", what, v)))
	}
	if p == nil {
		panic(targetRuntimeError("runtime error: invalid memory address or nil pointer dereference (" + what + ")"))
	}
	return (*p).(structure)
}

func getBigS(s structure) bigv {
	if b, ok := s[0].(bigv); ok {
		return b
	}
	return bigZero()
}

func getBig(v value, what string) bigv { return getBigS(derefStruct(v, what)) }

func setBig(v value, b bigv, what string) { derefStruct(v, what)[0] = b }

func newBigStruct(b bigv) structure { return structure{b, []value(nil)} }

func newBigPtr(b bigv) *value {
	var v value = newBigStruct(b)
	return &v
}

func bigBin(op string, x, y bigv) bigv {
	if x.concrete() && y.concrete() {
		r := new(big.Int)
		switch op {
		case "+":
			return mkBig(r.Add(x.c, y.c))
		case "-":
			return mkBig(r.Sub(x.c, y.c))
		case "*":
			return mkBig(r.Mul(x.c, y.c))
		}
	}
	// light simplification
	if op == "+" || op == "-" {
		if y.concrete() && y.c.Sign() == 0 {
			return x
		}
		if op == "+" && x.concrete() && x.c.Sign() == 0 {
			return y
		}
	}
	if op == "*" {
		if x.concrete() && x.c.Sign() == 0 || y.concrete() && y.c.Sign() == 0 {
			return bigZero()
		}
		if x.concrete() && x.c.IsInt64() && x.c.Int64() == 1 {
			return y
		}
		if y.concrete() && y.c.IsInt64() && y.c.Int64() == 1 {
			return x
		}
	}
	return mkBigT("(" + op + " " + x.t + " " + y.t + ")")
}

func bigNeg(x bigv) bigv {
	if x.concrete() {
		return mkBig(new(big.Int).Neg(x.c))
	}
	return mkBigT("(- " + x.t + ")")
}

func bigAbs(x bigv) bigv {
	if x.concrete() {
		return mkBig(new(big.Int).Abs(x.c))
	}
	return mkBigT("(abs " + x.t + ")")
}

// bigCmp returns -1/0/+1 as a Go int value (possibly symbolic).
func bigCmp(x, y bigv) value {
	if x.concrete() && y.concrete() {
		return x.c.Cmp(y.c)
	}
	return symInt{"(ite (< " + x.t + " " + y.t + ") (- 1) (ite (= " + x.t + " " + y.t + ") 0 1))", types.Int}
}

func bigDivKind(kind string, x, y bigv) bigv {
	if X.branch(mkBool("(= "+y.t+" 0)"), "big-div-zero") {
		panic(targetPanic{iface{t: types.Typ[types.String], v: "division by zero"}})
	}
	if x.concrete() && y.concrete() {
		r := new(big.Int)
		switch kind {
		case "Div":
			return mkBig(r.Div(x.c, y.c))
		case "Mod":
			return mkBig(r.Mod(x.c, y.c))
		case "Quo":
			return mkBig(r.Quo(x.c, y.c))
		case "Rem":
			return mkBig(r.Rem(x.c, y.c))
		}
	}
	switch kind {
	case "Div":
		return mkBigT("(div " + x.t + " " + y.t + ")")
	case "Mod":
		return mkBigT("(mod " + x.t + " " + y.t + ")")
	case "Quo":
		return mkBigT(tdivTerm(x.t, y.t))
	case "Rem":
		return mkBigT("(- " + x.t + " (* " + y.t + " " + tdivTerm(x.t, y.t) + "))")
	}
	panic(engineErr("bigDivKind"))
}

func bigFromValue(v value) bigv {
	switch v := v.(type) {
	case symInt:
		return mkBigT(v.t)
	case uint, uint8, uint16, uint32, uint64, uintptr:
		return bigFromUint64(asUint64ish(v))
	}
	return bigFromInt64(asInt64(v))
}

func bigToStringValue(b bigv) value {
	if b.concrete() {
		return b.c.String()
	}
	return symStr{regIntString(b.t)}
}

func init() {
	I := intrinsics
	bin := func(op string) intrinsicFn {
		return func(fr *frame, a []value) value {
			r := bigBin(op, getBig(a[1], "big.Int arg"), getBig(a[2], "big.Int arg"))
			setBig(a[0], r, "big.Int receiver")
			return a[0]
		}
	}
	I["(*math/big.Int).Add"] = bin("+")
	I["(*math/big.Int).Sub"] = bin("-")
	I["(*math/big.Int).Mul"] = bin("*")
	for _, k := range []string{"Div", "Mod", "Quo", "Rem"} {
		k := k
		I["(*math/big.Int)."+k] = func(fr *frame, a []value) value {
			r := bigDivKind(k, getBig(a[1], "big.Int arg"), getBig(a[2], "big.Int arg"))
			setBig(a[0], r, "big.Int receiver")
			return a[0]
		}
	}
	I["(*math/big.Int).Neg"] = func(fr *frame, a []value) value {
		setBig(a[0], bigNeg(getBig(a[1], "big.Int arg")), "big.Int receiver")
		return a[0]
	}
	I["(*math/big.Int).Abs"] = func(fr *frame, a []value) value {
		setBig(a[0], bigAbs(getBig(a[1], "big.Int arg")), "big.Int receiver")
		return a[0]
	}
	I["(*math/big.Int).Set"] = func(fr *frame, a []value) value {
		setBig(a[0], getBig(a[1], "big.Int arg"), "big.Int receiver")
		return a[0]
	}
	I["(*math/big.Int).SetInt64"] = func(fr *frame, a []value) value {
		setBig(a[0], bigFromValue(a[1]), "big.Int receiver")
		return a[0]
	}
	I["(*math/big.Int).SetUint64"] = I["(*math/big.Int).SetInt64"]
	I["math/big.NewInt"] = func(fr *frame, a []value) value { return newBigPtr(bigFromValue(a[0])) }
	I["(*math/big.Int).Cmp"] = func(fr *frame, a []value) value {
		return bigCmp(getBig(a[0], "big.Int receiver"), getBig(a[1], "big.Int arg"))
	}
	I["(*math/big.Int).CmpAbs"] = func(fr *frame, a []value) value {
		return bigCmp(bigAbs(getBig(a[0], "big.Int receiver")), bigAbs(getBig(a[1], "big.Int arg")))
	}
	I["(*math/big.Int).Sign"] = func(fr *frame, a []value) value {
		return bigCmp(getBig(a[0], "big.Int receiver"), bigZero())
	}
	I["(*math/big.Int).String"] = func(fr *frame, a []value) value {
		if p, ok := a[0].(*value); ok && p == nil {
			return "<nil>"
		}
		return bigToStringValue(getBig(a[0], "big.Int receiver"))
	}
	I["(*math/big.Int).Text"] = func(fr *frame, a []value) value {
		if p, ok := a[0].(*value); ok && p == nil {
			return "<nil>"
		}
		b := getBig(a[0], "big.Int receiver")
		base := int(asInt64(a[1]))
		if b.concrete() {
			return b.c.Text(base)
		}
		if base == 10 {
			return bigToStringValue(b)
		}
		panic(engineErr("big.Int.Text of a symbolic value in base != 10"))
	}
	I["(*math/big.Int).IsInt64"] = func(fr *frame, a []value) value {
		b := getBig(a[0], "big.Int receiver")
		if b.concrete() {
			return b.c.IsInt64()
		}
		return mkBool("(and (>= " + b.t + " (- 9223372036854775808)) (<= " + b.t + " 9223372036854775807))")
	}
	I["(*math/big.Int).IsUint64"] = func(fr *frame, a []value) value {
		b := getBig(a[0], "big.Int receiver")
		if b.concrete() {
			return b.c.IsUint64()
		}
		return mkBool("(and (>= " + b.t + " 0) (<= " + b.t + " 18446744073709551615))")
	}
	I["(*math/big.Int).Int64"] = func(fr *frame, a []value) value {
		b := getBig(a[0], "big.Int receiver")
		if b.concrete() {
			return b.c.Int64()
		}
		// low 64 bits of |x| with the sign applied, reinterpreted as int64
		return symInt{wrapTerm(types.Int64, b.t), types.Int64}
	}
	I["(*math/big.Int).Uint64"] = func(fr *frame, a []value) value {
		b := getBig(a[0], "big.Int receiver")
		if b.concrete() {
			return b.c.Uint64()
		}
		return symInt{"(mod (abs " + b.t + ") 18446744073709551616)", types.Uint64}
	}
	I["(*math/big.Int).BitLen"] = func(fr *frame, a []value) value {
		b := getBig(a[0], "big.Int receiver")
		if b.concrete() {
			return b.c.BitLen()
		}
		panic(engineErr("BitLen of symbolic big.Int"))
	}
	I["(*math/big.Int).SetString"] = func(fr *frame, a []value) value {
		base := int(asInt64(a[2]))
		switch s := a[1].(type) {
		case string:
			n, ok := new(big.Int).SetString(s, base)
			if !ok {
				// real: z is left undefined; returns (nil, false)
				return tuple{(*value)(nil), false}
			}
			setBig(a[0], mkBig(n), "big.Int receiver")
			return tuple{a[0], true}
		case symStr:
			if base != 10 {
				panic(engineErr("big.Int.SetString(symbolic, base != 10)"))
			}
			if it, ok := intOfString(s); ok {
				setBig(a[0], mkBigT(it), "big.Int receiver")
				return tuple{a[0], true}
			}
			// accepted syntax in base 10: [+-]?[0-9]+
			digits := "(re.+ (re.range \"0\" \"9\"))"
			okT := "(str.in_re " + s.t + " (re.++ (re.opt (re.union (str.to_re \"+\") (str.to_re \"-\"))) " + digits + "))"
			if !X.branch(mkBool(okT), "big-setstring-ok") {
				return tuple{(*value)(nil), false}
			}
			neg := "(str.prefixof \"-\" " + s.t + ")"
			signed := "(or (str.prefixof \"-\" " + s.t + ") (str.prefixof \"+\" " + s.t + "))"
			body := "(ite " + signed + " (str.substr " + s.t + " 1 (- (str.len " + s.t + ") 1)) " + s.t + ")"
			val := "(ite " + neg + " (- (str.to_int " + body + ")) (str.to_int " + body + "))"
			setBig(a[0], mkBigT(val), "big.Int receiver")
			return tuple{a[0], true}
		}
		panic(engineErr(fmt.Sprintf("big.Int.SetString arg %T", a[1])))
	}

	// ---- big.Rat ----
	I["math/big.NewRat"] = func(fr *frame, a []value) value {
		n, d := bigFromValue(a[0]), bigFromValue(a[1])
		return newRatPtr(ratNorm(n, d))
	}
	ratBin := func(op string) intrinsicFn {
		return func(fr *frame, a []value) value {
			xn, xd := getRat(a[1])
			yn, yd := getRat(a[2])
			var n, d bigv
			switch op {
			case "+":
				n, d = bigBin("+", bigBin("*", xn, yd), bigBin("*", yn, xd)), bigBin("*", xd, yd)
			case "-":
				n, d = bigBin("-", bigBin("*", xn, yd), bigBin("*", yn, xd)), bigBin("*", xd, yd)
			case "*":
				n, d = bigBin("*", xn, yn), bigBin("*", xd, yd)
			}
			rn, rd := ratNorm(n, d)
			setRat(a[0], rn, rd)
			return a[0]
		}
	}
	I["(*math/big.Rat).Add"] = ratBin("+")
	I["(*math/big.Rat).Sub"] = ratBin("-")
	I["(*math/big.Rat).Mul"] = ratBin("*")
	I["(*math/big.Rat).Quo"] = func(fr *frame, a []value) value {
		xn, xd := getRat(a[1])
		yn, yd := getRat(a[2])
		if X.branch(mkBool("(= "+yn.t+" 0)"), "rat-div-zero") {
			panic(targetPanic{iface{t: types.Typ[types.String], v: "division by zero"}})
		}
		n, d := bigBin("*", xn, yd), bigBin("*", xd, yn)
		// keep the denominator positive
		if d.concrete() {
			if d.c.Sign() < 0 {
				n, d = bigNeg(n), bigNeg(d)
			}
		} else {
			neg := "(< " + d.t + " 0)"
			n, d = mkBigT("(ite "+neg+" (- "+n.t+") "+n.t+")"), mkBigT("(abs "+d.t+")")
		}
		rn, rd := ratNorm(n, d)
		setRat(a[0], rn, rd)
		return a[0]
	}
	I["(*math/big.Rat).Neg"] = func(fr *frame, a []value) value {
		n, d := getRat(a[1])
		setRat(a[0], bigNeg(n), d)
		return a[0]
	}
	I["(*math/big.Rat).Set"] = func(fr *frame, a []value) value {
		n, d := getRat(a[1])
		setRat(a[0], n, d)
		return a[0]
	}
	I["(*math/big.Rat).SetInt"] = func(fr *frame, a []value) value {
		setRat(a[0], getBig(a[1], "big.Int arg"), bigFromInt64(1))
		return a[0]
	}
	I["(*math/big.Rat).SetInt64"] = func(fr *frame, a []value) value {
		setRat(a[0], bigFromValue(a[1]), bigFromInt64(1))
		return a[0]
	}
	I["(*math/big.Rat).SetFrac"] = func(fr *frame, a []value) value {
		n, d := getBig(a[1], "big.Int arg"), getBig(a[2], "big.Int arg")
		if X.branch(mkBool("(= "+d.t+" 0)"), "rat-setfrac-zero") {
			panic(targetPanic{iface{t: types.Typ[types.String], v: "division by zero"}})
		}
		if d.concrete() {
			if d.c.Sign() < 0 {
				n, d = bigNeg(n), bigNeg(d)
			}
		} else {
			neg := "(< " + d.t + " 0)"
			n, d = mkBigT("(ite "+neg+" (- "+n.t+") "+n.t+")"), mkBigT("(abs "+d.t+")")
		}
		rn, rd := ratNorm(n, d)
		setRat(a[0], rn, rd)
		return a[0]
	}
	I["(*math/big.Rat).Cmp"] = func(fr *frame, a []value) value {
		xn, xd := getRat(a[0])
		yn, yd := getRat(a[1])
		return bigCmp(bigBin("*", xn, yd), bigBin("*", yn, xd))
	}
	I["(*math/big.Rat).Sign"] = func(fr *frame, a []value) value {
		xn, _ := getRat(a[0])
		return bigCmp(xn, bigZero())
	}
	I["(*math/big.Rat).IsInt"] = func(fr *frame, a []value) value {
		xn, xd := getRat(a[0])
		if xn.concrete() && xd.concrete() {
			return new(big.Rat).SetFrac(xn.c, xd.c).IsInt()
		}
		return mkBool("(= (mod " + xn.t + " " + xd.t + ") 0)")
	}
	I["(*math/big.Rat).Num"] = func(fr *frame, a []value) value {
		xn, _ := getRat(a[0])
		return newBigPtr(xn)
	}
	I["(*math/big.Rat).Denom"] = func(fr *frame, a []value) value {
		_, xd := getRat(a[0])
		return newBigPtr(xd)
	}
	I["(*math/big.Rat).String"] = func(fr *frame, a []value) value {
		xn, xd := getRat(a[0])
		if xn.concrete() && xd.concrete() {
			return new(big.Rat).SetFrac(xn.c, xd.c).String()
		}
		return symStr{"(str.++ " + strTerm(bigToStringValue(xn)) + " \"/\" " + strTerm(bigToStringValue(xd)) + ")"}
	}
	I["(*math/big.Rat).RatString"] = I["(*math/big.Rat).String"]
	I["(*math/big.Rat).SetString"] = func(fr *frame, a []value) value {
		s, ok := a[1].(string)
		if !ok {
			return ratSetStringSym(fr, a)
		}
		r, ok := new(big.Rat).SetString(s)
		if !ok {
			return tuple{(*value)(nil), false}
		}
		setRat(a[0], mkBig(new(big.Int).Set(r.Num())), mkBig(new(big.Int).Set(r.Denom())))
		return tuple{a[0], true}
	}
}

// A big.Rat structure is {a big.Int, b big.Int}; b == 0 means denominator 1.
func getRat(v value) (num, den bigv) {
	s := derefStruct(v, "big.Rat")
	num = getBigS(s[0].(structure))
	den = getBigS(s[1].(structure))
	if den.concrete() && den.c.Sign() == 0 {
		den = bigFromInt64(1)
	}
	return
}

func setRat(v value, n, d bigv) {
	s := derefStruct(v, "big.Rat")
	s[0].(structure)[0] = n
	s[1].(structure)[0] = d
}

func newRatPtr(n, d bigv) *value {
	var v value = structure{newBigStruct(n), newBigStruct(d)}
	return &v
}

// ratNorm normalises concrete fractions (as math/big does); symbolic ones are
// kept as unnormalised pairs with a positive denominator.
func ratNorm(n, d bigv) (bigv, bigv) {
	if n.concrete() && d.concrete() {
		if d.c.Sign() == 0 {
			panic(targetPanic{iface{t: types.Typ[types.String], v: "division by zero"}})
		}
		r := new(big.Rat).SetFrac(n.c, d.c)
		return mkBig(new(big.Int).Set(r.Num())), mkBig(new(big.Int).Set(r.Denom()))
	}
	return n, d
}

// ---------------------------------------------------------------------------
// harness API

func strArg(v value) string {
	s, ok := v.(string)
	if !ok {
		panic(engineErr("harness API: name/label must be a concrete string"))
	}
	return s
}

func init() {
	H := harnessAPI
	H["nondetBig"] = func(fr *frame, a []value) value {
		return newBigPtr(mkBigT(X.fresh(strArg(a[0]), "Int")))
	}
	H["nondetBool"] = func(fr *frame, a []value) value {
		return symBool{X.fresh(strArg(a[0]), "Bool")}
	}
	H["nondetInt"] = func(fr *frame, a []value) value {
		c := X.fresh(strArg(a[0]), "Int")
		lo, hi := asInt64(a[1]), asInt64(a[2])
		X.assume(mkBool(fmt.Sprintf("(and (>= %s %s) (<= %s %s))", c, smtInt64(lo), c, smtInt64(hi))))
		return symInt{c, types.Int}
	}
	H["nondetInt64"] = func(fr *frame, a []value) value {
		c := X.fresh(strArg(a[0]), "Int")
		X.addPC(fmt.Sprintf("(and (>= %s (- 9223372036854775808)) (<= %s 9223372036854775807))", c, c))
		return symInt{c, types.Int64}
	}
	H["nondetUint64"] = func(fr *frame, a []value) value {
		c := X.fresh(strArg(a[0]), "Int")
		X.addPC(fmt.Sprintf("(and (>= %s 0) (<= %s 18446744073709551615))", c, c))
		return symInt{c, types.Uint64}
	}
	H["nondetFloat64"] = func(fr *frame, a []value) value {
		return symF64{X.fresh(strArg(a[0]), fpSort)}
	}
	H["nondetStr"] = func(fr *frame, a []value) value {
		c := X.fresh(strArg(a[0]), "String")
		maxLen := asInt64(a[1])
		X.addPC(fmt.Sprintf("(and (<= (str.len %s) %d) (str.in_re %s (re.* (re.range \"\\u{0}\" \"\\u{ff}\"))))", c, maxLen, c))
		return symStr{c}
	}
	H["nondetAtom"] = func(fr *frame, a []value) value {
		c := X.fresh(strArg(a[0]), "Int")
		X.addPC(fmt.Sprintf("(and (>= %s 0) (<= %s 999999))", c, c))
		return symAtom{c}
	}
	H["nondetChoice"] = func(fr *frame, a []value) value {
		return X.choose(strArg(a[0]), int(asInt64(a[1])))
	}
	H["verifConcretize"] = func(fr *frame, a []value) value {
		return X.concretize(a[0], int(asInt64(a[1])), int(asInt64(a[2])))
	}
	H["verifAssume"] = func(fr *frame, a []value) value {
		X.assume(a[0])
		return nil
	}
	H["verifAssert"] = func(fr *frame, a []value) value {
		if X.cfg.labels != nil && !X.cfg.labels.MatchString(strArg(a[0])) {
			return nil
		}
		X.assert(strArg(a[0]), a[1])
		return nil
	}
	H["verifReach"] = func(fr *frame, a []value) value {
		X.res.Reach[strArg(a[0])]++
		// keep a few concrete witnesses of complete paths: the driver replays them
		// natively to validate the encoding (assumptions hold, assertions pass)
		if len(X.res.Witnesses) < X.cfg.maxWitness && X.sol != nil {
			if r := X.sol.check(X.pc, ""); r == "sat" {
				m := X.model()
				X.res.Witnesses = append(X.res.Witnesses, violation{Harness: X.res.Name, Label: strArg(a[0]), Kind: "witness", Model: m, Choices: X.choices()})
			}
			X.sol.popQuery()
		}
		return nil
	}
	H["verifNote"] = func(fr *frame, a []value) value {
		X.res.Notes = appendUniq(X.res.Notes, strArg(a[0]))
		return nil
	}
	H["verifIsSymbolic"] = func(fr *frame, a []value) value {
		return true
	}
	H["verifPreempt"] = func(fr *frame, a []value) value {
		X.sched().preemptAll = a[0].(bool)
		return nil
	}
	H["verifYield"] = func(fr *frame, a []value) value {
		X.sched().explicit = true
		X.sched().yield(nil, strArg(a[0]))
		X.sched().checkFailure()
		return nil
	}
	H["verifJoin"] = func(fr *frame, a []value) value {
		X.sched().joinAll()
		return nil
	}
	H["verifSpawn"] = func(fr *frame, a []value) value {
		fn := a[1]
		name := strArg(a[0])
		i := fr.i
		X.sched().spawn(name, func() { call(i, nil, 0, fn, nil) })
		return nil
	}
	H["verifBlockUntil"] = func(fr *frame, a []value) value {
		// verifBlockUntil(label, func() bool): park the thread until the predicate holds
		fn := a[1]
		i := fr.i
		X.sched().explicit = true
		X.sched().yield(func() bool {
			r := call(i, nil, 0, fn, nil)
			b, ok := r.(bool)
			if !ok {
				panic(engineErr("verifBlockUntil predicate must be concrete"))
			}
			return b
		}, strArg(a[0]))
		X.sched().checkFailure()
		return nil
	}
}


// ratSetStringSym: big.Rat.SetString on a structured symbolic string of the forms
// A "/" B and A "." B (A, B symbolic digit strings, as produced by the repo's portion parser).
func ratSetStringSym(fr *frame, a []value) value {
	ps, ok := structOf(a[1])
	if !ok {
		panic(engineErr("big.Rat.SetString on an unstructured symbolic string"))
	}
	digits := "(re.+ (re.range \"0\" \"9\"))"
	toInt := func(p piece) (string, bool) {
		if p.it != "" {
			return p.it, true
		}
		if !p.sym {
			return "", false
		}
		return "(str.to_int " + p.s + ")", true
	}
	isDigits := func(p piece) string {
		if p.it != "" {
			return "(>= " + p.it + " 0)"
		}
		return "(str.in_re " + p.s + " " + digits + ")"
	}
	if len(ps) == 3 && ps[0].sym && !ps[1].sym && ps[2].sym && ps[1].s == "/" {
		n, _ := toInt(ps[0])
		d, _ := toInt(ps[2])
		if !X.branch(mkBool("(and "+isDigits(ps[0])+" "+isDigits(ps[2])+")"), "rat-setstring-syntax") {
			return tuple{(*value)(nil), false}
		}
		if X.branch(mkBool("(= "+d+" 0)"), "rat-setstring-zero-denominator") {
			return tuple{(*value)(nil), false}
		}
		rn, rd := ratNorm(mkBigT(n), mkBigT(d))
		setRat(a[0], rn, rd)
		return tuple{a[0], true}
	}
	if len(ps) >= 2 && ps[0].sym && !ps[1].sym && ps[1].s == "." && (len(ps) == 2 || len(ps) == 3 && ps[2].sym) {
		n, _ := toInt(ps[0])
		if len(ps) == 2 {
			if !X.branch(mkBool(isDigits(ps[0])), "rat-setstring-syntax") {
				return tuple{(*value)(nil), false}
			}
			setRat(a[0], mkBigT(n), mkBig(big.NewInt(1)))
			return tuple{a[0], true}
		}
		if !X.branch(mkBool("(and "+isDigits(ps[0])+" "+isDigits(ps[2])+")"), "rat-setstring-syntax") {
			return tuple{(*value)(nil), false}
		}
		// the scale depends on the number of fractional digits: fork over it (bounded)
		k := X.concretize(symInt{"(str.len " + ps[2].s + ")", types.Int}, 1, 8)
		scale := new(big.Int).Exp(big.NewInt(10), big.NewInt(int64(k)), nil)
		f, _ := toInt(ps[2])
		num := "(+ (* " + n + " " + scale.String() + ") " + f + ")"
		rn, rd := ratNorm(mkBigT(num), mkBig(scale))
		setRat(a[0], rn, rd)
		return tuple{a[0], true}
	}
	panic(engineErr("big.Rat.SetString on a symbolic string of an unsupported shape"))
}
