package main

// encoding/json as a JSON-tree model.
//
// json.Marshal builds an abstract JSON tree from the Go value by the documented
// rules (struct tags, omitempty, embedded structs, maps -> objects sorted by key,
// the value's own MarshalJSON / MarshalText executed by the interpreter);
// json.Unmarshal fills the destination from a tree by the documented rules
// (case-insensitive field match, null handling, saved type errors, the
// destination's own UnmarshalJSON / UnmarshalText executed by the interpreter).
// When every leaf is concrete the tree is rendered to the exact text
// encoding/json would produce, so the bytes are ordinary concrete bytes. When a
// leaf is symbolic, the result is a symBytes value that carries the tree; its
// text form (needed only when the program hashes or prints it) is an SMT string
// term built from the literal pieces.
//
// Assumption (stated in DESIGN.md): the text layer of encoding/json is the
// identity on trees: decode(encode(tree)) == tree.

import (
	"bytes"
	"encoding/base64"
	"encoding/json"
	"fmt"
	"go/types"
	"math/big"
	"reflect"
	"sort"
	"strconv"
	"strings"
	"unicode/utf8"

	"golang.org/x/tools/go/ssa"
)

type jkind int

const (
	jNull jkind = iota
	jBool
	jNum
	jStr
	jArr
	jObj
)

type jnode struct {
	k    jkind
	b    value // bool | symBool
	num  value // string (literal text) | bigv | symInt | symF64
	s    value // string | symStr | symAtom
	arr  []*jnode
	keys []value // string | symStr | symAtom
	vals []*jnode
}

// symBytes is a []byte whose content is not concrete.
type symBytes struct {
	str  value  // string | symStr ; nil when only the tree is known
	tree *jnode // JSON tree carried by the bytes (may be nil)
}

func (n *jnode) concrete() bool {
	switch n.k {
	case jBool:
		_, ok := n.b.(bool)
		return ok
	case jNum:
		_, ok := n.num.(string)
		return ok
	case jStr:
		_, ok := n.s.(string)
		return ok
	case jArr:
		for _, e := range n.arr {
			if !e.concrete() {
				return false
			}
		}
	case jObj:
		for i, k := range n.keys {
			if _, ok := k.(string); !ok {
				return false
			}
			if !n.vals[i].concrete() {
				return false
			}
		}
	}
	return true
}

func jsonQuote(s string) string {
	b, _ := json.Marshal(s)
	return string(b)
}

// render appends the JSON text of n as pieces.
func (n *jnode) render(ps *[]piece) { n.renderOpt(ps, true) }

// jsonRawOf: the text of a symbolic string inside a JSON document written WITHOUT HTML escaping. The default rendering
// stands for the escaped form under the standing assumption that symbolic strings need no escaping; the raw form equals
// it exactly when the string holds none of < > & (which the default encoder would have escaped).
var jsonRawTerm = map[string]string{}

func jsonRawOf(t string) string {
	if r, ok := jsonRawTerm[t]; ok {
		return r
	}
	r := X.fresh("jsonraw", "String")
	X.addPC("(=> (and (not (str.contains " + t + " \"<\")) (not (str.contains " + t + " \">\")) (not (str.contains " + t + " \"&\"))) (= " + r + " " + t + "))")
	X.addPC("(=> (or (str.contains " + t + " \"<\") (str.contains " + t + " \">\") (str.contains " + t + " \"&\")) (not (= " + r + " " + t + ")))")
	jsonRawTerm[t] = r
	return r
}

func (n *jnode) renderOpt(ps *[]piece, escapeHTML bool) {
	lit := func(s string) { *ps = append(*ps, piece{s: s}) }
	str := func(v value) {
		switch s := v.(type) {
		case string:
			if escapeHTML {
				lit(jsonQuote(s))
			} else {
				lit(jsonQuoteRaw(s))
			}
		case symStr:
			// assumption: a symbolic string needs no JSON escaping
			lit(`"`)
			if escapeHTML {
				*ps = append(*ps, piece{s: s.t, sym: true})
			} else {
				*ps = append(*ps, piece{s: jsonRawOf(s.t), sym: true})
			}
			lit(`"`)
		case symAtom:
			lit(`"`)
			*ps = append(*ps, piece{s: atomStrTerm(s.t), sym: true})
			lit(`"`)
		default:
			panic(engineErr(fmt.Sprintf("json render: string leaf %T", v)))
		}
	}
	switch n.k {
	case jNull:
		lit("null")
	case jBool:
		switch b := n.b.(type) {
		case bool:
			if b {
				lit("true")
			} else {
				lit("false")
			}
		case symBool:
			*ps = append(*ps, piece{s: "(ite " + b.t + " \"true\" \"false\")", sym: true})
		}
	case jNum:
		switch x := n.num.(type) {
		case string:
			lit(x)
		case bigv:
			if x.concrete() {
				lit(x.c.String())
			} else {
				*ps = append(*ps, piece{s: symIntToStr(x.t), sym: true})
			}
		case symInt:
			*ps = append(*ps, piece{s: symIntToStr(x.t), sym: true})
		default:
			panic(engineErr(fmt.Sprintf("json render: number leaf %T has no text form", x)))
		}
	case jStr:
		str(n.s)
	case jArr:
		lit("[")
		for i, e := range n.arr {
			if i > 0 {
				lit(",")
			}
			e.renderOpt(ps, escapeHTML)
		}
		lit("]")
	case jObj:
		lit("{")
		for i, k := range n.keys {
			if i > 0 {
				lit(",")
			}
			str(k)
			lit(":")
			n.vals[i].renderOpt(ps, escapeHTML)
		}
		lit("}")
	}
}

func (n *jnode) text() value {
	var ps []piece
	n.render(&ps)
	return joinPieces(ps)
}

func (n *jnode) textRaw() value {
	var ps []piece
	n.renderOpt(&ps, false)
	return joinPieces(ps)
}

func jsonQuoteRaw(s string) string {
	var buf bytes.Buffer
	enc := json.NewEncoder(&buf)
	enc.SetEscapeHTML(false)
	_ = enc.Encode(s)
	return strings.TrimSuffix(buf.String(), "\n")
}

func concreteBytes(s string) value {
	out := make([]value, len(s))
	for i := 0; i < len(s); i++ {
		out[i] = s[i]
	}
	return out
}

// bytesValue turns a tree into the []byte value handed to the program.
func (n *jnode) bytesValue(suffix string) value {
	if n.concrete() {
		return concreteBytes(n.text().(string) + suffix)
	}
	return symBytes{tree: n}
}

// textOf gives the string content of a []byte value (concrete or symbolic).
func bytesText(v value) value {
	switch b := v.(type) {
	case []value:
		return bytesToString(b)
	case symBytes:
		if b.str != nil {
			return b.str
		}
		if b.tree != nil {
			return b.tree.text()
		}
	}
	panic(engineErr(fmt.Sprintf("bytesText: %T", v)))
}

// ---------------------------------------------------------------------------
// parsing concrete text

type jsonSyntaxErr struct{ msg string }

func parseJSONText(data []byte) (*jnode, *jsonSyntaxErr) {
	if !json.Valid(data) {
		var x any
		err := json.Unmarshal(data, &x)
		msg := "invalid character"
		if err != nil {
			msg = err.Error()
		}
		return nil, &jsonSyntaxErr{msg}
	}
	dec := json.NewDecoder(bytes.NewReader(data))
	dec.UseNumber()
	n, err := parseJSONTokens(dec)
	if err != nil {
		return nil, &jsonSyntaxErr{err.Error()}
	}
	return n, nil
}

func parseJSONTokens(dec *json.Decoder) (*jnode, error) {
	tok, err := dec.Token()
	if err != nil {
		return nil, err
	}
	switch t := tok.(type) {
	case nil:
		return &jnode{k: jNull}, nil
	case bool:
		return &jnode{k: jBool, b: t}, nil
	case json.Number:
		return &jnode{k: jNum, num: string(t)}, nil
	case string:
		return &jnode{k: jStr, s: t}, nil
	case json.Delim:
		switch t {
		case '[':
			n := &jnode{k: jArr}
			for dec.More() {
				e, err := parseJSONTokens(dec)
				if err != nil {
					return nil, err
				}
				n.arr = append(n.arr, e)
			}
			if _, err := dec.Token(); err != nil {
				return nil, err
			}
			return n, nil
		case '{':
			n := &jnode{k: jObj}
			for dec.More() {
				kt, err := dec.Token()
				if err != nil {
					return nil, err
				}
				e, err := parseJSONTokens(dec)
				if err != nil {
					return nil, err
				}
				n.keys = append(n.keys, kt.(string))
				n.vals = append(n.vals, e)
			}
			if _, err := dec.Token(); err != nil {
				return nil, err
			}
			return n, nil
		}
	}
	return nil, fmt.Errorf("unexpected token %v", tok)
}

// treeOfBytes: the JSON tree denoted by a []byte value.
func treeOfBytes(v value) (*jnode, *jsonSyntaxErr) {
	switch b := v.(type) {
	case []value:
		bs := make([]byte, len(b))
		for i, e := range b {
			c, ok := e.(byte)
			if !ok {
				panic(engineErr("json: byte slice with symbolic elements"))
			}
			bs[i] = c
		}
		return parseJSONText(bs)
	case symBytes:
		if b.tree != nil {
			return b.tree, nil
		}
		if s, ok := b.str.(string); ok {
			return parseJSONText([]byte(s))
		}
		if it, ok := intOfString(b.str); ok {
			// the decimal rendering of an integer is a JSON number
			return &jnode{k: jNum, num: mkBigT(it)}, nil
		}
		panic(engineErr("json: cannot parse a symbolic byte string that carries no tree"))
	}
	panic(engineErr(fmt.Sprintf("json: data is %T", v)))
}

// ---------------------------------------------------------------------------
// struct field tables

type jfield struct {
	name      string
	index     []int
	typ       types.Type
	omitEmpty bool
	omitZero  bool
	quoted    bool
	tagged    bool
}

var jfieldCache = map[*types.Struct][]jfield{}

func parseTag(tag string) (name string, opts []string, ignore bool) {
	st := reflect.StructTag(tag)
	v, ok := st.Lookup("json")
	if !ok {
		return "", nil, false
	}
	if v == "-" {
		return "", nil, true
	}
	parts := strings.Split(v, ",")
	return parts[0], parts[1:], false
}

func has(opts []string, o string) bool {
	for _, x := range opts {
		if x == o {
			return true
		}
	}
	return false
}

func structFields(st *types.Struct) []jfield {
	if f, ok := jfieldCache[st]; ok {
		return f
	}
	type cand struct {
		jfield
		depth int
		order int
	}
	var cands []cand
	order := 0
	type level struct {
		st    *types.Struct
		index []int
	}
	cur := []level{{st, nil}}
	visited := map[*types.Struct]bool{}
	for depth := 0; len(cur) > 0; depth++ {
		var next []level
		for _, lv := range cur {
			if visited[lv.st] {
				continue
			}
			visited[lv.st] = true
			for i := 0; i < lv.st.NumFields(); i++ {
				f := lv.st.Field(i)
				name, opts, ignore := parseTag(lv.st.Tag(i))
				if ignore {
					continue
				}
				ft := f.Type()
				if f.Embedded() {
					et := ft
					if p, ok := et.Underlying().(*types.Pointer); ok {
						et = p.Elem()
					}
					_, isStruct := et.Underlying().(*types.Struct)
					if !f.Exported() && !isStruct {
						continue
					}
					if name == "" && isStruct {
						idx := append(append([]int(nil), lv.index...), i)
						next = append(next, level{et.Underlying().(*types.Struct), idx})
						continue
					}
				} else if !f.Exported() {
					continue
				}
				tagged := name != ""
				if name == "" {
					name = f.Name()
				}
				idx := append(append([]int(nil), lv.index...), i)
				cands = append(cands, cand{jfield{name: name, index: idx, typ: ft, omitEmpty: has(opts, "omitempty"), omitZero: has(opts, "omitzero"), quoted: has(opts, "string"), tagged: tagged}, depth, order})
				order++
			}
		}
		cur = next
	}
	// dominant field per name
	byName := map[string][]cand{}
	var names []string
	for _, c := range cands {
		if _, ok := byName[c.name]; !ok {
			names = append(names, c.name)
		}
		byName[c.name] = append(byName[c.name], c)
	}
	var out []cand
	for _, n := range names {
		cs := byName[n]
		minD := cs[0].depth
		for _, c := range cs {
			if c.depth < minD {
				minD = c.depth
			}
		}
		var at []cand
		for _, c := range cs {
			if c.depth == minD {
				at = append(at, c)
			}
		}
		if len(at) == 1 {
			out = append(out, at[0])
			continue
		}
		var tg []cand
		for _, c := range at {
			if c.tagged {
				tg = append(tg, c)
			}
		}
		if len(tg) == 1 {
			out = append(out, tg[0])
		}
	}
	// encoding/json orders fields by index sequence
	sort.SliceStable(out, func(a, b int) bool {
		x, y := out[a].index, out[b].index
		for i := 0; i < len(x) && i < len(y); i++ {
			if x[i] != y[i] {
				return x[i] < y[i]
			}
		}
		return len(x) < len(y)
	})
	res := make([]jfield, len(out))
	for i, c := range out {
		res[i] = c.jfield
	}
	jfieldCache[st] = res
	return res
}

// ---------------------------------------------------------------------------
// helpers on interpreter values

func errIfaceOf(v value) (iface, bool) {
	if it, ok := v.(iface); ok {
		return it, it.t != nil
	}
	return iface{}, false
}

func newErr(fr *frame, msg string) iface { return newErrorString(fr.i, msg) }

func wrapErr(fr *frame, msg string, inner iface) iface {
	t := fr.i.namedType("fmt", "wrapError")
	var cell value = structure{msg, inner}
	return iface{t: types.NewPointer(t), v: &cell}
}

func jsonNamedErr(fr *frame, name string, fields structure) iface {
	t := fr.i.namedType("encoding/json", name)
	if t == nil {
		return newErr(fr, "json: "+name)
	}
	var cell value = fields
	return iface{t: types.NewPointer(t), v: &cell}
}

func syntaxErr(fr *frame, msg string) iface {
	return jsonNamedErr(fr, "SyntaxError", structure{msg, int64(0)})
}

func isEmptyValueSym(fr *frame, t types.Type, v value) bool {
	switch x := v.(type) {
	case bool:
		return !x
	case symBool:
		return X.branch(mkBool(sNot(x.t)), "omitempty")
	case string:
		return x == ""
	case symStr:
		return X.branch(mkBool("(= (str.len "+x.t+") 0)"), "omitempty")
	case symAtom:
		return false
	case symInt:
		return X.branch(mkBool("(= "+x.t+" 0)"), "omitempty")
	case symF64:
		return X.branch(mkBool("(fp.isZero "+x.t+")"), "omitempty")
	case *value:
		return x == nil
	case iface:
		return x.t == nil
	case []value:
		return len(x) == 0
	case symBytes:
		return false
	case *omap:
		return x.len() == 0
	case array:
		return len(x) == 0
	case structure:
		return false
	case nil:
		return true
	}
	rv := reflect.ValueOf(v)
	switch rv.Kind() {
	case reflect.Int, reflect.Int8, reflect.Int16, reflect.Int32, reflect.Int64:
		return rv.Int() == 0
	case reflect.Uint, reflect.Uint8, reflect.Uint16, reflect.Uint32, reflect.Uint64, reflect.Uintptr:
		return rv.Uint() == 0
	case reflect.Float32, reflect.Float64:
		return rv.Float() == 0
	}
	return false
}

func isBigIntType(t types.Type) bool {
	n, ok := t.(*types.Named)
	return ok && n.Obj().Pkg() != nil && n.Obj().Pkg().Path() == "math/big" && n.Obj().Name() == "Int"
}

func isNamed(t types.Type, pkg, name string) bool {
	t = types.Unalias(t)
	n, ok := t.(*types.Named)
	return ok && n.Obj().Pkg() != nil && n.Obj().Pkg().Path() == pkg && n.Obj().Name() == name
}

var anyType = types.NewInterfaceType(nil, nil).Complete()

// ---------------------------------------------------------------------------
// Marshal

// jsonEncode builds the tree of value v of static type t. addr is the cell that
// holds v when v is addressable (pointer-receiver marshalers apply), else nil.
func jsonEncode(fr *frame, t types.Type, v value, addr *value) (*jnode, iface) {
	t = types.Unalias(t)
	// nil pointers / interfaces
	if p, ok := v.(*value); ok && p == nil {
		if _, isPtr := t.Underlying().(*types.Pointer); isPtr {
			return &jnode{k: jNull}, iface{}
		}
	}
	// marshalers
	if _, isIface := t.Underlying().(*types.Interface); !isIface {
		if isBigIntType(t) {
			return &jnode{k: jNum, num: getBigS(v.(structure))}, iface{}
		}
		if p, ok := t.Underlying().(*types.Pointer); ok && isBigIntType(types.Unalias(p.Elem())) {
			return &jnode{k: jNum, num: getBig(v, "big.Int MarshalJSON")}, iface{}
		}
		if fn := methodOf(fr.i, t, "MarshalJSON"); fn != nil && isMarshalSig(fn) {
			return callMarshalJSON(fr, fn, v)
		}
		if addr != nil {
			if fn := methodOf(fr.i, types.NewPointer(t), "MarshalJSON"); fn != nil && isMarshalSig(fn) {
				return callMarshalJSON(fr, fn, addr)
			}
		}
		if fn := methodOf(fr.i, t, "MarshalText"); fn != nil && isMarshalSig(fn) {
			return callMarshalText(fr, fn, v)
		}
		if addr != nil {
			if fn := methodOf(fr.i, types.NewPointer(t), "MarshalText"); fn != nil && isMarshalSig(fn) {
				return callMarshalText(fr, fn, addr)
			}
		}
	}
	switch u := t.Underlying().(type) {
	case *types.Basic:
		return jsonEncodeBasic(fr, t, u, v)
	case *types.Pointer:
		p := v.(*value)
		return jsonEncode(fr, u.Elem(), load(u.Elem(), p), p)
	case *types.Interface:
		it := v.(iface)
		if it.t == nil {
			return &jnode{k: jNull}, iface{}
		}
		return jsonEncode(fr, it.t, it.v, nil)
	case *types.Struct:
		s := v.(structure)
		n := &jnode{k: jObj}
		for _, f := range structFields(u) {
			fv, faddr, ok := fieldByIndex(u, s, f.index, addr != nil)
			if !ok {
				continue // nil embedded pointer
			}
			if f.omitEmpty && isEmptyValueSym(fr, f.typ, fv) {
				continue
			}
			if f.omitZero && isZeroValue(fr, f.typ, fv) {
				continue
			}
			c, err := jsonEncode(fr, f.typ, fv, faddr)
			if err.t != nil {
				return nil, err
			}
			if f.quoted {
				c = quoteNode(c)
			}
			n.keys = append(n.keys, f.name)
			n.vals = append(n.vals, c)
		}
		return n, iface{}
	case *types.Map:
		m, _ := v.(*omap)
		if m == nil {
			return &jnode{k: jNull}, iface{}
		}
		n := &jnode{k: jObj}
		allConc := true
		for i, k := range m.keys {
			ks, err := jsonKeyString(fr, u.Key(), k)
			if err.t != nil {
				return nil, err
			}
			if _, ok := ks.(string); !ok {
				allConc = false
			}
			c, err := jsonEncode(fr, u.Elem(), m.vals[i], nil)
			if err.t != nil {
				return nil, err
			}
			n.keys = append(n.keys, ks)
			n.vals = append(n.vals, c)
		}
		if allConc {
			idx := make([]int, len(n.keys))
			for i := range idx {
				idx[i] = i
			}
			sort.SliceStable(idx, func(a, b int) bool { return n.keys[idx[a]].(string) < n.keys[idx[b]].(string) })
			ks, vs := make([]value, len(idx)), make([]*jnode, len(idx))
			for i, j := range idx {
				ks[i], vs[i] = n.keys[j], n.vals[j]
			}
			n.keys, n.vals = ks, vs
		}
		return n, iface{}
	case *types.Slice:
		if sb, ok := v.(symBytes); ok {
			_ = sb
			panic(engineErr("json: marshalling a symbolic []byte (base64) is not modelled"))
		}
		sl := v.([]value)
		if sl == nil {
			return &jnode{k: jNull}, iface{}
		}
		if b, ok := u.Elem().Underlying().(*types.Basic); ok && b.Kind() == types.Uint8 && !hasMarshalMethods(fr, u.Elem()) {
			bs := make([]byte, len(sl))
			for i, e := range sl {
				c, ok := e.(byte)
				if !ok {
					panic(engineErr("json: []byte with symbolic elements"))
				}
				bs[i] = c
			}
			return &jnode{k: jStr, s: base64.StdEncoding.EncodeToString(bs)}, iface{}
		}
		n := &jnode{k: jArr, arr: []*jnode{}}
		for i := range sl {
			c, err := jsonEncode(fr, u.Elem(), load(u.Elem(), &sl[i]), &sl[i])
			if err.t != nil {
				return nil, err
			}
			n.arr = append(n.arr, c)
		}
		return n, iface{}
	case *types.Array:
		a := v.(array)
		n := &jnode{k: jArr, arr: []*jnode{}}
		for i := range a {
			c, err := jsonEncode(fr, u.Elem(), a[i], nil)
			if err.t != nil {
				return nil, err
			}
			n.arr = append(n.arr, c)
		}
		return n, iface{}
	}
	return nil, jsonNamedErr(fr, "UnsupportedTypeError", structure{makeReflectType(rtype{t})})
}

func hasMarshalMethods(fr *frame, t types.Type) bool {
	return methodOf(fr.i, t, "MarshalJSON") != nil || methodOf(fr.i, t, "MarshalText") != nil ||
		methodOf(fr.i, types.NewPointer(t), "MarshalJSON") != nil || methodOf(fr.i, types.NewPointer(t), "MarshalText") != nil
}

func isMarshalSig(fn *ssa.Function) bool {
	sig := fn.Signature
	return sig.Params().Len() == 0 && sig.Results().Len() == 2
}

func isZeroValue(fr *frame, t types.Type, v value) bool {
	if fn := methodOf(fr.i, t, "IsZero"); fn != nil && fn.Signature.Params().Len() == 0 && fn.Signature.Results().Len() == 1 {
		return X.branch(call(fr.i, fr, 0, fn, []value{v}), "omitzero")
	}
	if s, ok := v.(structure); ok {
		st := t.Underlying().(*types.Struct)
		for i := range s {
			if !isZeroValue(fr, st.Field(i).Type(), s[i]) {
				return false
			}
		}
		return true
	}
	if sl, ok := v.([]value); ok {
		return sl == nil
	}
	if m, ok := v.(*omap); ok {
		return m == nil
	}
	return isEmptyValueSym(fr, t, v)
}

func quoteNode(c *jnode) *jnode {
	if c.k == jNum || c.k == jBool || c.k == jStr {
		if c.concrete() {
			return &jnode{k: jStr, s: c.text().(string)}
		}
		return &jnode{k: jStr, s: c.text()}
	}
	return c
}

// fieldByIndex walks an index path through embedded structs (and embedded
// pointers to structs). ok is false when an embedded pointer is nil.
func fieldByIndex(st *types.Struct, s structure, index []int, addressable bool) (value, *value, bool) {
	cur := s
	curT := st
	for d, i := range index {
		ft := curT.Field(i).Type()
		if d == len(index)-1 {
			var a *value
			if addressable {
				a = &cur[i]
			}
			return load(ft, &cur[i]), a, true
		}
		if p, ok := ft.Underlying().(*types.Pointer); ok {
			pv := cur[i].(*value)
			if pv == nil {
				return nil, nil, false
			}
			cur = (*pv).(structure)
			curT = p.Elem().Underlying().(*types.Struct)
			addressable = true
		} else {
			cur = cur[i].(structure)
			curT = ft.Underlying().(*types.Struct)
		}
	}
	return nil, nil, false
}

func callMarshalJSON(fr *frame, fn *ssa.Function, recv value) (*jnode, iface) {
	if p, ok := recv.(*value); ok && p == nil {
		if _, isPtr := fn.Signature.Recv().Type().Underlying().(*types.Pointer); isPtr {
			return &jnode{k: jNull}, iface{}
		}
	}
	res := call(fr.i, fr, 0, fn, []value{recv}).(tuple)
	if err, bad := errIfaceOf(res[1]); bad {
		return nil, wrapErr(fr, "json: error calling MarshalJSON for type "+fn.Signature.Recv().Type().String(), err)
	}
	n, serr := treeOfBytes(res[0])
	if serr != nil {
		return nil, wrapErr(fr, "json: error calling MarshalJSON for type "+fn.Signature.Recv().Type().String(), syntaxErr(fr, serr.msg))
	}
	return n, iface{}
}

func callMarshalText(fr *frame, fn *ssa.Function, recv value) (*jnode, iface) {
	if p, ok := recv.(*value); ok && p == nil {
		if _, isPtr := fn.Signature.Recv().Type().Underlying().(*types.Pointer); isPtr {
			return &jnode{k: jNull}, iface{}
		}
	}
	res := call(fr.i, fr, 0, fn, []value{recv}).(tuple)
	if err, bad := errIfaceOf(res[1]); bad {
		return nil, wrapErr(fr, "json: error calling MarshalText for type "+fn.Signature.Recv().Type().String(), err)
	}
	return &jnode{k: jStr, s: bytesText(res[0])}, iface{}
}

func jsonKeyString(fr *frame, kt types.Type, k value) (value, iface) {
	if b, ok := kt.Underlying().(*types.Basic); ok && b.Kind() == types.String {
		return k, iface{}
	}
	if fn := methodOf(fr.i, kt, "MarshalText"); fn != nil && isMarshalSig(fn) {
		res := call(fr.i, fr, 0, fn, []value{k}).(tuple)
		if err, bad := errIfaceOf(res[1]); bad {
			return nil, err
		}
		return bytesText(res[0]), iface{}
	}
	if b, ok := kt.Underlying().(*types.Basic); ok && b.Info()&types.IsInteger != 0 {
		if s, ok := k.(symInt); ok {
			return symStr{symIntToStr(s.t)}, iface{}
		}
		return fmt.Sprint(k), iface{}
	}
	panic(engineErr("json: unsupported map key type " + kt.String()))
}

func jsonEncodeBasic(fr *frame, t types.Type, b *types.Basic, v value) (*jnode, iface) {
	switch {
	case b.Kind() == types.Bool:
		return &jnode{k: jBool, b: v}, iface{}
	case b.Kind() == types.String:
		if isNamed(t, "encoding/json", "Number") {
			s, ok := v.(string)
			if !ok {
				panic(engineErr("json: symbolic json.Number"))
			}
			if s == "" {
				s = "0"
			}
			return &jnode{k: jNum, num: s}, iface{}
		}
		return &jnode{k: jStr, s: v}, iface{}
	case b.Info()&types.IsInteger != 0:
		if s, ok := v.(symInt); ok {
			return &jnode{k: jNum, num: s}, iface{}
		}
		return &jnode{k: jNum, num: fmt.Sprint(v)}, iface{}
	case b.Info()&types.IsFloat != 0:
		if s, ok := v.(symF64); ok {
			return &jnode{k: jNum, num: s}, iface{}
		}
		var f float64
		switch x := v.(type) {
		case float64:
			f = x
		case float32:
			f = float64(x)
		}
		out, err := json.Marshal(f)
		if err != nil {
			return nil, jsonNamedErr(fr, "UnsupportedValueError", structure{zero(fr.i.namedType("reflect", "Value")), err.Error()})
		}
		if _, is32 := v.(float32); is32 {
			out, _ = json.Marshal(v.(float32))
		}
		return &jnode{k: jNum, num: string(out)}, iface{}
	}
	return nil, jsonNamedErr(fr, "UnsupportedTypeError", structure{makeReflectType(rtype{t})})
}

// ---------------------------------------------------------------------------
// Unmarshal

type jdec struct {
	fr         *frame
	useNumber  bool
	disallow   bool
	savedError iface
	path       []string
	structName string
}

func (d *jdec) saveError(err iface) {
	if d.savedError.t == nil {
		d.savedError = err
	}
}

func nodeDesc(n *jnode) string {
	switch n.k {
	case jNull:
		return "null"
	case jBool:
		return "bool"
	case jNum:
		if s, ok := n.num.(string); ok {
			return "number " + s
		}
		return "number"
	case jStr:
		return "string"
	case jArr:
		return "array"
	}
	return "object"
}

func (d *jdec) typeError(n *jnode, t types.Type) {
	d.saveError(jsonNamedErr(d.fr, "UnmarshalTypeError", structure{nodeDesc(n), makeReflectType(rtype{t}), int64(0), d.structName, strings.Join(d.path, ".")}))
}

func newCell(t types.Type) *value {
	c := new(value)
	*c = zero(t)
	return c
}

// decode stores node n into the cell addr holding a value of type t.
func (d *jdec) decode(n *jnode, t types.Type, addr *value) {
	fr := d.fr
	t = types.Unalias(t)
	// null
	if n.k == jNull {
		if isNamed(t, "encoding/json", "RawMessage") {
			*addr = concreteBytes("null")
			return
		}
		switch t.Underlying().(type) {
		case *types.Pointer, *types.Map, *types.Slice, *types.Interface:
			*addr = zero(t)
			return
		}
		// a named non-pointer type whose pointer has UnmarshalJSON is called with null
		if _, named := t.(*types.Named); named {
			if isBigIntType(t) {
				return
			}
			if fn := methodOf(fr.i, types.NewPointer(t), "UnmarshalJSON"); fn != nil && isUnmarshalSig(fn) {
				d.callUnmarshalJSON(fn, addr, n)
			}
		}
		return
	}
	// pointer: allocate and descend
	if p, ok := t.Underlying().(*types.Pointer); ok {
		// does the pointer type itself (named pointer types are rare) matter? no.
		pv, _ := (*addr).(*value)
		if pv == nil {
			pv = newCell(p.Elem())
			*addr = pv
		}
		d.decode(n, p.Elem(), pv)
		return
	}
	if isNamed(t, "encoding/json", "RawMessage") {
		*addr = n.bytesValue("")
		return
	}
	if _, isIface := t.Underlying().(*types.Interface); !isIface {
		if isBigIntType(t) {
			d.decodeBigInt(n, t, addr)
			return
		}
		if fn := methodOf(fr.i, types.NewPointer(t), "UnmarshalJSON"); fn != nil && isUnmarshalSig(fn) {
			d.callUnmarshalJSON(fn, addr, n)
			return
		}
		if fn := methodOf(fr.i, types.NewPointer(t), "UnmarshalText"); fn != nil && isUnmarshalSig(fn) && n.k == jStr {
			res := call(fr.i, fr, 0, fn, []value{addr, stringBytes(n.s)})
			if err, bad := errIfaceOf(res); bad {
				d.saveError(err)
			}
			return
		}
	}
	switch u := t.Underlying().(type) {
	case *types.Interface:
		if u.NumMethods() != 0 {
			// non-empty interface holding a non-nil pointer: decode into it
			it := (*addr).(iface)
			if it.t != nil {
				if p, ok := it.t.Underlying().(*types.Pointer); ok && it.v.(*value) != nil {
					d.decode(n, p.Elem(), it.v.(*value))
					return
				}
			}
			d.typeError(n, t)
			return
		}
		it := (*addr).(iface)
		if it.t != nil {
			if p, ok := it.t.Underlying().(*types.Pointer); ok && it.v.(*value) != nil {
				d.decode(n, p.Elem(), it.v.(*value))
				return
			}
		}
		*addr = d.generic(n)
	case *types.Basic:
		d.decodeBasic(n, t, u, addr)
	case *types.Struct:
		if n.k != jObj {
			d.typeError(n, t)
			return
		}
		s := (*addr).(structure)
		fields := structFields(u)
		saveStruct, savePath := d.structName, d.path
		if nt, ok := t.(*types.Named); ok {
			d.structName = nt.Obj().Name()
		} else {
			d.structName = ""
		}
		for i, k := range n.keys {
			f := matchField(fields, k)
			if f == nil {
				if d.disallow {
					d.saveError(newErr(fr, fmt.Sprintf("json: unknown field %q", toString(k))))
				}
				continue
			}
			cell := fieldCellForDecode(u, s, f.index)
			d.path = append(append([]string(nil), savePath...), f.name)
			c := n.vals[i]
			if f.quoted && c.k == jStr {
				if cs, ok := c.s.(string); ok {
					if inner, serr := parseJSONText([]byte(cs)); serr == nil {
						c = inner
					}
				}
			}
			d.decode(c, f.typ, cell)
		}
		d.structName, d.path = saveStruct, savePath
	case *types.Map:
		if n.k != jObj {
			d.typeError(n, t)
			return
		}
		m, _ := (*addr).(*omap)
		if m == nil {
			m = makeMap(u.Key(), 0).(*omap)
			*addr = m
		}
		for i, k := range n.keys {
			kv, ok := d.mapKey(u.Key(), k, n)
			if !ok {
				continue
			}
			cell := newCell(u.Elem())
			d.decode(n.vals[i], u.Elem(), cell)
			m.insert(kv, *cell)
		}
	case *types.Slice:
		if n.k == jStr {
			if b, ok := u.Elem().Underlying().(*types.Basic); ok && b.Kind() == types.Uint8 {
				s, ok := n.s.(string)
				if !ok {
					// an arbitrary string either is not base64 (error) or decodes to some bytes
					if X.choose("json-base64(symbolic)", 2) == 0 {
						d.saveError(newErr(fr, "illegal base64 data at input byte 0"))
						return
					}
					*addr = concreteBytes("sym")
					return
				}
				raw, err := base64.StdEncoding.DecodeString(s)
				if err != nil {
					d.saveError(newErr(fr, err.Error()))
					return
				}
				*addr = concreteBytes(string(raw))
				return
			}
		}
		if n.k != jArr {
			d.typeError(n, t)
			return
		}
		sl := make([]value, len(n.arr))
		for i := range sl {
			sl[i] = zero(u.Elem())
			d.decode(n.arr[i], u.Elem(), &sl[i])
		}
		*addr = sl
	case *types.Array:
		if n.k != jArr {
			d.typeError(n, t)
			return
		}
		a := (*addr).(array)
		for i := range a {
			if i < len(n.arr) {
				d.decode(n.arr[i], u.Elem(), &a[i])
			} else {
				a[i] = zero(u.Elem())
			}
		}
	default:
		d.typeError(n, t)
	}
}

func isUnmarshalSig(fn *ssa.Function) bool {
	sig := fn.Signature
	return sig.Params().Len() == 1 && sig.Results().Len() == 1
}

func stringBytes(s value) value {
	switch x := s.(type) {
	case string:
		return concreteBytes(x)
	case symStr:
		return symBytes{str: x}
	case symAtom:
		return symBytes{str: symStr{atomStrTerm(x.t)}}
	}
	panic(engineErr(fmt.Sprintf("stringBytes %T", s)))
}

func (d *jdec) callUnmarshalJSON(fn *ssa.Function, addr *value, n *jnode) {
	res := call(d.fr.i, d.fr, 0, fn, []value{addr, n.bytesValue("")})
	if err, bad := errIfaceOf(res); bad {
		d.saveError(err)
	}
}

func matchField(fields []jfield, k value) *jfield {
	switch key := k.(type) {
	case string:
		for i := range fields {
			if fields[i].name == key {
				return &fields[i]
			}
		}
		for i := range fields {
			if strings.EqualFold(fields[i].name, key) {
				return &fields[i]
			}
		}
		return nil
	default:
		// symbolic key: exact matches only (case folding of symbolic keys is not modelled)
		for i := range fields {
			if X.branch(equalsV(types.Typ[types.String], k, fields[i].name), "json-field") {
				return &fields[i]
			}
		}
	}
	return nil
}

func fieldCellForDecode(st *types.Struct, s structure, index []int) *value {
	cur := s
	curT := st
	for d, i := range index {
		ft := curT.Field(i).Type()
		if d == len(index)-1 {
			return &cur[i]
		}
		if p, ok := ft.Underlying().(*types.Pointer); ok {
			pv, _ := cur[i].(*value)
			if pv == nil {
				pv = newCell(p.Elem())
				cur[i] = pv
			}
			cur = (*pv).(structure)
			curT = p.Elem().Underlying().(*types.Struct)
		} else {
			cur = cur[i].(structure)
			curT = ft.Underlying().(*types.Struct)
		}
	}
	panic("unreachable")
}

func (d *jdec) mapKey(kt types.Type, k value, n *jnode) (value, bool) {
	fr := d.fr
	if b, ok := kt.Underlying().(*types.Basic); ok && b.Kind() == types.String {
		return k, true
	}
	if fn := methodOf(fr.i, types.NewPointer(kt), "UnmarshalText"); fn != nil && isUnmarshalSig(fn) {
		cell := newCell(kt)
		res := call(fr.i, fr, 0, fn, []value{cell, stringBytes(k)})
		if err, bad := errIfaceOf(res); bad {
			d.saveError(err)
			return nil, false
		}
		return *cell, true
	}
	if b, ok := kt.Underlying().(*types.Basic); ok && b.Info()&types.IsInteger != 0 {
		ks, ok := k.(string)
		if !ok {
			panic(engineErr("json: symbolic key into an integer-keyed map"))
		}
		bi, ok2 := new(big.Int).SetString(ks, 10)
		lo, hi := kindRange(b.Kind())
		if !ok2 || bi.Cmp(lo) < 0 || bi.Cmp(hi) > 0 {
			d.saveError(jsonNamedErr(fr, "UnmarshalTypeError", structure{"number " + ks, makeReflectType(rtype{kt}), int64(0), "", ""}))
			return nil, false
		}
		return concreteInt(b.Kind(), bi), true
	}
	panic(engineErr("json: unsupported map key type " + kt.String()))
}

func (d *jdec) decodeBigInt(n *jnode, t types.Type, addr *value) {
	// (*big.Int).UnmarshalJSON: text must be an integer literal (a quoted string is rejected)
	s := (*addr).(structure)
	if n.k != jNum {
		if n.k == jStr {
			// big.Int.UnmarshalJSON -> UnmarshalText(`"..."`) fails: the quotes are not digits
			d.saveError(newErr(d.fr, "math/big: cannot unmarshal "+toString(bytesText(n.bytesValue("")))+" into a *big.Int"))
			return
		}
		d.saveError(newErr(d.fr, "math/big: cannot unmarshal "+nodeDesc(n)+" into a *big.Int"))
		return
	}
	switch x := n.num.(type) {
	case string:
		bi, ok := new(big.Int).SetString(x, 0)
		if !ok {
			d.saveError(newErr(d.fr, "math/big: cannot unmarshal \""+x+"\" into a *big.Int"))
			return
		}
		s[0] = mkBig(bi)
	case bigv:
		s[0] = x
	case symInt:
		s[0] = mkBigT(x.t)
	default:
		panic(engineErr(fmt.Sprintf("json: number leaf %T into big.Int", x)))
	}
}

func (d *jdec) generic(n *jnode) value {
	switch n.k {
	case jNull:
		return iface{}
	case jBool:
		return iface{t: types.Typ[types.Bool], v: n.b}
	case jStr:
		return iface{t: types.Typ[types.String], v: n.s}
	case jNum:
		if d.useNumber {
			nt := d.fr.i.namedType("encoding/json", "Number")
			s, ok := n.num.(string)
			if !ok {
				switch x := n.num.(type) {
				case bigv:
					return iface{t: nt, v: symStr{symIntToStr(x.t)}}
				case symInt:
					return iface{t: nt, v: symStr{symIntToStr(x.t)}}
				}
				panic(engineErr("json: symbolic float as json.Number"))
			}
			return iface{t: nt, v: s}
		}
		return iface{t: types.Typ[types.Float64], v: numToFloat(n.num)}
	case jArr:
		sl := make([]value, len(n.arr))
		for i, e := range n.arr {
			sl[i] = d.generic(e)
		}
		return iface{t: types.NewSlice(anyType), v: sl}
	}
	m := makeMap(types.Typ[types.String], 0).(*omap)
	for i, k := range n.keys {
		m.insert(k, d.generic(n.vals[i]))
	}
	return iface{t: types.NewMap(types.Typ[types.String], anyType), v: m}
}

func numToFloat(num value) value {
	switch x := num.(type) {
	case string:
		f, _ := strconv.ParseFloat(x, 64)
		return f
	case symF64:
		return x
	case bigv:
		if x.concrete() {
			f, _ := new(big.Float).SetInt(x.c).Float64()
			return f
		}
		return intTermToFloat(x.t)
	case symInt:
		return intTermToFloat(x.t)
	}
	panic(engineErr(fmt.Sprintf("numToFloat %T", num)))
}

func (d *jdec) decodeBasic(n *jnode, t types.Type, b *types.Basic, addr *value) {
	switch {
	case b.Kind() == types.Bool:
		if n.k != jBool {
			d.typeError(n, t)
			return
		}
		*addr = n.b
	case b.Kind() == types.String:
		if isNamed(t, "encoding/json", "Number") {
			if n.k == jNum {
				if s, ok := n.num.(string); ok {
					*addr = s
					return
				}
				switch x := n.num.(type) {
				case bigv:
					*addr = symStr{symIntToStr(x.t)}
					return
				case symInt:
					*addr = symStr{symIntToStr(x.t)}
					return
				}
			}
			if n.k == jStr {
				// a quoted number is accepted when it is a valid number literal
				if s, ok := n.s.(string); ok && json.Valid([]byte(s)) && s != "" && (s[0] == '-' || s[0] >= '0' && s[0] <= '9') {
					*addr = s
					return
				}
				d.saveError(newErr(d.fr, "json: invalid number literal, trying to unmarshal "+toString(n.s)+" into Number"))
				return
			}
			d.typeError(n, t)
			return
		}
		if n.k != jStr {
			d.typeError(n, t)
			return
		}
		*addr = n.s
	case b.Info()&types.IsInteger != 0:
		if n.k != jNum {
			d.typeError(n, t)
			return
		}
		lo, hi := kindRange(b.Kind())
		switch x := n.num.(type) {
		case string:
			bi, ok := new(big.Int).SetString(x, 10)
			if !ok || bi.Cmp(lo) < 0 || bi.Cmp(hi) > 0 {
				d.typeError(n, t)
				return
			}
			*addr = concreteInt(b.Kind(), bi)
		case bigv, symInt:
			var term string
			if bv, ok := x.(bigv); ok {
				if bv.concrete() {
					if bv.c.Cmp(lo) < 0 || bv.c.Cmp(hi) > 0 {
						d.typeError(n, t)
						return
					}
					*addr = concreteInt(b.Kind(), bv.c)
					return
				}
				term = bv.t
			} else {
				term = x.(symInt).t
			}
			if X.branch(mkBool(fmt.Sprintf("(or (< %s %s) (> %s %s))", term, smtInt(lo), term, smtInt(hi))), "json-int-range") {
				d.typeError(n, t)
				return
			}
			*addr = symInt{term, b.Kind()}
		default:
			panic(engineErr(fmt.Sprintf("json: number leaf %T into integer", x)))
		}
	case b.Info()&types.IsFloat != 0:
		if n.k != jNum {
			d.typeError(n, t)
			return
		}
		f := numToFloat(n.num)
		if b.Kind() == types.Float32 {
			if c, ok := f.(float64); ok {
				*addr = float32(c)
				return
			}
			panic(engineErr("json: symbolic float32"))
		}
		*addr = f
	default:
		d.typeError(n, t)
	}
}

// ---------------------------------------------------------------------------
// intrinsics

func jsonMarshalValue(fr *frame, v value) (*jnode, iface) {
	it := v.(iface)
	if it.t == nil {
		return &jnode{k: jNull}, iface{}
	}
	return jsonEncode(fr, it.t, it.v, nil)
}

func jsonUnmarshalInto(fr *frame, n *jnode, dst value, useNumber, disallow bool) iface {
	it := dst.(iface)
	if it.t == nil {
		return jsonNamedErr(fr, "InvalidUnmarshalError", structure{iface{}})
	}
	p, ok := it.t.Underlying().(*types.Pointer)
	if !ok || it.v.(*value) == nil {
		return jsonNamedErr(fr, "InvalidUnmarshalError", structure{makeReflectType(rtype{it.t})})
	}
	d := &jdec{fr: fr, useNumber: useNumber, disallow: disallow}
	// the top-level pointer type itself may implement Unmarshaler
	d.decode(n, p.Elem(), it.v.(*value))
	return d.savedError
}

func structFieldIndex(t types.Type, name string) int {
	st := t.Underlying().(*types.Struct)
	for i := 0; i < st.NumFields(); i++ {
		if st.Field(i).Name() == name {
			return i
		}
	}
	panic(engineErr("no field " + name + " in " + t.String()))
}

// readerRemaining returns the unread content of an io.Reader the model knows
// (bytes.Reader, bytes.Buffer, strings.Reader) and a function to advance it.
func readerRemaining(fr *frame, r iface) (value, func(n int)) {
	if r.t == nil {
		panic(targetRuntimeError("runtime error: invalid memory address or nil pointer dereference (nil io.Reader)"))
	}
	p, ok := r.t.Underlying().(*types.Pointer)
	if ok {
		switch {
		case isNamed(p.Elem(), "bytes", "Reader"):
			s := derefStruct(r.v, "bytes.Reader")
			is, ii := structFieldIndex(p.Elem(), "s"), structFieldIndex(p.Elem(), "i")
			off := int(asInt64(s[ii]))
			switch b := s[is].(type) {
			case []value:
				return b[off:], func(n int) { s[ii] = int64(off + n) }
			case symBytes:
				if off != 0 {
					panic(engineErr("json: partially read symbolic reader"))
				}
				return b, func(n int) { s[is] = []value(nil); s[ii] = int64(0) }
			}
		case isNamed(p.Elem(), "strings", "Reader"):
			s := derefStruct(r.v, "strings.Reader")
			is, ii := structFieldIndex(p.Elem(), "s"), structFieldIndex(p.Elem(), "i")
			off := int(asInt64(s[ii]))
			if str, ok := s[is].(string); ok {
				return concreteBytes(str[off:]), func(n int) { s[ii] = int64(off + n) }
			}
		case isNamed(p.Elem(), "bytes", "Buffer"):
			s := derefStruct(r.v, "bytes.Buffer")
			ib, io := structFieldIndex(p.Elem(), "buf"), structFieldIndex(p.Elem(), "off")
			off := int(asInt64(s[io]))
			if b, ok := s[ib].([]value); ok {
				return b[off:], func(n int) { s[io] = off + n }
			}
			if b, ok := s[ib].(symBytes); ok && off == 0 {
				return b, func(n int) { s[ib] = []value(nil) }
			}
		}
	}
	panic(engineErr("json.Decoder over an unmodelled reader " + r.t.String()))
}

func init() {
	I := intrinsics
	I["encoding/json.Marshal"] = func(fr *frame, a []value) value {
		n, err := jsonMarshalValue(fr, a[0])
		if err.t != nil {
			return tuple{[]value(nil), err}
		}
		return tuple{n.bytesValue(""), iface{}}
	}
	I["encoding/json.MarshalIndent"] = func(fr *frame, a []value) value {
		n, err := jsonMarshalValue(fr, a[0])
		if err.t != nil {
			return tuple{[]value(nil), err}
		}
		if n.concrete() {
			var buf bytes.Buffer
			if e := json.Indent(&buf, []byte(n.text().(string)), a[1].(string), a[2].(string)); e == nil {
				return tuple{concreteBytes(buf.String()), iface{}}
			}
		}
		return tuple{n.bytesValue(""), iface{}}
	}
	I["encoding/json.Valid"] = func(fr *frame, a []value) value {
		if sb, ok := a[0].(symBytes); ok && sb.tree != nil {
			return true
		}
		_, serr := treeOfBytes(a[0])
		return serr == nil
	}
	I["encoding/json.Unmarshal"] = func(fr *frame, a []value) value {
		n, serr := treeOfBytes(a[0])
		if serr != nil {
			return syntaxErr(fr, serr.msg)
		}
		return jsonUnmarshalInto(fr, n, a[1], false, false)
	}
	I["(*encoding/json.Encoder).Encode"] = func(fr *frame, a []value) value {
		enc := derefStruct(a[0], "json.Encoder")
		n, err := jsonMarshalValue(fr, a[1])
		if err.t != nil {
			return err
		}
		var out value
		escapeHTML := true
		if b, ok := enc[2].(bool); ok {
			escapeHTML = b
		}
		txt := n.text()
		if !escapeHTML {
			txt = n.textRaw()
		}
		if c, ok := txt.(string); ok {
			out = concreteBytes(c + "\n")
		} else {
			out = symBytes{str: joinPieces([]piece{toPiece(txt), {s: "\n"}})}
		}
		w := enc[0].(iface)
		if w.t == nil {
			panic(targetRuntimeError("runtime error: invalid memory address or nil pointer dereference (nil io.Writer)"))
		}
		fn := methodOf(fr.i, w.t, "Write")
		if fn == nil {
			panic(engineErr("json.Encoder: writer without Write"))
		}
		res := call(fr.i, fr, 0, fn, []value{w.v, out}).(tuple)
		if e, bad := errIfaceOf(res[1]); bad {
			return e
		}
		return iface{}
	}
	I["(*encoding/json.Decoder).UseNumber"] = func(fr *frame, a []value) value {
		dec := derefStruct(a[0], "json.Decoder")
		dt := fr.i.namedType("encoding/json", "Decoder")
		di := structFieldIndex(dt, "d")
		ds := dec[di].(structure)
		ds[structFieldIndex(dt.Underlying().(*types.Struct).Field(di).Type(), "useNumber")] = true
		return nil
	}
	I["(*encoding/json.Decoder).DisallowUnknownFields"] = func(fr *frame, a []value) value {
		dec := derefStruct(a[0], "json.Decoder")
		dt := fr.i.namedType("encoding/json", "Decoder")
		di := structFieldIndex(dt, "d")
		ds := dec[di].(structure)
		ds[structFieldIndex(dt.Underlying().(*types.Struct).Field(di).Type(), "disallowUnknownFields")] = true
		return nil
	}
	I["(*encoding/json.Decoder).Decode"] = func(fr *frame, a []value) value {
		dec := derefStruct(a[0], "json.Decoder")
		dt := fr.i.namedType("encoding/json", "Decoder")
		di := structFieldIndex(dt, "d")
		ds := dec[di].(structure)
		dst := dt.Underlying().(*types.Struct).Field(di).Type()
		useNumber, _ := ds[structFieldIndex(dst, "useNumber")].(bool)
		disallow, _ := ds[structFieldIndex(dst, "disallowUnknownFields")].(bool)
		data, advance := readerRemaining(fr, dec[structFieldIndex(dt, "r")].(iface))
		var n *jnode
		switch b := data.(type) {
		case symBytes:
			t, serr := treeOfBytes(b)
			if serr != nil {
				return syntaxErr(fr, serr.msg)
			}
			n = t
			advance(0)
		case []value:
			bs := []byte(bytesToString(b))
			rd := json.NewDecoder(bytes.NewReader(bs))
			var raw json.RawMessage
			if err := rd.Decode(&raw); err != nil {
				if err.Error() == "EOF" {
					return fr.i.globalValue("io", "EOF")
				}
				if err.Error() == "unexpected EOF" {
					return fr.i.globalValue("io", "ErrUnexpectedEOF")
				}
				return syntaxErr(fr, err.Error())
			}
			advance(int(rd.InputOffset()))
			t, serr := parseJSONText(raw)
			if serr != nil {
				return syntaxErr(fr, serr.msg)
			}
			n = t
		}
		return jsonUnmarshalInto(fr, n, a[1], useNumber, disallow)
	}
	I["(*encoding/json.Decoder).More"] = func(fr *frame, a []value) value {
		dec := derefStruct(a[0], "json.Decoder")
		dt := fr.i.namedType("encoding/json", "Decoder")
		data, _ := readerRemaining(fr, dec[structFieldIndex(dt, "r")].(iface))
		if b, ok := data.([]value); ok {
			s := strings.TrimLeft(bytesToString(b), " \t\r\n")
			return s != "" && s[0] != ']' && s[0] != '}'
		}
		return true
	}
	I["(*math/big.Int).MarshalJSON"] = func(fr *frame, a []value) value {
		p := a[0].(*value)
		if p == nil {
			return tuple{concreteBytes("null"), iface{}}
		}
		n := &jnode{k: jNum, num: getBig(a[0], "big.Int.MarshalJSON")}
		if b := n.num.(bigv); b.concrete() {
			return tuple{concreteBytes(b.c.String()), iface{}}
		}
		return tuple{symBytes{tree: n}, iface{}}
	}
	I["(*math/big.Int).UnmarshalJSON"] = func(fr *frame, a []value) value {
		n, serr := treeOfBytes(a[1])
		if serr != nil {
			return newErr(fr, "math/big: cannot unmarshal into a *big.Int")
		}
		if n.k == jNull {
			return iface{}
		}
		d := &jdec{fr: fr}
		d.decodeBigInt(n, nil, a[0].(*value))
		return d.savedError
	}
	_ = utf8.RuneError
}

// globalValue reads a package-level variable (e.g. io.EOF).
func (i *interpreter) globalValue(pkg, name string) value {
	p := i.prog.ImportedPackage(pkg)
	if p == nil {
		panic(engineErr("package " + pkg + " not loaded"))
	}
	g, ok := p.Members[name].(*ssa.Global)
	if !ok {
		panic(engineErr("no global " + pkg + "." + name))
	}
	return *i.globals[g]
}
