package main

// Ordered association map. Insertion order is the iteration order (the
// executor must be deterministic for decision-prefix replay); lookups with
// symbolic keys fork on key equality through the executor.

import (
	"go/types"
)

type omap struct {
	keyType types.Type
	keys    []value
	vals    []value
}

func makeMap(kt types.Type, reserve int64) value {
	return &omap{keyType: kt}
}

// find returns the index of key k, or -1. Symbolic comparisons fork.
func (m *omap) find(k value) int {
	if m == nil {
		return -1
	}
	for i, mk := range m.keys {
		if X.branch(equalsV(m.keyType, mk, k), "map-key") {
			return i
		}
	}
	return -1
}

func (m *omap) delete(k value) {
	if i := m.find(k); i >= 0 {
		m.keys = append(m.keys[:i:i], m.keys[i+1:]...)
		m.vals = append(m.vals[:i:i], m.vals[i+1:]...)
	}
}

func (m *omap) lookup(k value) (value, bool) {
	if i := m.find(k); i >= 0 {
		return m.vals[i], true
	}
	return nil, false
}

func (m *omap) insert(k value, v value) {
	if m == nil {
		panic(targetRuntimeError("assignment to entry in nil map"))
	}
	if i := m.find(k); i >= 0 {
		m.vals[i] = v
		return
	}
	m.keys = append(m.keys, k)
	m.vals = append(m.vals, v)
}

func (m *omap) len() int {
	if m != nil {
		return len(m.keys)
	}
	return 0
}

type omapIter struct {
	keys, vals []value
	i          int
}

func (it *omapIter) next() tuple {
	if it.i >= len(it.keys) {
		return []value{false, nil, nil}
	}
	k, v := it.keys[it.i], it.vals[it.i]
	it.i++
	return []value{true, k, v}
}

func newOmapIter(m *omap) *omapIter {
	if m == nil {
		return &omapIter{}
	}
	// Go semantics allow entries added during iteration to be visited or not;
	// we iterate over a snapshot of the keys present at the start, skipping
	// none (deleted-during-iteration entries are rare in the code under test).
	it := &omapIter{keys: append([]value(nil), m.keys...), vals: append([]value(nil), m.vals...)}
	// verifMapOrders(true): Go leaves the iteration order of a map unspecified; every order of a map of 2 or 3
	// entries is explored (a fork). Larger maps keep the insertion order.
	if n := len(it.keys); X != nil && X.mapOrders && n >= 2 && n <= 3 {
		perms := [][]int{{0, 1}, {1, 0}}
		if n == 3 {
			perms = [][]int{{0, 1, 2}, {0, 2, 1}, {1, 0, 2}, {1, 2, 0}, {2, 0, 1}, {2, 1, 0}}
		}
		p := perms[X.chooseKey("maporder", len(perms))]
		ks, vs := make([]value, n), make([]value, n)
		for i, j := range p {
			ks[i], vs[i] = it.keys[j], it.vals[j]
		}
		it.keys, it.vals = ks, vs
	}
	return it
}
