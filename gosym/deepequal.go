package main

// reflect.DeepEqual over interpreter values (type-directed).

import (
	"go/types"
)

func deepEqualT(t types.Type, x, y value, depth int) value {
	if depth > 40 {
		panic(engineErr("reflect.DeepEqual: recursion too deep (cyclic value?)"))
	}
	t = types.Unalias(t)
	switch u := t.Underlying().(type) {
	case *types.Pointer:
		px, py := x.(*value), y.(*value)
		if px == nil || py == nil {
			return px == py
		}
		if px == py {
			return true
		}
		return deepEqualT(u.Elem(), load(u.Elem(), px), load(u.Elem(), py), depth+1)
	case *types.Slice:
		if sx, ok := x.(symBytes); ok {
			sy, ok2 := y.(symBytes)
			if !ok2 {
				return equalsV(types.Typ[types.String], bytesText(sx), bytesText(y))
			}
			return equalsV(types.Typ[types.String], bytesText(sx), bytesText(sy))
		}
		if _, ok := y.(symBytes); ok {
			return equalsV(types.Typ[types.String], bytesText(x), bytesText(y))
		}
		sx, sy := x.([]value), y.([]value)
		if (sx == nil) != (sy == nil) || len(sx) != len(sy) {
			return false
		}
		acc := "true"
		for i := range sx {
			acc = sAnd(acc, boolTerm(deepEqualT(u.Elem(), sx[i], sy[i], depth+1)))
			if acc == "false" {
				return false
			}
		}
		return mkBool(acc)
	case *types.Array:
		ax, ay := x.(array), y.(array)
		acc := "true"
		for i := range ax {
			acc = sAnd(acc, boolTerm(deepEqualT(u.Elem(), ax[i], ay[i], depth+1)))
			if acc == "false" {
				return false
			}
		}
		return mkBool(acc)
	case *types.Struct:
		if isBigIntType(t) {
			return mkBool("(= " + getBigS(x.(structure)).t + " " + getBigS(y.(structure)).t + ")")
		}
		sx, sy := x.(structure), y.(structure)
		acc := "true"
		for i := 0; i < u.NumFields(); i++ {
			acc = sAnd(acc, boolTerm(deepEqualT(u.Field(i).Type(), sx[i], sy[i], depth+1)))
			if acc == "false" {
				return false
			}
		}
		return mkBool(acc)
	case *types.Map:
		mx, _ := x.(*omap)
		my, _ := y.(*omap)
		if (mx == nil) != (my == nil) || mx.len() != my.len() {
			return false
		}
		if mx == my {
			return true
		}
		acc := "true"
		for i, k := range mx.keys {
			v, ok := my.lookup(k)
			if !ok {
				return false
			}
			acc = sAnd(acc, boolTerm(deepEqualT(u.Elem(), mx.vals[i], v, depth+1)))
			if acc == "false" {
				return false
			}
		}
		return mkBool(acc)
	case *types.Interface:
		ix, iy := x.(iface), y.(iface)
		if ix.t == nil || iy.t == nil {
			return ix.t == nil && iy.t == nil
		}
		if !types.Identical(ix.t, iy.t) {
			return false
		}
		return deepEqualT(ix.t, ix.v, iy.v, depth+1)
	case *types.Signature:
		return false
	}
	return equalsV(t, x, y)
}

func init() {
	intrinsics["reflect.DeepEqual"] = func(fr *frame, a []value) value {
		ix, iy := a[0].(iface), a[1].(iface)
		if ix.t == nil || iy.t == nil {
			return ix.t == nil && iy.t == nil
		}
		if !types.Identical(ix.t, iy.t) {
			return false
		}
		return deepEqualT(ix.t, ix.v, iy.v, 0)
	}
}
