package main

// Universal stub objects: the value returned by a stubbed function (logging,
// tracing, metrics) where an interface is expected. Every method call on it is a
// no-op that returns stub/zero values again.

import (
	"go/types"
)

type stubObj struct{}

type stubMethod struct {
	sig  *types.Signature
	name string
}

var stubNamed = types.NewNamed(types.NewTypeName(0, nil, "verifStub", nil), types.NewStruct(nil, nil), nil)

var errorIface = types.Universe.Lookup("error").Type()

func isContextType(t types.Type) bool {
	n, ok := t.(*types.Named)
	return ok && n.Obj().Pkg() != nil && n.Obj().Pkg().Path() == "context" && n.Obj().Name() == "Context"
}

func stubValue(t types.Type, args []value) value {
	if types.Identical(t, errorIface) {
		return iface{}
	}
	if isContextType(t) {
		// pass the first context argument through
		for _, a := range args {
			if it, ok := a.(iface); ok && it.t != nil {
				if hasMethod(it.t, "Deadline") && hasMethod(it.t, "Value") {
					return it
				}
			}
		}
		return iface{}
	}
	if _, ok := t.Underlying().(*types.Interface); ok {
		return iface{t: stubNamed, v: stubObj{}}
	}
	return zero(t)
}

func hasMethod(t types.Type, name string) bool {
	if theInterp == nil {
		return false
	}
	return theInterp.prog.MethodSets.MethodSet(t).Lookup(nil, name) != nil
}

func stubResults(sig *types.Signature, args []value) value {
	res := sig.Results()
	switch res.Len() {
	case 0:
		return nil
	case 1:
		return stubValue(res.At(0).Type(), args)
	}
	t := make(tuple, res.Len())
	for i := range t {
		t[i] = stubValue(res.At(i).Type(), args)
	}
	return t
}
