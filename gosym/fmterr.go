package main

// Intrinsics for fmt (formatting) and errors (Is/As/Unwrap/Join).

import (
	"fmt"
	"go/types"
	"strings"

	"golang.org/x/tools/go/ssa"
)

func methodOf(i *interpreter, t types.Type, name string) *ssa.Function {
	if t == nil {
		return nil
	}
	ms := i.prog.MethodSets.MethodSet(t)
	sel := ms.Lookup(nil, name)
	if sel == nil {
		return nil
	}
	return i.prog.MethodValue(sel)
}

// piece is a formatted fragment: concrete text or an SMT string term.
type piece struct {
	s   string
	sym bool
	it  string // integer term when this piece is the decimal rendering of an integer
}

func joinPieces(ps []piece) value {
	ps = normPieces(ps)
	v := joinPiecesRaw(ps)
	if s, ok := v.(symStr); ok {
		if _, known := strStruct[s.t]; !known {
			strStruct[s.t] = ps
		}
	}
	return v
}

func joinPiecesRaw(ps []piece) value {
	anySym := false
	for _, p := range ps {
		if p.sym {
			anySym = true
		}
	}
	if !anySym {
		var b strings.Builder
		for _, p := range ps {
			b.WriteString(p.s)
		}
		return b.String()
	}
	var terms []string
	var cur strings.Builder
	flush := func() {
		if cur.Len() > 0 {
			terms = append(terms, smtStrLit(cur.String()))
			cur.Reset()
		}
	}
	for _, p := range ps {
		if p.sym {
			flush()
			terms = append(terms, p.s)
		} else {
			cur.WriteString(p.s)
		}
	}
	flush()
	if len(terms) == 1 {
		return symStr{terms[0]}
	}
	return symStr{"(str.++ " + strings.Join(terms, " ") + ")"}
}

func symIntToStr(t string) string {
	return regIntString(t)
}

// formatOne renders one operand for the given verb.
func formatOne(fr *frame, spec string, verb byte, arg value) piece {
	it, isIface := arg.(iface)
	var t types.Type
	v := arg
	if isIface {
		t, v = it.t, it.v
		if t == nil {
			if verb == 'v' {
				return piece{s: "<nil>"}
			}
			return piece{s: "%!" + string(verb) + "(<nil>)"}
		}
	}
	// error / Stringer
	if t != nil && (verb == 'v' || verb == 's' || verb == 'q' || verb == 'w') {
		for _, name := range []string{"Error", "String"} {
			if fn := methodOf(fr.i, t, name); fn != nil && fn.Signature.Params().Len() == 0 && fn.Signature.Results().Len() == 1 {
				if b, ok := fn.Signature.Results().At(0).Type().Underlying().(*types.Basic); ok && b.Kind() == types.String {
					// nil pointer receivers: fmt prints <nil>
					if p, ok := v.(*value); ok && p == nil {
						return piece{s: "<nil>"}
					}
					r := call(fr.i, fr, 0, fn, []value{v})
					switch r := r.(type) {
					case string:
						if verb == 'q' {
							return piece{s: fmt.Sprintf("%q", r)}
						}
						return piece{s: r}
					case symStr:
						return piece{s: r.t, sym: true}
					}
				}
			}
		}
	}
	switch x := v.(type) {
	case symStr:
		if verb == 'q' {
			X.res.Notes = appendUniq(X.res.Notes, "fmt %q of a symbolic string rendered without escaping")
			return piece{s: "(str.++ \"\\u{22}\" " + x.t + " \"\\u{22}\")", sym: true}
		}
		return piece{s: x.t, sym: true}
	case symAtom:
		return piece{s: atomStrTerm(x.t), sym: true}
	case symInt:
		if verb == 'd' || verb == 'v' {
			return piece{s: symIntToStr(x.t), sym: true}
		}
	case symBool:
		return piece{s: "(ite " + x.t + " \"true\" \"false\")", sym: true}
	case symF64:
		X.res.Notes = appendUniq(X.res.Notes, "fmt of a symbolic float rendered as an opaque placeholder")
		return piece{s: "<float>"}
	case bool, int, int8, int16, int32, int64, uint, uint8, uint16, uint32, uint64, uintptr, float32, float64, string, complex64, complex128:
		return piece{s: fmt.Sprintf("%"+spec+string(verb), x)}
	case []value:
		// []byte with %s / %x
		if isByteSlice(x) {
			return piece{s: fmt.Sprintf("%"+spec+string(verb), []byte(bytesToString(x)))}
		}
		var parts []piece
		parts = append(parts, piece{s: "["})
		for i, e := range x {
			if i > 0 {
				parts = append(parts, piece{s: " "})
			}
			et := types.Type(nil)
			if t != nil {
				if sl, ok := t.Underlying().(*types.Slice); ok {
					et = sl.Elem()
				}
			}
			parts = append(parts, formatOne(fr, spec, verb, wrapFor(et, e)))
		}
		parts = append(parts, piece{s: "]"})
		j := joinPieces(parts)
		if s, ok := j.(string); ok {
			return piece{s: s}
		}
		return piece{s: j.(symStr).t, sym: true}
	case *value:
		if x == nil {
			return piece{s: "<nil>"}
		}
		if t != nil && verb == 'v' {
			if pt, ok := t.Underlying().(*types.Pointer); ok {
				if _, ok := pt.Elem().Underlying().(*types.Struct); ok {
					p := formatOne(fr, spec, verb, wrapFor(pt.Elem(), *x))
					if p.sym {
						return piece{s: "(str.++ \"&\" " + p.s + ")", sym: true}
					}
					return piece{s: "&" + p.s}
				}
			}
		}
		return piece{s: "0xc000000000"}
	case structure:
		var st *types.Struct
		if t != nil {
			st, _ = t.Underlying().(*types.Struct)
		}
		var parts []piece
		parts = append(parts, piece{s: "{"})
		for i, e := range x {
			if i > 0 {
				parts = append(parts, piece{s: " "})
			}
			var ft types.Type
			if st != nil {
				ft = st.Field(i).Type()
				if strings.Contains(spec, "+") {
					parts = append(parts, piece{s: st.Field(i).Name() + ":"})
				}
			}
			if _, isBig := e.(bigv); isBig {
				parts = append(parts, piece{s: "<big>"})
				continue
			}
			parts = append(parts, formatOne(fr, spec, verb, wrapFor(ft, e)))
		}
		parts = append(parts, piece{s: "}"})
		j := joinPieces(parts)
		if s, ok := j.(string); ok {
			return piece{s: s}
		}
		return piece{s: j.(symStr).t, sym: true}
	case *omap:
		return piece{s: fmt.Sprintf("map[...%d entries]", x.len())}
	case iface:
		return formatOne(fr, spec, verb, x)
	case nil:
		return piece{s: "<nil>"}
	}
	X.res.Notes = appendUniq(X.res.Notes, fmt.Sprintf("fmt: opaque rendering of %T with %%%c", v, verb))
	return piece{s: fmt.Sprintf("<%T>", v)}
}

func wrapFor(t types.Type, v value) value {
	if t == nil {
		return v
	}
	if _, ok := t.Underlying().(*types.Interface); ok {
		return v // already an iface
	}
	return iface{t: t, v: v}
}

func isByteSlice(x []value) bool {
	if len(x) == 0 {
		return false
	}
	for _, e := range x {
		if _, ok := e.(uint8); !ok {
			return false
		}
	}
	return true
}

// sprintf formats according to a concrete format string.
func sprintf(fr *frame, format value, args []value) (value, []iface) {
	f, ok := format.(string)
	if !ok {
		panic(engineErr("fmt: symbolic format string"))
	}
	var ps []piece
	var wrapped []iface
	argi := 0
	for i := 0; i < len(f); i++ {
		c := f[i]
		if c != '%' {
			j := i
			for j < len(f) && f[j] != '%' {
				j++
			}
			ps = append(ps, piece{s: f[i:j]})
			i = j - 1
			continue
		}
		// parse flags/width/precision
		j := i + 1
		for j < len(f) && strings.IndexByte("+-# 0123456789.*[]", f[j]) >= 0 {
			j++
		}
		if j >= len(f) {
			ps = append(ps, piece{s: "%!(NOVERB)"})
			break
		}
		spec := f[i+1 : j]
		verb := f[j]
		i = j
		if verb == '%' {
			ps = append(ps, piece{s: "%"})
			continue
		}
		if argi >= len(args) {
			ps = append(ps, piece{s: "%!" + string(verb) + "(MISSING)"})
			continue
		}
		a := args[argi]
		argi++
		if verb == 'T' {
			if it, ok := a.(iface); ok && it.t != nil {
				ps = append(ps, piece{s: it.t.String()})
			} else {
				ps = append(ps, piece{s: "<nil>"})
			}
			continue
		}
		if verb == 'w' {
			if it, ok := a.(iface); ok {
				wrapped = append(wrapped, it)
			}
		}
		ps = append(ps, formatOne(fr, spec, verb, a))
	}
	if argi < len(args) {
		ps = append(ps, piece{s: "%!(EXTRA)"})
	}
	return joinPieces(ps), wrapped
}

func sprint(fr *frame, args []value, ln bool) value {
	var ps []piece
	prevString := false
	for i, a := range args {
		isString := false
		if it, ok := a.(iface); ok {
			switch it.v.(type) {
			case string, symStr:
				isString = true
			}
		}
		if i > 0 && (ln || (!isString && !prevString)) {
			ps = append(ps, piece{s: " "})
		}
		ps = append(ps, formatOne(fr, "", 'v', a))
		prevString = isString
	}
	if ln {
		ps = append(ps, piece{s: "\n"})
	}
	return joinPieces(ps)
}

func (i *interpreter) namedType(pkg, name string) types.Type {
	p := i.prog.ImportedPackage(pkg)
	if p == nil {
		panic(engineErr("package " + pkg + " not loaded"))
	}
	return p.Type(name).Object().Type()
}

func newErrorString(i *interpreter, msg value) iface {
	t := i.namedType("errors", "errorString")
	var cell value = structure{msg}
	return iface{t: types.NewPointer(t), v: &cell}
}

func init() {
	I := intrinsics
	I["fmt.Sprintf"] = func(fr *frame, a []value) value {
		s, _ := sprintf(fr, a[0], a[1].([]value))
		return s
	}
	I["fmt.Sprint"] = func(fr *frame, a []value) value { return sprint(fr, a[0].([]value), false) }
	I["fmt.Sprintln"] = func(fr *frame, a []value) value { return sprint(fr, a[0].([]value), true) }
	nop2 := func(fr *frame, a []value) value { return tuple{0, iface{}} }
	for _, n := range []string{"fmt.Printf", "fmt.Println", "fmt.Print", "fmt.Fprintf", "fmt.Fprintln", "fmt.Fprint"} {
		I[n] = nop2
	}
	I["fmt.Errorf"] = func(fr *frame, a []value) value {
		msg, wrapped := sprintf(fr, a[0], a[1].([]value))
		switch len(wrapped) {
		case 0:
			return newErrorString(fr.i, msg)
		case 1:
			t := fr.i.namedType("fmt", "wrapError")
			var cell value = structure{msg, wrapped[0]}
			return iface{t: types.NewPointer(t), v: &cell}
		}
		t := fr.i.namedType("fmt", "wrapErrors")
		errs := make([]value, len(wrapped))
		for k, w := range wrapped {
			errs[k] = w
		}
		var cell value = structure{msg, errs}
		return iface{t: types.NewPointer(t), v: &cell}
	}
	I["errors.New"] = func(fr *frame, a []value) value { return newErrorString(fr.i, a[0]) }
	I["errors.Unwrap"] = func(fr *frame, a []value) value {
		it := a[0].(iface)
		if it.t == nil {
			return iface{}
		}
		if fn := methodOf(fr.i, it.t, "Unwrap"); fn != nil && isErrorResult(fn) {
			return call(fr.i, fr, 0, fn, []value{it.v})
		}
		return iface{}
	}
	I["errors.Is"] = func(fr *frame, a []value) value {
		return errorsIs(fr, a[0].(iface), a[1].(iface))
	}
	I["errors.As"] = func(fr *frame, a []value) value {
		return errorsAs(fr, a[0].(iface), a[1].(iface))
	}
	I["errors.Join"] = func(fr *frame, a []value) value {
		var errs []value
		for _, e := range a[0].([]value) {
			if e.(iface).t != nil {
				errs = append(errs, e)
			}
		}
		if len(errs) == 0 {
			return iface{}
		}
		t := fr.i.namedType("errors", "joinError")
		var cell value = structure{errs}
		return iface{t: types.NewPointer(t), v: &cell}
	}
}

func isErrorResult(fn *ssa.Function) bool {
	r := fn.Signature.Results()
	if r.Len() != 1 || fn.Signature.Params().Len() != 0 {
		return false
	}
	return types.Identical(r.At(0).Type(), types.Universe.Lookup("error").Type())
}

func isErrorSliceResult(fn *ssa.Function) bool {
	r := fn.Signature.Results()
	if r.Len() != 1 || fn.Signature.Params().Len() != 0 {
		return false
	}
	s, ok := r.At(0).Type().Underlying().(*types.Slice)
	return ok && types.Identical(s.Elem(), types.Universe.Lookup("error").Type())
}

func errorsIs(fr *frame, err, target iface) bool {
	if err.t == nil || target.t == nil {
		return err.t == nil && target.t == nil
	}
	comparable := types.Comparable(target.t)
	for depth := 0; depth < 100; depth++ {
		if comparable && sameType(err.t, target.t) {
			if X.branch(equalsV(err.t, err.v, target.v), "errors.Is") {
				return true
			}
		}
		if fn := methodOf(fr.i, err.t, "Is"); fn != nil && fn.Signature.Params().Len() == 1 && fn.Signature.Results().Len() == 1 {
			if X.branch(call(fr.i, fr, 0, fn, []value{err.v, target}), "errors.Is method") {
				return true
			}
		}
		fn := methodOf(fr.i, err.t, "Unwrap")
		switch {
		case fn != nil && isErrorResult(fn):
			next := call(fr.i, fr, 0, fn, []value{err.v}).(iface)
			if next.t == nil {
				return false
			}
			err = next
		case fn != nil && isErrorSliceResult(fn):
			for _, e := range call(fr.i, fr, 0, fn, []value{err.v}).([]value) {
				if e.(iface).t != nil && errorsIs(fr, e.(iface), target) {
					return true
				}
			}
			return false
		default:
			return false
		}
	}
	panic(engineErr("errors.Is: chain deeper than 100"))
}

func errorsAs(fr *frame, err, target iface) bool {
	if err.t == nil {
		return false
	}
	if target.t == nil {
		panic(targetPanic{iface{t: types.Typ[types.String], v: "errors: target cannot be nil"}})
	}
	pt, ok := target.t.Underlying().(*types.Pointer)
	if !ok {
		panic(targetPanic{iface{t: types.Typ[types.String], v: "errors: target must be a non-nil pointer"}})
	}
	tp := target.v.(*value)
	if tp == nil {
		panic(targetPanic{iface{t: types.Typ[types.String], v: "errors: target must be a non-nil pointer"}})
	}
	T := pt.Elem()
	_, tIsIface := T.Underlying().(*types.Interface)
	for depth := 0; depth < 100; depth++ {
		if tIsIface {
			if types.Implements(err.t, T.Underlying().(*types.Interface)) {
				*tp = err
				return true
			}
		} else if types.Identical(err.t, T) {
			store(T, tp, err.v)
			return true
		}
		if fn := methodOf(fr.i, err.t, "As"); fn != nil && fn.Signature.Params().Len() == 1 && fn.Signature.Results().Len() == 1 {
			if X.branch(call(fr.i, fr, 0, fn, []value{err.v, target}), "errors.As method") {
				return true
			}
		}
		fn := methodOf(fr.i, err.t, "Unwrap")
		switch {
		case fn != nil && isErrorResult(fn):
			next := call(fr.i, fr, 0, fn, []value{err.v}).(iface)
			if next.t == nil {
				return false
			}
			err = next
		case fn != nil && isErrorSliceResult(fn):
			for _, e := range call(fr.i, fr, 0, fn, []value{err.v}).([]value) {
				if e.(iface).t != nil && errorsAs(fr, e.(iface), target) {
					return true
				}
			}
			return false
		default:
			return false
		}
	}
	panic(engineErr("errors.As: chain deeper than 100"))
}
