package main

// A resident SMT solver process (z3 -in) driven over a pipe.
//
// The assertion stack of the solver mirrors a prefix of the current path
// condition: one push level per path-condition conjunct, so that re-executed
// paths sharing a prefix do not re-assert it.

import (
	"bufio"
	"fmt"
	"io"
	"os"
	"os/exec"
	"strings"
	"time"
)

type solver struct {
	cmd      *exec.Cmd
	in       io.WriteCloser
	out      *bufio.Reader
	stack    []string // asserted path-condition conjuncts, one push level each
	decls    map[string]string
	declLog  []string
	queries  int
	sat      int
	unsat    int
	unknown  int
	errors   int
	timeNS   int64
	log      io.Writer
	bin      string
	args     []string
	timeout  int
	maxQuery time.Duration
	inQuery  bool
	hardTimeouts int
}

func newSolver(bin string, timeoutMS int, logw io.Writer) *solver {
	s := &solver{decls: map[string]string{}, log: logw, bin: bin, timeout: timeoutMS}
	s.start()
	return s
}

func (s *solver) start() {
	args := []string{"-in"}
	if strings.Contains(s.bin, "cvc5") {
		args = []string{"--incremental", "--lang=smt2", "--strings-exp", fmt.Sprintf("--tlimit-per=%d", s.timeout)}
	}
	s.cmd = exec.Command(s.bin, args...)
	in, err := s.cmd.StdinPipe()
	if err != nil {
		panic(err)
	}
	out, err := s.cmd.StdoutPipe()
	if err != nil {
		panic(err)
	}
	s.cmd.Stderr = os.Stderr
	if err := s.cmd.Start(); err != nil {
		panic(fmt.Sprintf("cannot start solver %s: %v", s.bin, err))
	}
	s.in = in
	s.out = bufio.NewReader(out)
	s.stack = nil
	if strings.Contains(s.bin, "cvc5") {
		s.send("(set-option :global-declarations true)")
		s.send("(set-option :produce-models true)")
		s.send("(set-logic ALL)")
	} else {
		s.send("(set-option :global-declarations true)")
		s.send(fmt.Sprintf("(set-option :timeout %d)", s.timeout))
		s.send("(set-option :produce-models true)")
	}
	// re-declare (after a restart)
	for _, d := range s.declLog {
		s.send(d)
	}
}

func (s *solver) send(line string) {
	if s.log != nil {
		fmt.Fprintln(s.log, line)
	}
	if _, err := io.WriteString(s.in, line+"\n"); err != nil {
		panic(engineErr("solver pipe: " + err.Error()))
	}
}

func (s *solver) close() {
	if s.in != nil {
		s.in.Close()
	}
	if s.cmd != nil && s.cmd.Process != nil {
		s.cmd.Process.Kill()
		s.cmd.Wait()
	}
}

func (s *solver) declare(name, sort string) {
	if old, ok := s.decls[name]; ok {
		if old != sort {
			panic(engineErr(fmt.Sprintf("constant %s redeclared with sort %s (was %s)", name, sort, old)))
		}
		return
	}
	s.decls[name] = sort
	d := fmt.Sprintf("(declare-const %s %s)", name, sort)
	s.declLog = append(s.declLog, d)
	s.send(d)
}

func (s *solver) popTo(n int) {
	if len(s.stack) > n {
		s.send(fmt.Sprintf("(pop %d)", len(s.stack)-n))
		s.stack = s.stack[:n]
	}
}

// sync makes the solver's assertion stack equal to pc.
func (s *solver) sync(pc []string) {
	n := 0
	for n < len(pc) && n < len(s.stack) && pc[n] == s.stack[n] {
		n++
	}
	s.popTo(n)
	for _, c := range pc[n:] {
		s.send("(push 1)")
		s.send("(assert " + c + ")")
		s.stack = append(s.stack, c)
	}
}

func (s *solver) readLine() string {
	line, err := s.out.ReadString('\n')
	if err != nil {
		panic(engineErr("solver died: " + err.Error()))
	}
	return strings.TrimSpace(line)
}

// check returns "sat", "unsat" or "unknown" for pc ∧ extra.
func (s *solver) check(pc []string, extra string) string {
	s.sync(pc)
	t0 := time.Now()
	s.send("(push 1)")
	s.inQuery = true
	if extra != "" && extra != "true" {
		s.send("(assert " + extra + ")")
	}
	s.send("(check-sat)")
	// hard watchdog: z3's :timeout is soft (non-linear arithmetic can ignore it)
	type rl struct {
		line string
		err  any
	}
	ch := make(chan rl, 1)
	go func() {
		defer func() {
			if r := recover(); r != nil {
				ch <- rl{"", r}
			}
		}()
		l := s.readLine()
		for l == "" {
			l = s.readLine()
		}
		ch <- rl{l, nil}
	}()
	var res string
	select {
	case r := <-ch:
		if r.err != nil {
			res = "(error solver died)"
		} else {
			res = r.line
		}
	case <-time.After(time.Duration(s.timeout)*time.Millisecond + 10*time.Second):
		s.hardTimeouts++
		s.unknown++
		s.queries++
		s.timeNS += int64(time.Since(t0))
		fmt.Fprintf(os.Stderr, "gosym: solver exceeded the hard time limit; restarting it (query counted as unknown)\n")
		s.close()
		<-ch // reader goroutine ends with an error once the pipe is closed
		s.start()
		s.inQuery = false
		return "unknown"
	}
	d := time.Since(t0)
	s.timeNS += int64(d)
	if d > s.maxQuery {
		s.maxQuery = d
	}
	s.queries++
	switch {
	case res == "sat":
		s.sat++
	case res == "unsat":
		s.unsat++
	case res == "unknown" || res == "timeout":
		s.unknown++
		res = "unknown"
	default:
		// (error ...) or anything else: inconclusive, and resynchronise by restarting.
		s.errors++
		fmt.Fprintf(os.Stderr, "gosym: solver said %q on extra=%s\n", res, extra)
		s.close()
		s.start()
		s.inQuery = false
		return "error"
	}
	return res
}

// popQuery ends the scope opened by check.
func (s *solver) popQuery() {
	if s.inQuery {
		s.send("(pop 1)")
		s.inQuery = false
	}
}

// values must be called after check returned "sat" and before popQuery.
func (s *solver) values(names []string) map[string]string {
	res := map[string]string{}
	for _, n := range names {
		s.send("(get-value (" + n + "))")
		txt := s.readSexp()
		// ((name value))
		txt = strings.TrimSpace(txt)
		txt = strings.TrimPrefix(txt, "((")
		txt = strings.TrimSuffix(txt, "))")
		txt = strings.TrimSpace(strings.TrimPrefix(txt, n))
		res[n] = txt
	}
	return res
}

func (s *solver) readSexp() string {
	var b strings.Builder
	depth := 0
	inStr := false
	started := false
	for {
		c, err := s.out.ReadByte()
		if err != nil {
			panic(engineErr("solver died while reading model"))
		}
		b.WriteByte(c)
		if inStr {
			if c == '"' {
				inStr = false
			}
			continue
		}
		switch c {
		case '"':
			inStr = true
		case '(':
			depth++
			started = true
		case ')':
			depth--
		}
		if started && depth == 0 {
			// consume rest of line
			s.out.ReadString('\n')
			return b.String()
		}
	}
}
