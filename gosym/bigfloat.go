package main

// math/big.Float: concrete-only bridge to the real implementation (the interpreter
// cannot run math/big's assembly-backed arithmetic). The *big.Float lives in the
// first field of the interpreted struct. Symbolic operands are refused.

import (
	"fmt"
	"go/types"
	"math/big"
	"reflect"
)

func nativeFloat(v value, create bool) *big.Float {
	s := derefStruct(v, "big.Float")
	if f, ok := s[0].(*big.Float); ok {
		return f
	}
	f := new(big.Float)
	if create {
		s[0] = f
	}
	return f
}

func init() {
	ft := reflect.TypeOf(&big.Float{})
	for k := 0; k < ft.NumMethod(); k++ {
		m := ft.Method(k)
		name := "(*math/big.Float)." + m.Name
		mm := m
		intrinsics[name] = func(fr *frame, a []value) value {
			recv := nativeFloat(a[0], true)
			mt := mm.Type
			in := []reflect.Value{reflect.ValueOf(recv)}
			for i := 1; i < mt.NumIn(); i++ {
				pt := mt.In(i)
				arg := a[i]
				switch {
				case pt == ft:
					if p, ok := arg.(*value); ok && p == nil {
						in = append(in, reflect.Zero(ft))
					} else {
						in = append(in, reflect.ValueOf(nativeFloat(arg, true)))
					}
				case pt == reflect.TypeOf(&big.Int{}):
					if p, ok := arg.(*value); ok && p == nil {
						in = append(in, reflect.Zero(pt))
						break
					}
					b := getBig(arg, "big.Float arg")
					if !b.concrete() {
						panic(engineErr("math/big.Float." + mm.Name + " with a symbolic big.Int"))
					}
					in = append(in, reflect.ValueOf(new(big.Int).Set(b.c)))
				case pt == reflect.TypeOf(&big.Rat{}):
					panic(engineErr("math/big.Float." + mm.Name + " with a big.Rat argument"))
				default:
					if isSym(arg) {
						panic(engineErr("math/big.Float." + mm.Name + " with a symbolic argument"))
					}
					rv := reflect.ValueOf(arg)
					if !rv.IsValid() || !rv.Type().ConvertibleTo(pt) {
						panic(engineErr(fmt.Sprintf("math/big.Float.%s: cannot pass %T as %s", mm.Name, arg, pt)))
					}
					in = append(in, rv.Convert(pt))
				}
			}
			out := mm.Func.Call(in)
			sig := mm.Type
			conv := func(i int, rv reflect.Value) value {
				ot := sig.Out(i)
				switch {
				case ot == ft:
					if rv.IsNil() {
						return (*value)(nil)
					}
					if rv.Interface().(*big.Float) == recv {
						return a[0]
					}
					t := fr.i.namedType("math/big", "Float")
					c := newCell(t)
					(*c).(structure)[0] = rv.Interface().(*big.Float)
					return c
				case ot == reflect.TypeOf(&big.Int{}):
					if rv.IsNil() {
						return (*value)(nil)
					}
					// Int(z) writes into z when given
					if len(a) > 1 {
						if p, ok := a[1].(*value); ok && p != nil {
							setBig(a[1], mkBig(rv.Interface().(*big.Int)), "big.Float.Int result")
							return a[1]
						}
					}
					return newBigPtr(mkBig(rv.Interface().(*big.Int)))
				case ot.Kind() == reflect.Interface: // error
					if rv.IsNil() {
						return iface{}
					}
					return newErrorString(fr.i, rv.Interface().(error).Error())
				case ot.PkgPath() == "math/big": // Accuracy, RoundingMode
					return int8(rv.Int())
				}
				return rv.Interface()
			}
			switch len(out) {
			case 0:
				return nil
			case 1:
				return conv(0, out[0])
			}
			t := make(tuple, len(out))
			for i := range out {
				t[i] = conv(i, out[i])
			}
			return t
		}
	}
	intrinsics["math/big.NewFloat"] = func(fr *frame, a []value) value {
		t := fr.i.namedType("math/big", "Float")
		c := newCell(t)
		(*c).(structure)[0] = big.NewFloat(a[0].(float64))
		return c
	}
	_ = types.Typ
}
