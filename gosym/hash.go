package main

// crypto/sha256, encoding/base64, encoding/hex.
//
// Concrete content is hashed for real. Symbolic content is hashed by an
// injective model: the digest of content c is the byte string "sha256(" c ")".
// Equality of two digests then coincides with equality of the hashed content
// (collision-freedom of SHA-256 is the assumption; stated in DESIGN.md).

import (
	"crypto/sha256"
	"encoding/base64"
	"encoding/hex"
	"fmt"
	"go/types"
)

type hashState struct{ ps []piece }

// b64Src: SMT term of a base64 text produced by EncodeToString on symbolic bytes -> those bytes
var b64Src = map[string]value{}

func hashOf(v value) *hashState {
	s := derefStruct(v, "hash")
	h, ok := s[0].(*hashState)
	if !ok {
		h = &hashState{}
		s[0] = h
	}
	return h
}

func (h *hashState) sum() value {
	c := joinPieces(h.ps)
	if s, ok := c.(string); ok {
		d := sha256.Sum256([]byte(s))
		return concreteBytes(string(d[:]))
	}
	return symBytes{str: joinPieces([]piece{{s: "sha256("}, toPiece(c), {s: ")"}})}
}

func init() {
	I := intrinsics
	I["crypto/sha256.New"] = func(fr *frame, a []value) value {
		t := fr.i.namedType("crypto/internal/fips140/sha256", "Digest")
		var cell value = structure{&hashState{}}
		return iface{t: types.NewPointer(t), v: &cell}
	}
	I["crypto/sha256.Sum256"] = func(fr *frame, a []value) value {
		h := &hashState{ps: []piece{toPiece(bytesText(a[0]))}}
		out := h.sum()
		if b, ok := out.([]value); ok {
			return array(b)
		}
		panic(engineErr("sha256.Sum256 of symbolic content (array result)"))
	}
	const D = "(*crypto/internal/fips140/sha256.Digest)."
	I[D+"Write"] = func(fr *frame, a []value) value {
		h := hashOf(a[0])
		h.ps = append(h.ps, toPiece(bytesText(a[1])))
		if b, ok := a[1].([]value); ok {
			return tuple{len(b), iface{}}
		}
		return tuple{1, iface{}}
	}
	I[D+"Sum"] = func(fr *frame, a []value) value {
		h := hashOf(a[0])
		out := h.sum()
		prefix, _ := a[1].([]value)
		if len(prefix) == 0 {
			return out
		}
		if b, ok := out.([]value); ok {
			return append(append([]value(nil), prefix...), b...)
		}
		return symBytes{str: joinPieces([]piece{toPiece(bytesText(prefix)), toPiece(bytesText(out))})}
	}
	I[D+"Reset"] = func(fr *frame, a []value) value { hashOf(a[0]).ps = nil; return nil }
	I[D+"Size"] = func(fr *frame, a []value) value { return 32 }
	I[D+"BlockSize"] = func(fr *frame, a []value) value { return 64 }

	enc := func(name string, f func([]byte) string) intrinsicFn {
		return func(fr *frame, a []value) value {
			src := a[len(a)-1]
			if b, ok := src.([]value); ok {
				return f([]byte(bytesToString(b)))
			}
			txt := bytesText(src)
			if cs, ok := txt.(string); ok {
				// a tree whose text is entirely concrete: the real encoding
				return f([]byte(cs))
			}
			return joinPieces([]piece{{s: name + "("}, toPiece(txt), {s: ")"}})
		}
	}
	I["(*encoding/base64.Encoding).EncodeToString"] = func(fr *frame, a []value) value {
		e := derefStruct(a[0], "base64.Encoding")
		// identify the alphabet by its 63rd character and the padding
		alpha := e[0].(array)
		url := alpha[62].(byte) == '-'
		pad := asInt64(e[2]) != -1
		var en *base64.Encoding
		switch {
		case url && pad:
			en = base64.URLEncoding
		case url:
			en = base64.RawURLEncoding
		case pad:
			en = base64.StdEncoding
		default:
			en = base64.RawStdEncoding
		}
		out := enc("base64", en.EncodeToString)(fr, a)
		if ss, ok := out.(symStr); ok {
			// remember what was encoded: decoding this very string gives it back (the encoding is a bijection)
			b64Src[ss.t] = a[len(a)-1]
		}
		return out
	}
	I["(*encoding/base64.Encoding).DecodeString"] = func(fr *frame, a []value) value {
		e := derefStruct(a[0], "base64.Encoding")
		alpha := e[0].(array)
		url := alpha[62].(byte) == '-'
		pad := asInt64(e[2]) != -1
		var en *base64.Encoding
		switch {
		case url && pad:
			en = base64.URLEncoding
		case url:
			en = base64.RawURLEncoding
		case pad:
			en = base64.StdEncoding
		default:
			en = base64.RawStdEncoding
		}
		s, ok := a[1].(string)
		if !ok {
			if ss, isSym := a[1].(symStr); isSym {
				if src, known := b64Src[ss.t]; known {
					return tuple{src, iface{}}
				}
			}
			panic(engineErr("base64 decode of a symbolic string"))
		}
		b, err := en.DecodeString(s)
		if err != nil {
			return tuple{[]value(nil), newErrorString(fr.i, err.Error())}
		}
		return tuple{concreteBytes(string(b)), iface{}}
	}
	I["encoding/hex.EncodeToString"] = enc("hex", hex.EncodeToString)
	_ = fmt.Sprint
}
