import json,sys
r=json.load(open(sys.argv[1]))
print('errors',r.get('errors'), 'load',round(r['load_s'],1), 'init',round(r['init_s'],1))
for n in r.get('init_notes') or []: print('  init-note:',n[:300])
for h in r['harnesses'] or []:
    print(h['name'], 'paths',h['paths'], 'done',h['paths_completed'], 'reach',h['reach'], 'q',h['queries'], 'solver_s',round(h['solver_s'],2),'maxq',round(h['max_query_s'],2))
    print('   asserts', {k:(v['checked'],v['discharged_unsat'],v['concrete_true'],v['unknown']) for k,v in h['asserts'].items()})
    for i in h['inconclusive'] or []: print('   INCONCLUSIVE',i[:400])
    for n in h.get('notes') or []: print('   note',n[:200])
    for v in h['violations'] or []: print('   VIOLATION',v['label'],v['kind'],v.get('detail'),v['model'])
