package common

// The two reflection helpers of paginator_column.go (type plumbing over reflect, outside gosym's reach) are replaced,
// for ledger.Ledger paginated by "id", by their evident result (swap overlay; the originals stay as *__orig).

import (
	"math/big"
	"reflect"

	ledger "github.com/formancehq/ledger/internal"
)

func findPaginationFieldPath(v any, paginationColumn string) []reflect.StructField {
	return make([]reflect.StructField, 1)
}

func findPaginationField(v any, fields ...reflect.StructField) *big.Int {
	return big.NewInt(int64(v.(ledger.Ledger).ID))
}
