package storage

// C34, the Go worker: one run of AsyncBlockRunner.run must call create_blocks for EVERY ledger the system store lists
// with HASH_LOGS=ASYNC — whatever its state (an imported ledger is still 'initializing'), bucket or position in the
// listing (more ledgers than one page) — with the configured block size. The stored procedure itself is decided on
// the SQL side (c34_blocks); without this call no block is ever built for the ledger.
//
// The real run / Iterate / systemstore.Ledgers().Paginate / PaginatedResourceRepository / cursor encoding execute.
// Symbolic build: bun is opaque, the SELECT on _system.ledgers is answered from the harness' table according to the
// recorded builder calls (filters, pagination predicate, order, limit) and the raw `call create_blocks` statements are
// recorded. Native replay build: real bun over a small database/sql driver that answers the same statements from
// their text.

import (
	"context"
	"database/sql"
	"database/sql/driver"
	"encoding/json"
	"errors"
	"fmt"
	"io"
	"math/big"
	"regexp"
	"strconv"
	"strings"

	"github.com/uptrace/bun"
	"github.com/uptrace/bun/dialect/pgdialect"
	"go.opentelemetry.io/otel/trace/noop"

	ledger "github.com/formancehq/ledger/internal"
)

type c34Call struct {
	bucket, ledger string
	size           int
}

type c34Row struct {
	ledger.Ledger
	deleted bool
}

var (
	c34Table []c34Row
	c34Calls []c34Call
	c34Bad   string

	c34CallRx = regexp.MustCompile(`^\s*call "([^"]+)"\.create_blocks\(`)
)

type c34Result struct{}

func (c34Result) LastInsertId() (int64, error) { return 0, nil }
func (c34Result) RowsAffected() (int64, error) { return 0, nil }

func verifBunExecUpdate() (sql.Result, error) { return nil, errors.New("unexpected UPDATE") }
func verifBunCountRows() (int, error)         { return len(c34Table), nil }

// ---- symbolic build: the statements as recorded builder calls

func verifBunExecRaw(query string) (sql.Result, error) {
	m := c34CallRx.FindStringSubmatch(query)
	if m == nil {
		c34Bad = "unexpected raw statement: " + query
		return nil, errors.New(c34Bad)
	}
	k := verifBunCount("NewRaw") - 1
	name, _ := verifBunArgN("NewRaw", k, 0).(string)
	size, _ := verifBunArgN("NewRaw", k, 1).(int)
	c34Calls = append(c34Calls, c34Call{bucket: m[1], ledger: name, size: size})
	return c34Result{}, nil
}

func c34Select(featKey, featVal string, notDeleted bool, op string, pid int, desc bool, limit int) []ledger.Ledger {
	var sel []ledger.Ledger
	for _, r := range c34Table {
		if notDeleted && r.deleted {
			continue
		}
		if featKey != "" && r.Features[featKey] != featVal {
			continue
		}
		switch op {
		case "<":
			if !(r.ID < pid) {
				continue
			}
		case "<=":
			if !(r.ID <= pid) {
				continue
			}
		case ">":
			if !(r.ID > pid) {
				continue
			}
		case ">=":
			if !(r.ID >= pid) {
				continue
			}
		}
		sel = append(sel, r.Ledger)
	}
	if desc { // the table is kept in ascending id order
		for i, j := 0, len(sel)-1; i < j; i, j = i+1, j-1 {
			sel[i], sel[j] = sel[j], sel[i]
		}
	}
	if limit >= 0 && limit < len(sel) {
		sel = sel[:limit]
	}
	return sel
}

var c34PredRx = regexp.MustCompile(`^"?(?:dataset\.)?"?id"? (<|<=|>|>=) \?$`)

func verifBunScan(model any) error {
	dst, ok := model.(*[]ledger.Ledger)
	if !ok {
		return fmt.Errorf("unexpected Scan destination %T", model)
	}
	var (
		featKey, featVal string
		notDeleted       bool
		op               string
		pid              int
	)
	for i := 0; i < verifBunCount("Where"); i++ {
		w := verifBunStr("Where", i)
		switch {
		case w == "deleted_at IS NULL":
			notDeleted = true
		case w == "features @> ?":
			m, _ := verifBunArg("Where", i).(map[string]any)
			for k, v := range m {
				featKey, featVal = k, fmt.Sprint(v)
			}
		case c34PredRx.MatchString(w):
			op = c34PredRx.FindStringSubmatch(w)[1]
			switch v := verifBunArg("Where", i).(type) {
			case *big.Int:
				pid = int(v.Int64())
			case int:
				pid = v
			default:
				return fmt.Errorf("sql: pagination id of type %T", v)
			}
		default:
			return errors.New("sql: unexpected predicate " + w)
		}
	}
	desc := false
	for i := 0; i < verifBunCount("Order"); i++ {
		if o := strings.Fields(verifBunStr("Order", i)); len(o) == 2 && strings.EqualFold(o[1], "desc") {
			desc = true
		}
	}
	*dst = c34Select(featKey, featVal, notDeleted, op, pid, desc, verifBunInt("Limit", 0))
	verifBunReset() // the builder calls of one SELECT are consumed by its Scan: the next page is a new statement
	return nil
}

// ---- native replay build: the same statements from their text, on real bun

type c34Connector struct{}

func (c34Connector) Connect(context.Context) (driver.Conn, error) { return c34Conn{}, nil }
func (c34Connector) Driver() driver.Driver                        { return nil }

type c34Conn struct{}

func (c34Conn) Prepare(string) (driver.Stmt, error) { return nil, errors.New("no prepared statements") }
func (c34Conn) Close() error                        { return nil }
func (c34Conn) Begin() (driver.Tx, error)           { return nil, errors.New("no transactions") }

var (
	c34ArgsRx  = regexp.MustCompile(`create_blocks\('([^']*)',\s*(-?\d+)\)`)
	c34FeatRx  = regexp.MustCompile(`features @> '(\{[^']*\})'`)
	c34IDRx    = regexp.MustCompile(`id"? (<=|>=|<|>) '?(-?\d+)'?`)
	c34LimitRx = regexp.MustCompile(`LIMIT (\d+)`)
)

func (c34Conn) ExecContext(_ context.Context, q string, _ []driver.NamedValue) (driver.Result, error) {
	m, a := c34CallRx.FindStringSubmatch(q), c34ArgsRx.FindStringSubmatch(q)
	if m == nil || a == nil {
		c34Bad = "unexpected raw statement: " + q
		return nil, errors.New(c34Bad)
	}
	size, _ := strconv.Atoi(a[2])
	c34Calls = append(c34Calls, c34Call{bucket: m[1], ledger: a[1], size: size})
	return driver.RowsAffected(0), nil
}

func (c34Conn) QueryContext(_ context.Context, q string, _ []driver.NamedValue) (driver.Rows, error) {
	if !strings.Contains(q, `"_system"."ledgers"`) && !strings.Contains(q, "_system.ledgers") {
		return nil, errors.New("unexpected query " + q)
	}
	var featKey, featVal, op string
	pid, limit := 0, -1
	if m := c34FeatRx.FindStringSubmatch(q); m != nil {
		f := map[string]string{}
		if err := json.Unmarshal([]byte(m[1]), &f); err != nil {
			return nil, err
		}
		for k, v := range f {
			featKey, featVal = k, v
		}
	}
	if m := c34IDRx.FindStringSubmatch(q); m != nil {
		op = m[1]
		pid, _ = strconv.Atoi(m[2])
	}
	if m := c34LimitRx.FindStringSubmatch(q); m != nil {
		limit, _ = strconv.Atoi(m[1])
	}
	desc := strings.Contains(strings.ToUpper(q), "ID DESC") || strings.Contains(strings.ToUpper(q), `ID" DESC`)
	return &c34Rows{rows: c34Select(featKey, featVal, strings.Contains(q, "deleted_at IS NULL"), op, pid, desc, limit)}, nil
}

type c34Rows struct {
	rows []ledger.Ledger
	i    int
}

func (r *c34Rows) Columns() []string { return []string{"id", "name", "bucket", "state", "features"} }
func (r *c34Rows) Close() error      { return nil }
func (r *c34Rows) Next(dest []driver.Value) error {
	if r.i >= len(r.rows) {
		return io.EOF
	}
	l := r.rows[r.i]
	r.i++
	f, _ := json.Marshal(l.Features)
	dest[0], dest[1], dest[2], dest[3], dest[4] = int64(l.ID), l.Name, l.Bucket, l.State, f
	return nil
}

func c34Runner(size int) *AsyncBlockRunner {
	db := new(bun.DB) // opaque to the executor
	if !verifIsSymbolic() {
		db = bun.NewDB(sql.OpenDB(c34Connector{}), pgdialect.New())
	}
	return &AsyncBlockRunner{db: db, cfg: AsyncBlockRunnerConfig{MaxBlockSize: size}, tracer: noop.Tracer{}}
}

// c34World: n ledgers with ids 1..n over two buckets; which ones hash asynchronously, which are still 'initializing'
// (created or imported, never written through the API), and which are deleted are decided by the solver's choices for
// the ledgers at the interesting positions (first, around the page boundary, last); the others are ASYNC and in use.
func c34World(n int, free []int) {
	c34Table, c34Calls, c34Bad = nil, nil, ""
	isFree := map[int]bool{}
	for _, i := range free {
		isFree[i] = true
	}
	for i := 1; i <= n; i++ {
		l := ledger.Ledger{ID: i, Name: fmt.Sprintf("l%d", i), State: ledger.StateInUse}
		l.Bucket = []string{"_default", "b2"}[i%2]
		l.Features = map[string]string{"HASH_LOGS": "ASYNC", "MOVES_HISTORY": "ON"}
		row := c34Row{Ledger: l}
		if isFree[i] {
			switch nondetChoice(fmt.Sprintf("ledger%d.kind", i), 4) {
			case 1:
				row.State = ledger.StateInitializing
			case 2:
				row.Features["HASH_LOGS"] = "SYNC"
			case 3:
				row.deleted = true
			}
		}
		c34Table = append(c34Table, row)
	}
}

func c34Check(n, size int, free []int) {
	c34World(n, free)
	verifBunReset()
	err := c34Runner(size).run(context.Background())
	if err != nil {
		verifNote("worker run failed: " + err.Error())
		if !verifIsSymbolic() {
			println("worker run failed:", err.Error(), c34Bad)
		}
	}
	verifAssert("C34:worker-run-succeeds", err == nil && c34Bad == "")
	for _, r := range c34Table {
		calls := 0
		for _, c := range c34Calls {
			if c.ledger == r.Name {
				calls++
				verifAssert("C34:create_blocks-is-called-in-the-ledger's-bucket-with-the-configured-size", c.bucket == r.Bucket && c.size == size)
			}
		}
		if r.Features["HASH_LOGS"] == "ASYNC" && !r.deleted {
			verifAssert("C34:every-async-ledger-gets-its-blocks-built-by-a-worker-run", calls == 1)
		} else {
			verifAssert("C34:no-block-building-for-other-ledgers", calls == 0)
		}
	}
	verifReach("end")
}

func Harness_C34W_one_page()    { c34Check(3, 10, []int{1, 2, 3}) }
func Harness_C34W_two_pages()   { c34Check(17, 1000, []int{1, 15, 16, 17}) }
func Harness_C34W_three_pages() { c34Check(31, 1, []int{16, 30, 31}) }
