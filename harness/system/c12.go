package system

// C11 / C12: export -> import reproduces the ledger and the copy stays writable; an import is only accepted on a
// pristine ledger and never interleaves with writes.
//
// The real ledger state tracker (controllerFacade.handleState / Import / withLock) wraps the real DefaultController
// (Import, importLog, Export and every write) on the store model. The statements the tracker issues itself on the
// *bun.Tx / connection (UPDATE _system.ledgers SET state, SELECT setval(..), SELECT state) are opaque bun objects whose
// Exec / Scan are answered by the store model (VerifTxSetInUse, VerifTxSetval, VerifReadState).

import (
	"fmt"
	"context"
	"database/sql"
	"errors"
	"strings"

	ledger "github.com/formancehq/ledger/internal"
	ledgercontroller "github.com/formancehq/ledger/internal/controller/ledger"
)

var (
	c12DB *ledgercontroller.VerifDB
	c12bg = context.Background()
)

type c12Result struct{ n int64 }

func (r c12Result) LastInsertId() (int64, error) { return 0, nil }
func (r c12Result) RowsAffected() (int64, error) { return r.n, nil }

func verifBunExecUpdate() (sql.Result, error) {
	n, err := c12DB.VerifTxSetInUse()
	if err != nil {
		return nil, err
	}
	return c12Result{n}, nil
}

func verifBunExecRaw(query string) (sql.Result, error) {
	if !strings.Contains(query, "setval") {
		return nil, errors.New("store model: unexpected raw statement")
	}
	return c12Result{0}, c12DB.VerifTxSetval(strings.Contains(query, "transaction_id_"))
}

func verifBunScan(model any) error {
	l, ok := model.(*ledger.Ledger)
	if !ok {
		return errors.New("store model: unexpected Scan destination")
	}
	l.State = c12DB.VerifReadState()
	return nil
}

// a request's view of the ledger: GetLedgerController opens the ledger row and stacks the tracker on the controller
func c12Open(db *ledgercontroller.VerifDB) ledgercontroller.Controller {
	c12DB = db
	l := db.VerifLedger()
	l.State = db.VerifState()
	return newLedgerStateTracker(ledgercontroller.VerifNewController(db), l)
}

// the logs of a source ledger with the standard 5-write history, as Export hands them out
func c12Exported(sym bool) (*ledgercontroller.VerifDB, []ledger.Log) {
	return c12ExportedRich(sym, false)
}

// rich: the history is extended by every request of the operation list (reverts of each kind, metadata deletes, schema)
func c12ExportedRich(sym, rich bool) (*ledgercontroller.VerifDB, []ledger.Log) {
	src, ctrl := ledgercontroller.VerifSetupHistory(sym)
	if rich {
		verifAssert("C11:history-has-writes-of-every-kind", ledgercontroller.VerifRunAllOps(ctrl) >= 10)
	}
	var logs []ledger.Log
	err := ctrl.Export(c12bg, ledgercontroller.ExportWriterFn(func(_ context.Context, l ledger.Log) error {
		logs = append(logs, l)
		return nil
	}))
	verifAssert("C11:export-succeeds", err == nil)
	return src, logs
}

func c12Stream(logs []ledger.Log) chan ledger.Log {
	ch := make(chan ledger.Log, len(logs)+1)
	for _, l := range logs {
		ch <- l
	}
	close(ch)
	return ch
}

func c12Import(db *ledgercontroller.VerifDB, logs []ledger.Log) error {
	return c12Open(db).Import(c12bg, c12Stream(logs))
}

func c12Write(db *ledgercontroller.VerifDB, atomic bool, dst string) (*ledger.Log, *ledger.CreatedTransaction, error) {
	ctrl := c12Open(db)
	req := ledgercontroller.VerifCreate(ledgercontroller.VerifPosting("world", dst, "USD/2", "7"))
	if !atomic {
		log, tx, _, err := ctrl.CreateTransaction(c12bg, req)
		return log, tx, err
	}
	// the atomic bulk: Controller.BeginTX, the elements, Commit (bulker.go:Run)
	txCtrl, _, err := ctrl.BeginTX(c12bg, nil)
	if err != nil {
		return nil, nil, err
	}
	log, tx, _, err := txCtrl.CreateTransaction(c12bg, req)
	if err != nil {
		_ = txCtrl.Rollback(c12bg)
		return nil, nil, err
	}
	if err := txCtrl.Commit(c12bg); err != nil {
		return nil, nil, err
	}
	return log, tx, nil
}

// ---- C11

func c11ImportThenWrite(sym, atomic bool) { c11ImportThenWriteRich(sym, atomic, false) }

func c11ImportThenWriteRich(sym, atomic, rich bool) {
	src, logs := c12ExportedRich(sym, rich)
	dst := ledgercontroller.VerifNewDB("copy", 8)
	err := c12Import(dst, logs)
	verifAssert("C11:import-of-an-exported-ledger-succeeds", err == nil)
	if err != nil {
		return
	}
	verifAssert("C11:copy-equals-the-source", ledgercontroller.VerifStateDiffImport(src, dst) == "")
	maxTx, maxLog := dst.VerifMaxIDs()
	log, tx, err := c12Write(dst, atomic, "after:import")
	verifAssert("C11:write-after-import-succeeds", err == nil)
	if err == nil {
		verifNote(fmt.Sprintf("ids: log=%d tx=%d maxLog=%d maxTx=%d state=%s", *log.ID, *tx.Transaction.ID, maxLog, maxTx, dst.VerifState()))
		verifAssert("C11:write-after-import-continues-the-id-sequences", log != nil && tx != nil && *log.ID == maxLog+1 && *tx.Transaction.ID == maxTx+1)
		verifAssert("C11:first-write-moves-the-ledger-out-of-initializing", dst.VerifState() == ledger.StateInUse)
		// and the next one as well, through the other path
		log2, tx2, err2 := c12Write(dst, !atomic, "after:import:2")
		verifAssert("C11:write-after-import-succeeds", err2 == nil)
		if err2 == nil {
			verifAssert("C11:write-after-import-continues-the-id-sequences", *log2.ID == maxLog+2 && *tx2.Transaction.ID == maxTx+2)
		}
	}
	verifReach("end")
}

func Harness_C11_import_then_single_write()     { c11ImportThenWrite(false, false) }
func Harness_C11_import_then_atomic_bulk()      { c11ImportThenWrite(false, true) }
func Harness_C11_import_then_single_write_sym() { c11ImportThenWrite(true, false) }
func Harness_C11_rich_history_then_single_write() { c11ImportThenWriteRich(false, false, true) }
func Harness_C11_rich_history_then_atomic_bulk()  { c11ImportThenWriteRich(false, true, true) }

// ---- C12

// a foreign stream whose ids follow whatever the target already holds
func c12Foreign(after uint64) []ledger.Log {
	_, logs := c12Exported(false)
	out := make([]ledger.Log, 0, 2)
	for i := 0; i < 2 && i < len(logs); i++ {
		l := logs[i]
		id := after + uint64(i) + 1
		l.ID = &id
		// transaction ids that do not collide with the target's either
		if p, ok := l.Data.(ledger.CreatedTransaction); ok {
			txID := 1000 + uint64(i)
			p.Transaction.ID = &txID
			l.Data = p
		}
		out = append(out, l)
	}
	return out
}

func c12WriteThenImport(atomic bool) {
	dst := ledgercontroller.VerifNewDB("target", 8)
	_, _, err := c12Write(dst, atomic, "first")
	verifAssert("C12:first-write-on-a-fresh-ledger-succeeds", err == nil)
	if err != nil {
		return
	}
	before := dst.VerifClone()
	_, maxLog := dst.VerifMaxIDs()
	err = c12Import(dst, c12Foreign(maxLog))
	if err != nil {
		verifNote("import error: " + err.Error() + " state=" + dst.VerifState())
	}
	verifAssert("C12:import-after-an-accepted-write-is-rejected", err != nil && errors.Is(err, ledgercontroller.ErrImport{}))
	verifAssert("C12:rejected-import-has-no-effect", ledgercontroller.VerifStateDiff(before, dst, true) == "")
	verifReach("end")
}

func Harness_C12_single_write_then_import() { c12WriteThenImport(false) }
func Harness_C12_atomic_bulk_then_import()  { c12WriteThenImport(true) }

func Harness_C12_import_not_after_existing_logs() {
	_, logs := c12Exported(false)
	dst := ledgercontroller.VerifNewDB("target", 8)
	verifAssert("C11:import-of-an-exported-ledger-succeeds", c12Import(dst, logs) == nil)
	before := dst.VerifClone()
	// a second stream whose first id is not after the last imported one (any such id)
	_, maxLog := dst.VerifMaxIDs()
	id := nondetUint64("id")
	verifAssume(id >= 1 && id <= maxLog)
	l := logs[0]
	l.ID = &id
	err := c12Import(dst, []ledger.Log{l})
	verifAssert("C12:import-of-logs-not-after-the-existing-ones-is-rejected", err != nil && errors.Is(err, ledgercontroller.ErrImport{}))
	verifAssert("C12:rejected-import-has-no-effect", ledgercontroller.VerifStateDiff(before, dst, true) == "")
	verifReach("end")
}

// import racing the first write of the ledger: every interleaving at the store's statement boundaries
func c12Race(atomic bool) {
	_, logs := c12Exported(false)
	logs = logs[:2]
	dst := ledgercontroller.VerifNewDB("target", 8)
	dst.VerifSetConcurrent(true)
	var impErr, wErr error
	var wLog *ledger.Log
	var wTx *ledger.CreatedTransaction
	verifSpawn("import", func() { impErr = c12Import(dst, logs) })
	verifSpawn("write", func() { wLog, wTx, wErr = c12Write(dst, atomic, "racer") })
	verifJoin()
	dst.VerifSetConcurrent(false)
	txs, lgs := dst.VerifTxCount(), dst.VerifLogCount()
	if impErr == nil {
		// the import went through: the write came after it and sees the imported state
		verifAssert("C12:a-write-racing-an-accepted-import-succeeds-after-it", wErr == nil && wLog != nil && *wLog.ID == uint64(len(logs))+1)
		verifAssert("C12:an-accepted-import-is-complete", wErr != nil || (lgs == len(logs)+1))
		if wErr == nil && wTx != nil {
			verifAssert("C12:a-write-racing-an-accepted-import-gets-an-id-after-the-imported-ones", *wTx.Transaction.ID > 1)
		}
	} else {
		verifAssert("C12:import-racing-a-write-is-rejected-as-an-import-error", errors.Is(impErr, ledgercontroller.ErrImport{}))
		verifAssert("C12:rejected-import-has-no-effect", wErr != nil || (txs == 1 && lgs == 1))
		verifAssert("C12:the-write-that-won-succeeds", wErr == nil)
	}
	verifReach("end")
}

func Harness_C12_import_races_single_write() { c12Race(false) }
func Harness_C12_import_races_atomic_bulk()  { c12Race(true) }

// the ids of an imported stream must be increasing: three logs with symbolic ids on an empty ledger
func Harness_C12_stream_ids_must_increase() {
	_, logs := c12Exported(false)
	dst := ledgercontroller.VerifNewDB("target", 8)
	ids := [3]uint64{nondetUint64("id0"), nondetUint64("id1"), nondetUint64("id2")}
	stream := make([]ledger.Log, 0, 3)
	for i := 0; i < 3; i++ {
		verifAssume(ids[i] >= 1 && ids[i] <= 4)
		l := logs[3] // a metadata write: no transaction id to keep apart
		id := ids[i]
		l.ID = &id
		stream = append(stream, l)
	}
	err := c12Import(dst, stream)
	increasing := ids[0] < ids[1] && ids[1] < ids[2]
	verifAssert("C12:import-accepted-iff-the-stream-ids-increase", (err == nil) == increasing)
	if err != nil {
		verifAssert("C12:import-of-logs-not-after-the-existing-ones-is-rejected", errors.Is(err, ledgercontroller.ErrImport{}))
		// what was imported before the offending log is an increasing prefix
		verifAssert("C12:no-log-is-imported-out-of-order", dst.VerifLogCount() <= 2 && (dst.VerifLogCount() < 2 || ids[0] < ids[1]))
	}
	verifReach("end")
}

// one tracker instance serving several calls: a dry run first (rolled back), then a real write; a later import must be
// rejected like after any accepted write
func Harness_C12_dry_run_then_write_then_import() {
	dst := ledgercontroller.VerifNewDB("target", 8)
	ctrl := c12Open(dst)
	req := ledgercontroller.VerifCreate(ledgercontroller.VerifPosting("world", "first", "USD/2", "7"))
	req.DryRun = true
	_, _, _, err := ctrl.CreateTransaction(c12bg, req)
	verifAssert("C12:dry-run-on-a-fresh-ledger-succeeds", err == nil)
	verifAssert("C12:a-dry-run-leaves-the-ledger-initializing", dst.VerifState() == ledger.StateInitializing && dst.VerifLogCount() == 0)
	req.DryRun = false
	_, _, _, err = ctrl.CreateTransaction(c12bg, req)
	verifAssert("C12:first-write-on-a-fresh-ledger-succeeds", err == nil)
	verifAssert("C12:an-accepted-write-moves-the-ledger-out-of-initializing", dst.VerifState() == ledger.StateInUse)
	before := dst.VerifClone()
	_, maxLog := dst.VerifMaxIDs()
	err = c12Import(dst, c12Foreign(maxLog))
	verifAssert("C12:import-after-an-accepted-write-is-rejected", err != nil && errors.Is(err, ledgercontroller.ErrImport{}))
	verifAssert("C12:rejected-import-has-no-effect", ledgercontroller.VerifStateDiff(before, dst, true) == "")
	verifReach("end")
}
