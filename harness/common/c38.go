package common

// C38 (cursors): a cursor is client input. An arbitrary JSON document is base64-encoded and handed to the real
// UnmarshalCursor; when it decodes, the real PaginatedResourceRepository.Paginate runs on it (see c21Fetch: bun builder
// calls are opaque and the Scan is answered from them; the page may be empty).
// Decided: no reachable panic, whatever the document.

import (
	"context"
	"database/sql"
	"encoding/base64"
	"encoding/json"
	"regexp"
	"strings"

	"github.com/uptrace/bun"
	"github.com/uptrace/bun/dialect/pgdialect"

	"github.com/formancehq/go-libs/v5/pkg/storage/bun/paginate"
)

func c38Cursor(doc any, n int) {
	raw, err := json.Marshal(doc)
	verifAssume(err == nil)
	cursor := base64.RawURLEncoding.EncodeToString(raw)
	q, err := UnmarshalCursor[any](cursor)
	if err != nil {
		verifReach("end")
		return
	}
	all := c21Items(n)
	// what the API does with a decoded cursor: hand it to the repository
	_, _ = c21Fetch(all, q)
	// a statement that was emitted sorts by a field of the resource: the column of a cursor is client text and must not
	// reach the ORDER BY clause unchecked
	for _, o := range c38OrderExpressions(q) {
		ok := false
		for _, c := range []string{"id", "address"} {
			for _, d := range []string{"ASC", "DESC"} {
				ok = ok || o == c+" "+d || o == "dataset."+c+" "+d
			}
		}
		verifAssert("C38:a-cursor's-column-reaches-the-statement-only-if-the-resource-has-it", ok)
	}
	verifReach("end")
}

var c38OrderRe = regexp.MustCompile(`ORDER BY (.*? (?:ASC|DESC))`)

// the ORDER BY expressions of the statement(s) the repository emits for q (none when it refuses q)
func c38OrderExpressions(q PaginatedQuery[any]) []string {
	var out []string
	if verifIsSymbolic() {
		for i := 0; i < verifBunCount("Order"); i++ {
			out = append(out, verifBunStr("Order", i))
		}
		return out
	}
	var stmts []string
	db := bun.NewDB(sql.OpenDB(c21Connector{&stmts}), pgdialect.New())
	repo := NewPaginatedResourceRepository[c21Item, any](c21NativeHandler{db: db}, "id", paginate.OrderDesc)
	_, _ = repo.Paginate(context.Background(), q)
	for _, st := range stmts {
		for _, m := range c38OrderRe.FindAllStringSubmatch(st, -1) {
			out = append(out, strings.ReplaceAll(m[1], `"`, ""))
		}
	}
	return out
}

var c38Keys = []string{"column", "order"}

// one field at a time of a valid cursor is replaced by an arbitrary JSON value
func c38Field(field string, n int) {
	doc := map[string]any{"column": "id", "order": 1, "pageSize": 2, "filters": map[string]any{"pit": nil, "oot": nil, "qb": nil, "opts": nil}, "bottom": 5, "paginationID": 3, "reverse": false}
	doc[field] = verifJSONValue("v", 1, c38Keys)
	c38Cursor(doc, n)
}

func c38OffsetField(field string, n int) {
	doc := map[string]any{"column": "address", "order": 0, "pageSize": 2, "filters": map[string]any{"pit": nil, "oot": nil, "qb": nil, "opts": nil}, "offset": 2}
	doc[field] = verifJSONValue("v", 1, c38Keys)
	c38Cursor(doc, n)
}

func Harness_C38_cursor_column()       { c38Field("column", 2) }
func Harness_C38_cursor_order()        { c38Field("order", 2) }
func Harness_C38_cursor_pageSize()     { c38Field("pageSize", 3) }
func Harness_C38_cursor_filters()      { c38Field("filters", 2) }
func Harness_C38_cursor_bottom()       { c38Field("bottom", 2) }
func Harness_C38_cursor_paginationID() { c38Field("paginationID", 2) }
func Harness_C38_cursor_reverse()      { c38Field("reverse", 2) }
func Harness_C38_cursor_bottom_empty() { c38Field("bottom", 0) }
func Harness_C38_cursor_off_column()   { c38OffsetField("column", 2) }
func Harness_C38_cursor_off_order()    { c38OffsetField("order", 2) }
func Harness_C38_cursor_off_pageSize() { c38OffsetField("pageSize", 3) }
func Harness_C38_cursor_off_offset()   { c38OffsetField("offset", 3) }
func Harness_C38_cursor_whole() {
	c38Cursor(verifJSONValue("doc", 1, []string{"paginationID", "offset"}), 2)
}
