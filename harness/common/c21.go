package common

// C21: following next cursors enumerates every entity once, in order; previous returns the page before.
//
// The real columnPaginator.BuildCursor / OffsetPaginator.BuildCursor, the real cursor encoding (encodeCursor,
// paginate.EncodeCursor) and decoding (UnmarshalCursor) are executed symbolically. The page query itself is SQL:
// c21Page / c21OffsetPage state what the statement built by Paginate returns (the rows on the requested side of
// the pagination id, in the effective order, cut at pageSize+1); that this is what the emitted SQL computes is
// decided separately on the captured statements (pychecks/c21_pages.py).

import (
	"math/big"
	"reflect"

	"github.com/formancehq/go-libs/v5/pkg/storage/bun/paginate"

	"github.com/formancehq/ledger/internal/queries"
)

type c21Item struct {
	ID *big.Int `bun:"id,type:numeric"`
}

// The two reflection helpers of paginator_column.go locate the struct field carrying the `bun:"<column>"` tag and read
// it as a *big.Int. They are type plumbing over reflect (outside gosym's reach): for the harness entity they are
// replaced by their evident result (swap overlay; the originals stay in the build as *__orig).
func findPaginationFieldPath(v any, paginationColumn string) []reflect.StructField {
	return make([]reflect.StructField, 1)
}

func findPaginationField(v any, fields ...reflect.StructField) *big.Int {
	return v.(c21Item).ID
}

// c21Items: n entities with symbolic, strictly increasing keys
func c21Items(n int) []c21Item {
	out := make([]c21Item, n)
	for i := 0; i < n; i++ {
		k := nondetBig("key" + string(rune('0'+i)))
		if i == 0 {
			verifAssume(k.Sign() >= 0)
		} else {
			verifAssume(k.Cmp(out[i-1].ID) > 0)
		}
		out[i] = c21Item{ID: k}
	}
	return out
}

// c21Page: the rows the paginated statement returns (all sorted ascending by key)
func c21Page(all []c21Item, q ColumnPaginatedQuery[any]) []c21Item {
	order := *q.Order
	eff := order
	if q.Reverse {
		eff = order.Reverse()
	}
	sel := make([]c21Item, 0, len(all))
	for _, it := range all {
		keep := true
		if q.PaginationID != nil {
			c := it.ID.Cmp(q.PaginationID)
			if q.Reverse {
				if order == paginate.OrderAsc {
					keep = c < 0
				} else {
					keep = c > 0
				}
			} else {
				if order == paginate.OrderAsc {
					keep = c >= 0
				} else {
					keep = c <= 0
				}
			}
		}
		if keep {
			sel = append(sel, it)
		}
	}
	if eff == paginate.OrderDesc {
		for i, j := 0, len(sel)-1; i < j; i, j = i+1, j-1 {
			sel[i], sel[j] = sel[j], sel[i]
		}
	}
	limit := int(q.PageSize) + 1
	if len(sel) > limit {
		sel = sel[:limit]
	}
	return sel
}

func c21Expected(all []c21Item, order paginate.Order) []c21Item {
	out := append([]c21Item(nil), all...)
	if order == paginate.OrderDesc {
		for i, j := 0, len(out)-1; i < j; i, j = i+1, j-1 {
			out[i], out[j] = out[j], out[i]
		}
	}
	return out
}

func c21SamePage(a, b []c21Item) bool {
	if len(a) != len(b) {
		return false
	}
	for i := range a {
		if a[i].ID.Cmp(b[i].ID) != 0 {
			return false
		}
	}
	return true
}

func c21RunPage(all []c21Item, q ColumnPaginatedQuery[any]) *paginate.Cursor[c21Item] {
	rows := c21Page(all, q)
	p := newColumnPaginator[c21Item, any](q, "id", queries.NewTypeNumeric())
	cur, err := p.BuildCursor(rows)
	verifAssert("C21:build-cursor-succeeds", err == nil)
	return cur
}

func c21Decode(s string) ColumnPaginatedQuery[any] {
	q, err := UnmarshalCursor[any](s)
	verifAssert("C21:cursor-decodes", err == nil)
	cq, ok := q.(ColumnPaginatedQuery[any])
	verifAssert("C21:cursor-keeps-its-kind", ok)
	return cq
}

func c21Walk(n int, pageSize uint64, order paginate.Order) {
	all := c21Items(n)
	want := c21Expected(all, order)
	q := ColumnPaginatedQuery[any]{InitialPaginatedQuery: InitialPaginatedQuery[any]{Column: "id", Order: &order, PageSize: pageSize}}
	var got []c21Item
	var pages [][]c21Item
	for step := 0; ; step++ {
		verifAssert("C21:walk-terminates", step <= n)
		if step > n {
			return
		}
		cur := c21RunPage(all, q)
		verifAssert("C21:page-not-larger-than-page-size", len(cur.Data) <= int(pageSize))
		verifAssert("C21:no-empty-page-unless-nothing-matches", len(cur.Data) > 0 || n == 0)
		if step > 0 {
			// the previous cursor of this page gives the page before
			verifAssert("C21:page-after-the-first-has-a-previous-cursor", cur.Previous != "")
			if cur.Previous != "" {
				prev := c21RunPage(all, c21Decode(cur.Previous))
				verifAssert("C21:previous-returns-the-page-before", c21SamePage(prev.Data, pages[step-1]))
			}
		} else {
			verifAssert("C21:first-page-has-no-previous-cursor", cur.Previous == "")
		}
		pages = append(pages, cur.Data)
		got = append(got, cur.Data...)
		verifAssert("C21:hasMore-iff-next-cursor", cur.HasMore == (cur.Next != ""))
		if cur.Next == "" {
			break
		}
		q = c21Decode(cur.Next)
	}
	verifAssert("C21:every-entity-exactly-once-in-order", c21SamePage(got, want))
	// walk all the way back from the last page through the previous cursors (the reverse branch of BuildCursor)
	last := len(pages) - 1
	if last > 0 {
		cur := c21RunPage(all, q)
		for k := last - 1; k >= 0; k-- {
			verifAssert("C21:page-after-the-first-has-a-previous-cursor", cur.Previous != "")
			if cur.Previous == "" {
				return
			}
			pq := c21Decode(cur.Previous)
			cur = c21RunPage(all, pq)
			verifAssert("C21:walking-back-returns-each-earlier-page", c21SamePage(cur.Data, pages[k]))
			// and the next cursor of a page reached backwards leads forward again
			verifAssert("C21:page-reached-backwards-has-a-next-cursor", cur.Next != "")
			if cur.Next != "" {
				fw := c21RunPage(all, c21Decode(cur.Next))
				verifAssert("C21:next-of-a-page-reached-backwards-is-the-page-after", c21SamePage(fw.Data, pages[k+1]))
			}
		}
		verifAssert("C21:first-page-reached-backwards-has-no-previous-cursor", cur.Previous == "")
	}
	verifReach("end")
}

// ---- offset paginator (non-numeric sort columns: account address)

func c21OffsetPage(all []c21Item, q OffsetPaginatedQuery[any]) []c21Item {
	sel := c21Expected(all, *q.Order)
	if int(q.Offset) >= len(sel) {
		return nil
	}
	sel = sel[q.Offset:]
	if q.PageSize > 0 && len(sel) > int(q.PageSize)+1 {
		sel = sel[:q.PageSize+1]
	}
	return sel
}

func c21RunOffsetPage(all []c21Item, q OffsetPaginatedQuery[any]) *paginate.Cursor[c21Item] {
	p := newOffsetPaginator[c21Item, any](q)
	cur, err := p.BuildCursor(c21OffsetPage(all, q))
	verifAssert("C21:build-cursor-succeeds", err == nil)
	return cur
}

func c21DecodeOffset(s string) OffsetPaginatedQuery[any] {
	q, err := UnmarshalCursor[any](s)
	verifAssert("C21:cursor-decodes", err == nil)
	oq, ok := q.(OffsetPaginatedQuery[any])
	verifAssert("C21:cursor-keeps-its-kind", ok)
	return oq
}

func c21WalkOffset(n int, pageSize uint64, order paginate.Order) {
	all := c21Items(n)
	want := c21Expected(all, order)
	q := OffsetPaginatedQuery[any]{InitialPaginatedQuery: InitialPaginatedQuery[any]{Column: "address", Order: &order, PageSize: pageSize}}
	var got []c21Item
	var pages [][]c21Item
	for step := 0; ; step++ {
		verifAssert("C21:walk-terminates", step <= n)
		if step > n {
			return
		}
		cur := c21RunOffsetPage(all, q)
		verifAssert("C21:page-not-larger-than-page-size", len(cur.Data) <= int(pageSize))
		if step > 0 {
			verifAssert("C21:page-after-the-first-has-a-previous-cursor", cur.Previous != "")
			if cur.Previous != "" {
				prev := c21RunOffsetPage(all, c21DecodeOffset(cur.Previous))
				verifAssert("C21:previous-returns-the-page-before", c21SamePage(prev.Data, pages[step-1]))
			}
		} else {
			verifAssert("C21:first-page-has-no-previous-cursor", cur.Previous == "")
		}
		pages = append(pages, cur.Data)
		got = append(got, cur.Data...)
		verifAssert("C21:hasMore-iff-next-cursor", cur.HasMore == (cur.Next != ""))
		if cur.Next == "" {
			break
		}
		q = c21DecodeOffset(cur.Next)
	}
	verifAssert("C21:every-entity-exactly-once-in-order", c21SamePage(got, want))
	verifReach("end")
}

func Harness_C21_off_n3_ps1_asc()  { c21WalkOffset(3, 1, paginate.OrderAsc) }
func Harness_C21_off_n4_ps2_desc() { c21WalkOffset(4, 2, paginate.OrderDesc) }
func Harness_C21_off_n5_ps2_asc()  { c21WalkOffset(5, 2, paginate.OrderAsc) }
func Harness_C21_off_n4_ps3_asc()  { c21WalkOffset(4, 3, paginate.OrderAsc) }
func Harness_C21_off_n0_ps2_asc()  { c21WalkOffset(0, 2, paginate.OrderAsc) }
func Harness_C21_off_n6_ps2_desc() { c21WalkOffset(6, 2, paginate.OrderDesc) }
func Harness_C21_col_n6_ps2_asc()  { c21Walk(6, 2, paginate.OrderAsc) }
func Harness_C21_col_n7_ps3_desc() { c21Walk(7, 3, paginate.OrderDesc) }
func Harness_C21_col_n6_ps1_desc() { c21Walk(6, 1, paginate.OrderDesc) }
func Harness_C21_col_n4_ps4_asc()  { c21Walk(4, 4, paginate.OrderAsc) }

func Harness_C21_col_n3_ps1_desc() { c21Walk(3, 1, paginate.OrderDesc) }
func Harness_C21_col_n3_ps1_asc()  { c21Walk(3, 1, paginate.OrderAsc) }
func Harness_C21_col_n3_ps2_desc() { c21Walk(3, 2, paginate.OrderDesc) }
func Harness_C21_col_n4_ps2_asc()  { c21Walk(4, 2, paginate.OrderAsc) }
func Harness_C21_col_n4_ps3_desc() { c21Walk(4, 3, paginate.OrderDesc) }
func Harness_C21_col_n2_ps2_asc()  { c21Walk(2, 2, paginate.OrderAsc) }
func Harness_C21_col_n0_ps2_desc() { c21Walk(0, 2, paginate.OrderDesc) }
func Harness_C21_col_n5_ps2_desc() { c21Walk(5, 2, paginate.OrderDesc) }
func Harness_C21_col_n5_ps1_asc()  { c21Walk(5, 1, paginate.OrderAsc) }
