package common

// C21: following next cursors enumerates every entity once, in order; previous returns the page before.
//
// The real columnPaginator.BuildCursor / OffsetPaginator.BuildCursor, the real cursor encoding (encodeCursor,
// paginate.EncodeCursor) and decoding (UnmarshalCursor) are executed symbolically. The page query itself is SQL:
// c21Page / c21OffsetPage state what the statement built by Paginate returns (the rows on the requested side of
// the pagination id, in the effective order, cut at pageSize+1); that this is what the emitted SQL computes is
// decided separately on the captured statements (pychecks/c21_pages.py).

import (
	"context"
	"database/sql"
	"database/sql/driver"
	"errors"
	"io"
	"math/big"
	"reflect"
	"regexp"
	"strconv"
	"strings"

	"github.com/uptrace/bun"
	"github.com/uptrace/bun/dialect/pgdialect"

	"github.com/formancehq/go-libs/v5/pkg/storage/bun/paginate"

	"github.com/formancehq/ledger/internal/queries"
)

type c21Item struct {
	ID *big.Int `bun:"id,type:numeric"`
}

// The two reflection helpers of paginator_column.go locate the struct field carrying the `bun:"<column>"` tag and read
// it as a *big.Int. They are type plumbing over reflect (outside gosym's reach): for the harness entity they are
// replaced by their evident result (swap overlay; the originals stay in the build as *__orig).
func findPaginationFieldPath(v any, paginationColumn string) []reflect.StructField {
	return make([]reflect.StructField, 1)
}

func findPaginationField(v any, fields ...reflect.StructField) *big.Int {
	return v.(c21Item).ID
}

// c21Items: n entities with symbolic, strictly increasing keys
func c21Items(n int) []c21Item {
	out := make([]c21Item, n)
	for i := 0; i < n; i++ {
		k := nondetBig("key" + string(rune('0'+i)))
		if i == 0 {
			verifAssume(k.Sign() >= 0)
		} else {
			verifAssume(k.Cmp(out[i-1].ID) > 0)
		}
		out[i] = c21Item{ID: k}
	}
	return out
}

// c21Page: the rows the paginated statement returns (all sorted ascending by key)
func c21Page(all []c21Item, q ColumnPaginatedQuery[any]) []c21Item {
	order := *q.Order
	eff := order
	if q.Reverse {
		eff = order.Reverse()
	}
	sel := make([]c21Item, 0, len(all))
	for _, it := range all {
		keep := true
		if q.PaginationID != nil {
			c := it.ID.Cmp(q.PaginationID)
			if q.Reverse {
				if order == paginate.OrderAsc {
					keep = c < 0
				} else {
					keep = c > 0
				}
			} else {
				if order == paginate.OrderAsc {
					keep = c >= 0
				} else {
					keep = c <= 0
				}
			}
		}
		if keep {
			sel = append(sel, it)
		}
	}
	if eff == paginate.OrderDesc {
		for i, j := 0, len(sel)-1; i < j; i, j = i+1, j-1 {
			sel[i], sel[j] = sel[j], sel[i]
		}
	}
	// LIMIT pageSize+1 (a crafted page size may be anything: a negative LIMIT is an SQL error, reported by the caller)
	limit := int(q.PageSize) + 1
	if limit >= 0 && len(sel) > limit {
		sel = sel[:verifConcretize(limit, 0, len(sel))]
	}
	return sel
}

func c21Expected(all []c21Item, order paginate.Order) []c21Item {
	out := append([]c21Item(nil), all...)
	if order == paginate.OrderDesc {
		for i, j := 0, len(out)-1; i < j; i, j = i+1, j-1 {
			out[i], out[j] = out[j], out[i]
		}
	}
	return out
}

func c21SamePage(a, b []c21Item) bool {
	if len(a) != len(b) {
		return false
	}
	for i := range a {
		if a[i].ID.Cmp(b[i].ID) != 0 {
			return false
		}
	}
	return true
}

// ---- the real PaginatedResourceRepository.Paginate over a harness resource
//
// In the symbolic build the bun query object is opaque: the builder calls made by the repository and the paginator are
// recorded by the engine and verifBunScan answers the final Scan with the rows those calls ask for (WHERE <col> <op> ?,
// ORDER BY, LIMIT, OFFSET on the sorted entity list). That the emitted SQL text means this is the SQL half of the check.

type c21Handler struct{}

func (c21Handler) Schema() queries.EntitySchema {
	return queries.EntitySchema{Fields: map[string]queries.Field{"id": queries.NewNumericField().Paginated(), "address": queries.NewStringField().Paginated()}}
}
func (c21Handler) BuildDataset(RepositoryHandlerBuildContext[any]) (*bun.SelectQuery, error) {
	return new(bun.SelectQuery), nil
}
func (c21Handler) ResolveFilter(ResourceQuery[any], string, string, any) (string, []any, error) {
	return "", nil, nil
}
func (c21Handler) Project(_ ResourceQuery[any], q *bun.SelectQuery) (*bun.SelectQuery, error) {
	return q, nil
}
func (c21Handler) Expand(ResourceQuery[any], string) (*bun.SelectQuery, *JoinCondition, error) {
	return nil, nil, nil
}

var c21All []c21Item

func verifBunScan(model any) error {
	dst := model.(*[]c21Item)
	sel := append([]c21Item(nil), c21All...) // ascending
	if w := verifBunStr("Where", 0); w != "" {
		f := strings.Fields(w) // "<col> <op> ?"
		pid, ok := verifBunArg("Where", 0).(*big.Int)
		if len(f) != 3 || !ok || pid == nil {
			return errors.New("sql: malformed predicate")
		}
		kept := sel[:0:0]
		for _, it := range sel {
			c := it.ID.Cmp(pid)
			if (f[1] == "<" && c < 0) || (f[1] == "<=" && c <= 0) || (f[1] == ">" && c > 0) || (f[1] == ">=" && c >= 0) {
				kept = append(kept, it)
			}
		}
		sel = kept
	}
	if o := verifBunStr("Order", 0); strings.HasSuffix(o, " DESC") || strings.HasSuffix(o, " desc") {
		for i, j := 0, len(sel)-1; i < j; i, j = i+1, j-1 {
			sel[i], sel[j] = sel[j], sel[i]
		}
	}
	if off := verifBunInt("Offset", 0); off > 0 {
		if off >= len(sel) {
			sel = nil
		} else {
			sel = sel[verifConcretize(off, 0, len(sel)):]
		}
	}
	if lim := verifBunInt("Limit", 0); lim != -1 {
		if lim < 0 {
			return errors.New("sql: LIMIT must not be negative")
		}
		if lim < len(sel) {
			sel = sel[:verifConcretize(lim, 0, len(sel))]
		}
	}
	*dst = sel
	return nil
}

func verifBunCountRows() (int, error) { return len(c21All), nil }

// c21Fetch: one page through the real repository (symbolic build); the native replay build has no opaque bun and
// takes the same steps by hand (paginator.Paginate is skipped there)
func c21Fetch(all []c21Item, q PaginatedQuery[any]) (*paginate.Cursor[c21Item], error) {
	if verifIsSymbolic() {
		c21All = all
		verifBunReset()
		repo := NewPaginatedResourceRepository[c21Item, any](c21Handler{}, "id", paginate.OrderDesc)
		return repo.Paginate(context.Background(), q)
	}
	switch v := q.(type) {
	case ColumnPaginatedQuery[any]:
		if v.Order == nil {
			o := paginate.Order(paginate.OrderDesc)
			v.Order = &o
		}
		return newColumnPaginator[c21Item, any](v, "id", queries.NewTypeNumeric()).BuildCursor(c21Page(all, v))
	case OffsetPaginatedQuery[any]:
		if v.Order == nil {
			o := paginate.Order(paginate.OrderDesc)
			v.Order = &o
		}
		return newOffsetPaginator[c21Item, any](v).BuildCursor(c21OffsetPage(all, v))
	}
	return nil, errors.New("native replay: initial queries are not replayed")
}

func c21RunPage(all []c21Item, q ColumnPaginatedQuery[any]) *paginate.Cursor[c21Item] {
	cur, err := c21Fetch(all, q)
	verifAssert("C21:build-cursor-succeeds", err == nil)
	if !verifIsSymbolic() {
		return cur
	}
	// the page the repository produced is the specified one
	spec, _ := newColumnPaginator[c21Item, any](q, "id", queries.NewTypeNumeric()).BuildCursor(c21Page(all, q))
	verifAssert("C21:repository-page-is-the-specified-page", cur != nil && c21SamePage(cur.Data, spec.Data) && cur.Next == spec.Next && cur.Previous == spec.Previous)
	return cur
}

func c21Decode(s string) ColumnPaginatedQuery[any] {
	q, err := UnmarshalCursor[any](s)
	verifAssert("C21:cursor-decodes", err == nil)
	cq, ok := q.(ColumnPaginatedQuery[any])
	verifAssert("C21:cursor-keeps-its-kind", ok)
	return cq
}

func c21Walk(n int, pageSize uint64, order paginate.Order) {
	all := c21Items(n)
	want := c21Expected(all, order)
	q := ColumnPaginatedQuery[any]{InitialPaginatedQuery: InitialPaginatedQuery[any]{Column: "id", Order: &order, PageSize: pageSize}}
	var got []c21Item
	var pages [][]c21Item
	for step := 0; ; step++ {
		verifAssert("C21:walk-terminates", step <= n)
		if step > n {
			return
		}
		cur := c21RunPage(all, q)
		if step == 0 && verifIsSymbolic() {
			// the first request carries no cursor: an InitialPaginatedQuery must give the same first page
			first, err := c21Fetch(all, q.InitialPaginatedQuery)
			verifAssert("C21:initial-query-gives-the-first-page", err == nil && first != nil && c21SamePage(first.Data, cur.Data) && first.Next == cur.Next && first.Previous == cur.Previous)
		}
		verifAssert("C21:page-not-larger-than-page-size", len(cur.Data) <= int(pageSize))
		verifAssert("C21:no-empty-page-unless-nothing-matches", len(cur.Data) > 0 || n == 0)
		if step > 0 {
			// the previous cursor of this page gives the page before
			verifAssert("C21:page-after-the-first-has-a-previous-cursor", cur.Previous != "")
			if cur.Previous != "" {
				prev := c21RunPage(all, c21Decode(cur.Previous))
				verifAssert("C21:previous-returns-the-page-before", c21SamePage(prev.Data, pages[step-1]))
			}
		} else {
			verifAssert("C21:first-page-has-no-previous-cursor", cur.Previous == "")
		}
		pages = append(pages, cur.Data)
		got = append(got, cur.Data...)
		verifAssert("C21:hasMore-iff-next-cursor", cur.HasMore == (cur.Next != ""))
		if cur.Next == "" {
			break
		}
		q = c21Decode(cur.Next)
	}
	verifAssert("C21:every-entity-exactly-once-in-order", c21SamePage(got, want))
	// walk all the way back from the last page through the previous cursors (the reverse branch of BuildCursor)
	last := len(pages) - 1
	if last > 0 {
		cur := c21RunPage(all, q)
		for k := last - 1; k >= 0; k-- {
			verifAssert("C21:page-after-the-first-has-a-previous-cursor", cur.Previous != "")
			if cur.Previous == "" {
				return
			}
			pq := c21Decode(cur.Previous)
			cur = c21RunPage(all, pq)
			verifAssert("C21:walking-back-returns-each-earlier-page", c21SamePage(cur.Data, pages[k]))
			// and the next cursor of a page reached backwards leads forward again
			verifAssert("C21:page-reached-backwards-has-a-next-cursor", cur.Next != "")
			if cur.Next != "" {
				fw := c21RunPage(all, c21Decode(cur.Next))
				verifAssert("C21:next-of-a-page-reached-backwards-is-the-page-after", c21SamePage(fw.Data, pages[k+1]))
			}
		}
		verifAssert("C21:first-page-reached-backwards-has-no-previous-cursor", cur.Previous == "")
	}
	verifReach("end")
}

// ---- offset paginator (non-numeric sort columns: account address)

func c21OffsetPage(all []c21Item, q OffsetPaginatedQuery[any]) []c21Item {
	sel := c21Expected(all, *q.Order)
	if q.Offset >= uint64(len(sel)) {
		return nil
	}
	sel = sel[verifConcretize(int(q.Offset), 0, len(sel)):]
	if q.PageSize > 0 && q.PageSize < uint64(len(sel)) {
		sel = sel[:verifConcretize(int(q.PageSize)+1, 0, len(sel))]
	}
	return sel
}

func c21RunOffsetPage(all []c21Item, q OffsetPaginatedQuery[any]) *paginate.Cursor[c21Item] {
	cur, err := c21Fetch(all, q)
	verifAssert("C21:build-cursor-succeeds", err == nil)
	return cur
}

func c21DecodeOffset(s string) OffsetPaginatedQuery[any] {
	q, err := UnmarshalCursor[any](s)
	verifAssert("C21:cursor-decodes", err == nil)
	oq, ok := q.(OffsetPaginatedQuery[any])
	verifAssert("C21:cursor-keeps-its-kind", ok)
	return oq
}

func c21WalkOffset(n int, pageSize uint64, order paginate.Order) {
	all := c21Items(n)
	want := c21Expected(all, order)
	q := OffsetPaginatedQuery[any]{InitialPaginatedQuery: InitialPaginatedQuery[any]{Column: "address", Order: &order, PageSize: pageSize}}
	var got []c21Item
	var pages [][]c21Item
	for step := 0; ; step++ {
		verifAssert("C21:walk-terminates", step <= n)
		if step > n {
			return
		}
		cur := c21RunOffsetPage(all, q)
		if step == 0 && verifIsSymbolic() {
			first, err := c21Fetch(all, q.InitialPaginatedQuery)
			verifAssert("C21:initial-query-gives-the-first-page", err == nil && first != nil && c21SamePage(first.Data, cur.Data) && first.Next == cur.Next && first.Previous == cur.Previous)
		}
		verifAssert("C21:page-not-larger-than-page-size", len(cur.Data) <= int(pageSize))
		if step > 0 {
			verifAssert("C21:page-after-the-first-has-a-previous-cursor", cur.Previous != "")
			if cur.Previous != "" {
				prev := c21RunOffsetPage(all, c21DecodeOffset(cur.Previous))
				verifAssert("C21:previous-returns-the-page-before", c21SamePage(prev.Data, pages[step-1]))
			}
		} else {
			verifAssert("C21:first-page-has-no-previous-cursor", cur.Previous == "")
		}
		pages = append(pages, cur.Data)
		got = append(got, cur.Data...)
		verifAssert("C21:hasMore-iff-next-cursor", cur.HasMore == (cur.Next != ""))
		if cur.Next == "" {
			break
		}
		q = c21DecodeOffset(cur.Next)
	}
	verifAssert("C21:every-entity-exactly-once-in-order", c21SamePage(got, want))
	verifReach("end")
}

func Harness_C21_off_n3_ps1_asc()  { c21WalkOffset(3, 1, paginate.OrderAsc) }
func Harness_C21_off_n4_ps2_desc() { c21WalkOffset(4, 2, paginate.OrderDesc) }
func Harness_C21_off_n5_ps2_asc()  { c21WalkOffset(5, 2, paginate.OrderAsc) }
func Harness_C21_off_n4_ps3_asc()  { c21WalkOffset(4, 3, paginate.OrderAsc) }
func Harness_C21_off_n0_ps2_asc()  { c21WalkOffset(0, 2, paginate.OrderAsc) }
func Harness_C21_off_n6_ps2_desc() { c21WalkOffset(6, 2, paginate.OrderDesc) }
func Harness_C21_col_n6_ps2_asc()  { c21Walk(6, 2, paginate.OrderAsc) }
func Harness_C21_col_n7_ps3_desc() { c21Walk(7, 3, paginate.OrderDesc) }
func Harness_C21_col_n6_ps1_desc() { c21Walk(6, 1, paginate.OrderDesc) }
func Harness_C21_col_n4_ps4_asc()  { c21Walk(4, 4, paginate.OrderAsc) }

func Harness_C21_col_n3_ps1_desc() { c21Walk(3, 1, paginate.OrderDesc) }
func Harness_C21_col_n3_ps1_asc()  { c21Walk(3, 1, paginate.OrderAsc) }
func Harness_C21_col_n3_ps2_desc() { c21Walk(3, 2, paginate.OrderDesc) }
func Harness_C21_col_n4_ps2_asc()  { c21Walk(4, 2, paginate.OrderAsc) }
func Harness_C21_col_n4_ps3_desc() { c21Walk(4, 3, paginate.OrderDesc) }
func Harness_C21_col_n2_ps2_asc()  { c21Walk(2, 2, paginate.OrderAsc) }
func Harness_C21_col_n0_ps2_desc() { c21Walk(0, 2, paginate.OrderDesc) }
func Harness_C21_col_n5_ps2_desc() { c21Walk(5, 2, paginate.OrderDesc) }
func Harness_C21_col_n5_ps1_asc()  { c21Walk(5, 1, paginate.OrderAsc) }

// ---- native replay of the statement-level obligations: the real repository on real bun over a recording driver

type c21Conn struct{ stmts *[]string }

func (c c21Conn) Prepare(string) (driver.Stmt, error) { return nil, io.EOF }
func (c c21Conn) Close() error                        { return nil }
func (c c21Conn) Begin() (driver.Tx, error)           { return nil, io.EOF }
func (c c21Conn) QueryContext(_ context.Context, q string, _ []driver.NamedValue) (driver.Rows, error) {
	*c.stmts = append(*c.stmts, q)
	return c21Rows{}, nil
}

type c21Rows struct{}

func (c21Rows) Columns() []string         { return []string{} }
func (c21Rows) Close() error              { return nil }
func (c21Rows) Next([]driver.Value) error { return io.EOF }

type c21Connector struct{ stmts *[]string }

func (c c21Connector) Connect(context.Context) (driver.Conn, error) { return c21Conn{c.stmts}, nil }
func (c c21Connector) Driver() driver.Driver                        { return nil }

type c21NativeHandler struct {
	c21Handler
	db *bun.DB
}

func (h c21NativeHandler) BuildDataset(RepositoryHandlerBuildContext[any]) (*bun.SelectQuery, error) {
	return h.db.NewSelect().TableExpr("items").Column("id"), nil
}

var (
	c21LimitRe  = regexp.MustCompile(`LIMIT (-?\d+)`)
	c21OffsetRe = regexp.MustCompile(`OFFSET (-?\d+)`)
)

// c21LimitOffset: the LIMIT and OFFSET (-1 when absent) of the statement the repository emits for q
func c21LimitOffset(q PaginatedQuery[any]) (limit, offset, limits int) {
	if verifIsSymbolic() {
		return verifBunInt("Limit", 0), verifBunInt("Offset", 0), verifBunCount("Limit")
	}
	var stmts []string
	db := bun.NewDB(sql.OpenDB(c21Connector{&stmts}), pgdialect.New())
	repo := NewPaginatedResourceRepository[c21Item, any](c21NativeHandler{db: db}, "id", paginate.OrderDesc)
	_, _ = repo.Paginate(context.Background(), q)
	limit, offset = -1, -1
	if len(stmts) > 0 {
		last := stmts[len(stmts)-1]
		ms := c21LimitRe.FindAllStringSubmatch(last, -1)
		limits = len(ms)
		if len(ms) > 0 {
			limit, _ = strconv.Atoi(ms[0][1])
		}
		if m := c21OffsetRe.FindStringSubmatch(last); m != nil {
			offset, _ = strconv.Atoi(m[1])
		}
	}
	return
}

// the LIMIT / OFFSET the paginators ask for, for every page size (symbolic): pageSize+1 rows from the cursor position
func Harness_C21_limit_for_any_page_size_column() {
	ps := nondetUint64("pageSize")
	verifAssume(ps >= 1 && ps <= 1<<31-2)
	order := []paginate.Order{paginate.OrderAsc, paginate.OrderDesc}[nondetChoice("order", 2)]
	all := c21Items(2)
	q := ColumnPaginatedQuery[any]{InitialPaginatedQuery: InitialPaginatedQuery[any]{Column: "id", Order: &order, PageSize: ps}}
	if verifIsSymbolic() {
		_, err := c21Fetch(all, q)
		verifAssert("C21:build-cursor-succeeds", err == nil)
	}
	limit, _, limits := c21LimitOffset(q)
	verifAssert("C21:statement-asks-for-page-size-plus-one-rows", limits == 1 && limit == int(ps)+1)
	verifReach("end")
}

func Harness_C21_limit_for_any_page_size_offset() {
	ps, off := nondetUint64("pageSize"), nondetUint64("offset")
	verifAssume(ps >= 1 && ps <= 1<<31-2 && off <= 1<<31-1)
	order := []paginate.Order{paginate.OrderAsc, paginate.OrderDesc}[nondetChoice("order", 2)]
	all := c21Items(2)
	q := OffsetPaginatedQuery[any]{InitialPaginatedQuery: InitialPaginatedQuery[any]{Column: "address", Order: &order, PageSize: ps}, Offset: off}
	if verifIsSymbolic() {
		_, err := c21Fetch(all, q)
		verifAssert("C21:build-cursor-succeeds", err == nil)
	}
	limit, offset, limits := c21LimitOffset(q)
	verifAssert("C21:statement-asks-for-page-size-plus-one-rows", limits == 1 && limit == int(ps)+1)
	verifAssert("C21:statement-skips-offset-rows", (off == 0 && offset == -1) || offset == int(off))
	verifReach("end")
}
