package v1

// C38 / C36 on the v1 request decoder: Script.ToCore.

import (
	"encoding/json"
)

func Harness_C38_v1_Script_any_vars() {
	v := verifJSONValue("var", 2, []string{"asset", "amount"})
	body := map[string]any{"plain": "x", "vars": map[string]any{"v": v}}
	raw, err := json.Marshal(body)
	verifAssume(err == nil)
	var s Script
	if err := json.Unmarshal(raw, &s); err == nil {
		_, _ = s.ToCore()
	}
	verifReach("end")
}

func Harness_C36_v1_Script_number_amount() {
	n := nondetBig("n")
	verifAssume(n.Sign() >= 0)
	body := map[string]any{"vars": map[string]any{"m": map[string]any{"asset": "USD/2", "amount": n}}}
	raw, err := json.Marshal(body)
	verifAssume(err == nil)
	var s Script
	if err := json.Unmarshal(raw, &s); err != nil {
		verifAssert("C36:v1-number-amount-decodes", false)
		return
	}
	core, err := s.ToCore()
	verifAssert("C36:v1-number-amount-accepted", err == nil)
	if err == nil {
		verifAssert("C36:v1-number-amount-passed-through-without-loss", core.Vars["m"] == "USD/2 "+n.String())
	}
	verifReach("end")
}
