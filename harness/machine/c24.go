package machine

import "math/big"

// C24: Allotment.Allocate splits exactly.

func c24Rat(name string) *big.Rat {
	n := nondetBig(name + ".num")
	d := nondetBig(name + ".den")
	verifAssume(d.Sign() > 0)
	verifAssume(n.Sign() >= 0)
	verifAssume(n.Cmp(d) <= 0)
	return new(big.Rat).SetFrac(n, d)
}

func c24Check(n int, withRemaining bool) {
	ps := make([]Portion, n)
	remIdx := -1
	if withRemaining {
		remIdx = nondetChoice("remainingIdx", n)
	}
	sum := new(big.Rat)
	for i := 0; i < n; i++ {
		if i == remIdx {
			ps[i] = NewPortionRemaining()
			continue
		}
		r := c24Rat("p" + string(rune('0'+i)))
		p, err := NewPortionSpecific(*r)
		verifAssert("portion-in-range-accepted", err == nil)
		ps[i] = *p
		sum.Add(sum, r)
	}
	one := big.NewRat(1, 1)
	if withRemaining {
		verifAssume(sum.Cmp(one) <= 0)
	} else {
		verifAssume(sum.Cmp(one) == 0)
	}
	a, err := NewAllotment(ps)
	verifAssert("allotment-accepted", err == nil)
	amt := nondetBig("amount")
	verifAssume(amt.Sign() >= 0)
	amount := NewMonetaryIntFromBigInt(amt)
	parts := a.Allocate(amount)
	verifAssert("len", len(parts) == n)
	total := new(big.Int)
	seenNoBonus := false
	for i := 0; i < n; i++ {
		part := (*big.Int)(parts[i])
		total.Add(total, part)
		// floor(amount * portion_i)
		ri := &(*a)[i]
		fl := new(big.Int).Mul(amt, ri.Num())
		fl.Div(fl, ri.Denom())
		diff := new(big.Int).Sub(part, fl)
		verifAssert("part>=floor", diff.Sign() >= 0)
		verifAssert("part<=floor+1", diff.Cmp(big.NewInt(1)) <= 0)
		// the +1's are a prefix: once a part got no bonus, no later part gets one
		if diff.Sign() == 0 {
			seenNoBonus = true
		} else {
			verifAssert("bonus-is-prefix", !seenNoBonus)
		}
	}
	verifAssert("sum==amount", total.Cmp(amt) == 0)
	verifAssert("input-not-mutated", (*big.Int)(amount).Cmp(amt) == 0)
	verifReach("end")
}

func Harness_C24_n1() { c24Check(1, false) }
func Harness_C24_n2() { c24Check(2, false) }
func Harness_C24_n3() { c24Check(3, false) }
func Harness_C24_n2_remaining() { c24Check(2, true) }
func Harness_C24_n3_remaining() { c24Check(3, true) }
func Harness_C24_n4() { c24Check(4, false) }
func Harness_C24_n4_remaining() { c24Check(4, true) }
func Harness_C24_n5() { c24Check(5, false) }
