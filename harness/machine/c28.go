package machine

// C28, value flow: every way a script can obtain an account, an asset or a
// monetary from outside (variables, account metadata: both go through
// NewValueFromString) is executed on a symbolic string; if the value is
// accepted, what the machine will put into postings matches the documented
// patterns (written out here independently of pkg/accounts and pkg/assets).

import (
	"encoding/json"
	"math/big"
	"regexp"
)

var (
	c28Account = regexp.MustCompile(`^[a-zA-Z0-9_-]+(:[a-zA-Z0-9_-]+)*$`)
	c28Asset   = regexp.MustCompile(`^[A-Z][A-Z0-9]{0,16}(_[A-Z]{1,16})?(\/\d{1,6})?$`)
)

func Harness_C28_account_value() {
	s := nondetStr("address", 8)
	v, err := NewValueFromString(TypeAccount, s)
	if err != nil {
		verifReach("rejected")
		verifReach("end")
		return
	}
	a := string(v.(AccountAddress))
	verifAssert("C28:accepted-account-matches-the-address-pattern", c28Account.MatchString(a))
	verifAssert("C28:accepted-account-is-the-submitted-one", a == s)
	verifReach("accepted")
	verifReach("end")
}

func Harness_C28_asset_value() {
	s := nondetStr("asset", 8)
	v, err := NewValueFromString(TypeAsset, s)
	if err != nil {
		verifReach("rejected")
		verifReach("end")
		return
	}
	verifAssert("C28:accepted-asset-matches-the-asset-pattern", c28Asset.MatchString(string(v.(Asset))))
	verifReach("accepted")
	verifReach("end")
}

func Harness_C28_monetary_value() {
	asset := nondetStr("asset", 6)
	amount := nondetBig("amount")
	v, err := NewValueFromString(TypeMonetary, asset+" "+amount.String())
	if err != nil {
		verifReach("rejected")
		verifReach("end")
		return
	}
	m := v.(Monetary)
	verifAssert("C28:accepted-monetary-asset-matches-the-asset-pattern", c28Asset.MatchString(string(m.Asset)))
	verifAssert("C28:accepted-monetary-amount-is-non-negative", !m.Amount.Ltz())
	verifReach("accepted")
	verifReach("end")
}

// The same value submitted as JSON text (an object, a quoted string): no rendering of a
// monetary may get an asset outside the pattern, or a negative amount, accepted.
func c28MonetaryText(data string) {
	v, err := NewValueFromString(TypeMonetary, data)
	if err != nil {
		verifReach("rejected")
		verifReach("end")
		return
	}
	m := v.(Monetary)
	verifAssert("C28:accepted-monetary-asset-matches-the-asset-pattern", c28Asset.MatchString(string(m.Asset)))
	verifAssert("C28:accepted-monetary-amount-is-non-negative", m.Amount != nil && !m.Amount.Ltz())
	verifReach("accepted")
	verifReach("end")
}

// the amount of the JSON forms is one of three concrete values (its sign is what matters); the asset is symbolic
func c28Amount() *big.Int {
	return big.NewInt(int64([]int{-1, 0, 7}[nondetChoice("amount-case", 3)]))
}

func Harness_C28_monetary_value_json_object() {
	asset := nondetStr("asset", 6)
	amount := c28Amount()
	b, err := json.Marshal(map[string]any{"asset": asset, "amount": amount})
	if err != nil {
		panic(err)
	}
	c28MonetaryText(string(b))
}

func Harness_C28_monetary_value_json_string() {
	asset := nondetStr("asset", 6)
	amount := c28Amount()
	b, err := json.Marshal(asset + " " + amount.String())
	if err != nil {
		panic(err)
	}
	c28MonetaryText(string(b))
}
