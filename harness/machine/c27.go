package machine

// C27, value parsers: NewValueFromString on a symbolic string for every
// variable type never panics (it may return an error), and an accepted portion
// lies in [0, 1].

import (
	"math/big"
)

func c27Parse(typ Type, maxLen int) {
	s := nondetStr("value", maxLen)
	v, err := NewValueFromString(typ, s)
	if err != nil {
		verifAssert("C27:error-carries-no-value", v == nil)
		verifReach("rejected")
	} else {
		verifAssert("C27:accepted-value-is-present", v != nil)
		// what ResolveResources does first with a variable's value
		verifAssert("C27:accepted-value-has-the-requested-type", v.GetType() == typ)
		if p, ok := v.(Portion); ok {
			verifAssert("C27:accepted-portion-is-between-0-and-1", p.Specific.Cmp(big.NewRat(0, 1)) >= 0 && p.Specific.Cmp(big.NewRat(1, 1)) <= 0)
		}
		verifReach("accepted")
	}
	verifReach("end")
}

func Harness_C27_parse_account()  { c27Parse(TypeAccount, 6) }
func Harness_C27_parse_asset()    { c27Parse(TypeAsset, 6) }
func Harness_C27_parse_string()   { c27Parse(TypeString, 6) }
func Harness_C27_parse_portion()  { c27Parse(TypePortion, 5) }
func Harness_C27_parse_monetary() {
	asset := nondetStr("asset", 4)
	amount := nondetStr("amount", 3)
	v, err := NewValueFromString(TypeMonetary, asset+" "+amount)
	verifAssert("C27:error-xor-value", (err != nil) == (v == nil))
	verifReach("end")
}
func Harness_C27_parse_number() {
	n := nondetBig("n")
	v, err := NewValueFromString(TypeNumber, n.String())
	verifAssert("C27:error-xor-value", (err != nil) == (v == nil))
	verifReach("end")
}

// number variables are read as JSON text: every kind of JSON literal, not only decimal integers
func Harness_C27_parse_number_json_literals() {
	texts := []string{"null", "true", "false", "\"12\"", "\"\"", "1.5", "1e3", "-0", "[]", "{}", "[1]", " 7 ", "", "nul", "07"}
	s := texts[nondetChoice("literal", len(texts))]
	v, err := NewValueFromString(TypeNumber, s)
	if err != nil {
		verifAssert("C27:error-carries-no-value", v == nil)
		verifReach("rejected")
	} else {
		verifAssert("C27:accepted-value-is-present", v != nil)
		verifAssert("C27:accepted-value-has-the-requested-type", v.GetType() == TypeNumber)
		verifReach("accepted")
	}
	verifReach("end")
}
