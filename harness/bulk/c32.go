package bulking

// C32 (bulk semantics) and the bulk cases of C31: the real Bulker.Run / run /
// processElement on the real ControllerWithEvents + DefaultController on the
// store model. The reference is computed by sending the same elements one by
// one to a plain controller on an identical ledger, following the documented
// rule (atomic: all or none; sequential: stop after the first failure unless
// continueOnFailure).

import (
	"context"
	"encoding/json"
	"math/big"

	"github.com/formancehq/go-libs/v5/pkg/types/metadata"

	ledger "github.com/formancehq/ledger/internal"
	ledgercontroller "github.com/formancehq/ledger/internal/controller/ledger"
)

var bg = context.Background()

func symAmount(sym bool, name, conc string) *big.Int {
	if !sym {
		n, _ := new(big.Int).SetString(conc, 10)
		return n
	}
	v := nondetBig(name)
	verifAssume(v.Sign() >= 0)
	return v
}

// element kinds over the shared history (transactions 1..3, accounts a, b, c, world)
func mkElement(kind int, sym bool, slot int) BulkElement {
	switch kind {
	case 0: // create, always succeeds
		return BulkElement{Action: ActionCreateTransaction, Data: TransactionRequest{
			Postings: ledger.Postings{{Source: "world", Destination: "x:new", Asset: "USD/2", Amount: symAmount(sym, "el.amount", "7")}}}}
	case 1: // create, fails: reference already used
		return BulkElement{Action: ActionCreateTransaction, Data: TransactionRequest{Reference: "ref1",
			Postings: ledger.Postings{{Source: "world", Destination: "x:new", Asset: "USD/2", Amount: big.NewInt(1)}}}}
	case 2: // transaction metadata, succeeds
		return BulkElement{Action: ActionAddMetadata, Data: AddMetadataRequest{TargetType: ledger.MetaTargetTypeTransaction, TargetID: json.RawMessage(`1`), Metadata: metadata.Metadata{"bulk": "yes"}}}
	case 3: // transaction metadata on a missing transaction, fails
		return BulkElement{Action: ActionAddMetadata, Data: AddMetadataRequest{TargetType: ledger.MetaTargetTypeTransaction, TargetID: json.RawMessage(`99`), Metadata: metadata.Metadata{"bulk": "yes"}}}
	case 4: // account metadata, succeeds
		return BulkElement{Action: ActionAddMetadata, Data: AddMetadataRequest{TargetType: ledger.MetaTargetTypeAccount, TargetID: json.RawMessage(`"b"`), Metadata: metadata.Metadata{"bulk": "yes"}}}
	case 5: // forced revert of transaction 2, succeeds once
		return BulkElement{Action: ActionRevertTransaction, Data: RevertTransactionRequest{ID: 2, Force: true}}
	case 6: // spend from a: succeeds or fails depending on the (symbolic) balance
		return BulkElement{Action: ActionCreateTransaction, Data: TransactionRequest{
			Postings: ledger.Postings{{Source: "a", Destination: "c", Asset: "USD/2", Amount: symAmount(sym, "el.spend", "60")}}}}
	case 7: // delete account metadata, succeeds
		return BulkElement{Action: ActionDeleteMetadata, Data: DeleteMetadataRequest{TargetType: ledger.MetaTargetTypeAccount, TargetID: json.RawMessage(`"b"`), Key: "role"}}
	case 8: // delete transaction metadata, succeeds
		return BulkElement{Action: ActionDeleteMetadata, Data: DeleteMetadataRequest{TargetType: ledger.MetaTargetTypeTransaction, TargetID: json.RawMessage(`1`), Key: "k"}}
	}
	panic("no such element kind")
}

type refResult struct {
	applied bool
	failed  bool
	logID   uint64
	tx      *ledger.Transaction
}

// standalone sends one element as its own request.
func standalone(ctrl ledgercontroller.Controller, el BulkElement) refResult {
	switch el.Action {
	case ActionCreateTransaction:
		rs, err := el.Data.(TransactionRequest).ToCore()
		if err != nil {
			return refResult{failed: true}
		}
		log, out, _, err := ctrl.CreateTransaction(bg, ledgercontroller.Parameters[ledgercontroller.CreateTransaction]{IdempotencyKey: el.IdempotencyKey, Input: *rs})
		if err != nil {
			return refResult{failed: true}
		}
		return refResult{applied: true, logID: *log.ID, tx: &out.Transaction}
	case ActionAddMetadata:
		req := el.Data.(AddMetadataRequest)
		if req.TargetType == ledger.MetaTargetTypeAccount {
			var addr string
			_ = json.Unmarshal(req.TargetID, &addr)
			log, _, err := ctrl.SaveAccountMetadata(bg, ledgercontroller.Parameters[ledgercontroller.SaveAccountMetadata]{IdempotencyKey: el.IdempotencyKey, Input: ledgercontroller.SaveAccountMetadata{Address: addr, Metadata: req.Metadata}})
			if err != nil {
				return refResult{failed: true}
			}
			return refResult{applied: true, logID: *log.ID}
		}
		var id uint64
		_ = json.Unmarshal(req.TargetID, &id)
		log, _, err := ctrl.SaveTransactionMetadata(bg, ledgercontroller.Parameters[ledgercontroller.SaveTransactionMetadata]{IdempotencyKey: el.IdempotencyKey, Input: ledgercontroller.SaveTransactionMetadata{TransactionID: id, Metadata: req.Metadata}})
		if err != nil {
			return refResult{failed: true}
		}
		return refResult{applied: true, logID: *log.ID}
	case ActionRevertTransaction:
		req := el.Data.(RevertTransactionRequest)
		log, out, _, err := ctrl.RevertTransaction(bg, ledgercontroller.Parameters[ledgercontroller.RevertTransaction]{IdempotencyKey: el.IdempotencyKey, Input: ledgercontroller.RevertTransaction{TransactionID: req.ID, Force: req.Force, AtEffectiveDate: req.AtEffectiveDate, Metadata: req.Metadata}})
		if err != nil {
			return refResult{failed: true}
		}
		return refResult{applied: true, logID: *log.ID, tx: &out.RevertTransaction}
	case ActionDeleteMetadata:
		req := el.Data.(DeleteMetadataRequest)
		if req.TargetType == ledger.MetaTargetTypeTransaction {
			var id uint64
			_ = json.Unmarshal(req.TargetID, &id)
			log, _, err := ctrl.DeleteTransactionMetadata(bg, ledgercontroller.Parameters[ledgercontroller.DeleteTransactionMetadata]{IdempotencyKey: el.IdempotencyKey, Input: ledgercontroller.DeleteTransactionMetadata{TransactionID: id, Key: req.Key}})
			if err != nil {
				return refResult{failed: true}
			}
			return refResult{applied: true, logID: *log.ID}
		}
		var addr string
		_ = json.Unmarshal(req.TargetID, &addr)
		log, _, err := ctrl.DeleteAccountMetadata(bg, ledgercontroller.Parameters[ledgercontroller.DeleteAccountMetadata]{IdempotencyKey: el.IdempotencyKey, Input: ledgercontroller.DeleteAccountMetadata{Address: addr, Key: req.Key}})
		if err != nil {
			return refResult{failed: true}
		}
		return refResult{applied: true, logID: *log.ID}
	}
	panic("unreachable")
}

func checkBulk(sym bool, kinds []int, atomic, continueOnFailure bool) {
	db, inner := ledgercontroller.VerifSetupHistory(sym)
	lis := ledgercontroller.VerifNewListener(db)
	ctrl := ledgercontroller.NewControllerWithEvents(db.VerifLedger(), inner, lis)
	pre := db.VerifClone()

	elements := make([]BulkElement, len(kinds))
	for i, k := range kinds {
		elements[i] = mkElement(k, sym, i)
	}

	// ---- reference: the same elements one by one on an identical ledger
	refDB := db.VerifClone()
	refCtrl := ledgercontroller.VerifNewController(refDB)
	ref := make([]refResult, len(elements))
	anyFailed := false
	for i, el := range elements {
		if anyFailed && !continueOnFailure {
			continue // not applied
		}
		ref[i] = standalone(refCtrl, el)
		if ref[i].failed {
			anyFailed = true
		}
	}
	if atomic && anyFailed {
		refDB = pre.VerifClone()
	}

	// ---- the bulk
	bulk := make(Bulk, len(elements))
	for _, el := range elements {
		bulk <- el
	}
	close(bulk)
	results := make(chan BulkElementResult, len(elements))
	err := NewBulker(ctrl, WithParallelism(1)).Run(bg, bulk, results, BulkingOptions{Atomic: atomic, ContinueOnFailure: continueOnFailure})
	verifAssert("C32:run-returns-no-error", err == nil)
	var got []BulkElementResult
	for r := range results {
		got = append(got, r)
	}
	verifAssert("C32:one-result-per-element", len(got) == len(elements))
	if len(got) != len(elements) {
		return
	}

	// per element
	for i := range elements {
		switch {
		case ref[i].applied:
			verifAssert("C32:element-succeeds-as-on-its-own", got[i].Error == nil)
			if got[i].Error == nil {
				if !(atomic && anyFailed) {
					verifAssert("C32:element-log-id-as-on-its-own", got[i].LogID == ref[i].logID)
				}
				if ref[i].tx != nil {
					tx, ok := got[i].Data.(ledger.Transaction)
					verifAssert("C32:element-result-as-on-its-own", ok && ledgercontroller.VerifPostingsEqual(tx.Postings, ref[i].tx.Postings) && *tx.ID == *ref[i].tx.ID)
				}
			}
		default:
			verifAssert("C32:failed-or-skipped-element-reports-an-error", got[i].Error != nil)
		}
	}

	// state
	if atomic && anyFailed {
		verifAssert("C32:atomic-bulk-applies-all-or-none", ledgercontroller.VerifStateDiff(pre, db, true) == "")
	} else {
		verifAssert("C32:state-equals-elements-applied-in-order", ledgercontroller.VerifStateDiffNoTimes(refDB, db) == "")
	}

	// events (C31)
	applied := 0
	for i := range ref {
		if ref[i].applied {
			applied++
		}
	}
	if atomic && anyFailed {
		verifAssert("C31:no-event-for-a-rolled-back-atomic-bulk", lis.VerifCount() == 0)
	} else {
		verifAssert("C31:one-event-per-committed-bulk-element", lis.VerifCount() == applied)
		for i := 0; i < lis.VerifCount(); i++ {
			if atomic {
				verifAssert("C31:atomic-bulk-events-after-the-commit", lis.VerifCommittedLogsAt(i) == pre.VerifLogCount()+applied)
			} else {
				verifAssert("C31:bulk-event-after-its-commit", lis.VerifCommittedLogsAt(i) >= pre.VerifLogCount()+i+1)
			}
		}
	}
	verifReach("end")
}

// the element kinds at every position are explored exhaustively (a fork, not a solver decision);
// amounts and balances stay symbolic
func checkBulkN(sym bool, n int, kindsPool []int, atomic, continueOnFailure bool) {
	kinds := make([]int, n)
	for i := range kinds {
		kinds[i] = kindsPool[nondetChoice("kind", len(kindsPool))]
	}
	checkBulk(sym, kinds, atomic, continueOnFailure)
}

var poolAll = []int{0, 1, 2, 3, 4, 5, 6, 7, 8}
var poolSmall = []int{0, 1, 3, 5, 6, 8}

func Harness_BULK_n1()                 { checkBulkN(false, 1, poolAll, false, false) }
func Harness_BULK_n1_atomic()          { checkBulkN(false, 1, poolAll, true, false) }
func Harness_BULK_n2()                 { checkBulkN(false, 2, poolAll, false, false) }
func Harness_BULK_n2_continue()        { checkBulkN(false, 2, poolAll, false, true) }
func Harness_BULK_n2_atomic()          { checkBulkN(false, 2, poolAll, true, false) }
func Harness_BULK_n2_atomic_continue() { checkBulkN(false, 2, poolAll, true, true) }
func Harness_BULK_n3()                 { checkBulkN(false, 3, poolSmall, false, false) }
func Harness_BULK_n3_continue()        { checkBulkN(false, 3, poolSmall, false, true) }
func Harness_BULK_n3_atomic()          { checkBulkN(false, 3, poolSmall, true, false) }
func Harness_BULK_n3_atomic_continue() { checkBulkN(false, 3, poolSmall, true, true) }
func Harness_BULKS_n2()                { checkBulkN(true, 2, poolSmall, false, false) }
func Harness_BULKS_n2_continue()       { checkBulkN(true, 2, poolSmall, false, true) }
func Harness_BULKS_n2_atomic()         { checkBulkN(true, 2, poolSmall, true, false) }
func Harness_BULKS_n3()                { checkBulkN(true, 3, poolSmall, false, false) }
func Harness_BULKS_n3_atomic()         { checkBulkN(true, 3, poolSmall, true, false) }
func Harness_BULK_n4()                 { checkBulkN(false, 4, poolSmall, false, false) }
func Harness_BULK_n4_continue()        { checkBulkN(false, 4, poolSmall, false, true) }
func Harness_BULK_n4_atomic()          { checkBulkN(false, 4, poolSmall, true, false) }
