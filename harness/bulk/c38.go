package bulking

// C38 on the bulk decoder and executor: one field of an otherwise valid bulk
// element is replaced by an arbitrary JSON value (type confusion on every field,
// one at a time); the element goes through the real BulkElement.UnmarshalJSON /
// UnmarshalBulkElementPayload and, when it decodes, through the real Bulker on
// the real controller over the store model. Nothing may panic; an element that
// is refused leaves the ledger unchanged.

import (
	"encoding/json"

	ledgercontroller "github.com/formancehq/ledger/internal/controller/ledger"
)

func baseElement(action string) map[string]any {
	switch action {
	case ActionCreateTransaction:
		return map[string]any{"action": action, "ik": "", "data": map[string]any{
			"postings":  []any{map[string]any{"source": "world", "destination": "x", "asset": "USD/2", "amount": 5}},
			"metadata":  map[string]any{"k": "v"},
			"reference": "r-new",
		}}
	case "CREATE_TRANSACTION_SCRIPT":
		return map[string]any{"action": ActionCreateTransaction, "data": map[string]any{
			"script": map[string]any{"plain": "vars { monetary $m }\nsend $m (source=@world destination=@x)", "vars": map[string]any{"m": map[string]any{"asset": "USD/2", "amount": 5}}},
		}}
	case ActionAddMetadata:
		return map[string]any{"action": action, "data": map[string]any{"targetType": "TRANSACTION", "targetId": 1, "metadata": map[string]any{"k": "v"}}}
	case "ADD_METADATA_ACCOUNT":
		return map[string]any{"action": ActionAddMetadata, "data": map[string]any{"targetType": "ACCOUNT", "targetId": "b", "metadata": map[string]any{"k": "v"}}}
	case ActionRevertTransaction:
		return map[string]any{"action": action, "data": map[string]any{"id": 2, "force": true, "atEffectiveDate": false}}
	case ActionDeleteMetadata:
		return map[string]any{"action": action, "data": map[string]any{"targetType": "ACCOUNT", "targetId": "b", "key": "role"}}
	}
	panic("no base element for " + action)
}

func checkMalformedElement(kind string, fields []string, depth int) {
	el := baseElement(kind)
	// which field is corrupted: one of the data fields, "data" itself, "action" or "ik"
	all := append(append([]string{}, fields...), "@data", "@action", "@ik")
	f := all[nondetChoice("field", len(all))]
	v := verifJSONValue("bad", depth, []string{"source", "amount"})
	switch f {
	case "@data":
		el["data"] = v
	case "@action":
		el["action"] = v
	case "@ik":
		el["ik"] = v
	default:
		el["data"].(map[string]any)[f] = v
	}
	raw, err := json.Marshal(el)
	verifAssume(err == nil)

	var decoded BulkElement
	if err := json.Unmarshal(raw, &decoded); err != nil {
		verifReach("rejected-by-decoder")
		verifReach("end")
		return
	}
	switch decoded.Action {
	case ActionCreateTransaction, ActionAddMetadata, ActionRevertTransaction, ActionDeleteMetadata:
	default:
		// the HTTP handler refuses unknown actions before the bulker sees them
		verifReach("end")
		return
	}
	db, ctrl := ledgercontroller.VerifSetupHistory(false)
	pre := db.VerifClone()
	bulk := make(Bulk, 1)
	bulk <- decoded
	close(bulk)
	results := make(chan BulkElementResult, 1)
	runErr := NewBulker(ctrl, WithParallelism(1)).Run(bg, bulk, results, BulkingOptions{})
	verifAssert("C38:bulk-run-returns", runErr == nil)
	n := 0
	for r := range results {
		n++
		if r.Error != nil {
			verifAssert("C38:refused-element-has-no-effect", ledgercontroller.VerifStateDiff(pre, db, true) == "")
			verifReach("refused-by-controller")
		} else {
			verifReach("accepted")
		}
	}
	verifAssert("C38:one-result", n == 1)
	verifReach("end")
}

func Harness_C38_bulk_create_postings() {
	checkMalformedElement(ActionCreateTransaction, []string{"postings", "metadata", "reference", "timestamp", "accountMetadata", "force", "runtime"}, 1)
}
func Harness_C38_bulk_create_script() {
	checkMalformedElement("CREATE_TRANSACTION_SCRIPT", []string{"script", "postings"}, 1)
}
func Harness_C38_bulk_add_metadata_tx() {
	checkMalformedElement(ActionAddMetadata, []string{"targetType", "targetId", "metadata"}, 1)
}
func Harness_C38_bulk_add_metadata_account() {
	checkMalformedElement("ADD_METADATA_ACCOUNT", []string{"targetType", "targetId", "metadata"}, 1)
}
func Harness_C38_bulk_revert() {
	checkMalformedElement(ActionRevertTransaction, []string{"id", "force", "atEffectiveDate", "metadata"}, 1)
}
func Harness_C38_bulk_delete_metadata() {
	checkMalformedElement(ActionDeleteMetadata, []string{"targetType", "targetId", "key"}, 1)
}

func Harness_C38T_bulk_create_postings() {
	checkMalformedElement(ActionCreateTransaction, []string{"postings", "metadata", "reference", "timestamp", "accountMetadata", "force", "runtime"}, 2)
}
func Harness_C38T_bulk_create_script() {
	checkMalformedElement("CREATE_TRANSACTION_SCRIPT", []string{"script", "postings"}, 2)
}
func Harness_C38T_bulk_add_metadata_tx() {
	checkMalformedElement(ActionAddMetadata, []string{"targetType", "targetId", "metadata"}, 2)
}
func Harness_C38T_bulk_revert() {
	checkMalformedElement(ActionRevertTransaction, []string{"id", "force", "atEffectiveDate", "metadata"}, 2)
}
func Harness_C38T_bulk_delete_metadata() {
	checkMalformedElement(ActionDeleteMetadata, []string{"targetType", "targetId", "key"}, 2)
}
