package system

// C38, filters of the ledgers listing (GET /v2 takes a filter body like every listing): every (field, operator) pair the
// resource schema admits, with a value the field type validates, is resolved by the real ledgersResourceHandler.ResolveFilter
// without a panic (ConvertOperatorToSQL panics on an operator it does not know).

import (
	"sort"

	"github.com/formancehq/ledger/internal/queries"
	"github.com/formancehq/ledger/internal/storage/common"
)

func Harness_C38_filter_ops_ledgers() {
	h := ledgersResourceHandler{store: &DefaultStore{}}
	schema := h.Schema()
	names := make([]string, 0, len(schema.Fields))
	for n := range schema.Fields {
		names = append(names, n)
	}
	sort.Strings(names)
	name := names[nondetChoice("field", len(names))]
	field := schema.Fields[name]
	ops := field.Type.Operators()
	op := ops[nondetChoice("operator", len(ops))]
	property := name
	typ := field.Type
	if field.Type.Index() != nil {
		property = name + "[k1]"
		if nondetChoice("indexed", 2) == 1 {
			property = name
		}
		if op != queries.OperatorExists {
			typ = field.Type.Index()
		}
	}
	var value any
	switch typ.(type) {
	case queries.TypeString:
		value = "abc"
	case queries.TypeNumeric:
		value = float64(5)
	default:
		value = true
	}
	if op == queries.OperatorIn {
		value = []any{value}
	}
	if err := field.Type.ValidateValue(op, value); err != nil {
		verifReach("end")
		return
	}
	sql, _, err := h.ResolveFilter(common.ResourceQuery[ListLedgersQueryPayload]{}, op, property, value)
	verifAssert("C38:an-accepted-filter-is-resolved-or-refused-with-an-error", err != nil || sql != "")
	verifReach("end")
}
