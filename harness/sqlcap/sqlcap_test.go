package ledger

// sqlcap: the SQL the real store sends. A recording database/sql driver stands
// in for PostgreSQL; the real Store methods and resource handlers run on top of
// real bun (pgdialect), so every statement is rendered exactly as in production,
// arguments inlined. Parameters are sentinel literals that the SQL evaluator
// (pychecks/sqlsym) maps back to symbolic variables.
//
// Output: JSON lines {"name":..., "config":{...}, "sql":[...], "error":...} in $VERIF_SQLCAP_OUT.

import (
	"context"
	"database/sql"
	"database/sql/driver"
	"encoding/json"
	"io"
	"math/big"
	"os"
	"sync"
	"sync/atomic"
	"testing"
	stdtime "time"

	"github.com/uptrace/bun"
	"github.com/uptrace/bun/dialect/pgdialect"

	"github.com/formancehq/go-libs/v5/pkg/query"
	"github.com/formancehq/go-libs/v5/pkg/storage/bun/paginate"
	"github.com/formancehq/go-libs/v5/pkg/types/metadata"
	"github.com/formancehq/go-libs/v5/pkg/types/pointer"
	"github.com/formancehq/go-libs/v5/pkg/types/time"
	"go.opentelemetry.io/otel/trace/noop"

	ledger "github.com/formancehq/ledger/internal"
	"github.com/formancehq/ledger/internal/storage/bucket"
	"github.com/formancehq/ledger/internal/storage/common"
	"github.com/formancehq/ledger/pkg/features"
)

type capRecorder struct {
	mu   sync.Mutex
	stmt []string
}

func (r *capRecorder) add(q string) {
	r.mu.Lock()
	r.stmt = append(r.stmt, q)
	r.mu.Unlock()
}

type capConnector struct{ r *capRecorder }

func (c capConnector) Connect(context.Context) (driver.Conn, error) { return &capConn{c.r}, nil }
func (c capConnector) Driver() driver.Driver                          { return capDriver{} }

type capDriver struct{}

func (capDriver) Open(string) (driver.Conn, error) { return nil, io.EOF }

type capConn struct{ r *capRecorder }

func (c *capConn) Prepare(q string) (driver.Stmt, error) { return nil, io.EOF }
func (c *capConn) Close() error                            { return nil }
func (c *capConn) Begin() (driver.Tx, error)               { return capTx{}, nil }
func (c *capConn) ExecContext(_ context.Context, q string, _ []driver.NamedValue) (driver.Result, error) {
	c.r.add(q)
	return driver.RowsAffected(1), nil
}
func (c *capConn) QueryContext(_ context.Context, q string, _ []driver.NamedValue) (driver.Rows, error) {
	c.r.add(q)
	return &capRows{}, nil
}

type capTx struct{}

func (capTx) Commit() error   { return nil }
func (capTx) Rollback() error { return nil }

type capRows struct{}

func (*capRows) Columns() []string           { return []string{} }
func (*capRows) Close() error                { return nil }
func (*capRows) Next([]driver.Value) error   { return io.EOF }

func capStore(feats features.FeatureSet, aloneInBucket bool) (*Store, *capRecorder) {
	return capStoreOf(feats, aloneInBucket, "L#1", 7)
}

func capStoreOf(feats features.FeatureSet, aloneInBucket bool, name string, id int) (*Store, *capRecorder) {
	rec := &capRecorder{}
	db := bun.NewDB(sql.OpenDB(capConnector{rec}), pgdialect.New())
	l := ledger.Ledger{Name: name, ID: id, State: ledger.StateInUse}
	l.Bucket = "_default"
	l.Features = feats
	opts := []Option{}
	st := New(db, bucket.NewDefault(noop.Tracer{}, "_default"), l, opts...)
	if aloneInBucket {
		flag := &atomic.Bool{}
		flag.Store(true)
		st.aloneInBucket = flag
	}
	return st, rec
}

type capRecord struct {
	Name   string            `json:"name"`
	Config map[string]string `json:"config"`
	SQL    []string          `json:"sql"`
	Error  string            `json:"error,omitempty"`
}

var (
	capPIT = time.Time{Time: mustParse("2001-01-01T00:00:01Z")}
	capOOT = time.Time{Time: mustParse("2000-01-01T00:00:01Z")}
)

func mustParse(s string) (t stdtime.Time) {
	p, err := time.ParseTime(s)
	if err != nil {
		panic(err)
	}
	return p.Time
}

func featureSets() map[string]features.FeatureSet {
	out := map[string]features.FeatureSet{}
	out["default"] = features.DefaultFeatures
	out["minimal"] = features.MinimalFeatureSet
	// one feature flipped at a time from the default
	for _, kv := range [][2]string{
		{features.FeatureMovesHistory, "OFF"},
		{features.FeatureMovesHistoryPostCommitEffectiveVolumes, "DISABLED"},
		{features.FeatureAccountMetadataHistory, "DISABLED"},
		{features.FeatureTransactionMetadataHistory, "DISABLED"},
		{features.FeatureHashLogs, "DISABLED"},
	} {
		out[kv[0]+"="+kv[1]] = features.DefaultFeatures.With(kv[0], kv[1])
	}
	return out
}

func TestVerifSQLCap(t *testing.T) {
	outPath := os.Getenv("VERIF_SQLCAP_OUT")
	if outPath == "" {
		t.Skip("VERIF_SQLCAP_OUT not set")
	}
	f, err := os.Create(outPath)
	if err != nil {
		t.Fatal(err)
	}
	defer f.Close()
	enc := json.NewEncoder(f)
	ctx := context.Background()

	emit := func(name string, cfg map[string]string, st *Store, rec *capRecorder, fn func() error) {
		rec.stmt = nil
		r := capRecord{Name: name, Config: cfg}
		func() {
			defer func() {
				if p := recover(); p != nil {
					r.Error = "panic"
				}
			}()
			if err := fn(); err != nil {
				r.Error = err.Error()
			}
		}()
		r.SQL = append([]string(nil), rec.stmt...)
		_ = enc.Encode(r)
	}

	for fname, feats := range featureSets() {
		for _, alone := range []bool{false, true} {
			st, rec := capStore(feats, alone)
			base := func(extra ...string) map[string]string {
				m := map[string]string{"features": fname, "alone": map[bool]string{true: "true", false: "false"}[alone]}
				for i := 0; i+1 < len(extra); i += 2 {
					m[extra[i]] = extra[i+1]
				}
				return m
			}
			// ---- writes
			emit("UpdateVolumes", base(), st, rec, func() error {
				_, err := st.UpdateVolumes(ctx, ledger.AccountsVolumes{Account: "ACC#1", Asset: "AST#1", Input: big.NewInt(700000001), Output: big.NewInt(700000002)},
					ledger.AccountsVolumes{Account: "ACC#2", Asset: "AST#1", Input: big.NewInt(700000003), Output: big.NewInt(700000004)})
				return err
			})
			emit("GetBalances", base(), st, rec, func() error {
				_, err := st.GetBalances(ctx, BalanceQuery{"ACC#1": {"AST#1"}, "ACC#2": {"AST#1"}})
				return err
			})
			emit("UpsertAccounts", base(), st, rec, func() error {
				return st.UpsertAccounts(ctx, ledger.AccountWithDefaultMetadata{
					Account:         &ledger.Account{Address: "ACC#1", FirstUsage: capPIT, Metadata: metadata.Metadata{"MK#1": "MV#1"}},
					DefaultMetadata: metadata.Metadata{"DK#1": "DV#1"},
				}, ledger.AccountWithDefaultMetadata{Account: &ledger.Account{Address: "ACC#2", Metadata: metadata.Metadata{}}})
			})
			emit("UpdateAccountsMetadata", base(), st, rec, func() error {
				return st.UpdateAccountsMetadata(ctx, map[string]metadata.Metadata{"ACC#1": {"MK#1": "MV#1"}}, capPIT)
			})
			emit("DeleteAccountMetadata", base(), st, rec, func() error { return st.DeleteAccountMetadata(ctx, "ACC#1", "MK#1") })
			emit("RevertTransaction", base(), st, rec, func() error {
				_, _, err := st.RevertTransaction(ctx, 900001, time.Time{})
				return err
			})
			emit("RevertTransactionAt", base(), st, rec, func() error {
				_, _, err := st.RevertTransaction(ctx, 900001, capPIT)
				return err
			})
			emit("UpdateTransactionMetadata", base(), st, rec, func() error {
				_, _, err := st.UpdateTransactionMetadata(ctx, 900001, metadata.Metadata{"MK#1": "MV#1"}, time.Time{})
				return err
			})
			emit("DeleteTransactionMetadata", base(), st, rec, func() error {
				_, _, err := st.DeleteTransactionMetadata(ctx, 900001, "MK#1", time.Time{})
				return err
			})
			emit("InsertLog", base(), st, rec, func() error {
				l := ledger.NewLog(ledger.SavedMetadata{TargetType: ledger.MetaTargetTypeAccount, TargetID: "ACC#1", Metadata: metadata.Metadata{}})
				l.IdempotencyKey = "IK#1"
				return st.InsertLog(ctx, &l)
			})
			// the same write on a second ledger of the bucket (lock keys and sequence names must be per ledger)
			st2, rec2 := capStoreOf(feats, alone, "L#2", 8)
			emit("InsertLog", base("ledger", "2"), st2, rec2, func() error {
				l := ledger.NewLog(ledger.SavedMetadata{TargetType: ledger.MetaTargetTypeAccount, TargetID: "ACC#1", Metadata: metadata.Metadata{}})
				l.IdempotencyKey = "IK#1"
				return st2.InsertLog(ctx, &l)
			})
			emit("CommitTransaction", base("ledger", "2"), st2, rec2, func() error {
				tx := ledger.NewTransaction().WithPostings(ledger.NewPosting("ACC#1", "ACC#2", "AST#1", big.NewInt(700000005)))
				return st2.CommitTransaction(ctx, &tx)
			})
			emit("CommitTransaction", base(), st, rec, func() error {
				tx := ledger.NewTransaction().WithPostings(ledger.NewPosting("ACC#1", "ACC#2", "AST#1", big.NewInt(700000005)))
				tx.Reference = "REF#1"
				id := uint64(900002)
				tx.ID = &id
				return st.CommitTransaction(ctx, &tx)
			})
			emit("CommitTransaction.noReference", base(), st, rec, func() error {
				tx := ledger.NewTransaction().WithPostings(ledger.NewPosting("ACC#1", "ACC#2", "AST#1", big.NewInt(700000005)))
				return st.CommitTransaction(ctx, &tx)
			})
			// multi-segment addresses: what the store writes next to an address (address_array, sources, destinations,
			// sources_arrays, destinations_arrays) — the row invariants the filter obligations assume
			emit("UpsertAccounts.segments", base(), st, rec, func() error {
				return st.UpsertAccounts(ctx, ledger.AccountWithDefaultMetadata{Account: &ledger.Account{Address: "SEG#1:SEG#2:SEG#3", Metadata: metadata.Metadata{}}},
					ledger.AccountWithDefaultMetadata{Account: &ledger.Account{Address: "SEG#4", Metadata: metadata.Metadata{}}})
			})
			emit("CommitTransaction.segments", base(), st, rec, func() error {
				tx := ledger.NewTransaction().WithPostings(
					ledger.NewPosting("SEG#1:SEG#2", "SEG#3", "AST#1", big.NewInt(700000005)),
					ledger.NewPosting("SEG#3", "SEG#4:SEG#5:SEG#6", "AST#1", big.NewInt(700000005)),
					ledger.NewPosting("SEG#1:SEG#2", "SEG#7", "AST#1", big.NewInt(700000005)))
				return st.CommitTransaction(ctx, &tx)
			})
			emit("ReadLogWithIdempotencyKey", base(), st, rec, func() error {
				_, err := st.ReadLogWithIdempotencyKey(ctx, "IK#1")
				return err
			})

			// ---- reads
			for _, insertion := range []bool{false, true} {
				for _, window := range []string{"none", "pit", "pit+oot", "oot"} {
					var pit, oot *time.Time
					if window == "pit" || window == "pit+oot" {
						pit = &capPIT
					}
					if window == "oot" || window == "pit+oot" {
						oot = &capOOT
					}
					cfg := base("window", window, "insertionDate", map[bool]string{true: "true", false: "false"}[insertion])
					for _, group := range []int{0, 2} {
						cfgG := map[string]string{}
						for k, v := range cfg {
							cfgG[k] = v
						}
						cfgG["groupLvl"] = map[int]string{0: "0", 2: "2"}[group]
						emit("Volumes.Paginate", cfgG, st, rec, func() error {
							_, err := st.Volumes().Paginate(ctx, common.InitialPaginatedQuery[ledger.GetVolumesOptions]{PageSize: 10, Options: common.ResourceQuery[ledger.GetVolumesOptions]{
								PIT: pit, OOT: oot, Opts: ledger.GetVolumesOptions{UseInsertionDate: insertion, GroupLvl: group}}})
							return err
						})
					}
					emit("AggregatedVolumes.GetOne", cfg, st, rec, func() error {
						_, err := st.AggregatedVolumes().GetOne(ctx, common.ResourceQuery[ledger.GetAggregatedVolumesOptions]{PIT: pit, OOT: oot, Opts: ledger.GetAggregatedVolumesOptions{UseInsertionDate: insertion}})
						return err
					})
				}
			}
			for _, window := range []string{"none", "pit"} {
				var pit *time.Time
				if window == "pit" {
					pit = &capPIT
				}
				for _, expand := range []string{"", "volumes", "effectiveVolumes"} {
					var ex []string
					if expand != "" {
						ex = []string{expand}
					}
					cfg := base("window", window, "expand", expand)
					emit("Accounts.Paginate", cfg, st, rec, func() error {
						_, err := st.Accounts().Paginate(ctx, common.InitialPaginatedQuery[any]{PageSize: 10, Options: common.ResourceQuery[any]{PIT: pit, Expand: ex}})
						return err
					})
					emit("Accounts.GetOne", cfg, st, rec, func() error {
						_, err := st.Accounts().GetOne(ctx, common.ResourceQuery[any]{PIT: pit, Expand: ex, Builder: query.Match("address", "ACC#1")})
						return err
					})
					emit("Transactions.Paginate", cfg, st, rec, func() error {
						_, err := st.Transactions().Paginate(ctx, common.InitialPaginatedQuery[any]{PageSize: 10, Order: pointer.For(paginate.Order(paginate.OrderDesc)), Options: common.ResourceQuery[any]{PIT: pit, Expand: ex}})
						return err
					})
				}
				emit("Accounts.Paginate.balanceFilter", base("window", window), st, rec, func() error {
					_, err := st.Accounts().Paginate(ctx, common.InitialPaginatedQuery[any]{PageSize: 10, Options: common.ResourceQuery[any]{PIT: pit, Builder: query.Gt("balance[AST#1]", 700000006)}})
					return err
				})
				emit("Accounts.Paginate.metadataFilter", base("window", window), st, rec, func() error {
					_, err := st.Accounts().Paginate(ctx, common.InitialPaginatedQuery[any]{PageSize: 10, Options: common.ResourceQuery[any]{PIT: pit, Builder: query.Match("metadata[MK#1]", "MV#1")}})
					return err
				})
				emit("Transactions.Paginate.metadataFilter", base("window", window), st, rec, func() error {
					_, err := st.Transactions().Paginate(ctx, common.InitialPaginatedQuery[any]{PageSize: 10, Options: common.ResourceQuery[any]{PIT: pit, Builder: query.Match("metadata[MK#1]", "MV#1")}})
					return err
				})
			}
			emit("Logs.Paginate", base(), st, rec, func() error {
				_, err := st.Logs().Paginate(ctx, common.InitialPaginatedQuery[any]{PageSize: 10})
				return err
			})
		}
	}
}

// ---- filters: the statements the real store emits for a family of filter ASTs (generated by pychecks/filters.py)

type capFilterCase struct {
	ID        string          `json:"id"`
	Resource  string          `json:"resource"` // accounts | transactions | volumes | aggregated | logs
	Filter    json.RawMessage `json:"filter"`
	PIT       bool            `json:"pit"`
	OOT       bool            `json:"oot"`
	Insertion bool            `json:"insertionDate"`
	Features  string          `json:"features"`
	Alone     bool            `json:"alone"`
	Op        string          `json:"op"` // paginate | count | getone
}

func TestVerifSQLCapFilters(t *testing.T) {
	outPath := os.Getenv("VERIF_SQLCAP_OUT")
	inPath := os.Getenv("VERIF_SQLCAP_FILTERS")
	if outPath == "" || inPath == "" {
		t.Skip("VERIF_SQLCAP_OUT / VERIF_SQLCAP_FILTERS not set")
	}
	raw, err := os.ReadFile(inPath)
	if err != nil {
		t.Fatal(err)
	}
	var cases []capFilterCase
	if err := json.Unmarshal(raw, &cases); err != nil {
		t.Fatal(err)
	}
	f, err := os.Create(outPath)
	if err != nil {
		t.Fatal(err)
	}
	defer f.Close()
	enc := json.NewEncoder(f)
	ctx := context.Background()
	fsets := featureSets()
	for _, c := range cases {
		feats, ok := fsets[c.Features]
		if !ok {
			feats = fsets["default"]
		}
		st, rec := capStore(feats, c.Alone)
		r := capRecord{Name: "Filter." + c.Resource + "." + c.Op, Config: map[string]string{"id": c.ID}}
		func() {
			defer func() {
				if p := recover(); p != nil {
					r.Error = "panic"
				}
			}()
			var builder query.Builder
			if len(c.Filter) > 0 && string(c.Filter) != "null" {
				b, err := query.ParseJSON(string(c.Filter))
				if err != nil {
					r.Error = "parse: " + err.Error()
					return
				}
				builder = b
			}
			var pit, oot *time.Time
			if c.PIT {
				pit = &capPIT
			}
			if c.OOT {
				oot = &capOOT
			}
			var err error
			switch c.Resource {
			case "accounts":
				q := common.ResourceQuery[any]{PIT: pit, Builder: builder}
				if c.Op == "count" {
					_, err = st.Accounts().Count(ctx, q)
				} else {
					_, err = st.Accounts().Paginate(ctx, common.InitialPaginatedQuery[any]{PageSize: 10, Options: q})
				}
			case "transactions":
				q := common.ResourceQuery[any]{PIT: pit, Builder: builder}
				if c.Op == "count" {
					_, err = st.Transactions().Count(ctx, q)
				} else {
					_, err = st.Transactions().Paginate(ctx, common.InitialPaginatedQuery[any]{PageSize: 10, Options: q})
				}
			case "logs":
				q := common.ResourceQuery[any]{Builder: builder}
				if c.Op == "count" {
					_, err = st.Logs().Count(ctx, q)
				} else {
					_, err = st.Logs().Paginate(ctx, common.InitialPaginatedQuery[any]{PageSize: 10, Options: q})
				}
			case "volumes":
				q := common.ResourceQuery[ledger.GetVolumesOptions]{PIT: pit, OOT: oot, Builder: builder, Opts: ledger.GetVolumesOptions{UseInsertionDate: c.Insertion}}
				if c.Op == "count" {
					_, err = st.Volumes().Count(ctx, q)
				} else {
					_, err = st.Volumes().Paginate(ctx, common.InitialPaginatedQuery[ledger.GetVolumesOptions]{PageSize: 10, Options: q})
				}
			case "aggregated":
				_, err = st.AggregatedVolumes().GetOne(ctx, common.ResourceQuery[ledger.GetAggregatedVolumesOptions]{PIT: pit, Builder: builder, Opts: ledger.GetAggregatedVolumesOptions{UseInsertionDate: c.Insertion}})
			}
			if err != nil {
				r.Error = err.Error()
			}
		}()
		r.SQL = append([]string(nil), rec.stmt...)
		_ = enc.Encode(r)
	}
}

// ---- pages: the statements the real paginators emit (cases generated by pychecks/c21_pages.py)

type capPageCase struct {
	ID           string `json:"id"`
	Resource     string `json:"resource"` // transactions | logs | accounts | volumes
	Kind         string `json:"kind"`     // column | offset | initial
	Column       string `json:"column"`
	Order        string `json:"order"` // asc | desc
	Reverse      bool   `json:"reverse"`
	PaginationID *int64 `json:"paginationID"`
	PageSize     uint64 `json:"pageSize"`
	Offset       uint64 `json:"offset"`
}

func capPaginated[O any](c capPageCase, opts common.ResourceQuery[O]) common.PaginatedQuery[O] {
	order := paginate.Order(paginate.OrderAsc)
	if c.Order == "desc" {
		order = paginate.Order(paginate.OrderDesc)
	}
	initial := common.InitialPaginatedQuery[O]{Column: c.Column, Order: &order, PageSize: c.PageSize, Options: opts}
	switch c.Kind {
	case "column":
		q := common.ColumnPaginatedQuery[O]{InitialPaginatedQuery: initial, Reverse: c.Reverse}
		if c.PaginationID != nil {
			q.PaginationID = big.NewInt(*c.PaginationID)
		}
		return q
	case "offset":
		return common.OffsetPaginatedQuery[O]{InitialPaginatedQuery: initial, Offset: c.Offset}
	default:
		return initial
	}
}

func TestVerifSQLCapPages(t *testing.T) {
	outPath := os.Getenv("VERIF_SQLCAP_OUT")
	inPath := os.Getenv("VERIF_SQLCAP_PAGES")
	if outPath == "" || inPath == "" {
		t.Skip("VERIF_SQLCAP_OUT / VERIF_SQLCAP_PAGES not set")
	}
	raw, err := os.ReadFile(inPath)
	if err != nil {
		t.Fatal(err)
	}
	var cases []capPageCase
	if err := json.Unmarshal(raw, &cases); err != nil {
		t.Fatal(err)
	}
	f, err := os.Create(outPath)
	if err != nil {
		t.Fatal(err)
	}
	defer f.Close()
	enc := json.NewEncoder(f)
	ctx := context.Background()
	for _, c := range cases {
		st, rec := capStore(features.DefaultFeatures, false)
		r := capRecord{Name: "Page." + c.Resource, Config: map[string]string{"id": c.ID}}
		func() {
			defer func() {
				if p := recover(); p != nil {
					r.Error = "panic"
				}
			}()
			var err error
			switch c.Resource {
			case "transactions":
				_, err = st.Transactions().Paginate(ctx, capPaginated(c, common.ResourceQuery[any]{}))
			case "logs":
				_, err = st.Logs().Paginate(ctx, capPaginated(c, common.ResourceQuery[any]{}))
			case "accounts":
				_, err = st.Accounts().Paginate(ctx, capPaginated(c, common.ResourceQuery[any]{}))
			case "volumes":
				_, err = st.Volumes().Paginate(ctx, capPaginated(c, common.ResourceQuery[ledger.GetVolumesOptions]{}))
			}
			if err != nil {
				r.Error = err.Error()
			}
		}()
		r.SQL = append([]string(nil), rec.stmt...)
		_ = enc.Encode(r)
	}
}
