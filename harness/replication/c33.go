package replication

// C33: a started pipeline delivers every log of its ledger to the exporter, in id order, without gaps, despite
// exporter / fetch failures, stop-start and reset; what is persisted as last exported id never runs ahead of what the
// exporter acknowledged.
//
// The real Manager (startPipeline, StopPipeline, ResetPipeline, its persisting goroutine), the real PipelineHandler.Run
// / Shutdown and the real DriverFacade run as logical threads; the storage, the log source and the exporter driver are
// harness objects (the interfaces the package defines for them). Timers fire when every thread is blocked.

import (
	"context"
	"encoding/json"
	"errors"
	"fmt"
	"io"
	stdtime "time"

	logging "github.com/formancehq/go-libs/v5/pkg/observe/log"
	"github.com/formancehq/go-libs/v5/pkg/storage/bun/paginate"
	"github.com/formancehq/go-libs/v5/pkg/storage/postgres"

	ledger "github.com/formancehq/ledger/internal"
	"github.com/formancehq/ledger/internal/replication/drivers"
	"github.com/formancehq/ledger/internal/storage/common"
)

type c33Logger struct{}

func (c33Logger) Tracef(string, ...any)                        {}
func (c33Logger) Debugf(string, ...any)                        {}
func (c33Logger) Infof(string, ...any)                         {}
func (c33Logger) Errorf(string, ...any)                        {}
func (c33Logger) Trace(...any)                                 {}
func (c33Logger) Debug(...any)                                 {}
func (c33Logger) Info(...any)                                  {}
func (c33Logger) Error(...any)                                 {}
func (l c33Logger) WithFields(map[string]any) logging.Logger   { return l }
func (l c33Logger) WithField(string, any) logging.Logger       { return l }
func (l c33Logger) WithContext(context.Context) logging.Logger { return l }
func (c33Logger) Writer() io.Writer                            { return io.Discard }
func (c33Logger) Enabled(logging.Level) bool                   { return false }

// ---- the world: one ledger with n logs, one pipeline, one exporter

type c33World struct {
	n            uint64 // logs 1..n exist
	pageSize     uint64
	fetchFaults  int
	pushFaults   int
	deadCtxCalls int // consecutive Accept calls made with an already cancelled context
	// exporter side
	acked    []uint64 // ids of the logs of every acknowledged batch, in order
	lastAck  uint64
	epochAck uint64 // greatest id acknowledged since the last reset
	// storage side
	pipeline  ledger.Pipeline
	persisted []uint64 // every value written by StorePipelineState, in order
	violation string
	resets    int
	resetIdx  int // len(acked) when the last reset happened
	// native replay of a schedule found symbolically (real goroutines): gates that hold a call until released
	storeGate, atStoreGate, storeDone chan struct{}
	acceptGate                        chan struct{}
	failedOnce                        chan struct{} // closed when the exporter has refused a batch (native replay)
	nativeFailFirst                   bool
}

func (w *c33World) note(v string) {
	if w.violation == "" {
		w.violation = v
	}
}

// LogFetcher
func (w *c33World) ListLogs(ctx context.Context, q common.PaginatedQuery[any]) (*paginate.Cursor[ledger.Log], error) {
	iq, ok := q.(common.InitialPaginatedQuery[any])
	if !ok {
		return nil, errors.New("world: unexpected query")
	}
	if w.fetchFaults > 0 && nondetBool("fetch.fail") {
		w.fetchFaults--
		return nil, errors.New("injected fetch failure")
	}
	var after uint64
	if iq.Options.Builder != nil {
		_ = iq.Options.Builder.Walk(func(op, key string, value *any) error {
			if key == "id" && op == "$gt" {
				after = (*value).(uint64)
			}
			return nil
		})
	}
	cur := &paginate.Cursor[ledger.Log]{PageSize: int(iq.PageSize)}
	for id := after + 1; id <= w.n; id++ {
		if uint64(len(cur.Data)) == iq.PageSize {
			cur.HasMore = true
			break
		}
		i := id
		cur.Data = append(cur.Data, ledger.Log{ID: &i})
	}
	return cur, nil
}

// drivers.Driver
type c33Driver struct{ w *c33World }

func (d *c33Driver) Start(context.Context) error { return nil }
func (d *c33Driver) Stop(context.Context) error  { return nil }
func (d *c33Driver) Accept(ctx context.Context, logs ...drivers.LogWithLedger) ([]error, error) {
	w := d.w
	// like the real drivers (http, clickhouse, elasticsearch, the batcher): a call made with a context that is already
	// cancelled fails with the context's error
	if err := ctx.Err(); err != nil {
		// the pipeline's own context is never cancelled (manager.startPipeline detaches it, the harnesses pass a background
		// context). One call with a dead context happens when a stop request overtakes the push goroutine (the run then
		// ends); a second one in a row means the pipeline keeps retrying with a context it cancelled itself: no retry can
		// ever succeed
		w.deadCtxCalls++
		verifAssert("C33:retries-reach-the-exporter-with-a-live-context", w.deadCtxCalls < 2)
		return nil, err
	}
	w.deadCtxCalls = 0
	if w.nativeFailFirst {
		w.nativeFailFirst = false
		close(w.failedOnce)
		return nil, errors.New("injected exporter failure")
	}
	if w.pushFaults > 0 && nondetBool("push.fail") {
		w.pushFaults--
		c33Yield("exporter:Accept (failing)")
		return nil, errors.New("injected exporter failure")
	}
	if w.acceptGate != nil && w.resets > 0 {
		<-w.acceptGate
	}
	// the exporter takes the batch when it is called; its answer may be slow (the yield below)
	defer c33Yield("exporter:Accept (answer)")
	for _, l := range logs {
		id := *l.ID
		// in order, no gap: a batch may repeat what was acknowledged before (at least once), never skip
		if id > w.lastAck+1 {
			w.note("gap")
		}
		if len(w.acked) > 0 && id <= w.acked[len(w.acked)-1] && id != 1 && id > w.lastAck {
			w.note("order")
		}
		w.acked = append(w.acked, id)
		if id > w.lastAck {
			w.lastAck = id
		}
		if id > w.epochAck {
			w.epochAck = id
		}
	}
	return make([]error, len(logs)), nil
}

type c33Factory struct{ w *c33World }

func (f c33Factory) Create(ctx context.Context, id string) (drivers.Driver, json.RawMessage, error) {
	return &c33Driver{f.w}, nil, nil
}

// Storage
type c33Storage struct{ w *c33World }

func (s c33Storage) OpenLedger(context.Context, string) (LogFetcher, *ledger.Ledger, error) {
	return s.w, &ledger.Ledger{Name: "l1"}, nil
}
func (s c33Storage) StorePipelineState(ctx context.Context, id string, lastLogID uint64) error {
	w := s.w
	c33Yield("storage:StorePipelineState")
	if w.storeGate != nil { // native replay: hold the first store until the harness lets it go
		g := w.storeGate
		w.storeGate = nil
		close(w.atStoreGate)
		<-g
		defer close(w.storeDone)
	}
	if lastLogID > w.epochAck {
		w.note("persisted-ahead-of-acknowledged")
	}
	w.persisted = append(w.persisted, lastLogID)
	v := lastLogID
	w.pipeline.LastLogID = &v
	return nil
}
func (s c33Storage) UpdatePipeline(ctx context.Context, id string, o map[string]any) (*ledger.Pipeline, error) {
	w := s.w
	if v, ok := o["last_log_id"]; ok && v == nil {
		w.pipeline.LastLogID = nil
		w.epochAck = 0 // a reset: nothing acknowledged since
		w.lastAck = 0
		w.resets++
		w.resetIdx = len(w.acked)
	}
	if v, ok := o["enabled"].(bool); ok {
		w.pipeline.Enabled = v
	}
	cp := w.pipeline
	return &cp, nil
}
func (s c33Storage) GetPipeline(ctx context.Context, id string) (*ledger.Pipeline, error) {
	if id != s.w.pipeline.ID {
		return nil, postgres.ErrNotFound
	}
	cp := s.w.pipeline
	if cp.LastLogID != nil {
		v := *cp.LastLogID
		cp.LastLogID = &v
	}
	return &cp, nil
}
func (s c33Storage) ListEnabledPipelines(ctx context.Context) ([]ledger.Pipeline, error) {
	if !s.w.pipeline.Enabled {
		return nil, nil
	}
	p, _ := s.GetPipeline(ctx, s.w.pipeline.ID)
	return []ledger.Pipeline{*p}, nil
}
func (s c33Storage) ListExporters(context.Context) (*paginate.Cursor[ledger.Exporter], error) {
	panic("world: not used")
}
func (s c33Storage) CreateExporter(context.Context, ledger.Exporter) error { panic("world: not used") }
func (s c33Storage) DeleteExporter(context.Context, string) error          { panic("world: not used") }
func (s c33Storage) GetExporter(context.Context, string) (*ledger.Exporter, error) {
	panic("world: not used")
}
func (s c33Storage) UpdateExporter(context.Context, ledger.Exporter) error { panic("world: not used") }
func (s c33Storage) CreatePipeline(context.Context, ledger.Pipeline) error { panic("world: not used") }
func (s c33Storage) DeletePipeline(context.Context, string) error          { panic("world: not used") }
func (s c33Storage) ListPipelines(context.Context) (*paginate.Cursor[ledger.Pipeline], error) {
	panic("world: not used")
}

func c33New(n, pageSize uint64, fetchFaults, pushFaults int) (*c33World, *Manager) {
	w := &c33World{n: n, pageSize: pageSize, fetchFaults: fetchFaults, pushFaults: pushFaults}
	w.pipeline = ledger.Pipeline{ID: "p1", Enabled: true}
	w.pipeline.Ledger = "l1"
	w.pipeline.ExporterID = "e1"
	verifYieldChoice(true) // goroutines of the package run eagerly; the order of storage / exporter calls against the caller is explored
	m := NewManager(c33Storage{w}, c33Factory{w}, c33Logger{}, nil, WithPipelineOptions(WithLogsPageSize(pageSize)))
	return w, m
}

var c33bg = context.Background()

// yields exist for the symbolic scheduler; natively the package's goroutines are real ones
func c33Yield(label string) {
	if verifIsSymbolic() {
		verifYield(label)
	}
}

func c33Deliver(n, pageSize uint64, fetchFaults, pushFaults int) {
	w, m := c33New(n, pageSize, fetchFaults, pushFaults)
	verifAssert("C33:pipeline-starts", m.StartPipeline(c33bg, "p1") == nil)
	verifBlockUntil("everything delivered and persisted", func() bool {
		return w.lastAck == n && w.pipeline.LastLogID != nil && *w.pipeline.LastLogID == n
	})
	verifAssert("C33:pipeline-stops", m.StopPipeline(c33bg, "p1") == nil)
	verifAssert("C33:every-log-delivered-in-order-without-gaps", w.violation == "" && w.lastAck == n)
	verifAssert("C33:persisted-position-never-ahead-of-acknowledged", w.violation != "persisted-ahead-of-acknowledged")
	verifReach("end")
}

func Harness_C33_deliver_n3_ps2()                { c33Deliver(3, 2, 0, 0) }
func Harness_C33_deliver_n3_ps2_pushfault()      { c33Deliver(3, 2, 0, 1) }
func Harness_C33_deliver_n3_ps2_fetchfault()     { c33Deliver(3, 2, 1, 0) }
func Harness_C33_deliver_n4_ps2_two_pushfaults() { c33Deliver(4, 2, 0, 2) }

// stop and start again at some point of the delivery: the pipeline resumes from what was persisted
func c33StopStart(n, pageSize uint64, pushFaults int) {
	w, m := c33New(n, pageSize, 0, pushFaults)
	verifAssert("C33:pipeline-starts", m.StartPipeline(c33bg, "p1") == nil)
	after := uint64(nondetChoice("stopAfter", int(n)+1))
	verifBlockUntil("some progress", func() bool { return w.lastAck >= after })
	verifAssert("C33:pipeline-stops", m.StopPipeline(c33bg, "p1") == nil)
	verifAssert("C33:pipeline-starts", m.StartPipeline(c33bg, "p1") == nil)
	verifBlockUntil("everything delivered and persisted", func() bool {
		return w.lastAck == n && w.pipeline.LastLogID != nil && *w.pipeline.LastLogID == n
	})
	verifAssert("C33:pipeline-stops", m.StopPipeline(c33bg, "p1") == nil)
	verifAssert("C33:every-log-delivered-in-order-without-gaps", w.violation == "" || w.violation == "persisted-ahead-of-acknowledged")
	verifAssert("C33:persisted-position-never-ahead-of-acknowledged", w.violation != "persisted-ahead-of-acknowledged")
	verifReach("end")
}

func Harness_C33_stop_start_n3_ps2()           { c33StopStart(3, 2, 0) }
func Harness_C33_stop_start_n2_ps1_pushfault() { c33StopStart(2, 1, 1) }

// reset at some point: everything is exported again from the first log
func c33Reset(n, pageSize uint64) {
	w, m := c33New(n, pageSize, 0, 0)
	verifAssert("C33:pipeline-starts", m.StartPipeline(c33bg, "p1") == nil)
	after := uint64(nondetChoice("resetAfter", int(n)+1))
	verifBlockUntil("some progress", func() bool { return w.lastAck >= after })
	verifAssert("C33:reset-succeeds", m.ResetPipeline(c33bg, "p1") == nil)
	verifBlockUntil("everything delivered again", func() bool { return w.resets == 1 && w.lastAck == n })
	verifAssert("C33:pipeline-stops", m.StopPipeline(c33bg, "p1") == nil)
	again := w.acked[w.resetIdx:]
	ok := uint64(len(again)) >= n && again[0] == 1
	if !ok || w.violation != "" {
		verifNote(fmt.Sprintf("violation=%q acked=%v resetIdx=%d persisted=%v after=%d", w.violation, w.acked, w.resetIdx, w.persisted, after))
	}
	verifAssert("C33:after-a-reset-every-log-is-exported-again-from-the-first", ok && (w.violation == "" || w.violation == "persisted-ahead-of-acknowledged"))
	verifAssert("C33:persisted-position-never-ahead-of-acknowledged", w.violation != "persisted-ahead-of-acknowledged")
	verifReach("end")
}

func Harness_C33_reset_n2_ps1() { c33Reset(2, 1) }
func Harness_C33_reset_n3_ps2() { c33Reset(3, 2) }

// Native replay of the schedule found by Harness_C33_reset_*: the persisting goroutine of the stopped pipeline has taken
// id 1 from its channel but has not stored it yet when ResetPipeline clears the position; it stores it afterwards.
func Replay_C33_stale_store_after_reset() {
	if verifIsSymbolic() {
		return
	}
	// one log: after delivering it the old pipeline idles in its select (pull interval), where the stop reaches it
	w, m := c33New(1, 1, 0, 0)
	w.storeGate, w.atStoreGate, w.storeDone = make(chan struct{}), make(chan struct{}), make(chan struct{})
	c33Gates[w] = w.storeGate
	w.acceptGate = make(chan struct{})
	verifAssert("C33:pipeline-starts", m.StartPipeline(c33bg, "p1") == nil)
	<-w.atStoreGate // the persister is about to store 1
	gate := make(chan struct{})
	go func() { <-gate }()
	verifAssert("C33:reset-succeeds", m.ResetPipeline(c33bg, "p1") == nil)
	// the position is cleared and nothing has been acknowledged since (the new pipeline's first Accept is held)
	cleared := w.pipeline.LastLogID == nil && w.epochAck == 0
	close(gateOf(w)) // let the stale store go
	<-w.storeDone
	stale := w.pipeline.LastLogID != nil && w.epochAck == 0
	close(w.acceptGate)
	close(gate)
	verifAssert("C33:persisted-position-never-ahead-of-acknowledged", !(cleared && stale))
	_ = m.StopPipeline(c33bg, "p1")
}

var c33Gates = map[*c33World]chan struct{}{}

func gateOf(w *c33World) chan struct{} { return c33Gates[w] }

// Native replay for the stop/start harnesses: the exporter refuses the first batch, the pipeline is stopped while it
// waits to retry, and started again; everything must still be delivered in order and nothing persisted ahead of it.
func Replay_C33_stop_during_push_retry() {
	if verifIsSymbolic() {
		return
	}
	w, m := c33New(3, 2, 0, 0)
	w.nativeFailFirst, w.failedOnce = true, make(chan struct{})
	verifAssert("C33:pipeline-starts", m.StartPipeline(c33bg, "p1") == nil)
	<-w.failedOnce
	stdtime.Sleep(50 * stdtime.Millisecond) // let the pipeline reach its retry wait
	verifAssert("C33:pipeline-stops", m.StopPipeline(c33bg, "p1") == nil)
	stdtime.Sleep(50 * stdtime.Millisecond)
	ahead := w.pipeline.LastLogID != nil && *w.pipeline.LastLogID > w.lastAck
	verifAssert("C33:persisted-position-never-ahead-of-acknowledged", !ahead && w.violation != "persisted-ahead-of-acknowledged")
	verifAssert("C33:pipeline-starts", m.StartPipeline(c33bg, "p1") == nil)
	deadline := stdtime.Now().Add(3 * stdtime.Second)
	for stdtime.Now().Before(deadline) && !(w.lastAck == 3 && w.pipeline.LastLogID != nil && *w.pipeline.LastLogID == 3) {
		stdtime.Sleep(10 * stdtime.Millisecond)
	}
	_ = m.StopPipeline(c33bg, "p1")
	first := uint64(0)
	if len(w.acked) > 0 {
		first = w.acked[0]
	}
	verifAssert("C33:every-log-delivered-in-order-without-gaps", w.violation == "" && w.lastAck == 3 && first == 1)
}
