package vm

// The program corpus: one harness per program shape. Amounts, caps, overdraft
// limits, portions and balances are symbolic; the program shape is concrete and
// compiled by the real compiler.

import (
	"math/big"

	"github.com/formancehq/ledger/internal/machine"
)

const cA = "USD/2"

func mvars(kv ...any) func() map[string]machine.Value {
	return func() map[string]machine.Value {
		m := map[string]machine.Value{}
		for i := 0; i+1 < len(kv); i += 2 {
			name := kv[i].(string)
			switch kind := kv[i+1].(type) {
			case string:
				switch kind {
				case "monetary":
					m[name] = symMonetary("var."+name, cA)
				case "portion":
					m[name] = symPortion("var." + name)
				case "number":
					m[name] = symNumber("var." + name)
				}
			case machine.Value:
				m[name] = kind
			}
		}
		return m
	}
}

func pos(x *big.Int) *big.Int {
	if x.Sign() > 0 {
		return x
	}
	return new(big.Int)
}

func minB(x, y *big.Int) *big.Int {
	if x.Cmp(y) <= 0 {
		return x
	}
	return y
}

func totalVar(name string) func(func(string, string) *big.Int, map[string]machine.Value) *big.Int {
	return func(_ func(string, string) *big.Int, vars map[string]machine.Value) *big.Int { return amountOf(vars[name]) }
}

func boundsOf(kv ...any) func(map[string]machine.Value) map[string]*big.Int {
	return func(vars map[string]machine.Value) map[string]*big.Int {
		m := map[string]*big.Int{}
		for i := 0; i+1 < len(kv); i += 2 {
			acc := kv[i].(string)
			switch b := kv[i+1].(type) {
			case nil:
				m[acc] = nil
			case string:
				m[acc] = amountOf(vars[b])
			case []string:
				// the largest of several allowances used for the same account
				var mx *big.Int
				for _, n := range b {
					if v := amountOf(vars[n]); mx == nil || v.Cmp(mx) > 0 {
						mx = v
					}
				}
				m[acc] = mx
			}
		}
		return m
	}
}

func Harness_VM_01_simple_literal() {
	checkCase(vmCase{script: `send [USD/2 100] (
  source = @a
  destination = @b
)`, asset: cA, total: func(func(string, string) *big.Int, map[string]machine.Value) *big.Int { return big.NewInt(100) }})
}

func Harness_VM_02_monetary_var() {
	checkCase(vmCase{script: `vars {
  monetary $m
}
send $m (
  source = @a
  destination = @b
)`, vars: mvars("m", "monetary"), asset: cA, total: totalVar("m")})
}

func Harness_VM_03_two_sources() {
	checkCase(vmCase{script: `vars {
  monetary $m
}
send $m (
  source = {
    @a
    @b
  }
  destination = @c
)`, vars: mvars("m", "monetary"), asset: cA, total: totalVar("m")})
}

func Harness_VM_04_overdraft_upto() {
	checkCase(vmCase{script: `vars {
  monetary $m
  monetary $od
}
send $m (
  source = @a allowing overdraft up to $od
  destination = @b
)`, vars: mvars("m", "monetary", "od", "monetary"), asset: cA, total: totalVar("m"), bounds: boundsOf("a", "od")})
}

func Harness_VM_05_unbounded() {
	checkCase(vmCase{script: `vars {
  monetary $m
}
send $m (
  source = @a allowing unbounded overdraft
  destination = @b
)`, vars: mvars("m", "monetary"), asset: cA, total: totalVar("m"), bounds: boundsOf("a", nil)})
}

func Harness_VM_06_then_world() {
	checkCase(vmCase{script: `vars {
  monetary $m
}
send $m (
  source = {
    @a
    @world
  }
  destination = @b
)`, vars: mvars("m", "monetary"), asset: cA, total: totalVar("m")})
}

func Harness_VM_07_max_source() {
	checkCase(vmCase{script: `vars {
  monetary $m
  monetary $cap
}
send $m (
  source = {
    max $cap from @a
    @b
  }
  destination = @c
)`, vars: mvars("m", "monetary", "cap", "monetary"), asset: cA, total: totalVar("m")})
}

func Harness_VM_08_source_allotment() {
	checkCase(vmCase{script: `vars {
  monetary $m
  portion $p
}
send $m (
  source = {
    $p from @a
    remaining from @b
  }
  destination = @c
)`, vars: mvars("m", "monetary", "p", "portion"), asset: cA, total: totalVar("m")})
}

func Harness_VM_09_dest_allotment() {
	checkCase(vmCase{script: `vars {
  monetary $m
  portion $p
}
send $m (
  source = @a
  destination = {
    $p to @b
    remaining to @c
  }
)`, vars: mvars("m", "monetary", "p", "portion"), asset: cA, total: totalVar("m")})
}

func Harness_VM_10_dest_inorder() {
	checkCase(vmCase{script: `vars {
  monetary $m
  monetary $cap
}
send $m (
  source = @a
  destination = {
    max $cap to @b
    remaining to @c
  }
)`, vars: mvars("m", "monetary", "cap", "monetary"), asset: cA, total: totalVar("m")})
}

func Harness_VM_11_dest_kept() {
	checkCase(vmCase{script: `vars {
  monetary $m
  monetary $cap
}
send $m (
  source = @a
  destination = {
    max $cap to @b
    remaining kept
  }
)`, vars: mvars("m", "monetary", "cap", "monetary"), asset: cA,
		total: func(_ func(string, string) *big.Int, vars map[string]machine.Value) *big.Int {
			return minB(amountOf(vars["m"]), amountOf(vars["cap"]))
		}})
}

func Harness_VM_12_send_all() {
	checkCase(vmCase{script: `send [USD/2 *] (
  source = @a
  destination = @b
)`, asset: cA, total: func(bal func(string, string) *big.Int, _ map[string]machine.Value) *big.Int { return pos(bal("a", cA)) }})
}

func Harness_VM_13_send_all_overdraft() {
	checkCase(vmCase{script: `vars {
  monetary $od
}
send [USD/2 *] (
  source = @a allowing overdraft up to $od
  destination = @b
)`, vars: mvars("od", "monetary"), asset: cA, bounds: boundsOf("a", "od"),
		total: func(bal func(string, string) *big.Int, vars map[string]machine.Value) *big.Int {
			return pos(new(big.Int).Add(bal("a", cA), amountOf(vars["od"])))
		}})
}

func Harness_VM_14_send_all_two() {
	checkCase(vmCase{script: `send [USD/2 *] (
  source = {
    @a
    @b
  }
  destination = @c
)`, asset: cA, total: func(bal func(string, string) *big.Int, _ map[string]machine.Value) *big.Int {
		return new(big.Int).Add(pos(bal("a", cA)), pos(bal("b", cA)))
	}})
}

func Harness_VM_15_send_all_max() {
	checkCase(vmCase{script: `vars {
  monetary $cap
}
send [USD/2 *] (
  source = max $cap from @a
  destination = @b
)`, vars: mvars("cap", "monetary"), asset: cA, total: func(bal func(string, string) *big.Int, vars map[string]machine.Value) *big.Int {
		return minB(pos(bal("a", cA)), amountOf(vars["cap"]))
	}})
}

func Harness_VM_16_two_sends_chain() {
	checkCase(vmCase{script: `vars {
  monetary $m
  monetary $n
}
send $m (
  source = @world
  destination = @a
)
send $n (
  source = @a
  destination = @b
)`, vars: mvars("m", "monetary", "n", "monetary"), asset: cA,
		total: func(_ func(string, string) *big.Int, vars map[string]machine.Value) *big.Int {
			return new(big.Int).Add(amountOf(vars["m"]), amountOf(vars["n"]))
		}})
}

func Harness_VM_17_same_source_twice() {
	// the compiler rejects a literal account used twice; two variables bound to the same account alias at run time
	checkCase(vmCase{script: `vars {
  monetary $m
  account $x
  account $y
}
send $m (
  source = {
    $x
    $y
  }
  destination = @b
)`, vars: mvars("m", "monetary", "x", machine.AccountAddress("a"), "y", machine.AccountAddress("a")), asset: cA, total: totalVar("m")})
}

func Harness_VM_18_self_send() {
	checkCase(vmCase{script: `vars {
  monetary $m
}
send $m (
  source = @a
  destination = @a
)`, vars: mvars("m", "monetary"), asset: cA, total: totalVar("m")})
}

func Harness_VM_19_nested_max() {
	checkCase(vmCase{script: `vars {
  monetary $m
  monetary $cap
}
send $m (
  source = {
    max $cap from {
      @a
      @b
    }
    @c
  }
  destination = @d
)`, vars: mvars("m", "monetary", "cap", "monetary"), asset: cA, total: totalVar("m")})
}

func Harness_VM_20_save_then_send() {
	checkCase(vmCase{noTracked: true, script: `vars {
  monetary $s
  monetary $m
}
save $s from @a
send $m (
  source = @a
  destination = @b
)`, vars: mvars("s", "monetary", "m", "monetary"), asset: cA, total: totalVar("m")})
}

func Harness_VM_21_balance_var() {
	checkCase(vmCase{script: `vars {
  account $acc
  monetary $bal = balance($acc, USD/2)
}
send $bal (
  source = $acc
  destination = @b
)`, vars: mvars("acc", machine.AccountAddress("a")), asset: cA,
		total: func(bal func(string, string) *big.Int, _ map[string]machine.Value) *big.Int { return bal("a", cA) }})
}

func Harness_VM_22_dest_nested() {
	checkCase(vmCase{script: `vars {
  monetary $m
  monetary $cap
  portion $p
}
send $m (
  source = @a
  destination = {
    $p to {
      max $cap to @b
      remaining to @c
    }
    remaining to @d
  }
)`, vars: mvars("m", "monetary", "cap", "monetary", "p", "portion"), asset: cA, total: totalVar("m")})
}

func Harness_VM_23_two_sends_same_source() {
	checkCase(vmCase{script: `vars {
  monetary $m
  monetary $n
}
send $m (
  source = @a
  destination = @b
)
send $n (
  source = @a
  destination = @c
)`, vars: mvars("m", "monetary", "n", "monetary"), asset: cA,
		total: func(_ func(string, string) *big.Int, vars map[string]machine.Value) *big.Int {
			return new(big.Int).Add(amountOf(vars["m"]), amountOf(vars["n"]))
		}})
}

func Harness_VM_24_overdraft_and_next() {
	checkCase(vmCase{script: `vars {
  monetary $m
  monetary $od
}
send $m (
  source = {
    @a allowing overdraft up to $od
    @b
  }
  destination = @c
)`, vars: mvars("m", "monetary", "od", "monetary"), asset: cA, total: totalVar("m"), bounds: boundsOf("a", "od")})
}

func Harness_VM_25_send_all_kept() {
	checkCase(vmCase{script: `vars {
  monetary $cap
}
send [USD/2 *] (
  source = @a
  destination = {
    max $cap to @b
    remaining kept
  }
)`, vars: mvars("cap", "monetary"), asset: cA, total: func(bal func(string, string) *big.Int, vars map[string]machine.Value) *big.Int {
		return minB(pos(bal("a", cA)), amountOf(vars["cap"]))
	}})
}

func Harness_VM_26_send_back_and_forth() {
	checkCase(vmCase{script: `vars {
  monetary $m
  monetary $n
}
send $m (
  source = @a
  destination = @b
)
send $n (
  source = @b
  destination = @a
)`, vars: mvars("m", "monetary", "n", "monetary"), asset: cA,
		total: func(_ func(string, string) *big.Int, vars map[string]machine.Value) *big.Int {
			return new(big.Int).Add(amountOf(vars["m"]), amountOf(vars["n"]))
		}})
}

func Harness_VM_27_monetary_add() {
	checkCase(vmCase{script: `vars {
  monetary $m
  monetary $n
}
send $m + $n (
  source = @a
  destination = @b
)`, vars: mvars("m", "monetary", "n", "monetary"), asset: cA,
		total: func(_ func(string, string) *big.Int, vars map[string]machine.Value) *big.Int {
			return new(big.Int).Add(amountOf(vars["m"]), amountOf(vars["n"]))
		}})
}

func Harness_VM_28_three_way_allotment() {
	checkCase(vmCase{script: `vars {
  monetary $m
  portion $p
  portion $q
}
send $m (
  source = @a
  destination = {
    $p to @b
    $q to @c
    remaining to @d
  }
)`, vars: mvars("m", "monetary", "p", "portion", "q", "portion"), asset: cA, total: totalVar("m")})
}

func Harness_VM_29_save_then_overdraft() {
	checkCase(vmCase{noTracked: true, script: `vars {
  monetary $s
  monetary $m
  monetary $od
}
save $s from @a
send $m (
  source = {
    @a allowing overdraft up to $od
    @world
  }
  destination = @b
)`, vars: mvars("s", "monetary", "m", "monetary", "od", "monetary"), asset: cA, total: totalVar("m"), bounds: boundsOf("a", "od")})
}

func Harness_VM_30_save_all_then_overdraft() {
	checkCase(vmCase{noTracked: true, script: `vars {
  monetary $m
  monetary $od
}
save [USD/2 *] from @a
send $m (
  source = {
    @a allowing overdraft up to $od
    @world
  }
  destination = @b
)`, vars: mvars("m", "monetary", "od", "monetary"), asset: cA, total: totalVar("m"), bounds: boundsOf("a", "od")})
}

func Harness_VM_31_overdraft_save_overdraft() {
	checkCase(vmCase{noTracked: true, script: `vars {
  monetary $m
  monetary $s
  monetary $n
  monetary $od
}
send $m (
  source = @a allowing overdraft up to $od
  destination = @b
)
save $s from @a
send $n (
  source = {
    @a allowing overdraft up to $od
    @world
  }
  destination = @c
)`, vars: mvars("m", "monetary", "s", "monetary", "n", "monetary", "od", "monetary"), asset: cA, bounds: boundsOf("a", "od"),
		total: func(_ func(string, string) *big.Int, vars map[string]machine.Value) *big.Int {
			return new(big.Int).Add(amountOf(vars["m"]), amountOf(vars["n"]))
		}})
}

func Harness_VM_32_two_overdraft_sends() {
	checkCase(vmCase{script: `vars {
  monetary $m
  monetary $n
  monetary $od
}
send $m (
  source = @a allowing overdraft up to $od
  destination = @b
)
send $n (
  source = @a allowing overdraft up to $od
  destination = @c
)`, vars: mvars("m", "monetary", "n", "monetary", "od", "monetary"), asset: cA, bounds: boundsOf("a", "od"),
		total: func(_ func(string, string) *big.Int, vars map[string]machine.Value) *big.Int {
			return new(big.Int).Add(amountOf(vars["m"]), amountOf(vars["n"]))
		}})
}

func Harness_VM_33_send_all_after_receive() {
	checkCase(vmCase{script: `vars {
  monetary $m
}
send $m (
  source = @world
  destination = @a
)
send [USD/2 *] (
  source = @a
  destination = @b
)`, vars: mvars("m", "monetary"), asset: cA,
		total: func(bal func(string, string) *big.Int, vars map[string]machine.Value) *big.Int {
			return new(big.Int).Add(amountOf(vars["m"]), pos(new(big.Int).Add(bal("a", cA), amountOf(vars["m"]))))
		}})
}

func Harness_VM_34_two_assets() {
	checkCase(vmCase{script: `vars {
  monetary $m
}
send $m (
  source = @a
  destination = @b
)
send [EUR/2 7] (
  source = @a
  destination = @b
)`, vars: mvars("m", "monetary")})
}

// An account already below its allowance is drained by a send-all (nothing to take), then used
// again with another allowance: the second use may only take what the real balance leaves.
func Harness_VM_35_send_all_overdraft_then_overdraft() {
	checkCase(vmCase{script: `vars {
  monetary $n
  monetary $od
  monetary $od2
}
send [USD/2 *] (
  source = @a allowing overdraft up to $od
  destination = @b
)
send $n (
  source = {
    @a allowing overdraft up to $od2
    @world
  }
  destination = @c
)`, vars: mvars("n", "monetary", "od", "monetary", "od2", "monetary"), asset: cA, bounds: boundsOf("a", []string{"od", "od2"})})
}

// two balance() variables on the same account, for two assets
func Harness_VM_36_two_balance_vars_one_account() {
	checkCase(vmCase{script: `vars {
  monetary $x = balance(@a, USD/2)
  monetary $y = balance(@a, EUR/2)
}
send $x (
  source = @world
  destination = @b
)
send $y (
  source = @world
  destination = @c
)`, total: func(bal func(string, string) *big.Int, _ map[string]machine.Value) *big.Int {
		return new(big.Int).Add(bal("a", cA), bal("a", "EUR/2"))
	}})
}

// a number variable handed over as JSON text, as the API does: any kind of JSON literal
func Harness_VM_37_number_var_from_json() {
	texts := []string{"null", "12", "-3", "true", "\"12\"", "1.5", "[]", "{}", ""}
	checkCase(vmCase{script: `vars {
  number $n
}
set_tx_meta("n", $n)
send [USD/2 1] (
  source = @world
  destination = @b
)`, asset: cA, jsonVars: func() map[string]string { return map[string]string{"n": texts[nondetChoice("literal", len(texts))]} },
		total: func(func(string, string) *big.Int, map[string]machine.Value) *big.Int { return big.NewInt(1) }})
}

// variables read from account metadata (the second door of NewValueFromString): the source account, the amount and a
// fee portion come from the metadata of @cfg; the account is one of several names (a plain one, world, each destination, the metadata holder, an invalid one), the amount any integer
func Harness_VM_38_vars_from_metadata() {
	srcs := []string{"a", "world", "b", "fees", "cfg", "not an account"}
	src := srcs[nondetChoice("meta.src", len(srcs))]
	amount := nondetBig("meta.amount")
	if !wild {
		verifAssume(amount.Sign() >= 0)
	}
	fees := []string{"1/4", "0", "1", "12.5%", "3/2", "x"}
	fee := fees[nondetChoice("meta.fee", len(fees))]
	checkCase(vmCase{script: `vars {
  account $src = meta(@cfg, "src")
  monetary $m = meta(@cfg, "amount")
  portion $p = meta(@cfg, "fee")
}
send $m (
  source = $src
  destination = {
    $p to @fees
    remaining to @b
  }
)
set_account_meta($src, "last", $m)`, asset: cA,
		meta: map[string]map[string]string{"cfg": {"src": src, "amount": cA + " " + amount.String(), "fee": fee}},
		total: func(func(string, string) *big.Int, map[string]machine.Value) *big.Int { return amount }})
}

// caps and overdraft allowances given in ANOTHER asset than the one that is sent: either refused, or the postings
// still carry the statement's asset and respect the usual bounds (a cap in euros does not cap dollars silently wrong)
func Harness_VM_39_cap_in_another_asset() {
	cap := symMonetary("var.cap", "EUR/2")
	checkCase(vmCase{script: `vars {
  monetary $m
  monetary $cap
}
send $m (
  source = {
    max $cap from @a
    @world
  }
  destination = @b
)`, vars: mvars("m", "monetary", "cap", machine.Value(cap)), asset: cA, total: totalVar("m")})
}

func Harness_VM_40_overdraft_in_another_asset() {
	od := symMonetary("var.od", "EUR/2")
	checkCase(vmCase{script: `vars {
  monetary $m
  monetary $od
}
send $m (
  source = @a allowing overdraft up to $od
  destination = @b
)`, vars: mvars("m", "monetary", "od", machine.Value(od)), asset: cA, total: totalVar("m"), bounds: boundsOf("a", "od")})
}

func Harness_VM_41_send_all_to_allotment_kept() {
	checkCase(vmCase{script: `vars {
  portion $p
}
send [USD/2 *] (
  source = @a
  destination = {
    $p to @b
    remaining kept
  }
)`, vars: mvars("p", "portion"), asset: cA})
}

func Harness_VM_42_source_allotment_overdraft_world() {
	checkCase(vmCase{script: `vars {
  monetary $m
  monetary $od
  portion $p
}
send $m (
  source = {
    $p from @a allowing overdraft up to $od
    remaining from @world
  }
  destination = @b
)`, vars: mvars("m", "monetary", "od", "monetary", "p", "portion"), asset: cA, total: totalVar("m"), bounds: boundsOf("a", "od")})
}

func Harness_VM_43_save_all_then_send_all() {
	checkCase(vmCase{noTracked: true, script: `save [USD/2 *] from @a
send [USD/2 *] (
  source = @a
  destination = @b
)`, asset: cA, total: func(func(string, string) *big.Int, map[string]machine.Value) *big.Int { return new(big.Int) }})
}

func Harness_VM_44_balance_var_used_twice_and_received() {
	checkCase(vmCase{script: `vars {
  monetary $bal = balance(@a, USD/2)
}
send $bal (
  source = @world
  destination = @a
)
send $bal (
  source = @a
  destination = @b
)
send $bal (
  source = @a
  destination = @c
)`, asset: cA, total: func(bal func(string, string) *big.Int, _ map[string]machine.Value) *big.Int {
		return new(big.Int).Mul(bal("a", cA), big.NewInt(3))
	}})
}

func Harness_VM_45_zero_amount_and_meta_of_every_type() {
	checkCase(vmCase{script: `vars {
  monetary $m
  portion $p
  number $n
  account $acc
  asset $ast
  string $s
}
send [USD/2 0] (
  source = @a
  destination = @b
)
set_account_meta(@b, "m", $m)
set_account_meta(@b, "p", $p)
set_account_meta(@b, "n", $n)
set_account_meta(@b, "acc", $acc)
set_account_meta(@b, "ast", $ast)
set_account_meta(@b, "s", $s)
set_tx_meta("m", $m)`, vars: mvars("m", "monetary", "p", "portion", "n", "number", "acc", machine.AccountAddress("x:y"), "ast", machine.Asset("EUR/2"), "s", machine.String("hello")),
		asset: cA, total: func(func(string, string) *big.Int, map[string]machine.Value) *big.Int { return new(big.Int) }})
}
