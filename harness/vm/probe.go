package vm

import (
	"context"
	"math/big"

	ledger "github.com/formancehq/ledger/internal"
	"github.com/formancehq/ledger/internal/machine"
	"github.com/formancehq/ledger/internal/machine/script/compiler"
)

type symStore struct {
	bal map[string]map[string]*big.Int
}

func (s *symStore) GetBalances(_ context.Context, q BalanceQuery) (Balances, error) {
	ret := Balances{}
	for acc, assets := range q {
		if ret[acc] == nil {
			ret[acc] = map[string]*big.Int{}
		}
		for _, as := range assets {
			if s.bal[acc] == nil {
				s.bal[acc] = map[string]*big.Int{}
			}
			if s.bal[acc][as] == nil {
				s.bal[acc][as] = nondetBig("bal." + acc + "." + as)
			}
			ret[acc][as] = new(big.Int).Set(s.bal[acc][as])
		}
	}
	return ret, nil
}

func (s *symStore) GetAccount(ctx context.Context, address string) (*ledger.Account, error) {
	return EmptyStore.GetAccount(ctx, address)
}

func Harness_Probe_Send() {
	p, err := compiler.Compile(`send [USD/2 100] (
  source = @alice
  destination = @bob
)`)
	if err != nil {
		panic(err)
	}
	m := NewMachine(*p)
	st := &symStore{bal: map[string]map[string]*big.Int{}}
	if err := m.ResolveResources(context.Background(), EmptyStore); err != nil {
		panic(err)
	}
	if err := m.ResolveBalances(context.Background(), st); err != nil {
		panic(err)
	}
	err = m.Execute()
	if err == nil {
		verifAssert("one-posting", len(m.Postings) == 1)
		verifAssert("amount", m.Postings[0].Amount.Eq(machine.NewMonetaryInt(100)))
		verifAssert("funds", st.bal["alice"]["USD/2"].Cmp(big.NewInt(100)) >= 0)
		verifReach("ok")
	} else {
		verifAssert("insufficient", st.bal["alice"]["USD/2"].Cmp(big.NewInt(100)) < 0)
		verifReach("err")
	}
	verifReach("end")
}
