package vm

// C36 / C38 on ScriptV1 (v2 API and bulk): a request body is built as a JSON
// tree with symbolic leaves, decoded by the real json.Unmarshal into the real
// request type, converted by the real ToCore.

import (
	"encoding/json"
)

// a monetary variable given as {"asset": "USD/2", "amount": <JSON number n>} must reach
// the machine as "USD/2 n" for every integer n >= 0
func Harness_C36_ScriptV1_number_amount() {
	n := nondetBig("n")
	verifAssume(n.Sign() >= 0)
	body := map[string]any{"plain": "send $m (source=@world destination=@a)", "vars": map[string]any{"m": map[string]any{"asset": "USD/2", "amount": n}}}
	raw, err := json.Marshal(body)
	verifAssume(err == nil)
	var s ScriptV1
	if err := json.Unmarshal(raw, &s); err != nil {
		verifAssert("C36:number-amount-decodes", false)
		return
	}
	core := s.ToCore()
	verifAssert("C36:number-amount-passed-through-without-loss", core.Vars["m"] == "USD/2 "+n.String())
	verifReach("end")
}

// the same amount given as a JSON string of digits
func Harness_C36_ScriptV1_string_amount() {
	n := nondetBig("n")
	verifAssume(n.Sign() >= 0)
	body := map[string]any{"vars": map[string]any{"m": map[string]any{"asset": "USD/2", "amount": n.String()}}}
	raw, err := json.Marshal(body)
	verifAssume(err == nil)
	var s ScriptV1
	if err := json.Unmarshal(raw, &s); err != nil {
		verifAssert("C36:string-amount-decodes", false)
		return
	}
	core := s.ToCore()
	verifAssert("C36:string-amount-passed-through-without-loss", core.Vars["m"] == "USD/2 "+n.String())
	verifReach("end")
}

// C38: any JSON value as a script variable: decoding and ToCore never panic
func Harness_C38_ScriptV1_any_vars() {
	v := verifJSONValue("var", 2, []string{"asset", "amount"})
	body := map[string]any{"plain": "x", "vars": map[string]any{"v": v}}
	raw, err := json.Marshal(body)
	verifAssume(err == nil)
	var s ScriptV1
	if err := json.Unmarshal(raw, &s); err == nil {
		_ = s.ToCore()
	}
	verifReach("end")
}

// C38: "vars" itself of any JSON type
func Harness_C38_ScriptV1_vars_of_any_type() {
	body := map[string]any{"plain": "x", "vars": verifJSONValue("vars", 1, []string{"a"})}
	raw, err := json.Marshal(body)
	verifAssume(err == nil)
	var s ScriptV1
	if err := json.Unmarshal(raw, &s); err == nil {
		_ = s.ToCore()
	}
	verifReach("end")
}
