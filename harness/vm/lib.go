package vm

// Shared harness code for the Numscript VM properties (C22, C23, C25, C27, C28).
//
// The real compiler produces the program (run once per script, memoised by
// gosym); the real Machine executes it with symbolic variable values and
// symbolic balances served by symStore.

import (
	"context"
	"math/big"

	ledger "github.com/formancehq/ledger/internal"
	"github.com/formancehq/ledger/internal/machine"
	"github.com/formancehq/ledger/internal/machine/script/compiler"
)

type symStore struct {
	bal  map[string]map[string]*big.Int
	meta map[string]map[string]string
	// order of first query, for deterministic naming
}

func newSymStore() *symStore {
	return &symStore{bal: map[string]map[string]*big.Int{}, meta: map[string]map[string]string{}}
}

func (s *symStore) balance(acc, asset string) *big.Int {
	if s.bal[acc] == nil {
		s.bal[acc] = map[string]*big.Int{}
	}
	if s.bal[acc][asset] == nil {
		s.bal[acc][asset] = nondetBig("bal." + acc + "." + asset)
	}
	return s.bal[acc][asset]
}

func (s *symStore) GetBalances(_ context.Context, q BalanceQuery) (Balances, error) {
	ret := Balances{}
	for acc, assets := range q {
		if ret[acc] == nil {
			ret[acc] = map[string]*big.Int{}
		}
		for _, as := range assets {
			ret[acc][as] = new(big.Int).Set(s.balance(acc, as))
		}
	}
	return ret, nil
}

func (s *symStore) GetAccount(_ context.Context, address string) (*ledger.Account, error) {
	md := map[string]string{}
	for k, v := range s.meta[address] {
		md[k] = v
	}
	return &ledger.Account{Address: address, Metadata: md}, nil
}

type vmCase struct {
	script string
	vars   func() map[string]machine.Value
	// total, when non-nil, is the exact amount the (single) send must move,
	// given the initial balances
	total func(bal func(acc, asset string) *big.Int, vars map[string]machine.Value) *big.Int
	asset string
	// bounds: overdraft allowance of source accounts; absent = 0; nil value = unbounded
	bounds func(vars map[string]machine.Value) map[string]*big.Int
	// metadata served by the store
	meta map[string]map[string]string
	// noTracked: the script uses `save`, which deliberately lowers the machine's
	// spendable balance below initial + postings
	noTracked bool
	// jsonVars, when non-nil, are handed over as the API does: JSON text per variable (SetVarsFromJSON)
	jsonVars func() map[string]string
}

// wild: C27 mode — variable values are any typed values (negative amounts, portions outside
// [0,1], ...): the run may fail, it must not panic.
var wild = false

func symMonetary(name, asset string) machine.Monetary {
	a := nondetBig(name)
	if !wild {
		verifAssume(a.Sign() >= 0)
	}
	return machine.Monetary{Asset: machine.Asset(asset), Amount: machine.NewMonetaryIntFromBigInt(a)}
}

func symNumber(name string) *machine.MonetaryInt {
	a := nondetBig(name)
	if !wild {
		verifAssume(a.Sign() >= 0)
	}
	return machine.NewMonetaryIntFromBigInt(a)
}

func symPortion(name string) machine.Portion {
	n := nondetBig(name + ".num")
	d := nondetBig(name + ".den")
	if wild {
		verifAssume(d.Sign() != 0)
	} else {
		verifAssume(d.Sign() > 0)
		verifAssume(n.Sign() >= 0)
		verifAssume(n.Cmp(d) <= 0)
	}
	return machine.Portion{Specific: new(big.Rat).SetFrac(n, d)}
}

func amountOf(v machine.Value) *big.Int {
	return (*big.Int)(v.(machine.Monetary).Amount)
}

// execCase compiles and runs a case; it returns the machine, the store, the variables and the error.
func execCase(c vmCase) (*Machine, *symStore, map[string]machine.Value, error) {
	p, err := compiler.Compile(c.script)
	if err != nil {
		panic("harness script does not compile: " + err.Error())
	}
	m := NewMachine(*p)
	m.Printer = func(ch chan machine.Value) {
		for range ch {
		}
	}
	st := newSymStore()
	if c.meta != nil {
		st.meta = c.meta
	}
	vars := map[string]machine.Value{}
	if c.vars != nil {
		vars = c.vars()
	}
	given := map[string]machine.Value{}
	for k, v := range vars {
		given[k] = v
	}
	if c.jsonVars != nil {
		if err := m.SetVarsFromJSON(c.jsonVars()); err != nil {
			return m, st, vars, err
		}
	} else {
		parsed, err := p.ParseVariables(given)
		if err != nil {
			return m, st, vars, err
		}
		m.Vars = parsed
	}
	if err := m.ResolveResources(context.Background(), st); err != nil {
		return m, st, vars, err
	}
	if err := m.ResolveBalances(context.Background(), st); err != nil {
		return m, st, vars, err
	}
	if wild {
		// through Run, as the controller's adapter does: a failure must not hand out a partial result
		pBefore := m.P
		res, rerr := Run(m, RunScript{})
		if rerr != nil {
			verifAssert("C27:failed-run-returns-no-partial-result", res == nil)
		} else {
			verifAssert("C27:successful-run-returns-a-result", res != nil && len(res.Postings) == len(m.Postings))
			verifAssert("C27:program-counter-advanced", m.P >= pBefore)
		}
		return m, st, vars, rerr
	}
	err = m.Execute()
	return m, st, vars, err
}

// checkCase asserts the generic C22/C23 obligations on one case.
func checkCase(c vmCase) {
	m, st, vars, err := execCase(c)
	if err != nil {
		// C27: a failed run yields no partial result through Run(); nothing else to check here
		verifReach("error-path")
		verifReach("end")
		return
	}
	verifReach("success-path")
	if wild {
		verifReach("end")
		return
	}
	sum := new(big.Int)
	// net effect of the postings per (account, asset)
	net := map[string]map[string]*big.Int{}
	add := func(acc, asset string, d *big.Int) {
		if net[acc] == nil {
			net[acc] = map[string]*big.Int{}
		}
		if net[acc][asset] == nil {
			net[acc][asset] = new(big.Int)
		}
		net[acc][asset].Add(net[acc][asset], d)
	}
	for _, p := range m.Postings {
		amt := (*big.Int)(p.Amount)
		verifAssert("C22:amount>=0", amt.Sign() >= 0)
		if c.asset != "" {
			verifAssert("C22:asset", p.Asset == c.asset)
		}
		sum.Add(sum, amt)
		add(p.Source, p.Asset, new(big.Int).Neg(amt))
		add(p.Destination, p.Asset, amt)
	}
	if c.total != nil {
		want := c.total(st.balance, vars)
		verifAssert("C22:sum==sent", sum.Cmp(want) == 0)
	}
	// tracked balances = initial + postings
	for acc, byAsset := range m.Balances {
		if c.noTracked {
			break
		}
		for asset, b := range byAsset {
			want := new(big.Int).Set(st.balance(string(acc), string(asset)))
			if net[string(acc)] != nil && net[string(acc)][string(asset)] != nil {
				want.Add(want, net[string(acc)][string(asset)])
			}
			verifAssert("C22:tracked-balance", (*big.Int)(b).Cmp(want) == 0)
		}
	}
	// C23: every bounded, non-world source stays >= min(initial, -bound)
	var bounds map[string]*big.Int
	if c.bounds != nil {
		bounds = c.bounds(vars)
	}
	srcSeen := map[string]map[string]bool{}
	for _, p := range m.Postings {
		if p.Source == "world" {
			continue
		}
		if srcSeen[p.Source] == nil {
			srcSeen[p.Source] = map[string]bool{}
		}
		if srcSeen[p.Source][p.Asset] {
			continue
		}
		srcSeen[p.Source][p.Asset] = true
		bound, has := bounds[p.Source]
		if has && bound == nil {
			continue // unbounded overdraft
		}
		if !has {
			bound = new(big.Int)
		}
		initial := st.balance(p.Source, p.Asset)
		final := new(big.Int).Add(initial, net[p.Source][p.Asset])
		floor := new(big.Int).Neg(bound)
		if initial.Cmp(floor) < 0 {
			floor = initial
		}
		verifAssert("C23:no-overdraft", final.Cmp(floor) >= 0)
	}
	verifReach("end")
}
