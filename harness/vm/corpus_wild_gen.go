package vm

// Code generated; DO NOT EDIT. C27: the corpus with unconstrained typed values.

func Harness_VMW_01_simple_literal() { wild = true; Harness_VM_01_simple_literal(); wild = false }
func Harness_VMW_02_monetary_var() { wild = true; Harness_VM_02_monetary_var(); wild = false }
func Harness_VMW_03_two_sources() { wild = true; Harness_VM_03_two_sources(); wild = false }
func Harness_VMW_04_overdraft_upto() { wild = true; Harness_VM_04_overdraft_upto(); wild = false }
func Harness_VMW_05_unbounded() { wild = true; Harness_VM_05_unbounded(); wild = false }
func Harness_VMW_06_then_world() { wild = true; Harness_VM_06_then_world(); wild = false }
func Harness_VMW_07_max_source() { wild = true; Harness_VM_07_max_source(); wild = false }
func Harness_VMW_08_source_allotment() { wild = true; Harness_VM_08_source_allotment(); wild = false }
func Harness_VMW_09_dest_allotment() { wild = true; Harness_VM_09_dest_allotment(); wild = false }
func Harness_VMW_10_dest_inorder() { wild = true; Harness_VM_10_dest_inorder(); wild = false }
func Harness_VMW_11_dest_kept() { wild = true; Harness_VM_11_dest_kept(); wild = false }
func Harness_VMW_12_send_all() { wild = true; Harness_VM_12_send_all(); wild = false }
func Harness_VMW_13_send_all_overdraft() { wild = true; Harness_VM_13_send_all_overdraft(); wild = false }
func Harness_VMW_14_send_all_two() { wild = true; Harness_VM_14_send_all_two(); wild = false }
func Harness_VMW_15_send_all_max() { wild = true; Harness_VM_15_send_all_max(); wild = false }
func Harness_VMW_16_two_sends_chain() { wild = true; Harness_VM_16_two_sends_chain(); wild = false }
func Harness_VMW_17_same_source_twice() { wild = true; Harness_VM_17_same_source_twice(); wild = false }
func Harness_VMW_18_self_send() { wild = true; Harness_VM_18_self_send(); wild = false }
func Harness_VMW_19_nested_max() { wild = true; Harness_VM_19_nested_max(); wild = false }
func Harness_VMW_20_save_then_send() { wild = true; Harness_VM_20_save_then_send(); wild = false }
func Harness_VMW_21_balance_var() { wild = true; Harness_VM_21_balance_var(); wild = false }
func Harness_VMW_22_dest_nested() { wild = true; Harness_VM_22_dest_nested(); wild = false }
func Harness_VMW_23_two_sends_same_source() { wild = true; Harness_VM_23_two_sends_same_source(); wild = false }
func Harness_VMW_24_overdraft_and_next() { wild = true; Harness_VM_24_overdraft_and_next(); wild = false }
func Harness_VMW_25_send_all_kept() { wild = true; Harness_VM_25_send_all_kept(); wild = false }
func Harness_VMW_26_send_back_and_forth() { wild = true; Harness_VM_26_send_back_and_forth(); wild = false }
func Harness_VMW_27_monetary_add() { wild = true; Harness_VM_27_monetary_add(); wild = false }
func Harness_VMW_28_three_way_allotment() { wild = true; Harness_VM_28_three_way_allotment(); wild = false }
func Harness_VMW_29_save_then_overdraft() { wild = true; Harness_VM_29_save_then_overdraft(); wild = false }
func Harness_VMW_30_save_all_then_overdraft() { wild = true; Harness_VM_30_save_all_then_overdraft(); wild = false }
func Harness_VMW_31_overdraft_save_overdraft() { wild = true; Harness_VM_31_overdraft_save_overdraft(); wild = false }
func Harness_VMW_32_two_overdraft_sends() { wild = true; Harness_VM_32_two_overdraft_sends(); wild = false }
func Harness_VMW_33_send_all_after_receive() { wild = true; Harness_VM_33_send_all_after_receive(); wild = false }
func Harness_VMW_34_two_assets() { wild = true; Harness_VM_34_two_assets(); wild = false }
func Harness_VMW_35_send_all_overdraft_then_overdraft() { wild = true; Harness_VM_35_send_all_overdraft_then_overdraft(); wild = false }
func Harness_VMW_36_two_balance_vars_one_account() { wild = true; Harness_VM_36_two_balance_vars_one_account(); wild = false }
func Harness_VMW_37_number_var_from_json() { wild = true; Harness_VM_37_number_var_from_json(); wild = false }
func Harness_VMW_38_vars_from_metadata() { wild = true; Harness_VM_38_vars_from_metadata(); wild = false }
