package ledger

// C28, postings path: what Postings.Validate accepts matches the documented patterns.

import (
	"regexp"
)

var (
	c28AccountPat = regexp.MustCompile(`^[a-zA-Z0-9_-]+(:[a-zA-Z0-9_-]+)*$`)
	c28AssetPat   = regexp.MustCompile(`^[A-Z][A-Z0-9]{0,16}(_[A-Z]{1,16})?(\/\d{1,6})?$`)
)

func Harness_C28_postings_validate() {
	p := Posting{Source: nondetStr("source", 6), Destination: nondetStr("destination", 6), Asset: nondetStr("asset", 6), Amount: nondetBig("amount")}
	_, err := Postings{p}.Validate()
	if err != nil {
		verifReach("rejected")
		verifReach("end")
		return
	}
	verifAssert("C28:validated-posting-source-matches-the-address-pattern", c28AccountPat.MatchString(p.Source))
	verifAssert("C28:validated-posting-destination-matches-the-address-pattern", c28AccountPat.MatchString(p.Destination))
	verifAssert("C28:validated-posting-asset-matches-the-asset-pattern", c28AssetPat.MatchString(p.Asset))
	verifAssert("C28:validated-posting-amount-is-non-negative", p.Amount.Sign() >= 0)
	verifReach("accepted")
	verifReach("end")
}

func Harness_C28_postings_validate_nil_amount() {
	p := Posting{Source: "a", Destination: "b", Asset: "USD"}
	_, err := Postings{p}.Validate()
	verifAssert("C28:posting-without-amount-is-rejected", err != nil)
	verifReach("end")
}
