package ledger

import "math/big"

// C01 (Go part): Transaction.VolumeUpdates conserves every asset and gives each
// (account, asset) exactly the fold of the postings; C15 (Go part): Postings.Reverse.

func symPostings(n int, maxLen int) Postings {
	ps := make(Postings, n)
	for i := 0; i < n; i++ {
		id := string(rune('0' + i))
		amt := nondetBig("amount" + id)
		verifAssume(amt.Sign() >= 0)
		ps[i] = Posting{
			Source:      nondetAtom("src" + id),
			Destination: nondetAtom("dst" + id),
			Asset:       nondetAtom("asset" + id),
			Amount:      amt,
		}
	}
	return ps
}

func c01Check(n int) {
	ps := symPostings(n, 3)
	// keep the inputs to detect mutation of the argument
	orig := make([]Posting, n)
	for i := range ps {
		orig[i] = Posting{Source: ps[i].Source, Destination: ps[i].Destination, Asset: ps[i].Asset, Amount: new(big.Int).Set(ps[i].Amount)}
	}
	tx := NewTransaction().WithPostings(ps...)
	ups := tx.VolumeUpdates()

	// keys unique and sorted
	for i := 0; i < len(ups); i++ {
		for j := i + 1; j < len(ups); j++ {
			verifAssert("C01:keys-unique", !(ups[i].Account == ups[j].Account && ups[i].Asset == ups[j].Asset))
			verifAssert("C01:sorted", ups[i].Account < ups[j].Account || (ups[i].Account == ups[j].Account && ups[i].Asset < ups[j].Asset))
		}
	}
	// conservation per asset: for the asset of every posting, Σ input = Σ output = Σ amounts
	for k := 0; k < n; k++ {
		asset := orig[k].Asset
		in, out, amounts := new(big.Int), new(big.Int), new(big.Int)
		for _, u := range ups {
			if u.Asset == asset {
				in.Add(in, u.Input)
				out.Add(out, u.Output)
			}
		}
		for _, p := range orig {
			if p.Asset == asset {
				amounts.Add(amounts, p.Amount)
			}
		}
		verifAssert("C01:sum-input==sum-output", in.Cmp(out) == 0)
		verifAssert("C01:sum-input==sum-amounts", in.Cmp(amounts) == 0)
	}
	// every row is the fold of the postings on that (account, asset), and is non-empty
	for _, u := range ups {
		in, out := new(big.Int), new(big.Int)
		touched := false
		for _, p := range orig {
			if p.Asset != u.Asset {
				continue
			}
			if p.Destination == u.Account {
				in.Add(in, p.Amount)
				touched = true
			}
			if p.Source == u.Account {
				out.Add(out, p.Amount)
				touched = true
			}
		}
		verifAssert("C02:row-input", u.Input.Cmp(in) == 0)
		verifAssert("C02:row-output", u.Output.Cmp(out) == 0)
		verifAssert("C02:row-touched", touched)
	}
	// every posting end appears as a row
	for _, p := range orig {
		foundS, foundD := false, false
		for _, u := range ups {
			if u.Asset == p.Asset && u.Account == p.Source {
				foundS = true
			}
			if u.Asset == p.Asset && u.Account == p.Destination {
				foundD = true
			}
		}
		verifAssert("C02:source-row-present", foundS)
		verifAssert("C02:destination-row-present", foundD)
	}
	// argument not mutated
	for i := range ps {
		verifAssert("C01:postings-not-mutated", ps[i].Source == orig[i].Source && ps[i].Destination == orig[i].Destination &&
			ps[i].Asset == orig[i].Asset && ps[i].Amount.Cmp(orig[i].Amount) == 0)
	}
	verifReach("end")
}

func Harness_C01_VolumeUpdates_p1() { c01Check(1) }
func Harness_C01_VolumeUpdates_p2() { c01Check(2) }
func Harness_C01_VolumeUpdates_p3() { c01Check(3) }

// ---- C15: Postings.Reverse ----

func c15Reverse(n int, netZero bool) {
	ps := symPostings(n, 3)
	orig := make([]Posting, n)
	for i := range ps {
		orig[i] = Posting{Source: ps[i].Source, Destination: ps[i].Destination, Asset: ps[i].Asset, Amount: new(big.Int).Set(ps[i].Amount)}
	}
	rev := ps.Reverse()
	verifAssert("C15:len", len(rev) == n)
	for i := 0; i < n; i++ {
		o := orig[n-1-i]
		verifAssert("C15:swapped-ends", rev[i].Source == o.Destination && rev[i].Destination == o.Source)
		verifAssert("C15:asset-kept", rev[i].Asset == o.Asset)
		verifAssert("C15:amount-kept", rev[i].Amount.Cmp(o.Amount) == 0)
	}
	for i := range ps {
		verifAssert("C15:receiver-not-mutated", ps[i].Source == orig[i].Source && ps[i].Destination == orig[i].Destination &&
			ps[i].Asset == orig[i].Asset && ps[i].Amount.Cmp(orig[i].Amount) == 0)
	}
	if netZero {
		// T followed by its reverse nets to zero on every (account, asset)
		both := NewTransaction().WithPostings(append(append(Postings{}, orig...), rev...)...)
		for _, u := range both.VolumeUpdates() {
			verifAssert("C15:net-zero", u.Input.Cmp(u.Output) == 0)
		}
	}
	// Transaction.Reverse keeps nothing but the reversed postings
	rt := NewTransaction().WithPostings(orig...).WithReference("r").Reverse()
	verifAssert("C15:tx-reverse-postings", len(rt.Postings) == n)
	verifAssert("C15:tx-reverse-no-reference", rt.Reference == "")
	verifAssert("C15:tx-reverse-no-id", rt.ID == nil)
	verifReach("end")
}

func Harness_C15_Reverse_n1() { c15Reverse(1, true) }
func Harness_C15_Reverse_n2() { c15Reverse(2, true) }
func Harness_C15_Reverse_n3() { c15Reverse(3, false) }
func Harness_C15_Reverse_n4() { c15Reverse(4, false) }
func Harness_C15_Reverse_n5() { c15Reverse(5, false) }
func Harness_C15_Reverse_n6() { c15Reverse(6, false) }
