package ledger

// C29 (chart semantics) and C30 (schemas round-trip without changing meaning).
//
// A chart is generated as a JSON object from a bounded family of shapes (the
// shape is explored exhaustively; a fork, not a solver decision); it is decoded
// by the real ChartOfAccounts.UnmarshalJSON. An address is a list of 1..3
// symbolic segments (SMT strings constrained to the address-segment alphabet).
// The real findAccountSchema is compared with an independent, declarative
// acceptance predicate evaluated on the JSON the chart was written in.

import (
	"encoding/json"
	"regexp"
	"strings"
)

var chartSegmentAlphabet = regexp.MustCompile(`^[a-zA-Z0-9_-]+$`)

// genLeaf: an account node without sub-segments, with or without default metadata
func genLeaf(name string) map[string]any {
	n := map[string]any{}
	if nondetChoice(name+".meta", 2) == 1 {
		n[".metadata"] = map[string]any{"tier": map[string]any{"default": "std"}, "free": map[string]any{}}
	}
	return n
}

// genSlimNode: the second level of the reduced depth-2 family — an optional fixed child 'in' (a plain leaf), an optional
// variable child '$id' with the pattern ^[0-9]+$ (a plain leaf), else a fixed child 'out'; optionally an account itself
func genSlimNode(name string) map[string]any {
	n := map[string]any{}
	has := false
	if nondetChoice(name+".in", 2) == 1 {
		n["in"] = map[string]any{}
		has = true
	}
	if nondetChoice(name+".var", 2) == 1 {
		n["$id"] = map[string]any{".pattern": "^[0-9]+$"}
		has = true
	}
	if !has {
		n["out"] = map[string]any{}
	}
	if nondetChoice(name+".self", 2) == 1 {
		n[".self"] = map[string]any{}
	}
	return n
}

var chartSlimSecondLevel = false

// genNode: a node with sub-segments
func genNode(name string, depth int) map[string]any {
	n := map[string]any{}
	sub := func(child string) map[string]any {
		if depth > 1 {
			if nondetChoice(name+"."+child+".deep", 2) == 1 {
				if chartSlimSecondLevel {
					return genSlimNode(name + "." + child)
				}
				return genNode(name+"."+child, depth-1)
			}
			return genLeaf(name + "." + child)
		}
		// innermost level: a leaf, or an interior (non-account) segment with one leaf below it
		if nondetChoice(name+"."+child+".interior", 2) == 1 {
			return map[string]any{"x": map[string]any{}}
		}
		return genLeaf(name + "." + child)
	}
	hasChild := false
	if nondetChoice(name+".in", 2) == 1 {
		n["in"] = sub("in")
		hasChild = true
	}
	switch nondetChoice(name+".var", 4) {
	case 1:
		n["$id"] = sub("id")
		hasChild = true
	case 2:
		v := sub("id")
		v[".pattern"] = "^[0-9]+$"
		n["$id"] = v
		hasChild = true
	case 3:
		v := sub("id")
		v[".pattern"] = "^i"
		n["$id"] = v
		hasChild = true
	}
	if !hasChild {
		n["out"] = genLeaf(name + ".out")
	}
	if nondetChoice(name+".self", 2) == 1 {
		n[".self"] = map[string]any{}
		if nondetChoice(name+".selfmeta", 2) == 1 {
			n[".metadata"] = map[string]any{"kind": map[string]any{"default": "node"}}
		}
	}
	return n
}

func genChart(depth int) map[string]any {
	return map[string]any{"acc": genNode("acc", depth), "bank": genLeaf("bank")}
}

func genAddress(maxLen int) []string {
	n := 1 + nondetChoice("address.len", maxLen)
	segs := make([]string, n)
	for i := range segs {
		s := nondetStr("segment", 3)
		verifAssume(chartSegmentAlphabet.MatchString(s))
		segs[i] = s
	}
	return segs
}

// ---- the reference: acceptance defined on the JSON text of the chart

type refVerdict struct {
	accepted bool
	defaults map[string]string
}

func isSubsegmentKey(k string) bool { return !strings.HasPrefix(k, ".") }

func refNodeIsAccount(node map[string]any) bool {
	if _, ok := node[".self"]; ok {
		return true
	}
	for k := range node {
		if isSubsegmentKey(k) {
			return false
		}
	}
	return true // a leaf is an account
}

func refDefaults(node map[string]any) map[string]string {
	out := map[string]string{}
	if md, ok := node[".metadata"].(map[string]any); ok {
		for k, v := range md {
			if d, ok := v.(map[string]any)["default"]; ok {
				out[k] = d.(string)
			}
		}
	}
	return out
}

// refAccept: a fixed sub-segment whose name equals the address segment is taken, and only then;
// otherwise the variable sub-segment when its pattern (if any) matches; the last segment must
// land on an account node.
func refAccept(level map[string]any, segs []string, root bool) refVerdict {
	seg := segs[0]
	var child map[string]any
	for k, v := range level {
		if isSubsegmentKey(k) && !strings.HasPrefix(k, "$") && k == seg {
			child = v.(map[string]any)
		}
	}
	if child == nil && !root {
		for k, v := range level {
			if strings.HasPrefix(k, "$") {
				c := v.(map[string]any)
				ok := true
				if p, has := c[".pattern"]; has {
					ok = regexp.MustCompile(p.(string)).MatchString(seg)
				}
				if ok {
					child = c
				}
			}
		}
	}
	if child == nil {
		return refVerdict{}
	}
	if len(segs) == 1 {
		if refNodeIsAccount(child) {
			return refVerdict{accepted: true, defaults: refDefaults(child)}
		}
		return refVerdict{}
	}
	return refAccept(child, segs[1:], false)
}

func sameDefaults(a map[string]string, acc *ChartAccount) bool {
	got := acc.DefaultMetadata()
	if len(got) != len(a) {
		return false
	}
	for k, v := range a {
		if got[k] != v {
			return false
		}
	}
	return true
}

func checkChart(depth, maxLen int) {
	js := genChart(depth)
	raw, err := json.Marshal(js)
	verifAssume(err == nil)
	var chart ChartOfAccounts
	if err := json.Unmarshal(raw, &chart); err != nil {
		verifAssert("C29:generated-chart-is-valid", false)
		return
	}
	segs := genAddress(maxLen)
	want := refAccept(js, segs, true)
	acc, ferr := findAccountSchema([]string{}, map[string]ChartSegment(chart), nil, segs)
	verifAssert("C29:chart-accepts-exactly-the-addresses-it-describes", (ferr == nil) == want.accepted)
	if ferr == nil && want.accepted {
		verifAssert("C29:default-metadata-of-the-matched-account", sameDefaults(want.defaults, acc))
	}

	// C30: marshal, unmarshal, ask again
	raw2, err := json.Marshal(chart)
	verifAssert("C30:chart-marshals", err == nil)
	var chart2 ChartOfAccounts
	if err := json.Unmarshal(raw2, &chart2); err != nil {
		verifAssert("C30:marshalled-chart-is-accepted-again", false)
		return
	}
	acc2, ferr2 := findAccountSchema([]string{}, map[string]ChartSegment(chart2), nil, segs)
	verifAssert("C30:same-addresses-accepted-after-the-round-trip", (ferr2 == nil) == (ferr == nil))
	if ferr == nil && ferr2 == nil {
		verifAssert("C30:same-default-metadata-after-the-round-trip", sameDefaults(want.defaults, acc2))
	}
	// ... and through the Schema envelope (as stored in / read from the schemas table)
	sraw, err := json.Marshal(SchemaData{Chart: chart})
	verifAssert("C30:schema-marshals", err == nil)
	var sd SchemaData
	if err := json.Unmarshal(sraw, &sd); err != nil {
		verifAssert("C30:marshalled-schema-is-accepted-again", false)
		return
	}
	_, ferr3 := findAccountSchema([]string{}, map[string]ChartSegment(sd.Chart), nil, segs)
	verifAssert("C30:same-addresses-accepted-after-the-schema-round-trip", (ferr3 == nil) == (ferr == nil))
	verifReach("end")
}

func Harness_CHART_d1_len2() { checkChart(1, 2) }
func Harness_CHART_d1_len3() { checkChart(1, 3) }
func Harness_CHART_d2_len3() { checkChart(2, 3) }

// The decoder ranges over Go maps, whose iteration order is unspecified: the same chart, decoded in every
// order of its (2-3 entry) levels, must classify addresses as the JSON describes and round-trip unchanged.
// Natively the order is the runtime's random choice; the check is repeated there.
func checkChartAnyDecodeOrder(maxLen int, first, second bool) {
	reps := 1
	if !verifIsSymbolic() {
		reps = 64
	}
	js := genChart(1)
	raw, err := json.Marshal(js)
	verifAssume(err == nil)
	segs := genAddress(maxLen)
	want := refAccept(js, segs, true)
	for rep := 0; rep < reps; rep++ {
		var chart ChartOfAccounts
		verifMapOrders(first)
		err := json.Unmarshal(raw, &chart)
		verifMapOrders(false)
		if err != nil {
			verifAssert("C29:generated-chart-is-valid", false)
			return
		}
		acc, ferr := findAccountSchema([]string{}, map[string]ChartSegment(chart), nil, segs)
		verifAssert("C29:chart-accepts-exactly-the-addresses-it-describes", (ferr == nil) == want.accepted)
		if ferr == nil && want.accepted {
			verifAssert("C29:default-metadata-of-the-matched-account", sameDefaults(want.defaults, acc))
		}
		raw2, err := json.Marshal(chart)
		verifAssert("C30:chart-marshals", err == nil)
		var chart2 ChartOfAccounts
		verifMapOrders(second)
		err = json.Unmarshal(raw2, &chart2)
		verifMapOrders(false)
		if err != nil {
			verifAssert("C30:marshalled-chart-is-accepted-again", false)
			return
		}
		acc2, ferr2 := findAccountSchema([]string{}, map[string]ChartSegment(chart2), nil, segs)
		verifAssert("C30:same-addresses-accepted-after-the-round-trip", (ferr2 == nil) == want.accepted)
		if ferr2 == nil && want.accepted {
			verifAssert("C30:same-default-metadata-after-the-round-trip", sameDefaults(want.defaults, acc2))
		}
	}
	verifReach("end")
}

func Harness_CHART_order1_len2()  { checkChartAnyDecodeOrder(2, true, false) }
func Harness_CHART_order2_len2()  { checkChartAnyDecodeOrder(2, false, true) }
func Harness_CHART_orderT1_len3() { checkChartAnyDecodeOrder(3, true, false) }
func Harness_CHART_orderT2_len3() { checkChartAnyDecodeOrder(3, false, true) }

// reduced depth-2 family: the first level is the full family, a child that is itself a node comes from genSlimNode
func Harness_CHART_d2r_len3() {
	chartSlimSecondLevel = true
	checkChart(2, 3)
	chartSlimSecondLevel = false
}
