package ledger

// C38 on the import stream decoder: Log.UnmarshalJSON / LogType.UnmarshalJSON /
// HydrateLog / SavedMetadata.UnmarshalJSON. One field of an otherwise valid
// exported log is replaced by an arbitrary JSON value. Decoding may fail with an
// error; it must not panic.

import (
	"encoding/json"
)

func baseLog(kind string) map[string]any {
	tx := map[string]any{"id": 1, "postings": []any{map[string]any{"source": "world", "destination": "a", "asset": "USD/2", "amount": 5}},
		"metadata": map[string]any{}, "timestamp": "2024-01-01T00:00:00Z", "reference": "", "reverted": false}
	l := map[string]any{"id": 1, "date": "2024-01-01T00:00:00Z", "idempotencyKey": "", "hash": nil}
	switch kind {
	case "NEW_TRANSACTION":
		l["type"] = kind
		l["data"] = map[string]any{"transaction": tx, "accountMetadata": map[string]any{}}
	case "SET_METADATA":
		l["type"] = kind
		l["data"] = map[string]any{"targetType": "TRANSACTION", "targetId": 1, "metadata": map[string]any{"k": "v"}}
	case "SET_METADATA_ACCOUNT":
		l["type"] = "SET_METADATA"
		l["data"] = map[string]any{"targetType": "ACCOUNT", "targetId": "a", "metadata": map[string]any{"k": "v"}}
	case "DELETE_METADATA":
		l["type"] = kind
		l["data"] = map[string]any{"targetType": "ACCOUNT", "targetId": "a", "key": "k"}
	case "REVERTED_TRANSACTION":
		l["type"] = kind
		l["data"] = map[string]any{"revertedTransaction": tx, "transaction": tx}
	}
	return l
}

func checkMalformedLog(kind string, dataFields []string) {
	l := baseLog(kind)
	all := append(append([]string{}, dataFields...), "@type", "@data", "@id", "@date", "@hash")
	f := all[nondetChoice("field", len(all))]
	v := verifJSONValue("bad", 1, []string{"k"})
	switch f {
	case "@type":
		l["type"] = v
	case "@data":
		l["data"] = v
	case "@id":
		l["id"] = v
	case "@date":
		l["date"] = v
	case "@hash":
		l["hash"] = v
	default:
		l["data"].(map[string]any)[f] = v
	}
	raw, err := json.Marshal(l)
	verifAssume(err == nil)
	var decoded Log
	if err := json.Unmarshal(raw, &decoded); err != nil {
		verifReach("rejected")
	} else {
		verifAssert("C38:decoded-log-has-a-payload", decoded.Data != nil)
		verifReach("decoded")
	}
	verifReach("end")
}

func Harness_C38_log_new_transaction() {
	checkMalformedLog("NEW_TRANSACTION", []string{"transaction", "accountMetadata"})
}
func Harness_C38_log_set_metadata() {
	checkMalformedLog("SET_METADATA", []string{"targetType", "targetId", "metadata"})
}
func Harness_C38_log_set_metadata_account() {
	checkMalformedLog("SET_METADATA_ACCOUNT", []string{"targetType", "targetId", "metadata"})
}
func Harness_C38_log_delete_metadata() {
	checkMalformedLog("DELETE_METADATA", []string{"targetType", "targetId", "key"})
}
func Harness_C38_log_reverted() {
	checkMalformedLog("REVERTED_TRANSACTION", []string{"revertedTransaction", "transaction"})
}
