package ledger

// C37: running a stored query template hands the store the same paginated query as the direct list request it
// describes: the filter with the variables substituted, the template parameters overridden by the request's.
//
// The real DefaultController.RunQuery (GetSchema, ResolveFilterTemplate, QueryTemplateParams.Overwrite /
// UnmarshalJSON, templateParamsToQuery) runs on the store model, whose Paginate methods record the query they get.
// The expected query is built here from the documented rule, with the go-libs query constructors.

import (
	"encoding/json"
	"math/big"

	"github.com/formancehq/go-libs/v5/pkg/query"
	"github.com/formancehq/go-libs/v5/pkg/storage/bun/paginate"
	"github.com/formancehq/go-libs/v5/pkg/types/time"

	ledger "github.com/formancehq/ledger/internal"
	"github.com/formancehq/ledger/internal/queries"
	"github.com/formancehq/ledger/internal/storage/common"
)

// the configured default differs from the store-level fallback (paginate.QueryDefaultPageSize = 15) on purpose
var c37Config = common.PaginationConfig{MaxPageSize: 100, DefaultPageSize: 20}

func c37Setup(tpl ledger.QueryTemplate) *DefaultController {
	db := newMDB(mkLedger("l1", 7, nil))
	ctrl := newTestController(db)
	var chart ledger.ChartOfAccounts
	if err := json.Unmarshal([]byte(schemaChart), &chart); err != nil {
		panic("bad chart in harness: " + err.Error())
	}
	data := ledger.SchemaData{Chart: chart, Queries: ledger.QueryTemplates{"q": tpl}}
	if _, _, _, err := ctrl.InsertSchema(bg, Parameters[InsertSchema]{Input: InsertSchema{Version: "v1", Data: data}}); err != nil {
		panic("schema setup failed: " + err.Error())
	}
	recPages = nil
	return ctrl
}

func c37BuilderJSON(b query.Builder) string {
	if b == nil {
		return "null"
	}
	raw, err := json.Marshal(b)
	if err != nil {
		panic(err)
	}
	return string(raw)
}

// c37Params: a parameter set as JSON text plus what it says (nil = not given)
type c37Params struct {
	text     json.RawMessage // nil = no parameters at all
	pageSize *uint64
	sortCol  string
	sortOrd  *paginate.Order
	endTime  *time.Time
	expand   []string
}

// a page size among boundary values (below, at and above the maximum page size), as the JSON number it is written as
func c37PageSize(name string) (uint64, *big.Int) {
	ps := []uint64{1, 20, 99, 100, 101, 1000}[nondetChoice(name+".pageSize", 6)]
	return ps, new(big.Int).SetUint64(ps)
}

func c37Raw(doc map[string]any) json.RawMessage {
	raw, err := json.Marshal(doc)
	if err != nil {
		panic(err)
	}
	return raw
}

func c37ParamShape(name string, shape int, colA, colB string) c37Params {
	asc, desc := paginate.Order(paginate.OrderAsc), paginate.Order(paginate.OrderDesc)
	switch shape {
	case 0: // absent
		return c37Params{}
	case 1: // {}
		return c37Params{text: json.RawMessage("{}")}
	case 2: // page size only (symbolic)
		ps, n := c37PageSize(name)
		return c37Params{text: c37Raw(map[string]any{"pageSize": n}), pageSize: &ps}
	case 3: // sort only
		return c37Params{text: json.RawMessage(`{"sort":"` + colA + `:asc"}`), sortCol: colA, sortOrd: &asc}
	case 4: // end time only
		t, _ := time.ParseTime("2024-05-01T10:00:00Z")
		return c37Params{text: json.RawMessage(`{"endTime":"2024-05-01T10:00:00Z"}`), endTime: &t}
	case 5: // expand only
		return c37Params{text: json.RawMessage(`{"expand":["volumes"]}`), expand: []string{"volumes"}}
	case 6: // sort column without an order
		return c37Params{text: json.RawMessage(`{"sort":"` + colB + `"}`), sortCol: colB}
	default: // everything
		ps, n := c37PageSize(name)
		t, _ := time.ParseTime("2023-01-01T00:00:00Z")
		return c37Params{text: c37Raw(map[string]any{"pageSize": n, "sort": colB + ":desc", "endTime": "2023-01-01T00:00:00Z", "expand": []string{"effectiveVolumes"}}),
			pageSize: &ps, sortCol: colB, sortOrd: &desc, endTime: &t, expand: []string{"effectiveVolumes"}}
	}
}

// c37Check runs the template and compares the recorded query with the expected one
func c37Check(resource queries.ResourceKind, body string, vars map[string]queries.VarDecl, callVars map[string]any, want query.Builder,
	tplShape, reqShape int, defCol string, defOrd paginate.Order) {
	// two sortable columns of the resource
	colA, colB := "timestamp", "id"
	switch resource {
	case queries.ResourceKindAccount:
		colA, colB = "first_usage", "address"
	case queries.ResourceKindLog:
		colA, colB = "date", "id"
	}
	tp, rp := c37ParamShape("tpl", tplShape, colA, colB), c37ParamShape("req", reqShape, colA, colB)
	tpl := ledger.QueryTemplate{Resource: resource, Vars: vars, Body: json.RawMessage(body)}
	if tp.text != nil {
		tpl.Params = tp.text
	}
	ctrl := c37Setup(tpl)
	rq := common.RunQuery{Vars: callVars}
	if rp.text != nil {
		rq.Params = rp.text
	}
	kind, cur, err := ctrl.RunQuery(bg, "v1", "q", rq, c37Config)
	verifAssert("C37:template-runs", err == nil && cur != nil && kind != nil && *kind == resource)
	if err != nil {
		return
	}
	verifAssert("C37:one-store-query", len(recPages) == 1)
	if len(recPages) != 1 {
		return
	}
	got, ok := recPages[0].query.(common.InitialPaginatedQuery[any])
	verifAssert("C37:store-gets-an-initial-query", ok)
	if !ok {
		return
	}
	// expected parameters: defaults, overridden by what the template gives, overridden by what the request gives
	pageSize := c37Config.DefaultPageSize
	col, ord := defCol, defOrd
	var pit *time.Time
	var expand []string
	for _, p := range []c37Params{tp, rp} {
		if p.pageSize != nil {
			pageSize = *p.pageSize
		}
		if p.sortCol != "" {
			col = p.sortCol
		}
		if p.sortOrd != nil {
			ord = *p.sortOrd
		}
		if p.endTime != nil {
			pit = p.endTime
		}
		if p.expand != nil {
			expand = p.expand
		}
	}
	if pageSize > c37Config.MaxPageSize {
		pageSize = c37Config.MaxPageSize
	}
	verifAssert("C37:filter-is-the-template-with-the-variables-substituted", c37BuilderJSON(got.Options.Builder) == c37BuilderJSON(want))
	verifAssert("C37:page-size-is-the-request's-else-the-template's-else-the-default", got.PageSize == pageSize)
	verifAssert("C37:sort-column-is-the-request's-else-the-template's-else-the-default", got.Column == col)
	verifAssert("C37:sort-order-is-the-request's-else-the-template's-else-the-default", got.Order != nil && *got.Order == ord)
	verifAssert("C37:point-in-time-is-the-request's-else-the-template's", (got.Options.PIT == nil) == (pit == nil) && (pit == nil || got.Options.PIT.Equal(*pit)))
	verifAssert("C37:expand-is-the-request's-else-the-template's", len(got.Options.Expand) == len(expand) && (len(expand) == 0 || got.Options.Expand[0] == expand[0]))
	verifReach("end")
}

// a numeric variable value: symbolic (any integer), or one of a few concrete integers beyond 64 bits (these keep the
// check decisive when a change routes the value through arithmetic the executor only runs concretely, e.g. big.Float)
func c37Num(name string) (json.Number, *big.Int) {
	var n *big.Int
	switch nondetChoice(name+".kind", 4) {
	case 0:
		n = nondetBig(name)
	case 1:
		n, _ = new(big.Int).SetString("18446744073709551617", 10) // 2^64 + 1
	case 2:
		n, _ = new(big.Int).SetString("-36893488147419103233", 10) // -(2^65 + 1)
	default:
		n, _ = new(big.Int).SetString("123456789012345678901234567890", 10)
	}
	return json.Number(n.String()), n
}

var (
	c37Desc = paginate.Order(paginate.OrderDesc)
	c37Asc  = paginate.Order(paginate.OrderAsc)
)

func c37Shapes() (int, int) {
	return nondetChoice("tplParams", 8), nondetChoice("reqParams", 8)
}

// ---- filters (parameter shapes explored on every one)

func Harness_C37_tx_string_var() {
	r := nondetStr("r", 3)
	t, q := c37Shapes()
	c37Check(queries.ResourceKindTransaction, `{"$match":{"reference":"ref-${r}"}}`, map[string]queries.VarDecl{"r": {Type: queries.TypeString{}}},
		map[string]any{"r": r}, query.Match("reference", "ref-"+r), t, q, "id", c37Desc)
}

func Harness_C37_tx_numeric_and_bool() {
	jn, n := c37Num("n")
	b := nondetBool("b")
	t, q := c37Shapes()
	c37Check(queries.ResourceKindTransaction, `{"$and":[{"$gte":{"id":"${n}"}},{"$match":{"reverted":"${b}"}}]}`,
		map[string]queries.VarDecl{"n": {Type: queries.TypeNumeric{}}, "b": {Type: queries.TypeBoolean{}}},
		map[string]any{"n": jn, "b": b}, query.And(query.Gte("id", n), query.Match("reverted", b)), t, q, "id", c37Desc)
}

func Harness_C37_accounts_default_value() {
	// the call gives no value: the declared default applies
	t, q := c37Shapes()
	c37Check(queries.ResourceKindAccount, `{"$lt":{"balance[USD]":"${limit}"}}`, map[string]queries.VarDecl{"limit": {Type: queries.TypeNumeric{}, Default: json.Number("42")}},
		map[string]any{}, query.Lt("balance[USD]", big.NewInt(42)), t, q, "address", c37Asc)
}

func Harness_C37_accounts_default_overridden() {
	jn, n := c37Num("n")
	t, q := c37Shapes()
	c37Check(queries.ResourceKindAccount, `{"$or":[{"$lt":{"balance[USD]":"${limit}"}},{"$match":{"address":"users:${u}:main"}}]}`,
		map[string]queries.VarDecl{"limit": {Type: queries.TypeNumeric{}, Default: json.Number("42")}, "u": {Type: queries.TypeString{}}},
		map[string]any{"limit": jn, "u": "007"}, query.Or(query.Lt("balance[USD]", n), query.Match("address", "users:007:main")), t, q, "address", c37Asc)
}

func Harness_C37_tx_in_and_not() {
	a := nondetStr("a", 3)
	t, q := c37Shapes()
	c37Check(queries.ResourceKindTransaction, `{"$not":{"$in":{"account":["${a}","bank"]}}}`, map[string]queries.VarDecl{"a": {Type: queries.TypeString{}}},
		map[string]any{"a": a}, query.Not(query.In("account", []any{a, "bank"})), t, q, "id", c37Desc)
}

func Harness_C37_tx_date_var() {
	d := []string{"2024-01-01T00:00:00Z", "2023-06-30T12:00:00Z", "2024-01-01T00:00:01.250Z", "2024-02-29T23:59:59.999999Z"}[nondetChoice("d", 4)]
	t, q := c37Shapes()
	c37Check(queries.ResourceKindTransaction, `{"$lt":{"timestamp":"${d}"}}`, map[string]queries.VarDecl{"d": {Type: queries.TypeDate{}}},
		map[string]any{"d": d}, query.Lt("timestamp", d), t, q, "id", c37Desc)
}

func Harness_C37_logs_numeric() {
	jn, n := c37Num("n")
	t, q := c37Shapes()
	c37Check(queries.ResourceKindLog, `{"$gt":{"id":"${n}"}}`, map[string]queries.VarDecl{"n": {Type: queries.TypeNumeric{}}},
		map[string]any{"n": jn}, query.Gt("id", n), t, q, "id", c37Desc)
}

func Harness_C37_tx_metadata_exists_and_plain() {
	// no variables: the body goes through unchanged; literals of every type
	t, q := c37Shapes()
	c37Check(queries.ResourceKindTransaction, `{"$and":[{"$exists":{"metadata":"k"}},{"$match":{"metadata[k]":"v"}},{"$lte":{"id":7}}]}`, nil, nil,
		query.And(query.Exists("metadata", "k"), query.Match("metadata[k]", "v"), query.Lte("id", json.Number("7"))), t, q, "id", c37Desc)
}

func Harness_C37_tx_no_body() {
	t, q := c37Shapes()
	c37Check(queries.ResourceKindTransaction, ``, nil, nil, nil, t, q, "id", c37Desc)
}

// ---- volumes: resource-specific options travel with the parameters

func Harness_C37_volumes_opts() {
	a := nondetStr("a", 3)
	tplOpts := nondetChoice("tplOpts", 3) // none / groupBy / groupBy+insertionDate
	reqOpts := nondetChoice("reqOpts", 3) // none / insertionDate / groupBy
	tdoc, rdoc := map[string]any{}, map[string]any{}
	group, insertion := 0, false
	switch tplOpts {
	case 1:
		tdoc["groupBy"] = 2
		group = 2
	case 2:
		tdoc["groupBy"] = 1
		tdoc["insertionDate"] = true
		group, insertion = 1, true
	}
	switch reqOpts {
	case 1:
		rdoc["insertionDate"] = true
		insertion = true
	case 2:
		rdoc["groupBy"] = 3
		group = 3
	}
	tpl := ledger.QueryTemplate{Resource: queries.ResourceKindVolume, Vars: map[string]queries.VarDecl{"a": {Type: queries.TypeString{}}},
		Body: json.RawMessage(`{"$match":{"account":"users:${a}"}}`), Params: c37Raw(tdoc)}
	ctrl := c37Setup(tpl)
	_, _, err := ctrl.RunQuery(bg, "v1", "q", common.RunQuery{Vars: map[string]any{"a": a}, Params: c37Raw(rdoc)}, c37Config)
	verifAssert("C37:template-runs", err == nil)
	if err != nil || len(recPages) != 1 {
		verifAssert("C37:one-store-query", err != nil)
		return
	}
	got, ok := recPages[0].query.(common.InitialPaginatedQuery[ledger.GetVolumesOptions])
	verifAssert("C37:store-gets-an-initial-query", ok)
	if !ok {
		return
	}
	verifAssert("C37:filter-is-the-template-with-the-variables-substituted", c37BuilderJSON(got.Options.Builder) == c37BuilderJSON(query.Match("account", "users:"+a)))
	verifAssert("C37:volumes-options-are-the-request's-else-the-template's", got.Options.Opts.GroupLvl == group && got.Options.Opts.UseInsertionDate == insertion)
	verifAssert("C37:page-size-is-the-request's-else-the-template's-else-the-default", got.PageSize == c37Config.DefaultPageSize)
	verifAssert("C37:sort-column-is-the-request's-else-the-template's-else-the-default", got.Column == "account" && got.Order != nil && *got.Order == c37Asc)
	verifReach("end")
}

// ---- following the returned cursor continues that same query

func Harness_C37_cursor_continues_the_query() {
	pid, bottom := nondetBig("pid"), nondetBig("bottom")
	reverse := nondetBool("reverse")
	r := nondetStr("r", 3)
	order := []paginate.Order{c37Asc, c37Desc}[nondetChoice("order", 2)]
	pit, _ := time.ParseTime("2024-05-01T10:00:00Z")
	next := common.ColumnPaginatedQuery[any]{
		InitialPaginatedQuery: common.InitialPaginatedQuery[any]{Column: "id", Order: &order, PageSize: 7,
			Options: common.ResourceQuery[any]{PIT: &pit, Builder: query.Match("reference", "ref-"+r), Expand: []string{"volumes"}}},
		PaginationID: pid, Bottom: bottom, Reverse: reverse,
	}
	cursor := paginate.EncodeCursor(next)
	tpl := ledger.QueryTemplate{Resource: queries.ResourceKindTransaction, Vars: map[string]queries.VarDecl{"r": {Type: queries.TypeString{}}},
		Body: json.RawMessage(`{"$match":{"reference":"ref-${r}"}}`), Params: json.RawMessage(`{"pageSize":7}`)}
	ctrl := c37Setup(tpl)
	_, _, err := ctrl.RunQuery(bg, "v1", "q", common.RunQuery{Cursor: &cursor}, c37Config)
	verifAssert("C37:cursor-runs", err == nil)
	if err != nil || len(recPages) != 1 {
		verifAssert("C37:one-store-query", err != nil)
		return
	}
	got, ok := recPages[0].query.(common.ColumnPaginatedQuery[any])
	verifAssert("C37:cursor-keeps-its-kind", ok)
	if !ok {
		return
	}
	verifAssert("C37:cursor-continues-the-same-query", got.Column == "id" && got.Order != nil && *got.Order == order && got.PageSize == 7 && got.Reverse == reverse &&
		got.PaginationID != nil && got.PaginationID.Cmp(pid) == 0 && got.Bottom != nil && got.Bottom.Cmp(bottom) == 0 &&
		got.Options.PIT != nil && got.Options.PIT.Equal(pit) && len(got.Options.Expand) == 1 && got.Options.Expand[0] == "volumes" &&
		c37BuilderJSON(got.Options.Builder) == c37BuilderJSON(query.Match("reference", "ref-"+r)))
	verifReach("end")
}
