package ledger

// C28 end to end: a literal of the script text reaches the postings of a stored
// transaction. The script text is concrete per run (the ANTLR front end cannot be
// executed on symbolic bytes): these functions are the native replay targets of
// the lexer-rule/pattern inclusion queries (pychecks/c28_lexer.py), which hand
// over the solver's witness literal.

import (
	"regexp"

	"github.com/formancehq/ledger/internal/machine/vm"
)

var (
	c28AccountRe = regexp.MustCompile(`^[a-zA-Z0-9_-]+(:[a-zA-Z0-9_-]+)*$`)
	c28AssetRe   = regexp.MustCompile(`^[A-Z][A-Z0-9]{0,16}(_[A-Z]{1,16})?(\/\d{1,6})?$`)
)

func c28RunScript(script string) {
	db := newMDB(mkLedger("l1", 7, nil))
	ctrl := newTestController(db)
	_, out, _, err := ctrl.CreateTransaction(bg, Parameters[CreateTransaction]{Input: CreateTransaction{RunScript: vm.RunScript{Script: vm.Script{Plain: script, Vars: map[string]string{}}}}})
	if err != nil {
		verifReach("rejected")
		return
	}
	for _, p := range out.Transaction.Postings {
		verifAssert("C28:literal-accepted-by-the-lexer-matches-the-pattern", c28AssetRe.MatchString(p.Asset) && c28AccountRe.MatchString(p.Source) && c28AccountRe.MatchString(p.Destination) && p.Amount.Sign() >= 0)
	}
	for _, t := range db.committed.txs {
		for _, p := range t.Postings {
			verifAssert("C28:literal-accepted-by-the-lexer-matches-the-pattern", c28AssetRe.MatchString(p.Asset))
		}
	}
	verifReach("stored")
}

func Replay_C28_literal_asset() {
	lit := nondetStr("literal", 16)
	c28RunScript("send [" + lit + " 1] (\n\tsource = @world\n\tdestination = @dest\n)")
}

func Replay_C28_literal_account() {
	lit := nondetStr("literal", 16)
	c28RunScript("send [USD/2 1] (\n\tsource = @world\n\tdestination = @" + lit + "\n)")
}
