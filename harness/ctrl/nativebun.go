package ledger

// Native replay build only: the statements the ledger state tracker issues on the *bun.Tx / connection it gets from
// the store (UPDATE _system.ledgers SET state .., SELECT setval(..), SELECT .. FROM _system.ledgers) run on real bun over
// a tiny database/sql driver that answers them from the store model — the same answers the symbolic build gives
// through verifBunExecUpdate / verifBunExecRaw / verifBunScan. Unused in the symbolic build.

import (
	"context"
	"database/sql"
	"database/sql/driver"
	"errors"
	"io"
	"strings"

	"github.com/uptrace/bun"
	"github.com/uptrace/bun/dialect/pgdialect"
)

type nbConnector struct{ db *mDB }

func (c nbConnector) Connect(context.Context) (driver.Conn, error) { return &nbConn{c.db}, nil }
func (c nbConnector) Driver() driver.Driver                        { return nil }

type nbConn struct{ db *mDB }

func (c *nbConn) Prepare(string) (driver.Stmt, error) { return nil, errors.New("store model: no prepared statements") }
func (c *nbConn) Close() error                        { return nil }
func (c *nbConn) Begin() (driver.Tx, error)           { return nbTx{}, nil }

type nbTx struct{}

func (nbTx) Commit() error   { return nil }
func (nbTx) Rollback() error { return nil }

func (c *nbConn) ExecContext(_ context.Context, q string, _ []driver.NamedValue) (driver.Result, error) {
	switch {
	case strings.Contains(q, "setval"):
		return driver.RowsAffected(0), c.db.VerifTxSetval(strings.Contains(q, "transaction_id_"))
	case strings.HasPrefix(strings.TrimSpace(strings.ToUpper(q)), "UPDATE") && strings.Contains(q, "ledgers"):
		n, err := c.db.VerifTxSetInUse()
		return driver.RowsAffected(n), err
	}
	return nil, errors.New("store model: unexpected statement " + q)
}

func (c *nbConn) QueryContext(_ context.Context, q string, _ []driver.NamedValue) (driver.Rows, error) {
	if strings.Contains(q, "ledgers") {
		return &nbRows{vals: [][]driver.Value{{c.db.VerifReadState()}}}, nil
	}
	return nil, errors.New("store model: unexpected query " + q)
}

type nbRows struct {
	vals [][]driver.Value
	i    int
}

func (r *nbRows) Columns() []string { return []string{"state"} }
func (r *nbRows) Close() error      { return nil }
func (r *nbRows) Next(dest []driver.Value) error {
	if r.i >= len(r.vals) {
		return io.EOF
	}
	copy(dest, r.vals[r.i])
	r.i++
	return nil
}

func (db *mDB) nativeBun() *bun.DB {
	if db.nbun == nil {
		db.nbun = bun.NewDB(sql.OpenDB(nbConnector{db}), pgdialect.New())
	}
	return db.nbun
}

// bunTx / bunConn: what BeginTX / LockLedger hand to the caller next to the store
func (db *mDB) bunTx() *bun.Tx {
	if verifIsSymbolic() {
		return new(bun.Tx) // opaque to the executor
	}
	tx, err := db.nativeBun().BeginTx(context.Background(), nil)
	if err != nil {
		panic(err)
	}
	return &tx
}

func (db *mDB) bunConn() bun.IDB {
	if verifIsSymbolic() {
		return new(bun.DB)
	}
	return db.nativeBun()
}
