package ledger

// C15 (revert is an exact, single inverse) and the revert clause of C06, on the
// real revertTransaction / forgeLog over the store model. The reverted
// transaction is one of several posting shapes; amounts and starting balances
// are symbolic.

import (
	"errors"
	"fmt"
	"math/big"

	"github.com/formancehq/go-libs/v5/pkg/types/metadata"

	ledger "github.com/formancehq/ledger/internal"
	"github.com/formancehq/ledger/internal/machine"
)

type revertShape struct {
	name string
	// postings of the transaction to revert; nil amounts are symbolic
	postings func(sym bool) []ledger.Posting
	// transactions committed after it (they can spend what it credited)
	later func(sym bool) []ledger.Posting
}

var revertShapes = map[string]revertShape{
	"single": {postings: func(sym bool) []ledger.Posting { return []ledger.Posting{Pa("a", "b", "USD/2", amt(sym, "t.amount", "30"))} },
		later: func(sym bool) []ledger.Posting { return []ledger.Posting{Pa("b", "c", "USD/2", amt(sym, "later.amount", "10"))} }},
	"from_world": {postings: func(sym bool) []ledger.Posting { return []ledger.Posting{Pa("world", "b", "USD/2", amt(sym, "t.amount", "30"))} },
		later: func(sym bool) []ledger.Posting { return []ledger.Posting{Pa("b", "c", "USD/2", amt(sym, "later.amount", "10"))} }},
	"chain": {postings: func(sym bool) []ledger.Posting {
		return []ledger.Posting{Pa("a", "b", "USD/2", amt(sym, "t.amount", "30")), Pa("b", "c", "USD/2", amt(sym, "t.amount2", "20"))}
	}},
	"two_assets_chain": {postings: func(sym bool) []ledger.Posting {
		// b receives USD/2 and pays EUR: b is a destination for one asset only
		return []ledger.Posting{Pa("world", "b", "USD/2", amt(sym, "t.amount", "3")), Pa("b", "c", "EUR", amt(sym, "t.amount2", "2"))}
	}},
	"same_pair_twice": {postings: func(sym bool) []ledger.Posting {
		return []ledger.Posting{Pa("a", "b", "USD/2", amt(sym, "t.amount", "5")), Pa("a", "b", "USD/2", amt(sym, "t.amount2", "7"))}
	}},
	"self": {postings: func(sym bool) []ledger.Posting { return []ledger.Posting{Pa("a", "a", "USD/2", amt(sym, "t.amount", "5"))} }},
	"to_world": {postings: func(sym bool) []ledger.Posting { return []ledger.Posting{Pa("a", "world", "USD/2", amt(sym, "t.amount", "5"))} }},
	"ping_pong": {postings: func(sym bool) []ledger.Posting {
		return []ledger.Posting{Pa("a", "b", "USD/2", amt(sym, "t.amount", "5")), Pa("b", "a", "USD/2", amt(sym, "t.amount2", "3"))}
	}},
}

func balanceOf(db *mDB, acc, asset string) *big.Int {
	v := db.committedVolumes(acc, asset)
	return new(big.Int).Sub(v.Input, v.Output)
}

func checkRevert(shape string, sym, force, atEffective bool) {
	sh := revertShapes[shape]
	db := newMDB(mkLedger("l1", 7, nil))
	db.symbolicInitial = true
	ctrl := newTestController(db)
	beforeT := db.clone()
	ps := sh.postings(sym)
	// T is written with force so that any starting balances admit it
	_, created, _, err := createFromPostings(ctrl, ps, true, false, "", "")
	if err != nil {
		verifAssume(false)
	}
	tid := *created.Transaction.ID
	if sh.later != nil {
		if _, _, _, err := createFromPostings(ctrl, sh.later(sym), true, false, "", ""); err != nil {
			verifAssume(false)
		}
	}
	pre := db.clone()
	orig := cloneTx(db.committed.txs[0])

	// reference: the final balance of every account/asset touched by T once the reverse is applied
	type key struct{ acc, asset string }
	final := map[key]*big.Int{}
	touch := func(acc, asset string) *big.Int {
		k := key{acc, asset}
		if final[k] == nil {
			final[k] = balanceOf(db, acc, asset)
		}
		return final[k]
	}
	debited := map[key]bool{} // the (account, asset) pairs the revert takes funds from
	for _, p := range ps {
		// reverse posting: destination pays the source back
		d := touch(p.Destination, p.Asset)
		d.Sub(d, p.Amount)
		debited[key{p.Destination, p.Asset}] = true
		s := touch(p.Source, p.Asset)
		s.Add(s, p.Amount)
	}
	// "would leave an account negative": an account the revert takes funds from ends below zero (an account that
	// only receives funds back cannot be made negative by the revert, even if it was negative before)
	wouldGoNegative := false
	for k, v := range final {
		if k.acc != "world" && debited[k] && v.Sign() < 0 {
			wouldGoNegative = true
		}
	}

	log, out, hit, err := ctrl.RevertTransaction(bg, Parameters[RevertTransaction]{Input: RevertTransaction{TransactionID: tid, Force: force, AtEffectiveDate: atEffective, Metadata: metadata.Metadata{"why": "test"}}})
	if err != nil {
		verifAssert("C06:revert-refused-only-when-an-account-would-go-negative", !force && wouldGoNegative)
		verifAssert("C15:refusal-is-insufficient-funds", errors.Is(err, &machine.ErrInsufficientFund{}))
		verifAssert("C15:refused-revert-has-no-effect", stateDiff(pre.committed, db.committed, true) == "")
		verifReach("refused")
		verifReach("end")
		return
	}
	verifAssert("C06:non-forced-revert-leaves-no-account-negative", force || !wouldGoNegative)
	verifAssert("C15:not-a-hit", !hit && log != nil)
	rt := out.RevertTransaction
	verifAssert("C15:one-new-transaction", len(db.committed.txs) == len(pre.committed.txs)+1 && *rt.ID == *db.committed.txs[len(db.committed.txs)-1].ID)
	verifAssert("C15:posting-count", len(rt.Postings) == len(ps))
	n := len(ps)
	for i := range ps {
		q := rt.Postings[n-1-i]
		verifAssert("C15:reversed-order-swapped-ends", q.Source == ps[i].Destination && q.Destination == ps[i].Source && q.Asset == ps[i].Asset && q.Amount.Cmp(ps[i].Amount) == 0)
	}
	verifAssert("C15:revert-metadata-mark", rt.Metadata[ledger.RevertMetadataSpecKey()] == fmt.Sprint(tid) && rt.Metadata["why"] == "test")
	marked := db.committed.txs[0]
	verifAssert("C15:original-marked-reverted", marked.RevertedAt != nil && out.RevertedTransaction.RevertedAt != nil && *out.RevertedTransaction.ID == tid)
	if atEffective {
		verifAssert("C15:timestamp-is-the-original-timestamp", rt.Timestamp.Equal(orig.Timestamp))
	} else {
		verifAssert("C15:timestamp-is-the-revert-time", marked.RevertedAt != nil && rt.Timestamp.Equal(*marked.RevertedAt))
	}
	// T plus its revert leave every balance unchanged: post = pre - effect(T) = reference `final`
	for k, v := range final {
		verifAssert("C15:balances-restored", balanceOf(db, k.acc, k.asset).Cmp(v) == 0)
	}
	// ... and, with nothing committed in between, equal to the balances before T
	if sh.later == nil {
		for k := range final {
			verifAssert("C15:T-plus-revert-is-neutral", balanceOf(db, k.acc, k.asset).Cmp(balanceOf(beforeT, k.acc, k.asset)) == 0)
		}
	}
	// the stored row of the revert transaction is the returned one
	stored := db.committed.txs[len(db.committed.txs)-1]
	verifAssert("C15:stored-revert-equals-returned", postingsEqual(stored.Postings, rt.Postings) && metaEqual(stored.Metadata, rt.Metadata))

	// a second revert fails with already-reverted and has no effect
	after := db.clone()
	_, _, _, err2 := ctrl.RevertTransaction(bg, Parameters[RevertTransaction]{Input: RevertTransaction{TransactionID: tid, Force: true}})
	verifAssert("C15:second-revert-is-already-reverted", err2 != nil && errors.Is(err2, ErrAlreadyReverted{}))
	verifAssert("C15:second-revert-has-no-effect", stateDiff(after.committed, db.committed, true) == "")

	// reverting the revert re-applies T's postings
	_, out3, _, err3 := ctrl.RevertTransaction(bg, Parameters[RevertTransaction]{Input: RevertTransaction{TransactionID: *rt.ID, Force: true}})
	verifAssert("C15:revert-of-revert-succeeds", err3 == nil)
	if err3 == nil {
		verifAssert("C15:revert-of-revert-is-T", postingsEqual(out3.RevertTransaction.Postings, ps))
	}
	verifReach("reverted")
	verifReach("end")
}

// the request's own metadata cannot displace the mark that says which transaction a revert reverts: a request that
// already carries the reserved key (a client forwarding the metadata of an earlier revert) still gets the right mark
func Harness_REVC_reserved_key_in_request_metadata() {
	db, ctrl := setupHistory(false)
	forwarded := nondetStr("forwarded", 3)
	_, out, _, err := ctrl.RevertTransaction(bg, Parameters[RevertTransaction]{Input: RevertTransaction{TransactionID: 3, Force: true,
		Metadata: metadata.Metadata{ledger.RevertMetadataSpecKey(): forwarded, "why": "again"}}})
	verifAssert("C15:forced-revert-succeeds", err == nil && out != nil)
	if err != nil {
		return
	}
	rt := out.RevertTransaction
	verifAssert("C15:revert-metadata-mark", rt.Metadata[ledger.RevertMetadataSpecKey()] == "3" && rt.Metadata["why"] == "again")
	stored := db.committed.txs[len(db.committed.txs)-1]
	verifAssert("C15:revert-metadata-mark", stored.Metadata[ledger.RevertMetadataSpecKey()] == "3")
	verifReach("end")
}
