package ledger

// C13 (input coverage): a second request under an idempotency key that differs from the first in exactly one field
// of its input — any field, any different value — is rejected with ErrInvalidIdempotencyInput and has no effect.
// The first request runs for real (real forgeLog, ComputeIdempotencyHash over the real request types); the field
// values of the second request are symbolic and only assumed different from the first's.

import (
	"errors"

	"github.com/formancehq/go-libs/v5/pkg/types/metadata"
	"github.com/formancehq/go-libs/v5/pkg/types/time"

	ledger "github.com/formancehq/ledger/internal"
)

func c13Different(db *mDB, after *mDB, err error, field string) {
	verifAssert("C13:a-request-differing-in-one-field-is-rejected/"+field, err != nil && errors.Is(err, ErrInvalidIdempotencyInput{}))
	verifAssert("C13:different-input-no-effect", stateDiff(after.committed, db.committed, true) == "")
	verifReach("end")
}

func c13CreateBase() CreateTransaction {
	data := ledger.NewTransactionData().WithPostings(P("world", "z", "USD/2", "10"))
	data.Reference = "c13-ref"
	data.Metadata = metadata.Metadata{"mk": "mv"}
	ts, _ := time.ParseTime("2024-03-01T00:00:00Z")
	data.Timestamp = ts
	in := CreateTransaction{RunScript: TxToScriptData(data, false)}
	in.AccountMetadata = map[string]metadata.Metadata{"z": {"ak": "av"}}
	return in
}

func c13Create(field string, mutate func(in *CreateTransaction)) {
	db, ctrl := setupHistory(false)
	base := c13CreateBase()
	_, _, _, err := ctrl.CreateTransaction(bg, Parameters[CreateTransaction]{IdempotencyKey: "ik-f", Input: base})
	verifAssume(err == nil)
	after := db.clone()
	second := c13CreateBase()
	mutate(&second)
	_, _, _, err = ctrl.CreateTransaction(bg, Parameters[CreateTransaction]{IdempotencyKey: "ik-f", Input: second})
	c13Different(db, after, err, "create."+field)
}

func c13Str(name, not string) string {
	s := nondetStr(name, 4)
	verifAssume(s != not)
	return s
}

func Harness_C13F_create_reference() {
	c13Create("reference", func(in *CreateTransaction) { in.Reference = c13Str("ref", "c13-ref") })
}
func Harness_C13F_create_metadata_value() {
	c13Create("metadata", func(in *CreateTransaction) { in.Metadata = metadata.Metadata{"mk": c13Str("mv", "mv")} })
}
func Harness_C13F_create_metadata_absent() {
	c13Create("metadata", func(in *CreateTransaction) { in.Metadata = metadata.Metadata{} })
}
func Harness_C13F_create_account_metadata_value() {
	c13Create("accountMetadata", func(in *CreateTransaction) {
		in.AccountMetadata = map[string]metadata.Metadata{"z": {"ak": c13Str("av", "av")}}
	})
}
func Harness_C13F_create_account_metadata_absent() {
	c13Create("accountMetadata", func(in *CreateTransaction) { in.AccountMetadata = nil })
}
func Harness_C13F_create_account_metadata_other_account() {
	c13Create("accountMetadata", func(in *CreateTransaction) {
		in.AccountMetadata = map[string]metadata.Metadata{c13Str("acc", "z"): {"ak": "av"}}
	})
}
func Harness_C13F_create_runtime() {
	c13Create("runtime", func(in *CreateTransaction) { in.Runtime = ledger.RuntimeType(c13Str("rt", "")) })
}
func Harness_C13F_create_timestamp() {
	c13Create("timestamp", func(in *CreateTransaction) {
		ts, _ := time.ParseTime("2024-03-01T00:00:01Z")
		in.Timestamp = ts
	})
}
func Harness_C13F_create_script_plain() {
	c13Create("script", func(in *CreateTransaction) { in.Script.Plain = in.Script.Plain + "\n" })
}
func Harness_C13F_create_script_var() {
	c13Create("vars", func(in *CreateTransaction) {
		vars := map[string]string{}
		for k, v := range in.Script.Vars {
			vars[k] = v
		}
		vars["extra"] = nondetStr("extra", 3)
		in.Script.Vars = vars
	})
}

func c13Revert(field string, mutate func(in *RevertTransaction)) {
	db, ctrl := setupHistory(false)
	base := RevertTransaction{TransactionID: 3, Force: true, Metadata: metadata.Metadata{"why": "x"}}
	_, _, _, err := ctrl.RevertTransaction(bg, Parameters[RevertTransaction]{IdempotencyKey: "ik-f", Input: base})
	verifAssume(err == nil)
	after := db.clone()
	second := RevertTransaction{TransactionID: 3, Force: true, Metadata: metadata.Metadata{"why": "x"}}
	mutate(&second)
	_, _, _, err = ctrl.RevertTransaction(bg, Parameters[RevertTransaction]{IdempotencyKey: "ik-f", Input: second})
	c13Different(db, after, err, "revert."+field)
}

func Harness_C13F_revert_force()       { c13Revert("force", func(in *RevertTransaction) { in.Force = false }) }
func Harness_C13F_revert_effective()   { c13Revert("atEffectiveDate", func(in *RevertTransaction) { in.AtEffectiveDate = true }) }
func Harness_C13F_revert_transaction() {
	c13Revert("transactionID", func(in *RevertTransaction) {
		id := nondetUint64("id")
		verifAssume(id != 3)
		in.TransactionID = id
	})
}
func Harness_C13F_revert_metadata() {
	c13Revert("metadata", func(in *RevertTransaction) { in.Metadata = metadata.Metadata{"why": c13Str("why", "x")} })
}

func Harness_C13F_save_tx_metadata() {
	db, ctrl := setupHistory(false)
	_, _, err := ctrl.SaveTransactionMetadata(bg, Parameters[SaveTransactionMetadata]{IdempotencyKey: "ik-f", Input: SaveTransactionMetadata{TransactionID: 1, Metadata: metadata.Metadata{"a": "b"}}})
	verifAssume(err == nil)
	after := db.clone()
	second := SaveTransactionMetadata{TransactionID: 1, Metadata: metadata.Metadata{"a": "b"}}
	if nondetChoice("field", 2) == 0 {
		id := nondetUint64("id")
		verifAssume(id != 1)
		second.TransactionID = id
	} else {
		second.Metadata = metadata.Metadata{"a": c13Str("v", "b")}
	}
	_, _, err = ctrl.SaveTransactionMetadata(bg, Parameters[SaveTransactionMetadata]{IdempotencyKey: "ik-f", Input: second})
	c13Different(db, after, err, "saveTransactionMetadata")
}

func Harness_C13F_save_account_metadata() {
	db, ctrl := setupHistory(false)
	_, _, err := ctrl.SaveAccountMetadata(bg, Parameters[SaveAccountMetadata]{IdempotencyKey: "ik-f", Input: SaveAccountMetadata{Address: "b", Metadata: metadata.Metadata{"a": "b"}}})
	verifAssume(err == nil)
	after := db.clone()
	second := SaveAccountMetadata{Address: "b", Metadata: metadata.Metadata{"a": "b"}}
	if nondetChoice("field", 2) == 0 {
		second.Address = c13Str("addr", "b")
	} else {
		second.Metadata = metadata.Metadata{c13Str("k", "a"): "b"}
	}
	_, _, err = ctrl.SaveAccountMetadata(bg, Parameters[SaveAccountMetadata]{IdempotencyKey: "ik-f", Input: second})
	c13Different(db, after, err, "saveAccountMetadata")
}

func Harness_C13F_delete_tx_metadata() {
	db, ctrl := setupHistory(false)
	_, _, err := ctrl.DeleteTransactionMetadata(bg, Parameters[DeleteTransactionMetadata]{IdempotencyKey: "ik-f", Input: DeleteTransactionMetadata{TransactionID: 1, Key: "k"}})
	verifAssume(err == nil)
	after := db.clone()
	second := DeleteTransactionMetadata{TransactionID: 1, Key: "k"}
	if nondetChoice("field", 2) == 0 {
		id := nondetUint64("id")
		verifAssume(id != 1)
		second.TransactionID = id
	} else {
		second.Key = c13Str("key", "k")
	}
	_, _, err = ctrl.DeleteTransactionMetadata(bg, Parameters[DeleteTransactionMetadata]{IdempotencyKey: "ik-f", Input: second})
	c13Different(db, after, err, "deleteTransactionMetadata")
}

func Harness_C13F_delete_account_metadata() {
	db, ctrl := setupHistory(false)
	_, _, err := ctrl.DeleteAccountMetadata(bg, Parameters[DeleteAccountMetadata]{IdempotencyKey: "ik-f", Input: DeleteAccountMetadata{Address: "b", Key: "role"}})
	verifAssume(err == nil)
	after := db.clone()
	second := DeleteAccountMetadata{Address: "b", Key: "role"}
	if nondetChoice("field", 2) == 0 {
		second.Address = c13Str("addr", "b")
	} else {
		second.Key = c13Str("key", "role")
	}
	_, _, err = ctrl.DeleteAccountMetadata(bg, Parameters[DeleteAccountMetadata]{IdempotencyKey: "ik-f", Input: second})
	c13Different(db, after, err, "deleteAccountMetadata")
}
