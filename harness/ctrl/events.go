package ledger

// C31: events are published exactly for committed writes, after commit.
// Real ControllerWithEvents on top of the real DefaultController on the store
// model, with a recording listener that snapshots, at the instant of every
// callback, what is durably committed.

import (
	"context"

	"github.com/formancehq/go-libs/v5/pkg/types/metadata"

	ledger "github.com/formancehq/ledger/internal"
)

type recordedEvent struct {
	kind string
	// number of committed logs / committed SQL transactions when the listener was called
	committedLogs int
	commits       int
}

type recListener struct {
	db     *mDB
	events []recordedEvent
}

func (l *recListener) rec(kind string) {
	l.events = append(l.events, recordedEvent{kind: kind, committedLogs: len(l.db.committed.logs), commits: l.db.commits})
}

func (l *recListener) CommittedTransactions(ctx context.Context, name string, res ledger.Transaction, accountMetadata ledger.AccountMetadata) {
	l.rec("COMMITTED_TRANSACTIONS")
}
func (l *recListener) SavedMetadata(ctx context.Context, name string, targetType, id string, m metadata.Metadata) {
	l.rec("SAVED_METADATA")
}
func (l *recListener) RevertedTransaction(ctx context.Context, name string, reverted, revert ledger.Transaction) {
	l.rec("REVERTED_TRANSACTION")
}
func (l *recListener) DeletedMetadata(ctx context.Context, name string, targetType string, targetID any, key string) {
	l.rec("DELETED_METADATA")
}
func (l *recListener) InsertedSchema(ctx context.Context, name string, data ledger.Schema) {
	l.rec("INSERTED_SCHEMA")
}

var _ Listener = (*recListener)(nil)

func eventKindOf(t ledger.LogType) string {
	switch t {
	case ledger.NewTransactionLogType:
		return "COMMITTED_TRANSACTIONS"
	case ledger.RevertedTransactionLogType:
		return "REVERTED_TRANSACTION"
	case ledger.SetMetadataLogType:
		return "SAVED_METADATA"
	case ledger.DeleteMetadataLogType:
		return "DELETED_METADATA"
	case ledger.InsertedSchemaLogType:
		return "INSERTED_SCHEMA"
	}
	return "?"
}

// checkEvents: one request of any kind through ControllerWithEvents, dry or wet,
// with up to `faults` injected store failures (including COMMIT).
func checkEvents(sym bool, name string, dry bool, faults int) {
	db, inner := setupHistory(sym)
	lis := &recListener{db: db}
	ctrl := NewControllerWithEvents(db.ledger, inner, lis)
	o := findOp(sym, name)
	pre := db.clone()
	db.faultBudget = faults
	r := o.run(ctrl, dry, "")
	durable := len(db.committed.logs) == len(pre.committed.logs)+1
	if r.err != nil || dry {
		verifAssert("C31:no-event-for-failed-or-dry-run-write", len(lis.events) == 0)
		verifAssert("C31:failed-or-dry-run-write-is-not-durable", !durable)
		verifReach("end")
		return
	}
	verifAssert("C31:successful-write-is-durable", durable)
	verifAssert("C31:exactly-one-event", len(lis.events) == 1)
	if len(lis.events) == 1 {
		ev := lis.events[0]
		verifAssert("C31:event-kind-matches-the-write", ev.kind == eventKindOf(r.log.Type))
		verifAssert("C31:event-after-commit", ev.committedLogs == len(pre.committed.logs)+1)
	}
	verifReach("published")
	verifReach("end")
}

// checkEventsTx: the caller owns the SQL transaction (as the atomic bulk and the state tracker do):
// BeginTX, n writes, then Commit or Rollback; events must wait for the outermost commit.
func checkEventsTx(sym bool, first, second string, commit bool, faults int) {
	db, inner := setupHistory(sym)
	lis := &recListener{db: db}
	root := NewControllerWithEvents(db.ledger, inner, lis)
	pre := db.clone()
	txCtrl, _, err := root.BeginTX(bg, nil)
	if err != nil {
		verifAssume(false)
	}
	db.faultBudget = faults
	ok := 0
	for _, n := range []string{first, second} {
		if n == "" {
			continue
		}
		r := findOp(sym, n).run(txCtrl, false, "")
		if r.err == nil {
			ok++
		}
		verifAssert("C31:no-event-before-the-outer-commit", len(lis.events) == 0)
	}
	if commit {
		cerr := txCtrl.Commit(bg)
		if cerr != nil {
			verifAssert("C31:no-event-when-the-commit-fails", len(lis.events) == 0)
			verifAssert("C31:failed-commit-is-not-durable", len(db.committed.logs) == len(pre.committed.logs))
			verifReach("end")
			return
		}
		verifAssert("C31:one-event-per-committed-write", len(lis.events) == ok)
		for _, ev := range lis.events {
			verifAssert("C31:event-after-commit", ev.committedLogs == len(pre.committed.logs)+ok)
		}
		verifReach("committed")
	} else {
		_ = txCtrl.Rollback(bg)
		verifAssert("C31:no-event-for-rolled-back-writes", len(lis.events) == 0)
		verifAssert("C31:rolled-back-writes-are-not-durable", len(db.committed.logs) == len(pre.committed.logs))
		verifReach("rolledback")
	}
	verifReach("end")
}

// checkEventsLockedTx: the call sequence of the state tracker on a ledger that is still
// initializing: BeginTX -> LockLedger -> write -> Commit.
func checkEventsLockedTx(sym bool, name string, commit bool, faults int) {
	db, inner := setupHistory(sym)
	lis := &recListener{db: db}
	root := NewControllerWithEvents(db.ledger, inner, lis)
	pre := db.clone()
	txCtrl, _, err := root.BeginTX(bg, nil)
	if err != nil {
		verifAssume(false)
	}
	locked, _, release, err := txCtrl.LockLedger(bg)
	if err != nil {
		verifAssume(false)
	}
	db.faultBudget = faults
	r := findOp(sym, name).run(locked, false, "")
	_ = release()
	verifAssert("C31:no-event-before-the-outer-commit", len(lis.events) == 0)
	if r.err != nil || !commit {
		_ = txCtrl.Rollback(bg)
		verifAssert("C31:no-event-for-rolled-back-writes", len(lis.events) == 0)
		verifAssert("C31:rolled-back-writes-are-not-durable", len(db.committed.logs) == len(pre.committed.logs))
		verifReach("end")
		return
	}
	if cerr := txCtrl.Commit(bg); cerr != nil {
		verifAssert("C31:no-event-when-the-commit-fails", len(lis.events) == 0)
		verifReach("end")
		return
	}
	verifAssert("C31:one-event-per-committed-write", len(lis.events) == 1)
	for _, ev := range lis.events {
		verifAssert("C31:event-after-commit", ev.committedLogs == len(pre.committed.logs)+1)
	}
	verifReach("committed")
	verifReach("end")
}
