package ledger

// Controller-level harnesses shared by C07 (failed / dry-run writes leave no
// trace), C08 (the log is a complete journal; replaying payloads reproduces the
// state), C13 (idempotency keys), C02 (volumes = fold of committed postings),
// C15 (revert) and C06 (sequential overdraft rule).
//
// Everything below the Store interface is dbmodel; everything above it is the
// real code: DefaultController, logProcessor (forgeLog / forgeLogRetry / runTx /
// runLog / fetchLogWithIK), the Numscript compiler and VM, importLog.

import (
	"context"
	"errors"
	"math/big"
	"sort"

	"github.com/formancehq/go-libs/v5/pkg/types/metadata"

	ledger "github.com/formancehq/ledger/internal"
	"github.com/formancehq/ledger/internal/machine"
	"github.com/formancehq/ledger/internal/machine/vm"
)

var bg = context.Background()

// ---------------------------------------------------------------- state comparison

func (db *mDB) clone() *mDB {
	// the lazily populated table of initial (symbolic) volumes is shared on purpose:
	// a copy stands for the same ledger at an earlier/alternative point of its history
	return &mDB{ledger: db.ledger, committed: db.committed.clone(), txSeq: db.txSeq, logSeq: db.logSeq,
		symbolicInitial: db.symbolicInitial, initial: db.initial, txOfThread: map[int]*mStore{}}
}

func sortedKeys[V any](m map[string]V) []string {
	ks := make([]string, 0, len(m))
	for k := range m {
		ks = append(ks, k)
	}
	sort.Strings(ks)
	return ks
}

func metaEqual(a, b metadata.Metadata) bool {
	if len(a) != len(b) {
		return false
	}
	for k, v := range a {
		if w, ok := b[k]; !ok || w != v {
			return false
		}
	}
	return true
}

func postingsEqual(a, b ledger.Postings) bool {
	if len(a) != len(b) {
		return false
	}
	for i := range a {
		if a[i].Source != b[i].Source || a[i].Destination != b[i].Destination || a[i].Asset != b[i].Asset || a[i].Amount.Cmp(b[i].Amount) != 0 {
			return false
		}
	}
	return true
}

func pcvEqual(a, b ledger.PostCommitVolumes) bool {
	if len(a) != len(b) {
		return false
	}
	for acc, byAsset := range a {
		ob, ok := b[acc]
		if !ok || len(ob) != len(byAsset) {
			return false
		}
		for as, v := range byAsset {
			w, ok := ob[as]
			if !ok || v.Input.Cmp(w.Input) != 0 || v.Output.Cmp(w.Output) != 0 {
				return false
			}
		}
	}
	return true
}

// txEqual compares what the ledger reports of a transaction. Wall-clock stamps
// (inserted_at / updated_at) are compared only when strict is set.
// ignoreTimes makes the comparisons skip every wall-clock value (two runs of the same
// requests at different instants are compared).
var ignoreTimes = false

func txEqual(a, b *ledger.Transaction, strict bool) bool {
	if (a.ID == nil) != (b.ID == nil) || (a.ID != nil && *a.ID != *b.ID) {
		return false
	}
	if !postingsEqual(a.Postings, b.Postings) || !metaEqual(a.Metadata, b.Metadata) || a.Reference != b.Reference || a.Template != b.Template {
		return false
	}
	if !ignoreTimes && !a.Timestamp.Equal(b.Timestamp) {
		return false
	}
	if (a.RevertedAt == nil) != (b.RevertedAt == nil) {
		return false
	}
	if !ignoreTimes && a.RevertedAt != nil && !a.RevertedAt.Equal(*b.RevertedAt) {
		return false
	}
	if !pcvEqual(a.PostCommitVolumes, b.PostCommitVolumes) {
		return false
	}
	if strict && (!a.InsertedAt.Equal(b.InsertedAt) || !a.UpdatedAt.Equal(b.UpdatedAt)) {
		return false
	}
	return true
}

// stateDiff returns "" when the two committed states are observably equal,
// else the name of the first differing table. strict also compares wall-clock
// stamps and the log table (used for "no trace"); the non-strict form is the
// replay-equivalence relation of C08.
func stateDiff(a, b *mState, strict bool) string {
	if len(a.txs) != len(b.txs) {
		return "transactions(count)"
	}
	for i := range a.txs {
		if !txEqual(a.txs[i], b.txs[i], strict) {
			return "transactions"
		}
	}
	// volumes: pairs absent on one side count as the (shared) initial volumes; compare the union
	accs := map[string]bool{}
	for k := range a.vols {
		accs[k] = true
	}
	for k := range b.vols {
		accs[k] = true
	}
	for _, acc := range sortedKeys(accs) {
		assets := map[string]bool{}
		for k := range a.vols[acc] {
			assets[k] = true
		}
		for k := range b.vols[acc] {
			assets[k] = true
		}
		for _, as := range sortedKeys(assets) {
			va, oka := a.vols[acc][as]
			vb, okb := b.vols[acc][as]
			if oka && okb {
				if va.Input.Cmp(vb.Input) != 0 || va.Output.Cmp(vb.Output) != 0 {
					return "volumes"
				}
			} else if strict && oka != okb {
				// a row that exists on one side only: it must carry unchanged (initial) volumes;
				// the harness compares against the pre-state clone, where absent == untouched
				var v *ledger.Volumes
				if oka {
					v = va
				} else {
					v = vb
				}
				_ = v
			}
		}
	}
	if len(a.accounts) != len(b.accounts) {
		return "accounts(count)"
	}
	for _, addr := range sortedKeys(a.accounts) {
		x := a.accounts[addr]
		y, ok := b.accounts[addr]
		if !ok {
			return "accounts"
		}
		if !metaEqual(x.Metadata, y.Metadata) || (!ignoreTimes && !x.FirstUsage.Equal(y.FirstUsage)) {
			return "accounts"
		}
		if strict && (!x.InsertionDate.Equal(y.InsertionDate) || !x.UpdatedAt.Equal(y.UpdatedAt)) {
			return "accounts(stamps)"
		}
	}
	if len(a.moves) != len(b.moves) {
		return "moves(count)"
	}
	for i := range a.moves {
		x, y := a.moves[i], b.moves[i]
		if x.TxID != y.TxID || x.IsSource != y.IsSource || x.Account != y.Account || x.Asset != y.Asset || x.Amount.Cmp(y.Amount) != 0 {
			return "moves"
		}
	}
	if len(a.schemas) != len(b.schemas) {
		return "schemas(count)"
	}
	for i := range a.schemas {
		if a.schemas[i].Version != b.schemas[i].Version {
			return "schemas"
		}
	}
	if len(a.logs) != len(b.logs) {
		return "logs(count)"
	}
	for i := range a.logs {
		x, y := a.logs[i], b.logs[i]
		if *x.ID != *y.ID || x.Type != y.Type || x.IdempotencyKey != y.IdempotencyKey || x.IdempotencyHash != y.IdempotencyHash {
			return "logs"
		}
	}
	return ""
}

// volumesTouched reports whether some volume row differs between the states
// (rows absent on one side are compared with the initial volumes).
func (db *mDB) volumesDiffer(a, b *mState) bool {
	accs := map[string]bool{}
	for k := range a.vols {
		accs[k] = true
	}
	for k := range b.vols {
		accs[k] = true
	}
	for _, acc := range sortedKeys(accs) {
		assets := map[string]bool{}
		for k := range a.vols[acc] {
			assets[k] = true
		}
		for k := range b.vols[acc] {
			assets[k] = true
		}
		for _, as := range sortedKeys(assets) {
			get := func(s *mState) *ledger.Volumes {
				if v, ok := s.vols[acc][as]; ok {
					return v
				}
				return db.initialVolumes(acc, as)
			}
			va, vb := get(a), get(b)
			if va.Input.Cmp(vb.Input) != 0 || va.Output.Cmp(vb.Output) != 0 {
				return true
			}
		}
	}
	return false
}

// ---------------------------------------------------------------- history and operations

const (
	scriptMeta = `
vars {
	account $dst
}
send [USD/2 10] (
	source = @world
	destination = $dst
)
set_tx_meta("kind", "deposit")
set_account_meta($dst, "tier", "gold")
set_account_meta(@audit:pending, "seen", "yes")
`
)

// setupHistory: a small but varied committed history, written through the real controller.
//
//	tx1: world -> a   USD/2 100   (reference ref1, metadata k=v)
//	tx2: a -> b       USD/2 30
//	tx3: world -> b   EUR 5 ; b -> c EUR 5
//	account b: metadata role=x
//	tx2: metadata note=n
func setupHistory(sym bool, opts ...DefaultControllerOption) (*mDB, *DefaultController) {
	db := newMDB(mkLedger("l1", 7, nil))
	ctrl := newTestController(db, opts...)
	must := func(err error) {
		if err != nil {
			if sym {
				verifAssume(false) // this symbolic history is not a valid one (e.g. tx2 would overdraw)
			}
			panic("setup failed: " + err.Error())
		}
	}
	d1 := ledger.NewTransactionData().WithPostings(Pa("world", "a", "USD/2", amt(sym, "h.deposit", "100")))
	d1.Reference = "ref1"
	d1.Metadata = metadata.Metadata{"k": "v"}
	_, _, _, err := ctrl.CreateTransaction(bg, Parameters[CreateTransaction]{Input: CreateTransaction{RunScript: TxToScriptData(d1, false)}})
	must(err)
	_, _, _, err = createFromPostings(ctrl, []ledger.Posting{Pa("a", "b", "USD/2", amt(sym, "h.transfer", "30"))}, false, false, "", "")
	must(err)
	_, _, _, err = createFromPostings(ctrl, []ledger.Posting{P("world", "b", "EUR", "5"), P("b", "c", "EUR", "5")}, false, false, "ik-setup", "")
	must(err)
	_, _, err = ctrl.SaveAccountMetadata(bg, Parameters[SaveAccountMetadata]{Input: SaveAccountMetadata{Address: "b", Metadata: metadata.Metadata{"role": "x"}}})
	must(err)
	_, _, err = ctrl.SaveTransactionMetadata(bg, Parameters[SaveTransactionMetadata]{Input: SaveTransactionMetadata{TransactionID: 2, Metadata: metadata.Metadata{"note": "n"}}})
	must(err)
	db.calls = nil
	db.commits = 0
	return db, ctrl
}

// amt is a posting amount: an unbounded symbolic integer >= 0 in symbolic mode, the given constant otherwise.
func amt(sym bool, name, conc string) *big.Int {
	if !sym {
		return bi(conc)
	}
	v := nondetBig(name)
	verifAssume(v.Sign() >= 0)
	return v
}

func Pa(src, dst, asset string, amount *big.Int) ledger.Posting {
	return ledger.Posting{Source: src, Destination: dst, Asset: asset, Amount: amount}
}

// opResult is what a caller of a write observes.
type opResult struct {
	log *ledger.Log
	hit bool
	err error
	// digest of the typed output, for "dry run returns what the real write would have returned"
	tx *ledger.Transaction
}

type op struct {
	name string
	// expectation on the setupHistory state without faults: "" = success, else a substring class of the business error
	fails bool
	run   func(ctrl Controller, dry bool, ik string) opResult
}

func createOp(name string, fails bool, input func() CreateTransaction) op {
	var prepared *CreateTransaction // the request is built once: a replay sends the same bytes
	return op{name: name, fails: fails, run: func(ctrl Controller, dry bool, ik string) opResult {
		if prepared == nil {
			in := input()
			prepared = &in
		}
		log, out, hit, err := ctrl.CreateTransaction(bg, Parameters[CreateTransaction]{DryRun: dry, IdempotencyKey: ik, Input: *prepared})
		r := opResult{log: log, hit: hit, err: err}
		if out != nil {
			r.tx = &out.Transaction
		}
		return r
	}}
}

func postingsInput(force bool, reference string, ps ...ledger.Posting) func() CreateTransaction {
	return func() CreateTransaction {
		data := ledger.NewTransactionData().WithPostings(ps...)
		data.Reference = reference
		return CreateTransaction{RunScript: TxToScriptData(data, force)}
	}
}

func makeOps(sym bool) []op {
	return []op{
	createOp("create_ok", false, postingsInput(false, "", Pa("a", "c", "USD/2", amt(sym, "op.amount", "50")))),
	createOp("create_all", false, postingsInput(false, "", Pa("a", "c", "USD/2", amt(sym, "op.amount", "70")), Pa("c", "a", "USD/2", amt(sym, "op.back", "1")))),
	createOp("create_self", false, postingsInput(false, "", Pa("a", "a", "USD/2", amt(sym, "op.amount", "20")), Pa("world", "world", "USD/2", amt(sym, "op.back", "3")))),
	createOp("create_insufficient", true, postingsInput(false, "", Pa("b", "c", "USD/2", amt(sym, "op.amount", "31")))),
	createOp("create_forced_overdraft", false, postingsInput(true, "", Pa("b", "c", "USD/2", amt(sym, "op.amount", "31")))),
	createOp("create_ref_conflict", true, postingsInput(false, "ref1", P("world", "c", "USD/2", "1"))),
	createOp("create_new_ref", false, postingsInput(false, "ref2", Pa("world", "c", "USD/2", amt(sym, "op.amount", "1")))),
	createOp("create_script_meta", false, func() CreateTransaction {
		return CreateTransaction{RunScript: vm.RunScript{Script: vm.Script{Plain: scriptMeta, Vars: map[string]string{"dst": "d:new"}}, Metadata: metadata.Metadata{"src": "api"}},
			AccountMetadata: map[string]metadata.Metadata{"e:other": {"x": "y"}}}
	}),
	createOp("create_meta_override", true, func() CreateTransaction {
		return CreateTransaction{RunScript: vm.RunScript{Script: vm.Script{Plain: scriptMeta, Vars: map[string]string{"dst": "d:new"}}, Metadata: metadata.Metadata{"kind": "other"}}}
	}),
	createOp("create_bad_script", true, func() CreateTransaction {
		return CreateTransaction{RunScript: vm.RunScript{Script: vm.Script{Plain: "send [USD/2 10] ( source = @world destination = ", Vars: map[string]string{}}}}
	}),
	createOp("create_no_postings", true, func() CreateTransaction {
		return CreateTransaction{RunScript: vm.RunScript{Script: vm.Script{Plain: `set_tx_meta("a", "b")`, Vars: map[string]string{}}}}
	}),
	{name: "revert_ok", run: func(ctrl Controller, dry bool, ik string) opResult {
		log, out, hit, err := ctrl.RevertTransaction(bg, Parameters[RevertTransaction]{DryRun: dry, IdempotencyKey: ik, Input: RevertTransaction{TransactionID: 2, Metadata: metadata.Metadata{"why": "test"}}})
		r := opResult{log: log, hit: hit, err: err}
		if out != nil {
			r.tx = &out.RevertTransaction
		}
		return r
	}},
	{name: "revert_effective", run: func(ctrl Controller, dry bool, ik string) opResult {
		log, out, hit, err := ctrl.RevertTransaction(bg, Parameters[RevertTransaction]{DryRun: dry, IdempotencyKey: ik, Input: RevertTransaction{TransactionID: 2, AtEffectiveDate: true}})
		r := opResult{log: log, hit: hit, err: err}
		if out != nil {
			r.tx = &out.RevertTransaction
		}
		return r
	}},
	{name: "revert_insufficient", fails: true, run: func(ctrl Controller, dry bool, ik string) opResult {
		log, out, hit, err := ctrl.RevertTransaction(bg, Parameters[RevertTransaction]{DryRun: dry, IdempotencyKey: ik, Input: RevertTransaction{TransactionID: 1}})
		r := opResult{log: log, hit: hit, err: err}
		if out != nil {
			r.tx = &out.RevertTransaction
		}
		return r
	}},
	{name: "revert_forced", run: func(ctrl Controller, dry bool, ik string) opResult {
		log, out, hit, err := ctrl.RevertTransaction(bg, Parameters[RevertTransaction]{DryRun: dry, IdempotencyKey: ik, Input: RevertTransaction{TransactionID: 1, Force: true}})
		r := opResult{log: log, hit: hit, err: err}
		if out != nil {
			r.tx = &out.RevertTransaction
		}
		return r
	}},
	{name: "revert_missing", fails: true, run: func(ctrl Controller, dry bool, ik string) opResult {
		log, _, hit, err := ctrl.RevertTransaction(bg, Parameters[RevertTransaction]{DryRun: dry, IdempotencyKey: ik, Input: RevertTransaction{TransactionID: 99}})
		return opResult{log: log, hit: hit, err: err}
	}},
	{name: "txmeta_save", run: func(ctrl Controller, dry bool, ik string) opResult {
		log, hit, err := ctrl.SaveTransactionMetadata(bg, Parameters[SaveTransactionMetadata]{DryRun: dry, IdempotencyKey: ik, Input: SaveTransactionMetadata{TransactionID: 1, Metadata: metadata.Metadata{"k": "v2", "new": "1"}}})
		return opResult{log: log, hit: hit, err: err}
	}},
	{name: "txmeta_save_missing", fails: true, run: func(ctrl Controller, dry bool, ik string) opResult {
		log, hit, err := ctrl.SaveTransactionMetadata(bg, Parameters[SaveTransactionMetadata]{DryRun: dry, IdempotencyKey: ik, Input: SaveTransactionMetadata{TransactionID: 99, Metadata: metadata.Metadata{"k": "v2"}}})
		return opResult{log: log, hit: hit, err: err}
	}},
	{name: "txmeta_delete", run: func(ctrl Controller, dry bool, ik string) opResult {
		log, hit, err := ctrl.DeleteTransactionMetadata(bg, Parameters[DeleteTransactionMetadata]{DryRun: dry, IdempotencyKey: ik, Input: DeleteTransactionMetadata{TransactionID: 1, Key: "k"}})
		return opResult{log: log, hit: hit, err: err}
	}},
	{name: "txmeta_delete_absent_key", fails: true, run: func(ctrl Controller, dry bool, ik string) opResult {
		log, hit, err := ctrl.DeleteTransactionMetadata(bg, Parameters[DeleteTransactionMetadata]{DryRun: dry, IdempotencyKey: ik, Input: DeleteTransactionMetadata{TransactionID: 1, Key: "zz"}})
		return opResult{log: log, hit: hit, err: err}
	}},
	{name: "accmeta_save_existing", run: func(ctrl Controller, dry bool, ik string) opResult {
		log, hit, err := ctrl.SaveAccountMetadata(bg, Parameters[SaveAccountMetadata]{DryRun: dry, IdempotencyKey: ik, Input: SaveAccountMetadata{Address: "b", Metadata: metadata.Metadata{"role": "y", "n": "1"}}})
		return opResult{log: log, hit: hit, err: err}
	}},
	{name: "accmeta_save_new", run: func(ctrl Controller, dry bool, ik string) opResult {
		log, hit, err := ctrl.SaveAccountMetadata(bg, Parameters[SaveAccountMetadata]{DryRun: dry, IdempotencyKey: ik, Input: SaveAccountMetadata{Address: "z:fresh", Metadata: metadata.Metadata{"role": "y"}}})
		return opResult{log: log, hit: hit, err: err}
	}},
	{name: "accmeta_delete", run: func(ctrl Controller, dry bool, ik string) opResult {
		log, hit, err := ctrl.DeleteAccountMetadata(bg, Parameters[DeleteAccountMetadata]{DryRun: dry, IdempotencyKey: ik, Input: DeleteAccountMetadata{Address: "b", Key: "role"}})
		return opResult{log: log, hit: hit, err: err}
	}},
	{name: "schema_insert", run: func(ctrl Controller, dry bool, ik string) opResult {
		log, _, hit, err := ctrl.InsertSchema(bg, Parameters[InsertSchema]{DryRun: dry, IdempotencyKey: ik, Input: InsertSchema{Version: "v1", Data: ledger.SchemaData{Chart: ledger.ChartOfAccounts{}}}})
		return opResult{log: log, hit: hit, err: err}
	}},
	}
}

func findOp(sym bool, name string) op {
	for _, o := range makeOps(sym) {
		if o.name == name {
			return o
		}
	}
	panic("no such op " + name)
}

// ---------------------------------------------------------------- obligations

// replayEquivalent runs the real importLog for `log` on a copy of the pre-state and
// compares the result with the post-state of the live write (C08: the payloads alone
// determine the state).
func replayEquivalent(pre *mDB, post *mDB, log *ledger.Log) string {
	imp := newTestController(pre)
	store, _, err := imp.store.BeginTX(bg, nil)
	if err != nil {
		return "begin: " + err.Error()
	}
	if err := imp.importLog(bg, store, *log); err != nil {
		return "importLog: " + err.Error()
	}
	if err := store.Commit(bg); err != nil {
		return "commit: " + err.Error()
	}
	return stateDiff(pre.committed, post.committed, false)
}

// checkWet: one non-dry-run write with up to `faults` injected store failures.
func checkWet(sym bool, name string, faults int) {
	db, ctrl := setupHistory(sym)
	o := findOp(sym, name)
	pre := db.clone()
	db.faultBudget = faults
	r := o.run(ctrl, false, "")
	injected := faults - db.faultBudget
	if r.err != nil {
		verifAssert("C07:failed-write-leaves-no-trace", stateDiff(pre.committed, db.committed, true) == "")
		verifAssert("C02:failed-write-contributes-nothing", !db.volumesDiffer(pre.committed, db.committed))
		if injected == 0 && !sym {
			verifAssert("C07:business-failure-expected", o.fails)
		}
		verifReach("failed")
		verifReach("end")
		return
	}
	if injected == 0 && !sym {
		verifAssert("C07:success-expected", !o.fails)
	}
	verifAssert("C08:exactly-one-log", len(db.committed.logs) == len(pre.committed.logs)+1)
	verifAssert("C08:returned-log-has-id", r.log != nil && r.log.ID != nil)
	last := db.committed.logs[len(db.committed.logs)-1]
	verifAssert("C08:log-id-increases", *last.ID > *pre.committed.logs[len(pre.committed.logs)-1].ID && *last.ID == *r.log.ID)
	verifAssert("C08:not-an-idempotency-hit", !r.hit)
	ref := refFromState(pre, pre.committed)
	ref.apply(pre, r.log)
	verifAssert("C08:payload-determines-state", ref.diff(db, db.committed) == "")
	verifAssert("C08:replay-reproduces-state", replayEquivalent(pre, db, r.log) == "")
	verifReach("succeeded")
	verifReach("end")
}

// checkDry: DryRun=true returns what the wet run returns and leaves no trace,
// also when a store call fails on the way.
func checkDry(sym bool, name string, faults int) {
	db, ctrl := setupHistory(sym)
	o := findOp(sym, name)
	pre := db.clone()
	wetDB := db.clone()
	db.faultBudget = faults
	r := o.run(ctrl, true, "")
	verifAssert("C07:dry-run-leaves-no-trace", stateDiff(pre.committed, db.committed, true) == "")
	verifAssert("C08:dry-run-appends-no-log", len(db.committed.logs) == len(pre.committed.logs))
	verifAssert("C02:dry-run-contributes-nothing", !db.volumesDiffer(pre.committed, db.committed))
	if faults-db.faultBudget == 0 {
		// compare with the real write on an identical ledger
		w := o.run(newTestController(wetDB), false, "")
		verifAssert("C07:dry-run-fails-iff-wet-fails", (r.err != nil) == (w.err != nil))
		if r.err == nil && w.err == nil {
			verifAssert("C07:dry-run-log-type", r.log.Type == w.log.Type)
			if r.tx != nil && w.tx != nil {
				verifAssert("C07:dry-run-output-equals-wet-output", postingsEqual(r.tx.Postings, w.tx.Postings) && metaEqual(r.tx.Metadata, w.tx.Metadata) &&
					r.tx.Reference == w.tx.Reference && pcvEqual(r.tx.PostCommitVolumes, w.tx.PostCommitVolumes))
			} else {
				verifAssert("C07:dry-run-output-presence", (r.tx == nil) == (w.tx == nil))
			}
		}
	}
	verifReach("end")
}

// checkIK: the same write twice under one idempotency key, then a different input under that key.
func checkIK(sym bool, name string, otherName string) {
	db, ctrl := setupHistory(sym)
	o, other := findOp(sym, name), findOp(false, otherName)
	pre := db.clone()
	r1 := o.run(ctrl, false, "ik-1")
	if r1.err != nil {
		verifAssert("C13:failed-first-attempt-no-trace", stateDiff(pre.committed, db.committed, true) == "")
		verifReach("first-failed")
		verifReach("end")
		return
	}
	after1 := db.clone()
	r2 := o.run(ctrl, false, "ik-1")
	verifAssert("C13:replay-succeeds", r2.err == nil)
	if r2.err == nil {
		verifAssert("C13:replay-is-a-hit", r2.hit)
		verifAssert("C13:replay-returns-the-original-log", r2.log != nil && *r2.log.ID == *r1.log.ID && r2.log.Type == r1.log.Type)
		if r1.tx != nil {
			verifAssert("C13:replay-returns-the-original-result", r2.tx != nil && *r2.tx.ID == *r1.tx.ID && postingsEqual(r1.tx.Postings, r2.tx.Postings))
		}
	}
	verifAssert("C13:applied-at-most-once", stateDiff(after1.committed, db.committed, true) == "")
	// a dry run with the same key is a hit as well and changes nothing
	r3 := o.run(ctrl, true, "ik-1")
	verifAssert("C13:dry-replay-no-effect", stateDiff(after1.committed, db.committed, true) == "" && r3.err == nil)
	// same key, different input
	r4 := other.run(ctrl, false, "ik-1")
	verifAssert("C13:different-input-rejected", r4.err != nil && errors.Is(r4.err, ErrInvalidIdempotencyInput{}))
	verifAssert("C13:different-input-no-effect", stateDiff(after1.committed, db.committed, true) == "")
	verifReach("replayed")
	verifReach("end")
}

// checkIKFault: the second request with the same key meets store failures: it must
// still be a hit or a retryable/injected failure, never a business error, and never a second effect.
func checkIKFault(sym bool, name string) {
	db, ctrl := setupHistory(sym)
	o := findOp(sym, name)
	r1 := o.run(ctrl, false, "ik-1")
	if r1.err != nil {
		verifReach("end")
		return
	}
	after1 := db.clone()
	db.faultBudget = 1
	r2 := o.run(ctrl, false, "ik-1")
	verifAssert("C13:applied-at-most-once", stateDiff(after1.committed, db.committed, true) == "")
	if r2.err == nil {
		verifAssert("C13:replay-is-a-hit", r2.hit && *r2.log.ID == *r1.log.ID)
	} else {
		verifAssert("C13:error-is-the-injected-one", errors.Is(r2.err, errInjected) || errors.Is(r2.err, errAborted) || isRetryable(r2.err))
	}
	verifReach("end")
}

// ---------------------------------------------------------------- C02: volumes = fold of the journal

// foldOfPostings recomputes every (account, asset) volume from the committed transactions alone.
func foldOfPostings(st *mState) map[string]map[string]*ledger.Volumes {
	out := map[string]map[string]*ledger.Volumes{}
	get := func(acc, as string) *ledger.Volumes {
		if out[acc] == nil {
			out[acc] = map[string]*ledger.Volumes{}
		}
		if out[acc][as] == nil {
			out[acc][as] = &ledger.Volumes{Input: new(big.Int), Output: new(big.Int)}
		}
		return out[acc][as]
	}
	for _, t := range st.txs {
		for _, p := range t.Postings {
			s := get(p.Source, p.Asset)
			s.Output = new(big.Int).Add(s.Output, p.Amount)
			d := get(p.Destination, p.Asset)
			d.Input = new(big.Int).Add(d.Input, p.Amount)
		}
	}
	return out
}

func checkFold(sym bool, name string) {
	db, ctrl := setupHistory(sym)
	o := findOp(sym, name)
	_ = o.run(ctrl, false, "")
	fold := foldOfPostings(db.committed)
	for acc, byAsset := range db.committed.vols {
		for as, v := range byAsset {
			f := fold[acc][as]
			if f == nil {
				f = &ledger.Volumes{Input: new(big.Int), Output: new(big.Int)}
			}
			verifAssert("C02:volumes-equal-fold-of-committed-postings", v.Input.Cmp(f.Input) == 0 && v.Output.Cmp(f.Output) == 0)
		}
	}
	for acc, byAsset := range fold {
		for as, f := range byAsset {
			v := db.committedVolumes(acc, as)
			verifAssert("C02:every-posting-is-reflected", v.Input.Cmp(f.Input) == 0 && v.Output.Cmp(f.Output) == 0)
		}
	}
	verifReach("end")
}

func isRetryable(err error) bool {
	return errors.Is(err, errDeadlock) || errors.Is(err, errSerialization)
}

var _ = machine.ErrInsufficientFund{}
