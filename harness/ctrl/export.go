package ledger

// Exported doors to the store model and the shared history, for harnesses that
// live in other packages (api/bulking, controller/system).

import (
	ledger "github.com/formancehq/ledger/internal"
)

type VerifDB = mDB

func VerifSetupHistory(sym bool) (*mDB, *DefaultController) { return setupHistory(sym) }

func VerifNewController(db *mDB) *DefaultController { return newTestController(db) }

func (db *mDB) VerifClone() *mDB { return db.clone() }

// VerifStateDiff: "" when the committed states are observably equal.
func VerifStateDiff(a, b *mDB, strict bool) string { return stateDiff(a.committed, b.committed, strict) }

// VerifStateDiffNoTimes compares two runs made at different instants: wall-clock values are skipped.
func VerifStateDiffNoTimes(a, b *mDB) string {
	ignoreTimes = true
	d := stateDiff(a.committed, b.committed, false)
	ignoreTimes = false
	return d
}

func (db *mDB) VerifSetFaults(n int) { db.faultBudget = n }
func (db *mDB) VerifFaultsLeft() int  { return db.faultBudget }
func (db *mDB) VerifLogCount() int    { return len(db.committed.logs) }
func (db *mDB) VerifTxCount() int     { return len(db.committed.txs) }
func (db *mDB) VerifCommits() int     { return db.commits }
func (db *mDB) VerifLedger() ledger.Ledger { return db.ledger }
func (db *mDB) VerifLastLogID() uint64 {
	if n := len(db.committed.logs); n > 0 {
		return *db.committed.logs[n-1].ID
	}
	return 0
}
func (db *mDB) VerifState() string         { return db.state }
func (db *mDB) VerifSetState(s string)     { db.state = s; db.ledger.State = s }
func (db *mDB) VerifSeqs() (uint64, uint64) { return db.txSeq, db.logSeq }
func (db *mDB) VerifSetSeqs(tx, log uint64) { db.txSeq, db.logSeq = tx, log }

// VerifRecListener exposes the recording listener of the C31 harnesses.
type VerifRecListener = recListener

func VerifNewListener(db *mDB) *recListener { return &recListener{db: db} }
func (l *recListener) VerifCount() int      { return len(l.events) }
func (l *recListener) VerifCommittedLogsAt(i int) int {
	return l.events[i].committedLogs
}

func VerifPostingsEqual(a, b ledger.Postings) bool { return postingsEqual(a, b) }
