package ledger

// Exported doors to the store model and the shared history, for harnesses that
// live in other packages (api/bulking, controller/system).

import (
	"errors"

	ledger "github.com/formancehq/ledger/internal"
)

type VerifDB = mDB

func VerifSetupHistory(sym bool) (*mDB, *DefaultController) { return setupHistory(sym) }

func VerifNewController(db *mDB) *DefaultController { return newTestController(db) }

func (db *mDB) VerifClone() *mDB { return db.clone() }

// VerifStateDiff: "" when the committed states are observably equal.
func VerifStateDiff(a, b *mDB, strict bool) string { return stateDiff(a.committed, b.committed, strict) }

// VerifStateDiffNoTimes compares two runs made at different instants: wall-clock values are skipped.
func VerifStateDiffNoTimes(a, b *mDB) string {
	ignoreTimes = true
	d := stateDiff(a.committed, b.committed, false)
	ignoreTimes = false
	return d
}

func (db *mDB) VerifSetFaults(n int) { db.faultBudget = n }
func (db *mDB) VerifFaultsLeft() int  { return db.faultBudget }
func (db *mDB) VerifLogCount() int    { return len(db.committed.logs) }
func (db *mDB) VerifTxCount() int     { return len(db.committed.txs) }
func (db *mDB) VerifCommits() int     { return db.commits }
func (db *mDB) VerifLedger() ledger.Ledger { return db.ledger }
func (db *mDB) VerifLastLogID() uint64 {
	if n := len(db.committed.logs); n > 0 {
		return *db.committed.logs[n-1].ID
	}
	return 0
}
func (db *mDB) VerifState() string         { return db.committed.ledgerState }
func (db *mDB) VerifSetState(s string)     { db.committed.ledgerState = s; db.ledger.State = s }

// the statements the ledger state tracker issues on the *bun.Tx / connection it holds, as the store model sees them

// VerifTxSetInUse: UPDATE _system.ledgers SET state = 'in-use' WHERE id = ? AND state = 'initializing', inside the SQL
// transaction the current thread began last; returns the number of rows affected.
func (db *mDB) VerifTxSetInUse() (int64, error) {
	s := db.txOfThread[verifThreadID()]
	if s == nil || s.tx == nil || s.tx.done {
		return 0, errors.New("sql: no open transaction")
	}
	if err := s.enter("UpdateLedgerState"); err != nil {
		return 0, err
	}
	s.refresh()
	if s.state().ledgerState != ledger.StateInitializing {
		return 0, nil
	}
	s.apply(func(st *mState) { st.ledgerState = ledger.StateInUse })
	return 1, nil
}

// VerifTxSetval: SELECT setval(<sequence>, (SELECT max(id) FROM <table> WHERE ledger = ..)) in that transaction
// (sequence changes are not transactional).
func (db *mDB) VerifTxSetval(transactions bool) error {
	s := db.txOfThread[verifThreadID()]
	if s == nil || s.tx == nil || s.tx.done {
		return errors.New("sql: no open transaction")
	}
	if err := s.enter("Setval"); err != nil {
		return err
	}
	s.refresh()
	var max uint64
	if transactions {
		for _, t := range s.state().txs {
			if t.ID != nil && *t.ID > max {
				max = *t.ID
			}
		}
		if max > 0 { // setval is strict: on an empty table its argument is NULL, it returns NULL and leaves the sequence alone
			db.txSeq = max
		}
		return nil
	}
	for _, l := range s.state().logs {
		if l.ID != nil && *l.ID > max {
			max = *l.ID
		}
	}
	if max > 0 {
		db.logSeq = max
	}
	return nil
}

// VerifReadState: SELECT state FROM _system.ledgers WHERE id = ? on a plain connection (READ COMMITTED)
func (db *mDB) VerifReadState() string { return db.committed.ledgerState }
func (db *mDB) VerifSeqs() (uint64, uint64) { return db.txSeq, db.logSeq }
func (db *mDB) VerifSetSeqs(tx, log uint64) { db.txSeq, db.logSeq = tx, log }

// VerifRecListener exposes the recording listener of the C31 harnesses.
type VerifRecListener = recListener

func VerifNewListener(db *mDB) *recListener { return &recListener{db: db} }
func (l *recListener) VerifCount() int      { return len(l.events) }
func (l *recListener) VerifCommittedLogsAt(i int) int {
	return l.events[i].committedLogs
}

func VerifPostingsEqual(a, b ledger.Postings) bool { return postingsEqual(a, b) }

// VerifNewDB: a fresh ledger (state initializing, no row, sequences at 0)
func VerifNewDB(name string, id int) *mDB {
	l := mkLedger(name, id, nil)
	l.State = ledger.StateInitializing
	return newMDB(l)
}

func (db *mDB) VerifSetConcurrent(on bool) { db.concurrent = on }

// VerifMaxIDs: the greatest committed transaction and log ids
func (db *mDB) VerifMaxIDs() (tx, log uint64) {
	for _, t := range db.committed.txs {
		if t.ID != nil && *t.ID > tx {
			tx = *t.ID
		}
	}
	for _, l := range db.committed.logs {
		if l.ID != nil && *l.ID > log {
			log = *l.ID
		}
	}
	return
}

func VerifPosting(src, dst, asset, amount string) ledger.Posting { return P(src, dst, asset, amount) }

// VerifCreate: a postings request as the API builds it
func VerifCreate(ps ...ledger.Posting) Parameters[CreateTransaction] {
	data := ledger.NewTransactionData().WithPostings(ps...)
	return Parameters[CreateTransaction]{Input: CreateTransaction{RunScript: TxToScriptData(data, false)}}
}

// VerifRunAllOps: every write request of the operation list, in order, on top of the current history (failures are
// part of a history too): reverts (plain, at effective date, forced), metadata writes and deletes, a schema insert ...
func VerifRunAllOps(ctrl Controller) int {
	ok := 0
	// a revert at the effective date of a transaction that is not reverted otherwise (its revert carries the
	// reverted transaction's timestamp, not the instant of the revert)
	if _, _, _, err := ctrl.RevertTransaction(bg, Parameters[RevertTransaction]{Input: RevertTransaction{TransactionID: 3, AtEffectiveDate: true}}); err == nil {
		ok++
	} else {
		panic("history: the effective-date revert of transaction 3 failed: " + err.Error())
	}
	burned := false
	for i, o := range makeOps(false) {
		if !burned && i >= 2 && !o.fails {
			// a dry run in the middle of the history: it draws a log id from the sequence and rolls back, so the
			// committed log ids have a gap (sequences are not transactional)
			if r := o.run(ctrl, true, ""); r.err == nil {
				burned = true
			}
		}
		if r := o.run(ctrl, false, ""); r.err == nil {
			ok++
		}
	}
	return ok
}

// VerifStateDiffImport: the relation a copy made by export + import must satisfy: everything observable, time stamps
// included (an import writes the recorded instants), except the rows' own insertion / update stamps of accounts
// (set when the copy is written).
func VerifStateDiffImport(a, b *mDB) string {
	if d := stateDiff(a.committed, b.committed, false); d != "" {
		return d
	}
	if len(a.committed.logs) != len(b.committed.logs) {
		return "logs"
	}
	for i := range a.committed.logs {
		x, y := a.committed.logs[i], b.committed.logs[i]
		if *x.ID != *y.ID || x.Type != y.Type || x.IdempotencyKey != y.IdempotencyKey || !x.Date.Equal(y.Date) || x.SchemaVersion != y.SchemaVersion {
			return "logs"
		}
	}
	return ""
}
