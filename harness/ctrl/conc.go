package ledger

// Concurrent writers on the store model (dbmodel in concurrent mode): logical
// threads switch at statement boundaries, a statement sees what is committed
// plus its own transaction's writes, row / unique-key / advisory locks are held
// until the transaction ends. Every interleaving of two writers is explored;
// amounts and balances stay symbolic.

import (
	"errors"
	"math/big"

	"github.com/formancehq/go-libs/v5/pkg/storage/postgres"
	"github.com/formancehq/go-libs/v5/pkg/types/metadata"

	ledger "github.com/formancehq/ledger/internal"
	"github.com/formancehq/ledger/internal/machine"
	"github.com/formancehq/ledger/internal/machine/vm"
	"github.com/formancehq/ledger/pkg/features"
)

func concSetup(sym bool, feats features.FeatureSet) *mDB {
	db := newMDB(mkLedger("l1", 7, feats))
	ctrl := newTestController(db)
	must := func(err error) {
		if err != nil {
			verifAssume(false)
		}
	}
	// accounts a and e exist and hold funds (rows exist: never-used pairs under concurrency are outside the claim)
	_, _, _, err := createFromPostings(ctrl, []ledger.Posting{Pa("world", "a", "USD/2", amt(sym, "h.a", "100")), Pa("world", "e", "USD/2", amt(sym, "h.e", "40"))}, false, false, "", "")
	must(err)
	_, _, _, err = createFromPostings(ctrl, []ledger.Posting{Pa("a", "b", "USD/2", amt(sym, "h.ab", "30"))}, false, false, "", "")
	must(err)
	db.calls = nil
	db.commits = 0
	db.concurrent = true
	return db
}

func isInsufficient(err error) bool { return errors.Is(err, &machine.ErrInsufficientFund{}) }
func isDeadlock(err error) bool     { return errors.Is(err, postgres.ErrDeadlockDetected) }

type writer func(ctrl *DefaultController) opResult

func spend(src, dst string, amount *big.Int, ik string) writer {
	return func(ctrl *DefaultController) opResult {
		log, out, hit, err := createFromPostings(ctrl, []ledger.Posting{Pa(src, dst, "USD/2", amount)}, false, false, ik, "")
		r := opResult{log: log, hit: hit, err: err}
		if out != nil {
			r.tx = &out.Transaction
		}
		return r
	}
}

func spendOverdraft(src, dst string, amount, upTo *big.Int) writer {
	return func(ctrl *DefaultController) opResult {
		script := "vars {\n monetary $m\n monetary $o\n}\nsend $m (\n source = @" + src + " allowing overdraft up to $o\n destination = @" + dst + "\n)"
		log, out, hit, err := ctrl.CreateTransaction(bg, Parameters[CreateTransaction]{Input: CreateTransaction{RunScript: vm.RunScript{Script: vm.Script{Plain: script,
			Vars: map[string]string{"m": "USD/2 " + amount.String(), "o": "USD/2 " + upTo.String()}}}}})
		r := opResult{log: log, hit: hit, err: err}
		if out != nil {
			r.tx = &out.Transaction
		}
		return r
	}
}

func revertOf(id uint64, force bool) writer {
	return func(ctrl *DefaultController) opResult {
		log, out, hit, err := ctrl.RevertTransaction(bg, Parameters[RevertTransaction]{Input: RevertTransaction{TransactionID: id, Force: force, Metadata: metadata.Metadata{}}})
		r := opResult{log: log, hit: hit, err: err}
		if out != nil {
			r.tx = &out.RevertTransaction
		}
		return r
	}
}

func runTwo(db *mDB, w1, w2 writer) (opResult, opResult) {
	var r1, r2 opResult
	verifSpawn("w1", func() { r1 = w1(newTestController(db)) })
	verifSpawn("w2", func() { r2 = w2(newTestController(db)) })
	verifJoin()
	return r1, r2
}

func applied(r opResult, x *big.Int) *big.Int {
	if r.err == nil {
		return x
	}
	return new(big.Int)
}

// C06: two spenders of one account
func checkTwoSpenders(sym bool, overdraft bool) {
	db := concSetup(sym, nil)
	pre := balanceOf(db, "a", "USD/2")
	x1, x2 := amt(sym, "w1.amount", "50"), amt(sym, "w2.amount", "40")
	allowance := new(big.Int)
	var r1, r2 opResult
	if overdraft {
		allowance = amt(sym, "allowance", "20")
		r1, r2 = runTwo(db, spendOverdraft("a", "c", x1, allowance), spendOverdraft("a", "d", x2, allowance))
	} else {
		r1, r2 = runTwo(db, spend("a", "c", x1, ""), spend("a", "d", x2, ""))
	}
	post := balanceOf(db, "a", "USD/2")
	floor := new(big.Int).Neg(allowance)
	verifAssert("C06:balance-never-below-the-allowance-under-any-interleaving", post.Cmp(floor) >= 0)
	want := new(big.Int).Sub(new(big.Int).Sub(pre, applied(r1, x1)), applied(r2, x2))
	verifAssert("C02:volumes-equal-the-fold-of-the-committed-writes", post.Cmp(want) == 0)
	for _, r := range []opResult{r1, r2} {
		if r.err != nil {
			verifAssert("C06:a-refused-writer-is-refused-for-funds-or-deadlock", isInsufficient(r.err) || isDeadlock(r.err))
		}
	}
	// a writer that could be paid after the other one committed is not refused for funds
	if r1.err == nil && r2.err != nil && isInsufficient(r2.err) {
		verifAssert("C06:refusal-is-justified-by-the-committed-balance", new(big.Int).Sub(new(big.Int).Sub(pre, x1), x2).Cmp(floor) < 0)
	}
	if r2.err == nil && r1.err != nil && isInsufficient(r1.err) {
		verifAssert("C06:refusal-is-justified-by-the-committed-balance", new(big.Int).Sub(new(big.Int).Sub(pre, x1), x2).Cmp(floor) < 0)
	}
	verifAssert("C08:one-log-per-committed-write", len(db.committed.logs) == 2+map[bool]int{true: 1}[r1.err == nil]+map[bool]int{true: 1}[r2.err == nil])
	verifReach("end")
}

// C06 on a pair that has no volumes row yet: two writers overdraw a never-used account within an allowance
func checkTwoSpendersFreshPair(sym bool) {
	db := concSetup(sym, nil)
	db.freshPairs = true
	x1, x2 := amt(sym, "w1.amount", "15"), amt(sym, "w2.amount", "12")
	allowance := amt(sym, "allowance", "20")
	r1, r2 := runTwo(db, spendOverdraft("fresh", "c", x1, allowance), spendOverdraft("fresh", "d", x2, allowance))
	post := balanceOf(db, "fresh", "USD/2")
	floor := new(big.Int).Neg(allowance)
	verifAssert("C06:balance-of-a-never-used-account-never-below-the-allowance-under-any-interleaving", post.Cmp(floor) >= 0)
	want := new(big.Int).Neg(new(big.Int).Add(applied(r1, x1), applied(r2, x2)))
	verifAssert("C02:volumes-equal-the-fold-of-the-committed-writes", post.Cmp(want) == 0)
	verifReach("end")
}

// C06: a spender races with a non-forced revert of the transfer that funded the spender's account
func checkSpendVsRevert(sym bool) {
	db := concSetup(sym, nil)
	preB := balanceOf(db, "b", "USD/2")
	x := amt(sym, "w1.amount", "20")
	r1, r2 := runTwo(db, spend("b", "c", x, ""), revertOf(2, false))
	post := balanceOf(db, "b", "USD/2")
	verifAssert("C06:balance-never-negative-under-any-interleaving", post.Sign() >= 0)
	want := new(big.Int).Set(preB)
	if r1.err == nil {
		want.Sub(want, x)
	}
	if r2.err == nil {
		want.Sub(want, db.committed.txs[1].Postings[0].Amount)
	}
	verifAssert("C02:volumes-equal-the-fold-of-the-committed-writes", post.Cmp(want) == 0)
	verifReach("end")
}

// C15: two concurrent reverts of one transaction
func checkTwoReverts(sym bool) {
	db := concSetup(sym, nil)
	r1, r2 := runTwo(db, revertOf(2, true), revertOf(2, true))
	ok := 0
	for _, r := range []opResult{r1, r2} {
		if r.err == nil {
			ok++
		} else {
			verifAssert("C15:the-losing-revert-is-already-reverted-or-deadlock", errors.Is(r.err, ErrAlreadyReverted{}) || isDeadlock(r.err))
		}
	}
	verifAssert("C15:at-most-one-concurrent-revert-succeeds", ok <= 1)
	verifAssert("C15:exactly-one-revert-transaction", len(db.committed.txs) == 2+ok)
	verifReach("end")
}

// C13: two concurrent requests under one idempotency key
func checkTwoSameIK(sym bool, sameInput bool, spendAll bool) {
	db := concSetup(sym, nil)
	pre := balanceOf(db, "a", "USD/2")
	x := amt(sym, "w.amount", "60")
	if spendAll {
		x = new(big.Int).Set(pre) // the second execution could not be paid once the first has committed
	}
	w1 := spend("a", "c", x, "ik-c")
	w2 := w1
	if !sameInput {
		w2 = spend("a", "d", x, "ik-c")
	}
	r1, r2 := runTwo(db, w1, w2)
	effects := len(db.committed.txs) - 2
	verifAssert("C13:at-most-one-effect-per-idempotency-key", effects <= 1 && len(db.committed.logs)-2 == effects)
	post := balanceOf(db, "a", "USD/2")
	if effects == 1 {
		verifAssert("C13:the-effect-is-applied-once", post.Cmp(new(big.Int).Sub(pre, x)) == 0)
	}
	for i, r := range []opResult{r1, r2} {
		other := []opResult{r2, r1}[i]
		if r.err == nil {
			if other.err == nil {
				verifAssert("C13:two-successes-are-one-write-and-one-hit", r.hit != other.hit && *r.log.ID == *other.log.ID)
			}
			continue
		}
		if sameInput {
			// the same request under the same key: the caller gets the original result, or a retryable/conflict error —
			// never a business error that contradicts the committed outcome
			if other.err == nil {
				verifAssert("C13:no-business-error-contradicting-the-committed-outcome", !isInsufficient(r.err))
			}
		} else {
			verifAssert("C13:different-input-under-the-key-is-a-validation-or-conflict-error", errors.Is(r.err, ErrInvalidIdempotencyInput{}) || isInsufficient(r.err) || isDeadlock(r.err) || other.err != nil)
		}
	}
	verifReach("end")
}

// C16 / C09: ids against commit order, hash chain
func checkIDsAndChain(sym bool, feats features.FeatureSet) {
	db := concSetup(sym, feats)
	r1, r2 := runTwo(db, spend("a", "c", amt(sym, "w1.amount", "10"), ""), spend("e", "d", amt(sym, "w2.amount", "10"), ""))
	verifAssert("C16:disjoint-writers-both-commit", r1.err == nil && r2.err == nil)
	// uniqueness
	seenTx, seenLog := map[uint64]bool{}, map[uint64]bool{}
	for _, t := range db.committed.txs {
		verifAssert("C16:transaction-ids-are-unique", !seenTx[*t.ID])
		seenTx[*t.ID] = true
	}
	for _, l := range db.committed.logs {
		verifAssert("C16:log-ids-are-unique", !seenLog[*l.ID])
		seenLog[*l.ID] = true
	}
	// commit order (commitLog lists "tx:<id>" / "log:<id>" of each transaction in commit order)
	var lastTx, lastLog uint64
	for _, n := range db.commitLog {
		var id uint64
		if _, err := fmtSscanf(n, "tx:%d", &id); err == nil {
			verifAssert("C16:transaction-ids-increase-in-commit-order", id > lastTx)
			lastTx = id
		} else if _, err := fmtSscanf(n, "log:%d", &id); err == nil {
			verifAssert("C16:log-ids-increase-in-commit-order", id > lastLog)
			lastLog = id
		}
	}
	if db.ledger.HasFeature(features.FeatureHashLogs, "SYNC") {
		// every log chains from the log with the next smaller id, none from the same predecessor
		preds := map[byte]bool{}
		for _, l := range db.committed.logs {
			if len(l.Hash) == 3 {
				verifAssert("C09:no-two-logs-chain-from-the-same-predecessor", !preds[l.Hash[2]])
				preds[l.Hash[2]] = true
				verifAssert("C09:chain-follows-log-id-order", uint64(l.Hash[2]) == *l.ID-1)
			}
		}
	}
	verifReach("end")
}

func fmtSscanf(s, format string, id *uint64) (int, error) {
	// tiny parser for "tx:<n>" / "log:<n>" (fmt.Sscanf is not modelled by the executor)
	prefix := format[:len(format)-2]
	if len(s) <= len(prefix) || s[:len(prefix)] != prefix {
		return 0, errors.New("no match")
	}
	var n uint64
	for _, c := range s[len(prefix):] {
		if c < '0' || c > '9' {
			return 0, errors.New("no match")
		}
		n = n*10 + uint64(c-'0')
	}
	*id = n
	return 1, nil
}

func Harness_CONC_two_spenders()            { checkTwoSpenders(false, false) }
func Harness_CONC_two_spenders_overdraft()  { checkTwoSpenders(false, true) }
func Harness_CONCS_two_spenders()           { checkTwoSpenders(true, false) }
func Harness_CONCS_two_spenders_overdraft() { checkTwoSpenders(true, true) }
func Harness_CONC_two_spenders_fresh_pair()  { checkTwoSpendersFreshPair(false) }
func Harness_CONCS_two_spenders_fresh_pair() { checkTwoSpendersFreshPair(true) }
func Harness_CONC_spend_vs_revert()         { checkSpendVsRevert(false) }
func Harness_CONCS_spend_vs_revert()        { checkSpendVsRevert(true) }
func Harness_CONC_two_reverts()             { checkTwoReverts(false) }
func Harness_CONC_same_ik_same_input()      { checkTwoSameIK(false, true, false) }
func Harness_CONC_same_ik_spend_all()       { checkTwoSameIK(false, true, true) }
func Harness_CONCS_same_ik_spend_all()      { checkTwoSameIK(true, true, true) }
func Harness_CONC_same_ik_other_input()     { checkTwoSameIK(false, false, false) }
func Harness_CONC_ids_sync()                { checkIDsAndChain(false, nil) }
func Harness_CONC_ids_nohash()              { checkIDsAndChain(false, features.DefaultFeatures.With(features.FeatureHashLogs, "DISABLED")) }
