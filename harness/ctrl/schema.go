package ledger

// C29: schema enforcement. The real runLog / createTransaction / saveAccountMetadata /
// ValidateWithSchema / FindAccountSchema / AccountsWithDefaultMetadata run on the
// store model, for both enforcement modes, every way of (not) naming a schema
// version, with and without transaction templates. The destination account has a
// symbolic last segment, so whether the chart accepts it is the solver's call.

import (
	"encoding/json"
	"errors"
	"regexp"

	"github.com/formancehq/go-libs/v5/pkg/types/metadata"

	ledger "github.com/formancehq/ledger/internal"
	"github.com/formancehq/ledger/internal/machine/vm"
)

const schemaChart = `{
	"world": {},
	"bank": {},
	"acc": {
		"$id": {".pattern": "^[0-9]+$", ".metadata": {"tier": {"default": "std"}}},
		"pending": {"in": {}, "out": {}}
	}
}`

var (
	schemaSegAlphabet = regexp.MustCompile(`^[a-zA-Z0-9_-]+$`)
	schemaDigits      = regexp.MustCompile(`^[0-9]+$`)
)

// the chart above, as a predicate on "acc:<seg>"
func chartAcceptsAcc(seg string) bool { return schemaDigits.MatchString(seg) }

const schemaScript = `
vars {
	account $dst
}
send [USD/2 10] (
	source = @world
	destination = $dst
)
`

func setupSchemaLedger(mode SchemaEnforcementMode, withTemplates bool) (*mDB, *DefaultController) {
	db := newMDB(mkLedger("l1", 7, nil))
	ctrl := newTestController(db, WithSchemaEnforcementMode(mode))
	var chart ledger.ChartOfAccounts
	if err := json.Unmarshal([]byte(schemaChart), &chart); err != nil {
		panic("bad chart in harness: " + err.Error())
	}
	data := ledger.SchemaData{Chart: chart}
	if withTemplates {
		data.Transactions = ledger.TransactionTemplates{"deposit": {Script: schemaScript}}
	}
	if _, _, _, err := ctrl.InsertSchema(bg, Parameters[InsertSchema]{Input: InsertSchema{Version: "v1", Data: data}}); err != nil {
		panic("schema setup failed: " + err.Error())
	}
	return db, ctrl
}

func checkSchemaCreate(mode SchemaEnforcementMode, version string, withTemplates bool, useTemplate bool) {
	db, ctrl := setupSchemaLedger(mode, withTemplates)
	pre := db.clone()
	seg := nondetStr("segment", 3)
	verifAssume(schemaSegAlphabet.MatchString(seg))
	dst := "acc:" + seg
	in := CreateTransaction{RunScript: vm.RunScript{Script: vm.Script{Vars: map[string]string{"dst": dst}}}}
	if useTemplate {
		in.Template = "deposit"
	} else {
		in.Plain = schemaScript
	}
	_, out, _, err := ctrl.CreateTransaction(bg, Parameters[CreateTransaction]{SchemaVersion: version, Input: in})
	strict := mode == SchemaEnforcementStrict
	if err != nil {
		verifAssert("C29:rejected-write-has-no-effect", stateDiff(pre.committed, db.committed, true) == "")
		switch {
		case version == "":
			verifAssert("C29:missing-version-is-refused-only-in-strict-mode", strict && errors.Is(err, ErrSchemaNotSpecified{}))
		case version != "v1":
			verifAssert("C29:unknown-version-is-refused", errors.Is(err, ErrSchemaNotFound{}))
		default:
			// a known version: refused for the chart (strict), a missing/unknown template, or a template used without template definitions
			verifAssert("C29:known-version-refusal-is-a-schema-validation-error", errors.Is(err, ErrSchemaValidationError{}))
			chartOK := chartAcceptsAcc(seg)
			templateOK := (withTemplates && useTemplate) || (!withTemplates && !useTemplate) || (withTemplates && !useTemplate && !strict)
			verifAssert("C29:refused-only-for-a-reason-the-schema-gives", !chartOK && strict || !templateOK)
		}
		verifReach("rejected")
		verifReach("end")
		return
	}
	// accepted
	if strict {
		verifAssert("C29:strict-acceptance-names-an-existing-schema", version == "v1")
		verifAssert("C29:strict-acceptance-means-the-chart-accepts-every-posting-account", chartAcceptsAcc(seg))
		if withTemplates {
			verifAssert("C29:strict-acceptance-uses-a-template-when-templates-exist", useTemplate)
		}
	}
	if version != "" {
		verifAssert("C29:accepted-version-exists", version == "v1")
	}
	verifAssert("C29:posting-uses-the-submitted-account", out.Transaction.Postings[0].Destination == dst)
	// chart defaults apply on the first insert of the account, when the write named the schema
	acc := db.committed.accounts[dst]
	verifAssert("C29:account-upserted", acc != nil)
	if acc != nil && version == "v1" && chartAcceptsAcc(seg) {
		verifAssert("C29:chart-default-metadata-on-first-insert", acc.Metadata["tier"] == "std")
	}
	// ... and only then: a later write with explicit metadata overrides, a later plain write leaves it
	_, _, err = ctrl.SaveAccountMetadata(bg, Parameters[SaveAccountMetadata]{SchemaVersion: version, Input: SaveAccountMetadata{Address: dst, Metadata: metadata.Metadata{"tier": "gold"}}})
	if err == nil {
		verifAssert("C29:explicit-metadata-wins-over-the-default", db.committed.accounts[dst].Metadata["tier"] == "gold")
		_, _, _, err2 := ctrl.CreateTransaction(bg, Parameters[CreateTransaction]{SchemaVersion: version, Input: in})
		if err2 == nil {
			verifAssert("C29:defaults-are-not-reapplied-to-an-existing-account", db.committed.accounts[dst].Metadata["tier"] == "gold")
		}
	}
	verifReach("accepted")
	verifReach("end")
}

func Harness_SCHEMA_strict_v1()              { checkSchemaCreate(SchemaEnforcementStrict, "v1", false, false) }
func Harness_SCHEMA_strict_none()            { checkSchemaCreate(SchemaEnforcementStrict, "", false, false) }
func Harness_SCHEMA_strict_unknown()         { checkSchemaCreate(SchemaEnforcementStrict, "v9", false, false) }
func Harness_SCHEMA_audit_v1()               { checkSchemaCreate(SchemaEnforcementAudit, "v1", false, false) }
func Harness_SCHEMA_audit_none()             { checkSchemaCreate(SchemaEnforcementAudit, "", false, false) }
func Harness_SCHEMA_audit_unknown()          { checkSchemaCreate(SchemaEnforcementAudit, "v9", false, false) }
func Harness_SCHEMA_strict_v1_tpl_used()     { checkSchemaCreate(SchemaEnforcementStrict, "v1", true, true) }
func Harness_SCHEMA_strict_v1_tpl_unused()   { checkSchemaCreate(SchemaEnforcementStrict, "v1", true, false) }
func Harness_SCHEMA_audit_v1_tpl_unused()    { checkSchemaCreate(SchemaEnforcementAudit, "v1", true, false) }
func Harness_SCHEMA_strict_v1_tpl_undefined() { checkSchemaCreate(SchemaEnforcementStrict, "v1", false, true) }
func Harness_SCHEMA_audit_v1_tpl_used()      { checkSchemaCreate(SchemaEnforcementAudit, "v1", true, true) }

// A request that names a template and also carries a script of its own: "uses a template" means the
// template's script is the one that runs (here the caller's script would move 999 to @bank, which the
// chart accepts, so only the template rule stands in the way).
const schemaOwnScript = `
vars {
	account $dst
}
send [USD/2 999] (
	source = @world
	destination = @bank
)
set_account_meta($dst, "seen", "yes")
`

func checkTemplateAndOwnScript(mode SchemaEnforcementMode) {
	db, ctrl := setupSchemaLedger(mode, true)
	pre := db.clone()
	seg := nondetStr("segment", 3)
	verifAssume(schemaSegAlphabet.MatchString(seg))
	dst := "acc:" + seg
	in := CreateTransaction{RunScript: vm.RunScript{Script: vm.Script{Plain: schemaOwnScript, Template: "deposit", Vars: map[string]string{"dst": dst}}}}
	_, out, _, err := ctrl.CreateTransaction(bg, Parameters[CreateTransaction]{SchemaVersion: "v1", Input: in})
	if err != nil {
		verifAssert("C29:rejected-write-has-no-effect", stateDiff(pre.committed, db.committed, true) == "")
		verifReach("rejected")
		verifReach("end")
		return
	}
	ps := out.Transaction.Postings
	verifAssert("C29:a-named-template-is-the-script-that-runs", len(ps) == 1 && ps[0].Destination == dst && ps[0].Amount.Int64() == 10)
	if mode == SchemaEnforcementStrict {
		verifAssert("C29:strict-acceptance-means-the-chart-accepts-every-posting-account", chartAcceptsAcc(seg))
	}
	verifReach("accepted")
	verifReach("end")
}

func Harness_SCHEMA_strict_v1_tpl_and_own_script() { checkTemplateAndOwnScript(SchemaEnforcementStrict) }
func Harness_SCHEMA_audit_v1_tpl_and_own_script()  { checkTemplateAndOwnScript(SchemaEnforcementAudit) }
