package ledger

// C36 at controller level: amounts of any magnitude travel exactly through
// TxToScriptData -> compiler -> VM -> CommitTransaction -> volumes / balances /
// post-commit volumes / log payload. Concrete boundary magnitudes and an
// unbounded symbolic amount.

import (
	"math/big"

	ledger "github.com/formancehq/ledger/internal"
)

func c36Check(a *big.Int) {
	db := newMDB(mkLedger("l1", 7, nil))
	ctrl := newTestController(db)
	// deposit a, then move a-1 (or 0) onward: sums and differences of huge values
	_, out1, _, err := createFromPostings(ctrl, []ledger.Posting{Pa("world", "bank", "USD/2", a)}, false, false, "", "")
	verifAssert("C36:huge-deposit-accepted", err == nil)
	if err != nil {
		return
	}
	verifAssert("C36:recorded-amount-exact", out1.Transaction.Postings[0].Amount.Cmp(a) == 0)
	v := db.committedVolumes("bank", "USD/2")
	verifAssert("C36:volume-exact", v.Input.Cmp(a) == 0 && v.Output.Sign() == 0)
	pcv := out1.Transaction.PostCommitVolumes["bank"]["USD/2"]
	verifAssert("C36:post-commit-volume-exact", pcv.Input.Cmp(a) == 0)
	part := new(big.Int).Sub(a, big.NewInt(1))
	if part.Sign() < 0 {
		part = new(big.Int)
	}
	_, out2, _, err := createFromPostings(ctrl, []ledger.Posting{Pa("bank", "alice", "USD/2", part)}, false, false, "", "")
	verifAssert("C36:huge-transfer-accepted", err == nil)
	if err != nil {
		return
	}
	verifAssert("C36:recorded-amount-exact", out2.Transaction.Postings[0].Amount.Cmp(part) == 0)
	b := db.committedVolumes("bank", "USD/2")
	verifAssert("C36:balance-exact", b.Balance().Cmp(new(big.Int).Sub(a, part)) == 0)
	al := db.committedVolumes("alice", "USD/2")
	verifAssert("C36:volume-exact", al.Input.Cmp(part) == 0)
	// one unit more than the balance must be refused: the comparison is exact as well
	over := new(big.Int).Add(new(big.Int).Sub(a, part), big.NewInt(1))
	_, _, _, err = createFromPostings(ctrl, []ledger.Posting{Pa("bank", "alice", "USD/2", over)}, false, false, "", "")
	verifAssert("C36:one-unit-too-much-is-refused", err != nil)
	// the journal carries the same numbers
	lg := db.committed.logs[0].Data.(ledger.CreatedTransaction)
	verifAssert("C36:log-payload-exact", lg.Transaction.Postings[0].Amount.Cmp(a) == 0)
	verifReach("end")
}

func Harness_C36_amount_2p53p1()  { c36Check(bi("9007199254740993")) }
func Harness_C36_amount_2p63()    { c36Check(bi("9223372036854775808")) }
func Harness_C36_amount_2p64p1()  { c36Check(bi("18446744073709551617")) }
func Harness_C36_amount_1e30()    { c36Check(bi("1000000000000000000000000000000")) }
func Harness_C36_amount_big()     { c36Check(bi("123456789012345678901234567890123456789")) }
func Harness_C36_amount_zero()    { c36Check(bi("0")) }
func Harness_C36_amount_symbolic() {
	a := nondetBig("a")
	verifAssume(a.Sign() >= 0)
	c36Check(a)
}
