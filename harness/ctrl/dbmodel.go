package ledger

// dbmodel — the Store as the controller sees it: an in-memory model of the SQL
// store's documented behaviour (tables, unique keys, sequences, transactional
// write sets, "a failed statement aborts the transaction"). It is ordinary Go, so
// gosym executes it symbolically like any other code, and the native replay build
// runs it as is. It is part of the trusted base (see DESIGN.md §2.5).

import (
	"context"
	"database/sql"
	"errors"
	"fmt"
	"math/big"
	"sort"

	"github.com/uptrace/bun"

	"github.com/formancehq/go-libs/v5/pkg/storage/bun/paginate"
	"github.com/formancehq/go-libs/v5/pkg/storage/migrations"
	"github.com/formancehq/go-libs/v5/pkg/storage/postgres"
	"github.com/formancehq/go-libs/v5/pkg/types/metadata"
	"github.com/formancehq/go-libs/v5/pkg/types/time"

	ledger "github.com/formancehq/ledger/internal"
	"github.com/formancehq/ledger/internal/storage/common"
	ledgerstore "github.com/formancehq/ledger/internal/storage/ledger"
	"github.com/formancehq/ledger/pkg/features"
)

type mAccount struct {
	Address       string
	FirstUsage    time.Time
	InsertionDate time.Time
	UpdatedAt     time.Time
	Metadata      metadata.Metadata
}

type mMove struct {
	TxID     uint64
	IsSource bool
	Account  string
	Asset    string
	Amount   *big.Int
}

type mState struct {
	txs      []*ledger.Transaction
	logs     []*ledger.Log
	vols     map[string]map[string]*ledger.Volumes
	accounts map[string]*mAccount
	moves    []mMove
	schemas  []*ledger.Schema
	// the state column of this ledger's row in _system.ledgers (transactional like everything else)
	ledgerState string
}

func newMState() *mState {
	return &mState{vols: map[string]map[string]*ledger.Volumes{}, accounts: map[string]*mAccount{}}
}

func cloneMeta(m metadata.Metadata) metadata.Metadata {
	if m == nil {
		return nil
	}
	r := metadata.Metadata{}
	for k, v := range m {
		r[k] = v
	}
	return r
}

func cloneTx(t *ledger.Transaction) *ledger.Transaction {
	c := *t
	c.Postings = make(ledger.Postings, len(t.Postings))
	for i, p := range t.Postings {
		c.Postings[i] = ledger.Posting{Source: p.Source, Destination: p.Destination, Asset: p.Asset, Amount: new(big.Int).Set(p.Amount)}
	}
	c.Metadata = cloneMeta(t.Metadata)
	if t.ID != nil {
		id := *t.ID
		c.ID = &id
	}
	if t.RevertedAt != nil {
		r := *t.RevertedAt
		c.RevertedAt = &r
	}
	if t.PostCommitVolumes != nil {
		c.PostCommitVolumes = t.PostCommitVolumes.Copy()
	}
	if t.PostCommitEffectiveVolumes != nil {
		c.PostCommitEffectiveVolumes = t.PostCommitEffectiveVolumes.Copy()
	}
	return &c
}

func cloneLog(l *ledger.Log) *ledger.Log {
	c := *l
	if l.ID != nil {
		id := *l.ID
		c.ID = &id
	}
	if l.Hash != nil {
		c.Hash = append([]byte(nil), l.Hash...)
	}
	return &c
}

func (s *mState) clone() *mState {
	c := newMState()
	for _, t := range s.txs {
		c.txs = append(c.txs, cloneTx(t))
	}
	for _, l := range s.logs {
		c.logs = append(c.logs, cloneLog(l))
	}
	for a, byAsset := range s.vols {
		c.vols[a] = map[string]*ledger.Volumes{}
		for as, v := range byAsset {
			cp := v.Copy()
			c.vols[a][as] = &cp
		}
	}
	for a, acc := range s.accounts {
		cp := *acc
		cp.Metadata = cloneMeta(acc.Metadata)
		c.accounts[a] = &cp
	}
	c.moves = append(c.moves, s.moves...)
	c.schemas = append(c.schemas, s.schemas...)
	c.ledgerState = s.ledgerState
	return c
}

type mDB struct {
	ledger    ledger.Ledger
	committed *mState
	txSeq     uint64
	logSeq    uint64
	// initial volumes: when symbolicInitial is set, a pair never seen before has
	// arbitrary (symbolic, non-negative) volumes; otherwise zero
	symbolicInitial bool
	initial         map[string]map[string]*ledger.Volumes
	// fault injection
	faultBudget int
	faultCount  int
	// journal of store calls, for "which handle / how many times" obligations
	calls   []string
	commits int
	// the SQL transaction most recently begun by each logical thread (for statements issued on the *bun.Tx itself)
	txOfThread map[int]*mStore
	nbun       *bun.DB // native replay build: real bun over the store model's driver (nativebun.go)
	// concurrent mode: statements are yield points for the logical threads of the harness, a transaction reads
	// the latest committed state plus its own writes (READ COMMITTED), row / key / advisory locks are held until
	// the transaction ends, and Commit replays the transaction's writes on the then-current committed state
	concurrent bool
	// freshPairs: model GetBalances on (account, asset) pairs that have no row yet by PostgreSQL's one-snapshot rule for
	// a statement with a data-modifying CTE (see GetBalances); off, every pair is treated as having a row
	freshPairs bool
	locks      map[string]*mTx
	waiting    map[*mTx]string
	commitLog  []string // what committed, in commit order (for ordering obligations)
}

func newMDB(l ledger.Ledger) *mDB {
	db := &mDB{ledger: l, committed: newMState(), initial: map[string]map[string]*ledger.Volumes{}, txOfThread: map[int]*mStore{}}
	db.committed.ledgerState = ledger.StateInitializing
	return db
}

func (db *mDB) initialVolumes(account, asset string) *ledger.Volumes {
	if db.initial[account] == nil {
		db.initial[account] = map[string]*ledger.Volumes{}
	}
	if v, ok := db.initial[account][asset]; ok {
		return v
	}
	v := &ledger.Volumes{Input: new(big.Int), Output: new(big.Int)}
	if db.symbolicInitial {
		v.Input = nondetBig("vol." + account + "." + asset + ".in")
		v.Output = nondetBig("vol." + account + "." + asset + ".out")
		verifAssume(v.Input.Sign() >= 0)
		verifAssume(v.Output.Sign() >= 0)
	}
	db.initial[account][asset] = v
	return v
}

type mTx struct {
	state  *mState
	parent *mTx
	done   bool
	failed bool
	date   time.Time // transaction_date(): the statement time of its first use, constant until the transaction ends
	ops    []func(*mState) // the writes of this transaction, replayable on another base state
	held   []string        // locks held until the transaction ends
	name   string
	notes  []string
}

type mStore struct {
	db *mDB
	tx *mTx
	// a dedicated connection holding a session-level advisory lock (LockLedger outside a transaction)
	session *mTx
}

func newMStore(db *mDB) *mStore { return &mStore{db: db} }

var errAborted = errors.New("current transaction is aborted, commands ignored until end of transaction block")
var errInjected = errors.New("injected database failure")
var errDeadlock = postgres.ErrDeadlockDetected
var errSerialization = postgres.ErrSerialization

// now models the SQL function transaction_date(): constant inside one (outermost) transaction,
// the statement time otherwise.
func (s *mStore) now() time.Time {
	if s.tx == nil {
		return time.Now()
	}
	root := s.tx
	for root.parent != nil {
		root = root.parent
	}
	if root.date.IsZero() {
		root.date = time.Now()
	}
	return root.date
}

func (s *mStore) state() *mState {
	if s.tx != nil {
		return s.tx.state
	}
	return s.db.committed
}

// apply performs a write: directly on the committed state for a non-transactional handle (autocommit),
// else on the transaction's working state, remembering it for the commit-time replay.
func (s *mStore) apply(op func(st *mState)) {
	if s.tx == nil {
		op(s.db.committed)
		return
	}
	s.tx.ops = append(s.tx.ops, op)
	op(s.tx.state)
}

func (t *mTx) root() *mTx {
	for t.parent != nil {
		t = t.parent
	}
	return t
}

// refresh (concurrent mode): a new statement sees what has been committed meanwhile, plus the transaction's own writes.
func (s *mStore) refresh() {
	if !s.db.concurrent || s.tx == nil {
		return
	}
	var chain []*mTx
	for t := s.tx; t != nil; t = t.parent {
		chain = append([]*mTx{t}, chain...)
	}
	st := s.db.committed.clone()
	for _, t := range chain {
		for _, op := range t.ops {
			op(st)
		}
		t.state = st
		if t != s.tx {
			st = st.clone()
		}
	}
}

// lock acquires a row / unique-key / advisory lock for the (outermost) transaction; it blocks while another live
// transaction holds it. Closing a wait-for cycle is reported to the requester as a deadlock (PostgreSQL aborts
// one participant; which one is timing dependent).
func (s *mStore) lock(key string) error {
	if !s.db.concurrent || s.tx == nil {
		return nil
	}
	return s.lockAs(s.tx.root(), key)
}

func (s *mStore) lockAs(me *mTx, key string) error {
	if s.db.locks == nil {
		s.db.locks = map[string]*mTx{}
		s.db.waiting = map[*mTx]string{}
	}
	if owner := s.db.locks[key]; owner != nil && owner != me {
		// would waiting close a cycle?
		seen := map[*mTx]bool{}
		for o := owner; o != nil && !seen[o]; {
			seen[o] = true
			wk, ok := s.db.waiting[o]
			if !ok {
				break
			}
			o = s.db.locks[wk]
			if o == me {
				if s.tx != nil {
					s.tx.failed = true
				}
				return postgres.ErrDeadlockDetected
			}
		}
		s.db.waiting[me] = key
		verifBlockUntil("lock:"+key, func() bool { o := s.db.locks[key]; return o == nil || o == me })
		delete(s.db.waiting, me)
		s.refresh()
	}
	if s.db.locks[key] == nil {
		s.db.locks[key] = me
		me.held = append(me.held, key)
	}
	return nil
}

func (s *mStore) release() {
	if s.tx == nil || s.tx.parent != nil {
		return
	}
	for _, k := range s.tx.held {
		if s.db.locks[k] == s.tx {
			delete(s.db.locks, k)
		}
	}
	s.tx.held = nil
}

// enter is called at the beginning of every statement: journal, aborted-transaction rule, fault injection.
func (s *mStore) enter(name string) error {
	handle := "db"
	if s.tx != nil {
		handle = "tx"
	}
	s.db.calls = append(s.db.calls, handle+":"+name)
	if s.db.concurrent {
		// context switches happen before the statements through which transactions can interact (reads of shared
		// rows, lock-taking writes, log inserts) and before Commit; statements that only touch the transaction's own
		// rows (BeginTX, account upserts after the volume rows are locked, schema lookups) commute with everything
		// another transaction does and are not switch points (partial-order reduction)
		switch name {
		case "GetBalances", "CommitTransaction", "InsertLog", "ReadLogWithIdempotencyKey", "RevertTransaction",
			"UpdateTransactionMetadata", "DeleteTransactionMetadata", "Logs.Paginate", "LockLedger":
			verifYield("store:" + name)
		}
		s.refresh()
	}
	if s.tx != nil {
		if s.tx.done {
			return errors.New("sql: transaction has already been committed or rolled back")
		}
		if s.tx.failed {
			return errAborted
		}
	}
	if s.db.faultBudget > 0 {
		s.db.faultCount++
		if nondetBool("fault." + name) {
			s.db.faultBudget--
			if s.tx != nil {
				s.tx.failed = true
			}
			switch nondetChoice("faultkind."+name, 3) {
			case 0:
				return errInjected
			case 1:
				return postgres.ErrDeadlockDetected
			default:
				return postgres.ErrSerialization
			}
		}
	}
	return nil
}

func (s *mStore) fail(err error) error {
	if s.tx != nil {
		s.tx.failed = true
	}
	return err
}

// ---- transactions ----

func (s *mStore) BeginTX(ctx context.Context, options *sql.TxOptions) (Store, *bun.Tx, error) {
	if err := s.enter("BeginTX"); err != nil {
		return nil, nil, err
	}
	child := &mStore{db: s.db, tx: &mTx{state: s.state().clone(), parent: s.tx}, session: s.session}
	s.db.txOfThread[verifThreadID()] = child
	return child, s.db.bunTx(), nil
}

func (s *mStore) Commit(ctx context.Context) error {
	if s.tx == nil {
		return errors.New("cannot commit transaction: not in a transaction")
	}
	if s.tx.done {
		return errors.New("sql: transaction has already been committed or rolled back")
	}
	s.db.calls = append(s.db.calls, "tx:Commit")
	if s.db.concurrent {
		verifYield("store:Commit")
	}
	if s.tx.failed {
		s.tx.done = true
		s.release()
		return errAborted
	}
	if s.db.faultBudget > 0 && nondetBool("fault.Commit") {
		s.db.faultBudget--
		s.tx.done = true
		s.release()
		return errInjected
	}
	s.tx.done = true
	if s.tx.parent != nil {
		s.tx.parent.ops = append(s.tx.parent.ops, s.tx.ops...)
		s.tx.parent.state = s.tx.state
	} else if s.db.concurrent {
		// replay on what is committed NOW: row locks held since the statements ran guarantee that the rows this
		// transaction read-modified have not changed meanwhile
		for _, op := range s.tx.ops {
			op(s.db.committed)
		}
		s.db.commitLog = append(s.db.commitLog, s.tx.notes...)
	} else {
		s.db.committed = s.tx.state
	}
	s.db.commits++
	s.release()
	return nil
}

func (s *mStore) Rollback(ctx context.Context) error {
	if s.tx == nil {
		return errors.New("cannot rollback transaction: not in a transaction")
	}
	s.db.calls = append(s.db.calls, "tx:Rollback")
	if s.tx.done {
		return errors.New("sql: transaction has already been committed or rolled back")
	}
	s.tx.done = true
	s.release()
	return nil
}

// LockLedger: pg_advisory_xact_lock('ledger:<id>') inside a transaction (held to its end), else pg_advisory_lock on a
// dedicated connection (held until the returned release function unlocks it). Both use the same key.
func (s *mStore) LockLedger(ctx context.Context) (Store, bun.IDB, func() error, error) {
	if err := s.enter("LockLedger"); err != nil {
		return nil, nil, nil, err
	}
	if s.tx != nil {
		if s.db.concurrent {
			verifYield("store:LockLedger")
		}
		if err := s.lock("advisory:ledger"); err != nil {
			return nil, nil, nil, err
		}
		return s, s.db.bunConn(), func() error { return nil }, nil
	}
	session := &mTx{name: "session"}
	locked := &mStore{db: s.db, session: session}
	if s.db.concurrent {
		verifYield("store:LockLedger")
		if err := locked.lockAs(session, "advisory:ledger"); err != nil {
			return nil, nil, nil, err
		}
	}
	return locked, s.db.bunConn(), func() error {
		if s.db.concurrent {
			for k, o := range s.db.locks {
				if o == session {
					delete(s.db.locks, k)
				}
			}
		}
		return nil
	}, nil
}

// ---- balances / volumes ----

func volKey(account, asset string) string { return "vol:" + account + "/" + asset }

// volumesIn returns the volumes row of st, materialising it from the initial (pre-history) volumes on first touch.
func (s *mStore) volumesIn(st *mState, account, asset string) *ledger.Volumes {
	if st.vols[account] == nil {
		st.vols[account] = map[string]*ledger.Volumes{}
	}
	if v, ok := st.vols[account][asset]; ok {
		return v
	}
	iv := s.db.initialVolumes(account, asset).Copy()
	st.vols[account][asset] = &iv
	return &iv
}

func (s *mStore) volumes(account, asset string) *ledger.Volumes {
	return s.volumesIn(s.state(), account, asset)
}

func (s *mStore) GetBalances(ctx context.Context, query ledgerstore.BalanceQuery) (ledger.Balances, error) {
	if err := s.enter("GetBalances"); err != nil {
		return nil, err
	}
	// WITH ins AS (INSERT zero rows ON CONFLICT DO NOTHING) SELECT ... FOR UPDATE in (account, asset) order.
	// One statement, one snapshot: a pair that has no row when the statement starts gets one from the CTE (the insert
	// waits on a concurrent uncommitted insert of the same key), but the SELECT of the same statement does not see
	// rows the CTE inserts, nor rows committed after the statement started: such a pair yields no row — the caller
	// reads zero — and no row lock. A pair that has a row is locked (waiting if need be) and read in its latest version.
	accounts := make([]string, 0, len(query))
	for account := range query {
		accounts = append(accounts, account)
	}
	sort.Strings(accounts)
	absent := map[string]bool{}
	if s.db.concurrent && s.db.freshPairs {
		for _, account := range accounts {
			for _, asset := range query[account] {
				if !s.hasRow(account, asset) {
					absent[volKey(account, asset)] = true
				}
			}
		}
	}
	for _, account := range accounts {
		assets := append([]string(nil), query[account]...)
		sort.Strings(assets)
		for _, asset := range assets {
			if err := s.lock(volKey(account, asset)); err != nil {
				return nil, s.fail(err)
			}
			if absent[volKey(account, asset)] && !s.hasRow(account, asset) {
				acc, as := account, asset
				s.apply(func(st *mState) { s.volumesIn(st, acc, as) }) // the zero row
			}
		}
	}
	ret := ledger.Balances{}
	for account, assets := range query {
		if ret[account] == nil {
			ret[account] = map[string]*big.Int{}
		}
		for _, asset := range assets {
			if absent[volKey(account, asset)] {
				ret[account][asset] = new(big.Int) // no row in the statement's snapshot
				continue
			}
			v := s.volumes(account, asset)
			ret[account][asset] = new(big.Int).Sub(v.Input, v.Output)
		}
	}
	return ret, nil
}

// hasRow: does accounts_volumes hold a row for the pair, as this statement sees the table
func (s *mStore) hasRow(account, asset string) bool {
	st := s.state()
	if st.vols[account] == nil {
		return false
	}
	_, ok := st.vols[account][asset]
	return ok
}

func (s *mStore) CommitTransaction(ctx context.Context, tx *ledger.Transaction) error {
	if err := s.enter("CommitTransaction"); err != nil {
		return err
	}
	updates := tx.VolumeUpdates()
	// the upsert takes the row locks (in the order VolumeUpdates sorts them)
	for _, u := range updates {
		if err := s.lock(volKey(u.Account, u.Asset)); err != nil {
			return s.fail(err)
		}
	}
	if tx.Reference != "" {
		if err := s.lock("uk:transactions_reference:" + tx.Reference); err != nil {
			return s.fail(err)
		}
	}
	st := s.state()
	if tx.Reference != "" {
		for _, other := range st.txs {
			if other.Reference == tx.Reference {
				return s.fail(ledgerstore.NewErrTransactionReferenceConflict(tx.Reference))
			}
		}
	}
	if tx.ID != nil {
		for _, other := range st.txs {
			if *other.ID == *tx.ID {
				return s.fail(ledgerstore.NewErrConcurrentTransaction(*tx.ID))
			}
		}
	}
	pcv := ledger.PostCommitVolumes{}
	for _, u := range updates {
		v := s.volumesIn(st, u.Account, u.Asset)
		if pcv[u.Account] == nil {
			pcv[u.Account] = ledger.VolumesByAssets{}
		}
		pcv[u.Account][u.Asset] = ledger.Volumes{Input: new(big.Int).Add(v.Input, u.Input), Output: new(big.Int).Add(v.Output, u.Output)}
	}
	tx.PostCommitVolumes = pcv
	if tx.ID == nil {
		s.db.txSeq++ // sequences are not transactional
		id := s.db.txSeq
		for _, other := range st.txs {
			if *other.ID == id {
				// unique index transactions_ledger (ledger, id). (The real InsertTransaction maps this constraint with
				// NewErrConcurrentTransaction(*tx.ID): with an id drawn from the sequence tx.ID is nil there.)
				return s.fail(errors.New("inserting transaction: duplicate key value violates unique constraint \"transactions_ledger\" (id drawn from a sequence that is behind)"))
			}
		}
		tx.ID = &id
	}
	now := s.now()
	if tx.InsertedAt.IsZero() {
		tx.InsertedAt = now
	}
	if tx.UpdatedAt.IsZero() {
		tx.UpdatedAt = now
	}
	if tx.Timestamp.IsZero() {
		tx.Timestamp = tx.InsertedAt
	}
	stored := cloneTx(tx)
	withMoves := s.db.ledger.HasFeature(features.FeatureMovesHistory, "ON")
	if s.tx != nil {
		s.tx.root().notes = append(s.tx.root().notes, fmt.Sprintf("tx:%d", *tx.ID))
	}
	s.apply(func(st *mState) {
		for _, u := range updates {
			v := s.volumesIn(st, u.Account, u.Asset)
			v.Input = new(big.Int).Add(v.Input, u.Input)
			v.Output = new(big.Int).Add(v.Output, u.Output)
		}
		if withMoves {
			for _, p := range stored.Postings {
				st.moves = append(st.moves,
					mMove{TxID: *stored.ID, IsSource: true, Account: p.Source, Asset: p.Asset, Amount: new(big.Int).Set(p.Amount)},
					mMove{TxID: *stored.ID, IsSource: false, Account: p.Destination, Asset: p.Asset, Amount: new(big.Int).Set(p.Amount)})
			}
		}
		st.txs = append(st.txs, cloneTx(stored))
	})
	return nil
}

func findTxIn(st *mState, id uint64) *ledger.Transaction {
	for _, t := range st.txs {
		if *t.ID == id {
			return t
		}
	}
	return nil
}

func (s *mStore) findTx(id uint64) *ledger.Transaction { return findTxIn(s.state(), id) }

func (s *mStore) RevertTransaction(ctx context.Context, id uint64, at time.Time) (*ledger.Transaction, bool, error) {
	if err := s.enter("RevertTransaction"); err != nil {
		return nil, false, err
	}
	// UPDATE ... WHERE id = ? AND reverted_at IS NULL: takes the row lock, then re-evaluates on the latest version
	if err := s.lock(fmt.Sprintf("tx:%d", id)); err != nil {
		return nil, false, s.fail(err)
	}
	t := s.findTx(id)
	if t == nil {
		return nil, false, postgres.ErrNotFound
	}
	if t.RevertedAt != nil {
		return cloneTx(t), false, nil
	}
	if at.IsZero() {
		at = s.now()
	}
	s.apply(func(st *mState) {
		if t := findTxIn(st, id); t != nil {
			when := at
			t.RevertedAt = &when
			t.UpdatedAt = at
		}
	})
	return cloneTx(s.findTx(id)), true, nil
}

func (s *mStore) UpdateTransactionMetadata(ctx context.Context, id uint64, m metadata.Metadata, at time.Time) (*ledger.Transaction, bool, error) {
	if err := s.enter("UpdateTransactionMetadata"); err != nil {
		return nil, false, err
	}
	if err := s.lock(fmt.Sprintf("tx:%d", id)); err != nil {
		return nil, false, s.fail(err)
	}
	t := s.findTx(id)
	if t == nil {
		return nil, false, postgres.ErrNotFound
	}
	modified := false
	for k, v := range m {
		if old, ok := t.Metadata[k]; !ok || old != v {
			modified = true
		}
	}
	if modified {
		if at.IsZero() {
			at = s.now()
		}
		md := cloneMeta(m)
		s.apply(func(st *mState) {
			if t := findTxIn(st, id); t != nil {
				if t.Metadata == nil {
					t.Metadata = metadata.Metadata{}
				}
				for k, v := range md {
					t.Metadata[k] = v
				}
				t.UpdatedAt = at
			}
		})
	}
	return cloneTx(s.findTx(id)), modified, nil
}

func (s *mStore) DeleteTransactionMetadata(ctx context.Context, id uint64, key string, at time.Time) (*ledger.Transaction, bool, error) {
	if err := s.enter("DeleteTransactionMetadata"); err != nil {
		return nil, false, err
	}
	if err := s.lock(fmt.Sprintf("tx:%d", id)); err != nil {
		return nil, false, s.fail(err)
	}
	t := s.findTx(id)
	if t == nil {
		return nil, false, postgres.ErrNotFound
	}
	_, modified := t.Metadata[key]
	if modified {
		if at.IsZero() {
			at = s.now()
		}
		s.apply(func(st *mState) {
			if t := findTxIn(st, id); t != nil {
				delete(t.Metadata, key)
				t.UpdatedAt = at
			}
		})
	}
	return cloneTx(s.findTx(id)), modified, nil
}

// ---- accounts ----

func (s *mStore) UpdateAccountsMetadata(ctx context.Context, m map[string]metadata.Metadata, at time.Time) error {
	if err := s.enter("UpdateAccountsMetadata"); err != nil {
		return err
	}
	for _, address := range sortedKeys(m) {
		if err := s.lock("acc:" + address); err != nil {
			return s.fail(err)
		}
	}
	in := map[string]metadata.Metadata{}
	for a, md := range m {
		in[a] = cloneMeta(md)
	}
	s.apply(func(st *mState) {
		for address, md := range in {
			acc, ok := st.accounts[address]
			if !ok {
				st.accounts[address] = &mAccount{Address: address, FirstUsage: at, InsertionDate: at, UpdatedAt: at, Metadata: cloneMeta(md)}
				if st.accounts[address].Metadata == nil {
					st.accounts[address].Metadata = metadata.Metadata{}
				}
				continue
			}
			contained := true
			for k, v := range md {
				if old, ok := acc.Metadata[k]; !ok || old != v {
					contained = false
				}
			}
			if contained {
				continue // WHERE not accounts.metadata @> excluded.metadata
			}
			for k, v := range md {
				acc.Metadata[k] = v
			}
			acc.UpdatedAt = at
			if at.Before(acc.FirstUsage) {
				acc.FirstUsage = at
			}
		}
	})
	return nil
}

func (s *mStore) UpsertAccounts(ctx context.Context, accounts ...ledger.AccountWithDefaultMetadata) error {
	if err := s.enter("UpsertAccounts"); err != nil {
		return err
	}
	addrs := make([]string, 0, len(accounts))
	for _, a := range accounts {
		addrs = append(addrs, a.Address)
	}
	sort.Strings(addrs)
	// the statement's data_batch must name an account once: with a duplicate, UPDATE ... FROM picks one of the two rows
	// arbitrarily and the INSERT of a new account hits the unique index (the SQL half, C18, assumes distinct addresses)
	for i := 1; i < len(addrs); i++ {
		verifAssert("C18:a-batch-names-an-account-once", addrs[i] != addrs[i-1])
	}
	for _, a := range addrs {
		if err := s.lock("acc:" + a); err != nil {
			return s.fail(err)
		}
	}
	now := s.now()
	type row struct {
		address          string
		first, ins, upd  time.Time
		md, defaults     metadata.Metadata
	}
	var rows []row
	for _, a := range accounts {
		r := row{address: a.Address, first: a.FirstUsage, ins: a.InsertionDate, upd: a.UpdatedAt, md: cloneMeta(a.Metadata), defaults: cloneMeta(a.DefaultMetadata)}
		if r.first.IsZero() {
			r.first = now
		}
		if r.ins.IsZero() {
			r.ins = now
		}
		if r.upd.IsZero() {
			r.upd = now
		}
		rows = append(rows, r)
	}
	s.apply(func(st *mState) {
		for _, a := range rows {
			acc, ok := st.accounts[a.address]
			if !ok {
				md := metadata.Metadata{}
				for k, v := range a.defaults {
					md[k] = v
				}
				for k, v := range a.md {
					md[k] = v
				}
				st.accounts[a.address] = &mAccount{Address: a.address, FirstUsage: a.first, InsertionDate: a.ins, UpdatedAt: a.upd, Metadata: md}
				continue
			}
			for k, v := range a.md {
				acc.Metadata[k] = v
			}
			if a.first.Before(acc.FirstUsage) {
				acc.FirstUsage = a.first
			}
			acc.UpdatedAt = a.upd
		}
	})
	return nil
}

func (s *mStore) DeleteAccountMetadata(ctx context.Context, address, key string) error {
	if err := s.enter("DeleteAccountMetadata"); err != nil {
		return err
	}
	if err := s.lock("acc:" + address); err != nil {
		return s.fail(err)
	}
	s.apply(func(st *mState) {
		if acc, ok := st.accounts[address]; ok {
			delete(acc.Metadata, key)
		}
	})
	return nil
}

// ---- schemas ----

func (s *mStore) InsertSchema(ctx context.Context, data *ledger.Schema) error {
	if err := s.enter("InsertSchema"); err != nil {
		return err
	}
	if err := s.lock("uk:schemas:" + data.Version); err != nil {
		return s.fail(err)
	}
	for _, sc := range s.state().schemas {
		if sc.Version == data.Version {
			return s.fail(postgres.ErrConstraintsFailed{})
		}
	}
	if data.CreatedAt.IsZero() {
		data.CreatedAt = s.now()
	}
	cp := *data
	s.apply(func(st *mState) { c := cp; st.schemas = append(st.schemas, &c) })
	return nil
}

func (s *mStore) FindSchema(ctx context.Context, version string) (*ledger.Schema, error) {
	if err := s.enter("FindSchema"); err != nil {
		return nil, err
	}
	for _, sc := range s.state().schemas {
		if sc.Version == version {
			cp := *sc
			return &cp, nil
		}
	}
	return nil, postgres.ErrNotFound
}

func (s *mStore) FindSchemas(ctx context.Context, query common.PaginatedQuery[any]) (*paginate.Cursor[ledger.Schema], error) {
	panic("dbmodel: FindSchemas is not modelled")
}

func (s *mStore) FindLatestSchemaVersion(ctx context.Context) (*string, error) {
	if err := s.enter("FindLatestSchemaVersion"); err != nil {
		return nil, err
	}
	st := s.state()
	if len(st.schemas) == 0 {
		return nil, nil
	}
	v := st.schemas[len(st.schemas)-1].Version
	return &v, nil
}

// ---- logs ----

func (s *mStore) InsertLog(ctx context.Context, log *ledger.Log) error {
	if err := s.enter("InsertLog"); err != nil {
		return err
	}
	sync := s.db.ledger.HasFeature(features.FeatureHashLogs, "SYNC")
	if sync {
		// select pg_advisory_xact_lock(ledger id): serialises the log inserts of a ledger until the transaction ends
		if err := s.lock("advisory:ledger"); err != nil {
			return s.fail(err)
		}
	}
	if log.IdempotencyKey != "" {
		// unique index (ledger, idempotency_key): a concurrent uncommitted insert of the same key makes this one wait
		if err := s.lock("uk:logs_idempotency_key:" + log.IdempotencyKey); err != nil {
			return s.fail(err)
		}
	}
	st := s.state()
	if log.IdempotencyKey != "" {
		for _, l := range st.logs {
			if l.IdempotencyKey == log.IdempotencyKey {
				return s.fail(ledgerstore.NewErrIdempotencyKeyConflict(log.IdempotencyKey))
			}
		}
	}
	if log.ID == nil {
		s.db.logSeq++
		id := s.db.logSeq
		for _, l := range st.logs {
			if *l.ID == id {
				return s.fail(errors.New("inserting log: duplicate key value violates unique constraint \"logs_ledger\" (id drawn from a sequence that is behind)"))
			}
		}
		log.ID = &id
	} else {
		for _, l := range st.logs {
			if *l.ID == *log.ID {
				return s.fail(errors.New("inserting log: duplicate key value violates unique constraint \"logs_ledger\""))
			}
		}
	}
	if log.Date.IsZero() {
		log.Date = s.now()
	}
	if sync && log.Hash == nil {
		// set_log_hash: chained on the last log visible to this statement (greatest id); SHA-256 is opaque here:
		// the model records the predecessor id in the hash bytes
		var prev uint64
		for _, l := range st.logs {
			if *l.ID > prev {
				prev = *l.ID
			}
		}
		log.Hash = []byte{'h', byte(*log.ID), byte(prev)}
	}
	stored := cloneLog(log)
	if s.tx != nil {
		s.tx.root().notes = append(s.tx.root().notes, fmt.Sprintf("log:%d", *log.ID))
	}
	s.apply(func(st *mState) { st.logs = append(st.logs, cloneLog(stored)) })
	return nil
}

func (s *mStore) ReadLogWithIdempotencyKey(ctx context.Context, ik string) (*ledger.Log, error) {
	if err := s.enter("ReadLogWithIdempotencyKey"); err != nil {
		return nil, err
	}
	for _, l := range s.state().logs {
		if l.IdempotencyKey == ik {
			return cloneLog(l), nil
		}
	}
	return nil, postgres.ErrNotFound
}

func (s *mStore) IsUpToDate(ctx context.Context) (bool, error) { return true, nil }

func (s *mStore) GetMigrationsInfo(ctx context.Context) ([]migrations.Info, error) { return nil, nil }

// ---- resources ----

type mAccounts struct{ s *mStore }

func matchValue(q common.ResourceQuery[any], key string) (any, bool) {
	var found any
	ok := false
	if q.Builder != nil {
		_ = q.Builder.Walk(func(operator string, k string, value *any) error {
			if k == key {
				found = *value
				ok = true
			}
			return nil
		})
	}
	return found, ok
}

func (r mAccounts) GetOne(ctx context.Context, q common.ResourceQuery[any]) (*ledger.Account, error) {
	if err := r.s.enter("Accounts.GetOne"); err != nil {
		return nil, err
	}
	v, ok := matchValue(q, "address")
	if !ok {
		panic("dbmodel: Accounts().GetOne supports only an address match")
	}
	acc, ok := r.s.state().accounts[v.(string)]
	if !ok {
		return nil, postgres.ErrNotFound
	}
	return &ledger.Account{Address: acc.Address, Metadata: cloneMeta(acc.Metadata), FirstUsage: acc.FirstUsage, InsertionDate: acc.InsertionDate, UpdatedAt: acc.UpdatedAt}, nil
}

func (r mAccounts) Count(ctx context.Context, q common.ResourceQuery[any]) (int, error) {
	return len(r.s.state().accounts), nil
}

// recPaginated: the queries handed to the Paginate methods of the resources (RunQuery harnesses compare them with
// the direct query they should equal)
type recPaginated struct {
	resource string
	query    any
}

var recPages []recPaginated

func (r mAccounts) Paginate(ctx context.Context, q common.PaginatedQuery[any]) (*paginate.Cursor[ledger.Account], error) {
	recPages = append(recPages, recPaginated{"accounts", q})
	st := r.s.state()
	var addrs []string
	for a := range st.accounts {
		addrs = append(addrs, a)
	}
	sort.Strings(addrs)
	c := &paginate.Cursor[ledger.Account]{}
	for _, a := range addrs {
		acc := st.accounts[a]
		c.Data = append(c.Data, ledger.Account{Address: acc.Address, Metadata: cloneMeta(acc.Metadata), FirstUsage: acc.FirstUsage, InsertionDate: acc.InsertionDate, UpdatedAt: acc.UpdatedAt})
	}
	return c, nil
}

func (s *mStore) Accounts() common.PaginatedResource[ledger.Account, any] { return mAccounts{s} }

type mLogs struct{ s *mStore }

func (r mLogs) GetOne(ctx context.Context, q common.ResourceQuery[any]) (*ledger.Log, error) {
	panic("dbmodel: Logs().GetOne is not modelled")
}
func (r mLogs) Count(ctx context.Context, q common.ResourceQuery[any]) (int, error) {
	return len(r.s.state().logs), nil
}

// Paginate returns the logs in descending id order (the resource's default), limited to the page size of an initial query.
func (r mLogs) Paginate(ctx context.Context, q common.PaginatedQuery[any]) (*paginate.Cursor[ledger.Log], error) {
	recPages = append(recPages, recPaginated{"logs", q})
	if err := r.s.enter("Logs.Paginate"); err != nil {
		return nil, err
	}
	st := r.s.state()
	limit := len(st.logs)
	asc := false
	if iq, ok := q.(common.InitialPaginatedQuery[any]); ok {
		if iq.PageSize > 0 && int(iq.PageSize) < limit {
			limit = int(iq.PageSize)
		}
		if iq.Order != nil && *iq.Order == paginate.Order(paginate.OrderAsc) {
			asc = true
		}
	}
	sorted := append([]*ledger.Log(nil), st.logs...)
	for i := 1; i < len(sorted); i++ { // insertion sort (stable)
		for j := i; j > 0; j-- {
			before := *sorted[j].ID > *sorted[j-1].ID
			if asc {
				before = *sorted[j].ID < *sorted[j-1].ID
			}
			if !before {
				break
			}
			sorted[j], sorted[j-1] = sorted[j-1], sorted[j]
		}
	}
	c := &paginate.Cursor[ledger.Log]{}
	for i := 0; i < limit; i++ {
		c.Data = append(c.Data, *cloneLog(sorted[i]))
	}
	return c, nil
}

func (s *mStore) Logs() common.PaginatedResource[ledger.Log, any] { return mLogs{s} }

type mTransactions struct{ s *mStore }

func (r mTransactions) GetOne(ctx context.Context, q common.ResourceQuery[any]) (*ledger.Transaction, error) {
	v, ok := matchValue(q, "id")
	if !ok {
		panic("dbmodel: Transactions().GetOne supports only an id match")
	}
	var id uint64
	switch x := v.(type) {
	case uint64:
		id = x
	case int:
		id = uint64(x)
	case int64:
		id = uint64(x)
	default:
		panic("dbmodel: unsupported id type in Transactions().GetOne")
	}
	t := r.s.findTx(id)
	if t == nil {
		return nil, postgres.ErrNotFound
	}
	return cloneTx(t), nil
}
func (r mTransactions) Count(ctx context.Context, q common.ResourceQuery[any]) (int, error) {
	return len(r.s.state().txs), nil
}
func (r mTransactions) Paginate(ctx context.Context, q common.PaginatedQuery[any]) (*paginate.Cursor[ledger.Transaction], error) {
	recPages = append(recPages, recPaginated{"transactions", q})
	c := &paginate.Cursor[ledger.Transaction]{}
	for _, t := range r.s.state().txs {
		c.Data = append(c.Data, *cloneTx(t))
	}
	return c, nil
}

func (s *mStore) Transactions() common.PaginatedResource[ledger.Transaction, any] {
	return mTransactions{s}
}

func (s *mStore) AggregatedBalances() common.Resource[ledger.AggregatedVolumes, ledger.GetAggregatedVolumesOptions] {
	panic("dbmodel: AggregatedBalances is not modelled")
}

type mVolumes struct{ s *mStore }

func (r mVolumes) GetOne(ctx context.Context, q common.ResourceQuery[ledger.GetVolumesOptions]) (*ledger.VolumesWithBalanceByAssetByAccount, error) {
	panic("dbmodel: Volumes().GetOne is not modelled")
}
func (r mVolumes) Count(ctx context.Context, q common.ResourceQuery[ledger.GetVolumesOptions]) (int, error) {
	panic("dbmodel: Volumes().Count is not modelled")
}

// Paginate only records the query (the rows of a volumes listing are the SQL half's business: C05 / C20)
func (r mVolumes) Paginate(ctx context.Context, q common.PaginatedQuery[ledger.GetVolumesOptions]) (*paginate.Cursor[ledger.VolumesWithBalanceByAssetByAccount], error) {
	recPages = append(recPages, recPaginated{"volumes", q})
	return &paginate.Cursor[ledger.VolumesWithBalanceByAssetByAccount]{}, nil
}

func (s *mStore) Volumes() common.PaginatedResource[ledger.VolumesWithBalanceByAssetByAccount, ledger.GetVolumesOptions] {
	return mVolumes{s}
}

var _ Store = (*mStore)(nil)

// ---- observation helpers for harnesses ----

// snapshot is a comparable digest of the committed state (used for "no trace" obligations).
func (db *mDB) committedCounts() (txs, logs, accounts, moves, schemas int) {
	st := db.committed
	return len(st.txs), len(st.logs), len(st.accounts), len(st.moves), len(st.schemas)
}

func (db *mDB) countCalls(name string) int {
	n := 0
	for _, c := range db.calls {
		if c == name {
			n++
		}
	}
	return n
}

// balance of the committed state (falls back to the initial volumes)
func (db *mDB) committedVolumes(account, asset string) ledger.Volumes {
	if v, ok := db.committed.vols[account][asset]; ok {
		return v.Copy()
	}
	return db.initialVolumes(account, asset).Copy()
}
