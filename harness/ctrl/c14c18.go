package ledger

// C14 (controller side): a create whose reference already exists fails with the reference-conflict error — also when
// the conflict is met on the retry path (a store call of the first attempt fails with a deadlock, the retry runs into
// the existing reference) — and leaves no trace.
// C18 (controller side): an account's first usage is the earliest effective date of the transactions that involve it,
// whatever the order in which future-dated, back-dated and undated transactions arrive.

import (
	"errors"

	"github.com/formancehq/go-libs/v5/pkg/types/time"

	ledger "github.com/formancehq/ledger/internal"
	ledgerstore "github.com/formancehq/ledger/internal/storage/ledger"
)

func Harness_C14C_reference_conflict_with_one_store_failure() {
	db, ctrl := setupHistory(false)
	o := findOp(false, "create_ref_conflict")
	pre := db.clone()
	db.faultBudget = 1 // any one store call of the request fails (generic / deadlock / serialization), or none
	r := o.run(ctrl, false, "")
	verifAssert("C14:a-create-reusing-a-reference-fails", r.err != nil)
	if r.err != nil {
		conflict := errors.Is(r.err, ledgerstore.ErrTransactionReferenceConflict{})
		injected := errors.Is(r.err, errInjected) || errors.Is(r.err, errAborted) || isRetryable(r.err)
		verifAssert("C14:the-failure-is-the-reference-conflict-or-the-injected-store-failure", conflict || injected)
		if db.faultBudget == 1 {
			verifAssert("C14:without-store-failure-the-error-is-the-reference-conflict", conflict)
		}
	}
	verifAssert("C14:a-refused-create-leaves-no-trace", stateDiff(pre.committed, db.committed, true) == "")
	verifReach("end")
}

// the deadlock-then-retry path specifically: the first attempt dies of a deadlock, the retry meets the existing reference
func Harness_C14C_reference_conflict_on_the_retry_path() {
	db, ctrl := setupHistory(false)
	o := findOp(false, "create_ref_conflict")
	db.faultBudget = 1
	r := o.run(ctrl, false, "")
	retried := db.countCalls("tx:BeginTX") >= 2 || db.countCalls("db:BeginTX") >= 2
	if retried && db.faultBudget == 0 {
		verifAssert("C14:a-conflict-met-on-the-retry-path-is-still-the-reference-conflict", r.err != nil && errors.Is(r.err, ledgerstore.ErrTransactionReferenceConflict{}))
		verifReach("retried")
	}
	verifReach("end")
}

func c18Create(ctrl *DefaultController, dst string, at string) error {
	data := ledger.NewTransactionData().WithPostings(P("world", dst, "USD/2", "1"))
	if at != "" {
		ts, err := time.ParseTime(at)
		if err != nil {
			panic(err)
		}
		data.Timestamp = ts
	}
	_, _, _, err := ctrl.CreateTransaction(bg, Parameters[CreateTransaction]{Input: CreateTransaction{RunScript: TxToScriptData(data, false)}})
	return err
}

// the clock of the executor starts at 2030-01-01: "future" is after it, "past" before
func Harness_C18C_first_usage_is_the_earliest_effective_date() {
	db, ctrl := setupHistory(false)
	dates := []string{"2031-06-03T12:00:00Z", "2031-06-01T12:00:00Z", "2020-01-01T00:00:00Z", ""}
	order := nondetChoice("order", 4)
	// the account is created by the transaction dated dates[order], then meets the others
	first := dates[order]
	verifAssert("C18:create-succeeds", c18Create(ctrl, "fresh:account", first) == nil)
	acc := db.committed.accounts["fresh:account"]
	verifAssert("C18:account-created", acc != nil)
	if acc == nil {
		return
	}
	created := db.committed.txs[len(db.committed.txs)-1]
	verifAssert("C18:first-usage-of-a-new-account-is-the-transaction's-effective-date", acc.FirstUsage.Equal(created.Timestamp))
	earliest := created.Timestamp
	for i, d := range dates {
		if i == order {
			continue
		}
		verifAssert("C18:create-succeeds", c18Create(ctrl, "fresh:account", d) == nil)
		tx := db.committed.txs[len(db.committed.txs)-1]
		if tx.Timestamp.Before(earliest) {
			earliest = tx.Timestamp
		}
		acc = db.committed.accounts["fresh:account"]
		verifAssert("C18:first-usage-is-lowered-to-the-earliest-effective-date-and-never-raised", acc.FirstUsage.Equal(earliest))
	}
	verifReach("end")
}
