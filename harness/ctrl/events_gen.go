package ledger

// Code generated; DO NOT EDIT.

func Harness_EVC_wet_create_ok()       { checkEvents(false, "create_ok", false, 0) }
func Harness_EVC_dry_create_ok()       { checkEvents(false, "create_ok", true, 0) }
func Harness_EVS_wet_create_ok()       { checkEvents(true, "create_ok", false, 0) }
func Harness_EVS_dry_create_ok()       { checkEvents(true, "create_ok", true, 0) }
func Harness_EVC_wetfault_create_ok()  { checkEvents(false, "create_ok", false, 1) }
func Harness_EVC_wetfault2_create_ok() { checkEvents(false, "create_ok", false, 2) }
func Harness_EVC_dryfault_create_ok()  { checkEvents(false, "create_ok", true, 1) }
func Harness_EVL_commit_create_ok()    { checkEventsLockedTx(false, "create_ok", true, 0) }
func Harness_EVL_commitfault_create_ok() { checkEventsLockedTx(false, "create_ok", true, 1) }
func Harness_EVL_rollback_create_ok()  { checkEventsLockedTx(false, "create_ok", false, 0) }
func Harness_EVC_wet_create_all()       { checkEvents(false, "create_all", false, 0) }
func Harness_EVC_dry_create_all()       { checkEvents(false, "create_all", true, 0) }
func Harness_EVS_wet_create_all()       { checkEvents(true, "create_all", false, 0) }
func Harness_EVS_dry_create_all()       { checkEvents(true, "create_all", true, 0) }
func Harness_EVC_wetfault_create_all()  { checkEvents(false, "create_all", false, 1) }
func Harness_EVC_wetfault2_create_all() { checkEvents(false, "create_all", false, 2) }
func Harness_EVC_dryfault_create_all()  { checkEvents(false, "create_all", true, 1) }
func Harness_EVL_commit_create_all()    { checkEventsLockedTx(false, "create_all", true, 0) }
func Harness_EVL_commitfault_create_all() { checkEventsLockedTx(false, "create_all", true, 1) }
func Harness_EVL_rollback_create_all()  { checkEventsLockedTx(false, "create_all", false, 0) }
func Harness_EVC_wet_create_insufficient()       { checkEvents(false, "create_insufficient", false, 0) }
func Harness_EVC_dry_create_insufficient()       { checkEvents(false, "create_insufficient", true, 0) }
func Harness_EVS_wet_create_insufficient()       { checkEvents(true, "create_insufficient", false, 0) }
func Harness_EVS_dry_create_insufficient()       { checkEvents(true, "create_insufficient", true, 0) }
func Harness_EVC_wetfault_create_insufficient()  { checkEvents(false, "create_insufficient", false, 1) }
func Harness_EVC_wetfault2_create_insufficient() { checkEvents(false, "create_insufficient", false, 2) }
func Harness_EVC_dryfault_create_insufficient()  { checkEvents(false, "create_insufficient", true, 1) }
func Harness_EVL_commit_create_insufficient()    { checkEventsLockedTx(false, "create_insufficient", true, 0) }
func Harness_EVL_commitfault_create_insufficient() { checkEventsLockedTx(false, "create_insufficient", true, 1) }
func Harness_EVL_rollback_create_insufficient()  { checkEventsLockedTx(false, "create_insufficient", false, 0) }
func Harness_EVC_wet_create_forced_overdraft()       { checkEvents(false, "create_forced_overdraft", false, 0) }
func Harness_EVC_dry_create_forced_overdraft()       { checkEvents(false, "create_forced_overdraft", true, 0) }
func Harness_EVS_wet_create_forced_overdraft()       { checkEvents(true, "create_forced_overdraft", false, 0) }
func Harness_EVS_dry_create_forced_overdraft()       { checkEvents(true, "create_forced_overdraft", true, 0) }
func Harness_EVC_wetfault_create_forced_overdraft()  { checkEvents(false, "create_forced_overdraft", false, 1) }
func Harness_EVC_wetfault2_create_forced_overdraft() { checkEvents(false, "create_forced_overdraft", false, 2) }
func Harness_EVC_dryfault_create_forced_overdraft()  { checkEvents(false, "create_forced_overdraft", true, 1) }
func Harness_EVL_commit_create_forced_overdraft()    { checkEventsLockedTx(false, "create_forced_overdraft", true, 0) }
func Harness_EVL_commitfault_create_forced_overdraft() { checkEventsLockedTx(false, "create_forced_overdraft", true, 1) }
func Harness_EVL_rollback_create_forced_overdraft()  { checkEventsLockedTx(false, "create_forced_overdraft", false, 0) }
func Harness_EVC_wet_create_ref_conflict()       { checkEvents(false, "create_ref_conflict", false, 0) }
func Harness_EVC_dry_create_ref_conflict()       { checkEvents(false, "create_ref_conflict", true, 0) }
func Harness_EVS_wet_create_ref_conflict()       { checkEvents(true, "create_ref_conflict", false, 0) }
func Harness_EVS_dry_create_ref_conflict()       { checkEvents(true, "create_ref_conflict", true, 0) }
func Harness_EVC_wetfault_create_ref_conflict()  { checkEvents(false, "create_ref_conflict", false, 1) }
func Harness_EVC_wetfault2_create_ref_conflict() { checkEvents(false, "create_ref_conflict", false, 2) }
func Harness_EVC_dryfault_create_ref_conflict()  { checkEvents(false, "create_ref_conflict", true, 1) }
func Harness_EVL_commit_create_ref_conflict()    { checkEventsLockedTx(false, "create_ref_conflict", true, 0) }
func Harness_EVL_commitfault_create_ref_conflict() { checkEventsLockedTx(false, "create_ref_conflict", true, 1) }
func Harness_EVL_rollback_create_ref_conflict()  { checkEventsLockedTx(false, "create_ref_conflict", false, 0) }
func Harness_EVC_wet_create_new_ref()       { checkEvents(false, "create_new_ref", false, 0) }
func Harness_EVC_dry_create_new_ref()       { checkEvents(false, "create_new_ref", true, 0) }
func Harness_EVS_wet_create_new_ref()       { checkEvents(true, "create_new_ref", false, 0) }
func Harness_EVS_dry_create_new_ref()       { checkEvents(true, "create_new_ref", true, 0) }
func Harness_EVC_wetfault_create_new_ref()  { checkEvents(false, "create_new_ref", false, 1) }
func Harness_EVC_wetfault2_create_new_ref() { checkEvents(false, "create_new_ref", false, 2) }
func Harness_EVC_dryfault_create_new_ref()  { checkEvents(false, "create_new_ref", true, 1) }
func Harness_EVL_commit_create_new_ref()    { checkEventsLockedTx(false, "create_new_ref", true, 0) }
func Harness_EVL_commitfault_create_new_ref() { checkEventsLockedTx(false, "create_new_ref", true, 1) }
func Harness_EVL_rollback_create_new_ref()  { checkEventsLockedTx(false, "create_new_ref", false, 0) }
func Harness_EVC_wet_create_script_meta()       { checkEvents(false, "create_script_meta", false, 0) }
func Harness_EVC_dry_create_script_meta()       { checkEvents(false, "create_script_meta", true, 0) }
func Harness_EVS_wet_create_script_meta()       { checkEvents(true, "create_script_meta", false, 0) }
func Harness_EVS_dry_create_script_meta()       { checkEvents(true, "create_script_meta", true, 0) }
func Harness_EVC_wetfault_create_script_meta()  { checkEvents(false, "create_script_meta", false, 1) }
func Harness_EVC_wetfault2_create_script_meta() { checkEvents(false, "create_script_meta", false, 2) }
func Harness_EVC_dryfault_create_script_meta()  { checkEvents(false, "create_script_meta", true, 1) }
func Harness_EVL_commit_create_script_meta()    { checkEventsLockedTx(false, "create_script_meta", true, 0) }
func Harness_EVL_commitfault_create_script_meta() { checkEventsLockedTx(false, "create_script_meta", true, 1) }
func Harness_EVL_rollback_create_script_meta()  { checkEventsLockedTx(false, "create_script_meta", false, 0) }
func Harness_EVC_wet_create_meta_override()       { checkEvents(false, "create_meta_override", false, 0) }
func Harness_EVC_dry_create_meta_override()       { checkEvents(false, "create_meta_override", true, 0) }
func Harness_EVS_wet_create_meta_override()       { checkEvents(true, "create_meta_override", false, 0) }
func Harness_EVS_dry_create_meta_override()       { checkEvents(true, "create_meta_override", true, 0) }
func Harness_EVC_wetfault_create_meta_override()  { checkEvents(false, "create_meta_override", false, 1) }
func Harness_EVC_wetfault2_create_meta_override() { checkEvents(false, "create_meta_override", false, 2) }
func Harness_EVC_dryfault_create_meta_override()  { checkEvents(false, "create_meta_override", true, 1) }
func Harness_EVL_commit_create_meta_override()    { checkEventsLockedTx(false, "create_meta_override", true, 0) }
func Harness_EVL_commitfault_create_meta_override() { checkEventsLockedTx(false, "create_meta_override", true, 1) }
func Harness_EVL_rollback_create_meta_override()  { checkEventsLockedTx(false, "create_meta_override", false, 0) }
func Harness_EVC_wet_create_bad_script()       { checkEvents(false, "create_bad_script", false, 0) }
func Harness_EVC_dry_create_bad_script()       { checkEvents(false, "create_bad_script", true, 0) }
func Harness_EVS_wet_create_bad_script()       { checkEvents(true, "create_bad_script", false, 0) }
func Harness_EVS_dry_create_bad_script()       { checkEvents(true, "create_bad_script", true, 0) }
func Harness_EVC_wetfault_create_bad_script()  { checkEvents(false, "create_bad_script", false, 1) }
func Harness_EVC_wetfault2_create_bad_script() { checkEvents(false, "create_bad_script", false, 2) }
func Harness_EVC_dryfault_create_bad_script()  { checkEvents(false, "create_bad_script", true, 1) }
func Harness_EVL_commit_create_bad_script()    { checkEventsLockedTx(false, "create_bad_script", true, 0) }
func Harness_EVL_commitfault_create_bad_script() { checkEventsLockedTx(false, "create_bad_script", true, 1) }
func Harness_EVL_rollback_create_bad_script()  { checkEventsLockedTx(false, "create_bad_script", false, 0) }
func Harness_EVC_wet_create_no_postings()       { checkEvents(false, "create_no_postings", false, 0) }
func Harness_EVC_dry_create_no_postings()       { checkEvents(false, "create_no_postings", true, 0) }
func Harness_EVS_wet_create_no_postings()       { checkEvents(true, "create_no_postings", false, 0) }
func Harness_EVS_dry_create_no_postings()       { checkEvents(true, "create_no_postings", true, 0) }
func Harness_EVC_wetfault_create_no_postings()  { checkEvents(false, "create_no_postings", false, 1) }
func Harness_EVC_wetfault2_create_no_postings() { checkEvents(false, "create_no_postings", false, 2) }
func Harness_EVC_dryfault_create_no_postings()  { checkEvents(false, "create_no_postings", true, 1) }
func Harness_EVL_commit_create_no_postings()    { checkEventsLockedTx(false, "create_no_postings", true, 0) }
func Harness_EVL_commitfault_create_no_postings() { checkEventsLockedTx(false, "create_no_postings", true, 1) }
func Harness_EVL_rollback_create_no_postings()  { checkEventsLockedTx(false, "create_no_postings", false, 0) }
func Harness_EVC_wet_revert_ok()       { checkEvents(false, "revert_ok", false, 0) }
func Harness_EVC_dry_revert_ok()       { checkEvents(false, "revert_ok", true, 0) }
func Harness_EVS_wet_revert_ok()       { checkEvents(true, "revert_ok", false, 0) }
func Harness_EVS_dry_revert_ok()       { checkEvents(true, "revert_ok", true, 0) }
func Harness_EVC_wetfault_revert_ok()  { checkEvents(false, "revert_ok", false, 1) }
func Harness_EVC_wetfault2_revert_ok() { checkEvents(false, "revert_ok", false, 2) }
func Harness_EVC_dryfault_revert_ok()  { checkEvents(false, "revert_ok", true, 1) }
func Harness_EVL_commit_revert_ok()    { checkEventsLockedTx(false, "revert_ok", true, 0) }
func Harness_EVL_commitfault_revert_ok() { checkEventsLockedTx(false, "revert_ok", true, 1) }
func Harness_EVL_rollback_revert_ok()  { checkEventsLockedTx(false, "revert_ok", false, 0) }
func Harness_EVC_wet_revert_effective()       { checkEvents(false, "revert_effective", false, 0) }
func Harness_EVC_dry_revert_effective()       { checkEvents(false, "revert_effective", true, 0) }
func Harness_EVS_wet_revert_effective()       { checkEvents(true, "revert_effective", false, 0) }
func Harness_EVS_dry_revert_effective()       { checkEvents(true, "revert_effective", true, 0) }
func Harness_EVC_wetfault_revert_effective()  { checkEvents(false, "revert_effective", false, 1) }
func Harness_EVC_wetfault2_revert_effective() { checkEvents(false, "revert_effective", false, 2) }
func Harness_EVC_dryfault_revert_effective()  { checkEvents(false, "revert_effective", true, 1) }
func Harness_EVL_commit_revert_effective()    { checkEventsLockedTx(false, "revert_effective", true, 0) }
func Harness_EVL_commitfault_revert_effective() { checkEventsLockedTx(false, "revert_effective", true, 1) }
func Harness_EVL_rollback_revert_effective()  { checkEventsLockedTx(false, "revert_effective", false, 0) }
func Harness_EVC_wet_revert_insufficient()       { checkEvents(false, "revert_insufficient", false, 0) }
func Harness_EVC_dry_revert_insufficient()       { checkEvents(false, "revert_insufficient", true, 0) }
func Harness_EVS_wet_revert_insufficient()       { checkEvents(true, "revert_insufficient", false, 0) }
func Harness_EVS_dry_revert_insufficient()       { checkEvents(true, "revert_insufficient", true, 0) }
func Harness_EVC_wetfault_revert_insufficient()  { checkEvents(false, "revert_insufficient", false, 1) }
func Harness_EVC_wetfault2_revert_insufficient() { checkEvents(false, "revert_insufficient", false, 2) }
func Harness_EVC_dryfault_revert_insufficient()  { checkEvents(false, "revert_insufficient", true, 1) }
func Harness_EVL_commit_revert_insufficient()    { checkEventsLockedTx(false, "revert_insufficient", true, 0) }
func Harness_EVL_commitfault_revert_insufficient() { checkEventsLockedTx(false, "revert_insufficient", true, 1) }
func Harness_EVL_rollback_revert_insufficient()  { checkEventsLockedTx(false, "revert_insufficient", false, 0) }
func Harness_EVC_wet_revert_forced()       { checkEvents(false, "revert_forced", false, 0) }
func Harness_EVC_dry_revert_forced()       { checkEvents(false, "revert_forced", true, 0) }
func Harness_EVS_wet_revert_forced()       { checkEvents(true, "revert_forced", false, 0) }
func Harness_EVS_dry_revert_forced()       { checkEvents(true, "revert_forced", true, 0) }
func Harness_EVC_wetfault_revert_forced()  { checkEvents(false, "revert_forced", false, 1) }
func Harness_EVC_wetfault2_revert_forced() { checkEvents(false, "revert_forced", false, 2) }
func Harness_EVC_dryfault_revert_forced()  { checkEvents(false, "revert_forced", true, 1) }
func Harness_EVL_commit_revert_forced()    { checkEventsLockedTx(false, "revert_forced", true, 0) }
func Harness_EVL_commitfault_revert_forced() { checkEventsLockedTx(false, "revert_forced", true, 1) }
func Harness_EVL_rollback_revert_forced()  { checkEventsLockedTx(false, "revert_forced", false, 0) }
func Harness_EVC_wet_revert_missing()       { checkEvents(false, "revert_missing", false, 0) }
func Harness_EVC_dry_revert_missing()       { checkEvents(false, "revert_missing", true, 0) }
func Harness_EVS_wet_revert_missing()       { checkEvents(true, "revert_missing", false, 0) }
func Harness_EVS_dry_revert_missing()       { checkEvents(true, "revert_missing", true, 0) }
func Harness_EVC_wetfault_revert_missing()  { checkEvents(false, "revert_missing", false, 1) }
func Harness_EVC_wetfault2_revert_missing() { checkEvents(false, "revert_missing", false, 2) }
func Harness_EVC_dryfault_revert_missing()  { checkEvents(false, "revert_missing", true, 1) }
func Harness_EVL_commit_revert_missing()    { checkEventsLockedTx(false, "revert_missing", true, 0) }
func Harness_EVL_commitfault_revert_missing() { checkEventsLockedTx(false, "revert_missing", true, 1) }
func Harness_EVL_rollback_revert_missing()  { checkEventsLockedTx(false, "revert_missing", false, 0) }
func Harness_EVC_wet_txmeta_save()       { checkEvents(false, "txmeta_save", false, 0) }
func Harness_EVC_dry_txmeta_save()       { checkEvents(false, "txmeta_save", true, 0) }
func Harness_EVS_wet_txmeta_save()       { checkEvents(true, "txmeta_save", false, 0) }
func Harness_EVS_dry_txmeta_save()       { checkEvents(true, "txmeta_save", true, 0) }
func Harness_EVC_wetfault_txmeta_save()  { checkEvents(false, "txmeta_save", false, 1) }
func Harness_EVC_wetfault2_txmeta_save() { checkEvents(false, "txmeta_save", false, 2) }
func Harness_EVC_dryfault_txmeta_save()  { checkEvents(false, "txmeta_save", true, 1) }
func Harness_EVL_commit_txmeta_save()    { checkEventsLockedTx(false, "txmeta_save", true, 0) }
func Harness_EVL_commitfault_txmeta_save() { checkEventsLockedTx(false, "txmeta_save", true, 1) }
func Harness_EVL_rollback_txmeta_save()  { checkEventsLockedTx(false, "txmeta_save", false, 0) }
func Harness_EVC_wet_txmeta_save_missing()       { checkEvents(false, "txmeta_save_missing", false, 0) }
func Harness_EVC_dry_txmeta_save_missing()       { checkEvents(false, "txmeta_save_missing", true, 0) }
func Harness_EVS_wet_txmeta_save_missing()       { checkEvents(true, "txmeta_save_missing", false, 0) }
func Harness_EVS_dry_txmeta_save_missing()       { checkEvents(true, "txmeta_save_missing", true, 0) }
func Harness_EVC_wetfault_txmeta_save_missing()  { checkEvents(false, "txmeta_save_missing", false, 1) }
func Harness_EVC_wetfault2_txmeta_save_missing() { checkEvents(false, "txmeta_save_missing", false, 2) }
func Harness_EVC_dryfault_txmeta_save_missing()  { checkEvents(false, "txmeta_save_missing", true, 1) }
func Harness_EVL_commit_txmeta_save_missing()    { checkEventsLockedTx(false, "txmeta_save_missing", true, 0) }
func Harness_EVL_commitfault_txmeta_save_missing() { checkEventsLockedTx(false, "txmeta_save_missing", true, 1) }
func Harness_EVL_rollback_txmeta_save_missing()  { checkEventsLockedTx(false, "txmeta_save_missing", false, 0) }
func Harness_EVC_wet_txmeta_delete()       { checkEvents(false, "txmeta_delete", false, 0) }
func Harness_EVC_dry_txmeta_delete()       { checkEvents(false, "txmeta_delete", true, 0) }
func Harness_EVS_wet_txmeta_delete()       { checkEvents(true, "txmeta_delete", false, 0) }
func Harness_EVS_dry_txmeta_delete()       { checkEvents(true, "txmeta_delete", true, 0) }
func Harness_EVC_wetfault_txmeta_delete()  { checkEvents(false, "txmeta_delete", false, 1) }
func Harness_EVC_wetfault2_txmeta_delete() { checkEvents(false, "txmeta_delete", false, 2) }
func Harness_EVC_dryfault_txmeta_delete()  { checkEvents(false, "txmeta_delete", true, 1) }
func Harness_EVL_commit_txmeta_delete()    { checkEventsLockedTx(false, "txmeta_delete", true, 0) }
func Harness_EVL_commitfault_txmeta_delete() { checkEventsLockedTx(false, "txmeta_delete", true, 1) }
func Harness_EVL_rollback_txmeta_delete()  { checkEventsLockedTx(false, "txmeta_delete", false, 0) }
func Harness_EVC_wet_txmeta_delete_absent_key()       { checkEvents(false, "txmeta_delete_absent_key", false, 0) }
func Harness_EVC_dry_txmeta_delete_absent_key()       { checkEvents(false, "txmeta_delete_absent_key", true, 0) }
func Harness_EVS_wet_txmeta_delete_absent_key()       { checkEvents(true, "txmeta_delete_absent_key", false, 0) }
func Harness_EVS_dry_txmeta_delete_absent_key()       { checkEvents(true, "txmeta_delete_absent_key", true, 0) }
func Harness_EVC_wetfault_txmeta_delete_absent_key()  { checkEvents(false, "txmeta_delete_absent_key", false, 1) }
func Harness_EVC_wetfault2_txmeta_delete_absent_key() { checkEvents(false, "txmeta_delete_absent_key", false, 2) }
func Harness_EVC_dryfault_txmeta_delete_absent_key()  { checkEvents(false, "txmeta_delete_absent_key", true, 1) }
func Harness_EVL_commit_txmeta_delete_absent_key()    { checkEventsLockedTx(false, "txmeta_delete_absent_key", true, 0) }
func Harness_EVL_commitfault_txmeta_delete_absent_key() { checkEventsLockedTx(false, "txmeta_delete_absent_key", true, 1) }
func Harness_EVL_rollback_txmeta_delete_absent_key()  { checkEventsLockedTx(false, "txmeta_delete_absent_key", false, 0) }
func Harness_EVC_wet_accmeta_save_existing()       { checkEvents(false, "accmeta_save_existing", false, 0) }
func Harness_EVC_dry_accmeta_save_existing()       { checkEvents(false, "accmeta_save_existing", true, 0) }
func Harness_EVS_wet_accmeta_save_existing()       { checkEvents(true, "accmeta_save_existing", false, 0) }
func Harness_EVS_dry_accmeta_save_existing()       { checkEvents(true, "accmeta_save_existing", true, 0) }
func Harness_EVC_wetfault_accmeta_save_existing()  { checkEvents(false, "accmeta_save_existing", false, 1) }
func Harness_EVC_wetfault2_accmeta_save_existing() { checkEvents(false, "accmeta_save_existing", false, 2) }
func Harness_EVC_dryfault_accmeta_save_existing()  { checkEvents(false, "accmeta_save_existing", true, 1) }
func Harness_EVL_commit_accmeta_save_existing()    { checkEventsLockedTx(false, "accmeta_save_existing", true, 0) }
func Harness_EVL_commitfault_accmeta_save_existing() { checkEventsLockedTx(false, "accmeta_save_existing", true, 1) }
func Harness_EVL_rollback_accmeta_save_existing()  { checkEventsLockedTx(false, "accmeta_save_existing", false, 0) }
func Harness_EVC_wet_accmeta_save_new()       { checkEvents(false, "accmeta_save_new", false, 0) }
func Harness_EVC_dry_accmeta_save_new()       { checkEvents(false, "accmeta_save_new", true, 0) }
func Harness_EVS_wet_accmeta_save_new()       { checkEvents(true, "accmeta_save_new", false, 0) }
func Harness_EVS_dry_accmeta_save_new()       { checkEvents(true, "accmeta_save_new", true, 0) }
func Harness_EVC_wetfault_accmeta_save_new()  { checkEvents(false, "accmeta_save_new", false, 1) }
func Harness_EVC_wetfault2_accmeta_save_new() { checkEvents(false, "accmeta_save_new", false, 2) }
func Harness_EVC_dryfault_accmeta_save_new()  { checkEvents(false, "accmeta_save_new", true, 1) }
func Harness_EVL_commit_accmeta_save_new()    { checkEventsLockedTx(false, "accmeta_save_new", true, 0) }
func Harness_EVL_commitfault_accmeta_save_new() { checkEventsLockedTx(false, "accmeta_save_new", true, 1) }
func Harness_EVL_rollback_accmeta_save_new()  { checkEventsLockedTx(false, "accmeta_save_new", false, 0) }
func Harness_EVC_wet_accmeta_delete()       { checkEvents(false, "accmeta_delete", false, 0) }
func Harness_EVC_dry_accmeta_delete()       { checkEvents(false, "accmeta_delete", true, 0) }
func Harness_EVS_wet_accmeta_delete()       { checkEvents(true, "accmeta_delete", false, 0) }
func Harness_EVS_dry_accmeta_delete()       { checkEvents(true, "accmeta_delete", true, 0) }
func Harness_EVC_wetfault_accmeta_delete()  { checkEvents(false, "accmeta_delete", false, 1) }
func Harness_EVC_wetfault2_accmeta_delete() { checkEvents(false, "accmeta_delete", false, 2) }
func Harness_EVC_dryfault_accmeta_delete()  { checkEvents(false, "accmeta_delete", true, 1) }
func Harness_EVL_commit_accmeta_delete()    { checkEventsLockedTx(false, "accmeta_delete", true, 0) }
func Harness_EVL_commitfault_accmeta_delete() { checkEventsLockedTx(false, "accmeta_delete", true, 1) }
func Harness_EVL_rollback_accmeta_delete()  { checkEventsLockedTx(false, "accmeta_delete", false, 0) }
func Harness_EVC_wet_schema_insert()       { checkEvents(false, "schema_insert", false, 0) }
func Harness_EVC_dry_schema_insert()       { checkEvents(false, "schema_insert", true, 0) }
func Harness_EVS_wet_schema_insert()       { checkEvents(true, "schema_insert", false, 0) }
func Harness_EVS_dry_schema_insert()       { checkEvents(true, "schema_insert", true, 0) }
func Harness_EVC_wetfault_schema_insert()  { checkEvents(false, "schema_insert", false, 1) }
func Harness_EVC_wetfault2_schema_insert() { checkEvents(false, "schema_insert", false, 2) }
func Harness_EVC_dryfault_schema_insert()  { checkEvents(false, "schema_insert", true, 1) }
func Harness_EVL_commit_schema_insert()    { checkEventsLockedTx(false, "schema_insert", true, 0) }
func Harness_EVL_commitfault_schema_insert() { checkEventsLockedTx(false, "schema_insert", true, 1) }
func Harness_EVL_rollback_schema_insert()  { checkEventsLockedTx(false, "schema_insert", false, 0) }
func Harness_EVT_create_ok__txmeta_save_commit() { checkEventsTx(false, "create_ok", "txmeta_save", true, 0) }
func Harness_EVT_create_ok__txmeta_save_commit_fault() { checkEventsTx(false, "create_ok", "txmeta_save", true, 1) }
func Harness_EVT_create_ok__txmeta_save_rollback() { checkEventsTx(false, "create_ok", "txmeta_save", false, 0) }
func Harness_EVT_create_ok__txmeta_save_rollback_fault() { checkEventsTx(false, "create_ok", "txmeta_save", false, 1) }
func Harness_EVTS_create_ok__txmeta_save_commit() { checkEventsTx(true, "create_ok", "txmeta_save", true, 0) }
func Harness_EVT_create_ok__create_ref_conflict_commit() { checkEventsTx(false, "create_ok", "create_ref_conflict", true, 0) }
func Harness_EVT_create_ok__create_ref_conflict_commit_fault() { checkEventsTx(false, "create_ok", "create_ref_conflict", true, 1) }
func Harness_EVT_create_ok__create_ref_conflict_rollback() { checkEventsTx(false, "create_ok", "create_ref_conflict", false, 0) }
func Harness_EVT_create_ok__create_ref_conflict_rollback_fault() { checkEventsTx(false, "create_ok", "create_ref_conflict", false, 1) }
func Harness_EVTS_create_ok__create_ref_conflict_commit() { checkEventsTx(true, "create_ok", "create_ref_conflict", true, 0) }
func Harness_EVT_revert_ok__accmeta_save_new_commit() { checkEventsTx(false, "revert_ok", "accmeta_save_new", true, 0) }
func Harness_EVT_revert_ok__accmeta_save_new_commit_fault() { checkEventsTx(false, "revert_ok", "accmeta_save_new", true, 1) }
func Harness_EVT_revert_ok__accmeta_save_new_rollback() { checkEventsTx(false, "revert_ok", "accmeta_save_new", false, 0) }
func Harness_EVT_revert_ok__accmeta_save_new_rollback_fault() { checkEventsTx(false, "revert_ok", "accmeta_save_new", false, 1) }
func Harness_EVTS_revert_ok__accmeta_save_new_commit() { checkEventsTx(true, "revert_ok", "accmeta_save_new", true, 0) }
func Harness_EVT_create_insufficient__create_ok_commit() { checkEventsTx(false, "create_insufficient", "create_ok", true, 0) }
func Harness_EVT_create_insufficient__create_ok_commit_fault() { checkEventsTx(false, "create_insufficient", "create_ok", true, 1) }
func Harness_EVT_create_insufficient__create_ok_rollback() { checkEventsTx(false, "create_insufficient", "create_ok", false, 0) }
func Harness_EVT_create_insufficient__create_ok_rollback_fault() { checkEventsTx(false, "create_insufficient", "create_ok", false, 1) }
func Harness_EVTS_create_insufficient__create_ok_commit() { checkEventsTx(true, "create_insufficient", "create_ok", true, 0) }
func Harness_EVT_schema_insert__accmeta_delete_commit() { checkEventsTx(false, "schema_insert", "accmeta_delete", true, 0) }
func Harness_EVT_schema_insert__accmeta_delete_commit_fault() { checkEventsTx(false, "schema_insert", "accmeta_delete", true, 1) }
func Harness_EVT_schema_insert__accmeta_delete_rollback() { checkEventsTx(false, "schema_insert", "accmeta_delete", false, 0) }
func Harness_EVT_schema_insert__accmeta_delete_rollback_fault() { checkEventsTx(false, "schema_insert", "accmeta_delete", false, 1) }
func Harness_EVTS_schema_insert__accmeta_delete_commit() { checkEventsTx(true, "schema_insert", "accmeta_delete", true, 0) }
func Harness_EVT_txmeta_delete__none_commit() { checkEventsTx(false, "txmeta_delete", "", true, 0) }
func Harness_EVT_txmeta_delete__none_commit_fault() { checkEventsTx(false, "txmeta_delete", "", true, 1) }
func Harness_EVT_txmeta_delete__none_rollback() { checkEventsTx(false, "txmeta_delete", "", false, 0) }
func Harness_EVT_txmeta_delete__none_rollback_fault() { checkEventsTx(false, "txmeta_delete", "", false, 1) }
func Harness_EVTS_txmeta_delete__none_commit() { checkEventsTx(true, "txmeta_delete", "", true, 0) }
func Harness_EVT_create_script_meta__revert_forced_commit() { checkEventsTx(false, "create_script_meta", "revert_forced", true, 0) }
func Harness_EVT_create_script_meta__revert_forced_commit_fault() { checkEventsTx(false, "create_script_meta", "revert_forced", true, 1) }
func Harness_EVT_create_script_meta__revert_forced_rollback() { checkEventsTx(false, "create_script_meta", "revert_forced", false, 0) }
func Harness_EVT_create_script_meta__revert_forced_rollback_fault() { checkEventsTx(false, "create_script_meta", "revert_forced", false, 1) }
func Harness_EVTS_create_script_meta__revert_forced_commit() { checkEventsTx(true, "create_script_meta", "revert_forced", true, 0) }
func Harness_EVC_wetfault3_create_ok() { checkEvents(false, "create_ok", false, 3) }
func Harness_EVC_wetfault3_create_all() { checkEvents(false, "create_all", false, 3) }
func Harness_EVC_wetfault3_create_insufficient() { checkEvents(false, "create_insufficient", false, 3) }
func Harness_EVC_wetfault3_create_forced_overdraft() { checkEvents(false, "create_forced_overdraft", false, 3) }
func Harness_EVC_wetfault3_create_ref_conflict() { checkEvents(false, "create_ref_conflict", false, 3) }
func Harness_EVC_wetfault3_create_new_ref() { checkEvents(false, "create_new_ref", false, 3) }
func Harness_EVC_wetfault3_create_script_meta() { checkEvents(false, "create_script_meta", false, 3) }
func Harness_EVC_wetfault3_create_meta_override() { checkEvents(false, "create_meta_override", false, 3) }
func Harness_EVC_wetfault3_create_bad_script() { checkEvents(false, "create_bad_script", false, 3) }
func Harness_EVC_wetfault3_create_no_postings() { checkEvents(false, "create_no_postings", false, 3) }
func Harness_EVC_wetfault3_revert_ok() { checkEvents(false, "revert_ok", false, 3) }
func Harness_EVC_wetfault3_revert_effective() { checkEvents(false, "revert_effective", false, 3) }
func Harness_EVC_wetfault3_revert_insufficient() { checkEvents(false, "revert_insufficient", false, 3) }
func Harness_EVC_wetfault3_revert_forced() { checkEvents(false, "revert_forced", false, 3) }
func Harness_EVC_wetfault3_revert_missing() { checkEvents(false, "revert_missing", false, 3) }
func Harness_EVC_wetfault3_txmeta_save() { checkEvents(false, "txmeta_save", false, 3) }
func Harness_EVC_wetfault3_txmeta_save_missing() { checkEvents(false, "txmeta_save_missing", false, 3) }
func Harness_EVC_wetfault3_txmeta_delete() { checkEvents(false, "txmeta_delete", false, 3) }
func Harness_EVC_wetfault3_txmeta_delete_absent_key() { checkEvents(false, "txmeta_delete_absent_key", false, 3) }
func Harness_EVC_wetfault3_accmeta_save_existing() { checkEvents(false, "accmeta_save_existing", false, 3) }
func Harness_EVC_wetfault3_accmeta_save_new() { checkEvents(false, "accmeta_save_new", false, 3) }
func Harness_EVC_wetfault3_accmeta_delete() { checkEvents(false, "accmeta_delete", false, 3) }
func Harness_EVC_wetfault3_schema_insert() { checkEvents(false, "schema_insert", false, 3) }
func Harness_EVC_wet_create_self()       { checkEvents(false, "create_self", false, 0) }
func Harness_EVS_wet_create_self()       { checkEvents(true, "create_self", false, 0) }
