package ledger

// C25: a postings request is recorded exactly as submitted; it fails with
// insufficient funds iff the in-order fold takes a non-world source below zero;
// never with force. The request (posting list) is concrete per shape, the
// ledger's balances are symbolic.

import (
	"errors"

	ledger "github.com/formancehq/ledger/internal"
	"github.com/formancehq/ledger/internal/machine"
)

func c25Check(ps []ledger.Posting, force bool) {
	db := newMDB(mkLedger("l1", 7, nil))
	db.symbolicInitial = true
	ctrl := newTestController(db)
	mustFail := !force && foldWouldOverdraw(db, ps)
	pre := map[string]ledger.Volumes{}
	for _, p := range ps {
		pre[p.Source+"|"+p.Asset] = db.committedVolumes(p.Source, p.Asset)
		pre[p.Destination+"|"+p.Asset] = db.committedVolumes(p.Destination, p.Asset)
	}
	log, out, hit, err := createFromPostings(ctrl, ps, force, false, "", "")
	if err != nil {
		verifAssert("C25:fails-only-when-fold-overdraws", mustFail)
		verifAssert("C25:failure-is-insufficient-funds", errors.Is(err, &machine.ErrInsufficientFund{}))
		txs, logs, _, _, _ := db.committedCounts()
		verifAssert("C07:failed-write-no-transaction", txs == 0 && logs == 0)
		for k, v := range pre {
			_ = k
			_ = v
		}
		verifReach("rejected")
		verifReach("end")
		return
	}
	verifAssert("C25:accepted-only-when-fold-ok", !mustFail)
	verifAssert("C25:not-a-hit", !hit)
	verifAssert("C25:log", log != nil && out != nil && log.ID != nil)
	got := out.Transaction.Postings
	verifAssert("C25:count", len(got) == len(ps))
	for i := range ps {
		verifAssert("C25:posting-recorded-as-submitted", got[i].Source == ps[i].Source && got[i].Destination == ps[i].Destination &&
			got[i].Asset == ps[i].Asset && got[i].Amount.Cmp(ps[i].Amount) == 0)
	}
	// the committed transaction is the returned one
	txs, logs, _, _, _ := db.committedCounts()
	verifAssert("C08:one-transaction-one-log", txs == 1 && logs == 1)
	stored := db.committed.txs[0]
	for i := range ps {
		verifAssert("C25:stored-posting", stored.Postings[i].Source == ps[i].Source && stored.Postings[i].Destination == ps[i].Destination &&
			stored.Postings[i].Asset == ps[i].Asset && stored.Postings[i].Amount.Cmp(ps[i].Amount) == 0)
	}
	// C06 (sequential): no non-world account below min(pre-balance, 0) unless forced
	if !force {
		for _, p := range ps {
			if p.Source == "world" {
				continue
			}
			after := db.committedVolumes(p.Source, p.Asset)
			before := pre[p.Source+"|"+p.Asset]
			b0 := before.Balance()
			b1 := after.Balance()
			verifAssert("C06:no-overdraft", b1.Sign() >= 0 || b1.Cmp(b0) >= 0)
		}
	}
	verifReach("accepted")
	verifReach("end")
}

var c25Shapes = map[string][]ledger.Posting{
	"single":        {P("a", "b", "USD/2", "100")},
	"received_then_spent": {P("world", "a", "USD/2", "100"), P("a", "b", "USD/2", "50")},
	"two_from_same": {P("a", "b", "USD/2", "100"), P("a", "c", "USD/2", "50")},
	"self":          {P("a", "a", "USD/2", "10")},
	"zero":          {P("a", "b", "USD/2", "0")},
	"duplicate":     {P("a", "b", "USD/2", "100"), P("a", "b", "USD/2", "100")},
	"two_assets":    {P("a", "b", "USD/2", "100"), P("b", "a", "EUR", "100")},
	"to_world":      {P("a", "world", "USD/2", "5")},
	"huge":          {P("a", "b", "USD/2", "18446744073709551621")},
	"ping_pong":     {P("a", "b", "USD/2", "7"), P("b", "a", "USD/2", "7"), P("a", "b", "USD/2", "7")},
	"twelve_accounts": {
		P("x01", "x02", "COIN", "1"), P("x03", "x04", "COIN", "2"), P("x05", "x06", "COIN", "3"),
		P("x07", "x08", "COIN", "4"), P("x09", "x10", "COIN", "5"), P("x11", "x12", "COIN", "6"),
	},
}

func Harness_C25_single()               { c25Check(c25Shapes["single"], false) }
func Harness_C25_single_force()         { c25Check(c25Shapes["single"], true) }
func Harness_C25_received_then_spent()  { c25Check(c25Shapes["received_then_spent"], false) }
func Harness_C25_two_from_same()        { c25Check(c25Shapes["two_from_same"], false) }
func Harness_C25_two_from_same_force()  { c25Check(c25Shapes["two_from_same"], true) }
func Harness_C25_self()                 { c25Check(c25Shapes["self"], false) }
func Harness_C25_zero()                 { c25Check(c25Shapes["zero"], false) }
func Harness_C25_duplicate()            { c25Check(c25Shapes["duplicate"], false) }
func Harness_C25_two_assets()           { c25Check(c25Shapes["two_assets"], false) }
func Harness_C25_to_world()             { c25Check(c25Shapes["to_world"], false) }
func Harness_C25_huge()                 { c25Check(c25Shapes["huge"], false) }
func Harness_C25_ping_pong()            { c25Check(c25Shapes["ping_pong"], false) }
func Harness_C25_twelve_accounts()      { c25Check(c25Shapes["twelve_accounts"], false) }
func Harness_C25_twelve_accounts_force() { c25Check(c25Shapes["twelve_accounts"], true) }


// symbolic amounts: the same account/asset patterns, every amount an unbounded
// symbolic integer >= 0 (a fresh one per posting, so equal and different amounts
// are both covered: TxToScriptData shares one variable between equal monetaries).
func symAmounts(ps []ledger.Posting) []ledger.Posting {
	out := make([]ledger.Posting, len(ps))
	for i, p := range ps {
		amt := nondetBig("amount")
		verifAssume(amt.Sign() >= 0)
		out[i] = ledger.Posting{Source: p.Source, Destination: p.Destination, Asset: p.Asset, Amount: amt}
	}
	return out
}

func Harness_C25S_single()              { c25Check(symAmounts(c25Shapes["single"]), false) }
func Harness_C25S_single_force()        { c25Check(symAmounts(c25Shapes["single"]), true) }
func Harness_C25S_received_then_spent() { c25Check(symAmounts(c25Shapes["received_then_spent"]), false) }
func Harness_C25S_two_from_same()       { c25Check(symAmounts(c25Shapes["two_from_same"]), false) }
func Harness_C25S_self()                { c25Check(symAmounts(c25Shapes["self"]), false) }
func Harness_C25S_duplicate()           { c25Check(symAmounts(c25Shapes["duplicate"]), false) }
func Harness_C25S_two_assets()          { c25Check(symAmounts(c25Shapes["two_assets"]), false) }
func Harness_C25S_to_world()            { c25Check(symAmounts(c25Shapes["to_world"]), false) }
func Harness_C25S_ping_pong()           { c25Check(symAmounts(c25Shapes["ping_pong"]), false) }
func Harness_C25S_ping_pong_force()     { c25Check(symAmounts(c25Shapes["ping_pong"]), true) }
