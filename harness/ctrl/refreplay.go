package ledger

// refReplay: an independent reference interpreter of log payloads, written from
// the documented meaning of each payload and sharing no code with the
// controller (no importLog, no AccountsWithDefaultMetadata, no VolumeUpdates).
// C08 compares the state the live write produced with the state this
// interpreter derives from the payload alone.

import (
	"math/big"

	"github.com/formancehq/go-libs/v5/pkg/types/metadata"

	ledger "github.com/formancehq/ledger/internal"
)

type refAccount struct {
	exists   bool
	metadata metadata.Metadata
}

type refState struct {
	txs      []*ledger.Transaction
	vols     map[string]map[string]*ledger.Volumes
	accounts map[string]*refAccount
	reverted map[uint64]bool
	schemas  []string
}

func refFromState(db *mDB, st *mState) *refState {
	r := &refState{vols: map[string]map[string]*ledger.Volumes{}, accounts: map[string]*refAccount{}, reverted: map[uint64]bool{}}
	for _, t := range st.txs {
		r.txs = append(r.txs, cloneTx(t))
		if t.RevertedAt != nil {
			r.reverted[*t.ID] = true
		}
	}
	for a, byAsset := range st.vols {
		r.vols[a] = map[string]*ledger.Volumes{}
		for as, v := range byAsset {
			c := v.Copy()
			r.vols[a][as] = &c
		}
	}
	for a, acc := range st.accounts {
		r.accounts[a] = &refAccount{exists: true, metadata: cloneMeta(acc.Metadata)}
	}
	for _, s := range st.schemas {
		r.schemas = append(r.schemas, s.Version)
	}
	return r
}

func (r *refState) vol(db *mDB, acc, asset string) *ledger.Volumes {
	if r.vols[acc] == nil {
		r.vols[acc] = map[string]*ledger.Volumes{}
	}
	if r.vols[acc][asset] == nil {
		c := db.initialVolumes(acc, asset).Copy()
		r.vols[acc][asset] = &c
	}
	return r.vols[acc][asset]
}

func (r *refState) account(addr string) *refAccount {
	if r.accounts[addr] == nil {
		r.accounts[addr] = &refAccount{exists: true, metadata: metadata.Metadata{}}
	}
	return r.accounts[addr]
}

func (r *refState) applyPostings(db *mDB, ps ledger.Postings) {
	for _, p := range ps {
		s := r.vol(db, p.Source, p.Asset)
		s.Output = new(big.Int).Add(s.Output, p.Amount)
		d := r.vol(db, p.Destination, p.Asset)
		d.Input = new(big.Int).Add(d.Input, p.Amount)
		r.account(p.Source)
		r.account(p.Destination)
	}
}

func (r *refState) apply(db *mDB, log *ledger.Log) {
	switch p := log.Data.(type) {
	case ledger.CreatedTransaction:
		r.txs = append(r.txs, cloneTx(&p.Transaction))
		r.applyPostings(db, p.Transaction.Postings)
		for addr, md := range p.AccountMetadata {
			a := r.account(addr)
			for k, v := range md {
				a.metadata[k] = v
			}
		}
	case ledger.RevertedTransaction:
		r.reverted[*p.RevertedTransaction.ID] = true
		r.txs = append(r.txs, cloneTx(&p.RevertTransaction))
		r.applyPostings(db, p.RevertTransaction.Postings)
	case ledger.SavedMetadata:
		if p.TargetType == ledger.MetaTargetTypeTransaction {
			for _, t := range r.txs {
				if *t.ID == p.TargetID.(uint64) {
					if t.Metadata == nil {
						t.Metadata = metadata.Metadata{}
					}
					for k, v := range p.Metadata {
						t.Metadata[k] = v
					}
				}
			}
		} else {
			a := r.account(p.TargetID.(string))
			for k, v := range p.Metadata {
				a.metadata[k] = v
			}
		}
	case ledger.DeletedMetadata:
		if p.TargetType == ledger.MetaTargetTypeTransaction {
			for _, t := range r.txs {
				if *t.ID == p.TargetID.(uint64) {
					delete(t.Metadata, p.Key)
				}
			}
		} else if a, ok := r.accounts[p.TargetID.(string)]; ok {
			delete(a.metadata, p.Key)
		}
	case ledger.InsertedSchema:
		r.schemas = append(r.schemas, p.Schema.Version)
	}
}

// diff compares the reference with a committed state: transactions (ids, postings,
// metadata, reference, timestamp, revert marks), volumes, accounts and their metadata, schemas.
func (r *refState) diff(db *mDB, st *mState) string {
	if len(r.txs) != len(st.txs) {
		return "transactions(count)"
	}
	for i, t := range r.txs {
		u := st.txs[i]
		if *t.ID != *u.ID || !postingsEqual(t.Postings, u.Postings) || !metaEqual(t.Metadata, u.Metadata) || t.Reference != u.Reference || !t.Timestamp.Equal(u.Timestamp) {
			return "transactions"
		}
		if r.reverted[*t.ID] != (u.RevertedAt != nil) {
			return "revert-marks"
		}
	}
	for acc, byAsset := range r.vols {
		for as, v := range byAsset {
			w := db.initialVolumes(acc, as)
			if x, ok := st.vols[acc][as]; ok {
				w = x
			}
			if v.Input.Cmp(w.Input) != 0 || v.Output.Cmp(w.Output) != 0 {
				return "volumes"
			}
		}
	}
	for acc, byAsset := range st.vols {
		for as, w := range byAsset {
			v := r.vol(db, acc, as)
			if v.Input.Cmp(w.Input) != 0 || v.Output.Cmp(w.Output) != 0 {
				return "volumes"
			}
		}
	}
	if len(r.accounts) != len(st.accounts) {
		return "accounts(count)"
	}
	for addr, a := range r.accounts {
		b, ok := st.accounts[addr]
		if !ok {
			return "accounts(missing " + addr + ")"
		}
		if !metaEqual(a.metadata, b.Metadata) {
			return "accounts(metadata)"
		}
	}
	if len(r.schemas) != len(st.schemas) {
		return "schemas"
	}
	return ""
}
