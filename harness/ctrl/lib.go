package ledger

// Shared code of the controller-level harnesses: a real DefaultController (real
// log processor, real Numscript compiler and machine) on top of dbmodel.

import (
	"context"
	"math/big"

	ledger "github.com/formancehq/ledger/internal"
	"github.com/formancehq/ledger/pkg/features"
)

func mkLedger(name string, id int, feats features.FeatureSet) ledger.Ledger {
	l := ledger.Ledger{Name: name, ID: id, State: ledger.StateInUse}
	l.Bucket = "_default"
	if feats == nil {
		feats = features.DefaultFeatures
	}
	l.Features = feats
	return l
}

func newTestController(db *mDB, opts ...DefaultControllerOption) *DefaultController {
	p := NewDefaultNumscriptParser()
	return NewDefaultController(db.ledger, newMStore(db), p, p, p, opts...)
}

func bi(s string) *big.Int {
	n, ok := new(big.Int).SetString(s, 10)
	if !ok {
		panic("bad integer literal in harness: " + s)
	}
	return n
}

func P(src, dst, asset, amount string) ledger.Posting {
	return ledger.Posting{Source: src, Destination: dst, Asset: asset, Amount: bi(amount)}
}

func createFromPostings(ctrl *DefaultController, ps []ledger.Posting, force bool, dryRun bool, ik string, reference string) (*ledger.Log, *ledger.CreatedTransaction, bool, error) {
	data := ledger.NewTransactionData().WithPostings(ps...)
	data.Reference = reference
	return ctrl.CreateTransaction(context.Background(), Parameters[CreateTransaction]{
		DryRun:         dryRun,
		IdempotencyKey: ik,
		Input: CreateTransaction{
			RunScript: TxToScriptData(data, force),
		},
	})
}

// foldBalances applies postings in order to the committed balances and reports whether
// some non-world source would go below zero (the documented insufficient-funds condition).
func foldWouldOverdraw(db *mDB, ps []ledger.Posting) bool {
	bal := map[string]map[string]*big.Int{}
	get := func(acc, asset string) *big.Int {
		if bal[acc] == nil {
			bal[acc] = map[string]*big.Int{}
		}
		if bal[acc][asset] == nil {
			v := db.committedVolumes(acc, asset)
			bal[acc][asset] = new(big.Int).Sub(v.Input, v.Output)
		}
		return bal[acc][asset]
	}
	over := false
	for _, p := range ps {
		s := get(p.Source, p.Asset)
		if p.Source != "world" && p.Amount.Sign() > 0 && s.Cmp(p.Amount) < 0 {
			over = true
		}
		s.Sub(s, p.Amount)
		d := get(p.Destination, p.Asset)
		d.Add(d, p.Amount)
	}
	return over
}
