package ledger

// C02 / C03 (Go-to-SQL link): what the store's write methods hand to their INSERT statements is exactly what they were
// given. The SQL of the statements is decided on the captured text (pychecks/writes.py) for literal rows; this harness
// closes the gap between the method's arguments and those rows: the real Store.UpdateVolumes / InsertMoves run with
// symbolic amounts (every sign and equality pattern, Input == Output included) up to the INSERT, whose model is read back.

import (
	"context"
	"database/sql"
	"encoding/json"
	"fmt"
	"strings"

	"github.com/uptrace/bun"
	"github.com/uptrace/bun/dialect/pgdialect"
	metricnoop "go.opentelemetry.io/otel/metric/noop"
	tracenoop "go.opentelemetry.io/otel/trace/noop"

	ledger "github.com/formancehq/ledger/internal"
	"github.com/formancehq/ledger/pkg/features"
)

func c02Store() *Store {
	l := ledger.Ledger{Name: "l1", ID: 7}
	l.Features = features.DefaultFeatures
	return &Store{ledger: l, db: new(bun.DB), tracer: tracenoop.NewTracerProvider().Tracer("verif"),
		updateBalancesHistogram: metricnoop.Int64Histogram{}, insertMovesHistogram: metricnoop.Int64Histogram{}}
}

func c02UpdateVolumes(n int) {
	store := c02Store()
	var captured []string
	if !verifIsSymbolic() {
		// native replay: real bun over a recording driver; the rows are read back from the INSERT text
		store.db = bun.NewDB(sql.OpenDB(c10Connector{&captured}), pgdialect.New())
	}
	type row struct {
		ledger.AccountsVolumes
		Ledger string
	}
	args := make([]ledger.AccountsVolumes, n)
	want := make([]row, n)
	for i := range args {
		in, out := nondetBig("in"+string(rune('0'+i))), nondetBig("out"+string(rune('0'+i)))
		verifAssume(in.Sign() >= 0 && out.Sign() >= 0)
		args[i] = ledger.AccountsVolumes{Account: "acc" + string(rune('0'+i)), Asset: "USD", Input: in, Output: out}
		want[i] = row{AccountsVolumes: args[i], Ledger: "l1"}
	}
	verifInserts, verifInsertJSON = 0, ""
	pcv, err := store.UpdateVolumes(context.Background(), args...)
	verifAssert("C02:volumes-upsert-succeeds", (err == nil && pcv != nil) || !verifIsSymbolic())
	if !verifIsSymbolic() {
		ok := len(captured) == 1
		for _, a := range args {
			ok = ok && strings.Contains(captured[0], fmt.Sprintf("('%s', '%s', '%s', '%s', 'l1')", a.Account, a.Asset, a.Input, a.Output))
		}
		verifAssert("C02:the-upsert-is-given-every-delta-it-was-asked-to-apply", ok)
		verifReach("end")
		return
	}
	wantJSON, _ := json.Marshal(&want)
	verifAssert("C02:the-upsert-is-given-every-delta-it-was-asked-to-apply", verifInserts == 1 && verifInsertJSON == string(wantJSON))
	verifReach("end")
}

func Harness_C02_store_UpdateVolumes_n1() { c02UpdateVolumes(1) }
func Harness_C02_store_UpdateVolumes_n2() { c02UpdateVolumes(2) }
func Harness_C02_store_UpdateVolumes_n3() { c02UpdateVolumes(3) }
