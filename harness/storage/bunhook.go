package ledger

// What the store's INSERT statements are given: in the symbolic build bun's query objects are opaque; the model handed
// to an INSERT is read back here when the statement is executed.

import (
	"database/sql"
	"encoding/json"
)

var (
	c10Stored       *Log   // the model of the last INSERT into logs
	verifInsertJSON string // the JSON encoding of the model of the last INSERT (any statement)
	verifInserts    int
)

type c10Result struct{}

func (c10Result) LastInsertId() (int64, error) { return 0, nil }
func (c10Result) RowsAffected() (int64, error) { return 1, nil }

func verifBunExecInsert(model any) (sql.Result, error) {
	verifInserts++
	if l, ok := model.(*Log); ok {
		c10Stored = l
	} else if raw, err := json.Marshal(model); err == nil {
		verifInsertJSON = string(raw)
	}
	return c10Result{}, nil
}

func verifBunExecRaw(query string) (sql.Result, error) { return c10Result{}, nil }
