package ledger

// C10 (Go half): the bytes InsertLog stores as memento — which the SQL hash function hashes verbatim
// (encode(memento, 'escape')) — are the bytes Log.ComputeHash hashes for the same log.
//
// The real (*Store).InsertLog runs up to its INSERT (the bun query object is opaque; the model it was given is read
// back), the real Log.ComputeHash runs on the same log; the SQL text is assembled here the way compute_hash does
// (pychecks/c10_hash.py decides that this framing is the one the migrations define) around the stored memento, and
// hashed with the same SHA-256 model. Free-text fields of the payload are symbolic strings.

import (
	"bytes"
	"context"
	"crypto/sha256"
	"database/sql"
	"database/sql/driver"
	"encoding/hex"
	"io"
	"math/big"
	"regexp"

	"github.com/uptrace/bun"
	"github.com/uptrace/bun/dialect/pgdialect"
	metricnoop "go.opentelemetry.io/otel/metric/noop"
	tracenoop "go.opentelemetry.io/otel/trace/noop"

	"github.com/formancehq/go-libs/v5/pkg/types/metadata"
	"github.com/formancehq/go-libs/v5/pkg/types/time"

	ledger "github.com/formancehq/ledger/internal"
	"github.com/formancehq/ledger/pkg/features"
)


// the bytea literal of the memento column in the INSERT statement bun renders: '\x<hex>' as the last value
var c10MementoRe = regexp.MustCompile(`'\\x([0-9a-f]*)'\)\s*RETURNING`)

type c10Connector struct{ stmts *[]string }

func (c c10Connector) Connect(context.Context) (driver.Conn, error) { return c10Conn{c.stmts}, nil }
func (c c10Connector) Driver() driver.Driver                        { return nil }

type c10Conn struct{ stmts *[]string }

func (c c10Conn) Prepare(string) (driver.Stmt, error) { return nil, io.EOF }
func (c c10Conn) Close() error                        { return nil }
func (c c10Conn) Begin() (driver.Tx, error)           { return nil, io.EOF }
func (c c10Conn) ExecContext(_ context.Context, q string, _ []driver.NamedValue) (driver.Result, error) {
	*c.stmts = append(*c.stmts, q)
	return driver.RowsAffected(1), nil
}
func (c c10Conn) QueryContext(_ context.Context, q string, _ []driver.NamedValue) (driver.Rows, error) {
	*c.stmts = append(*c.stmts, q)
	return c10Rows{}, nil
}

type c10Rows struct{}

func (c10Rows) Columns() []string         { return []string{} }
func (c10Rows) Close() error              { return nil }
func (c10Rows) Next([]driver.Value) error { return io.EOF }

func c10Check(payload ledger.LogPayload, ik string) {
	l := ledger.Ledger{Name: "l1", ID: 7}
	l.Features = features.DefaultFeatures
	var captured []string
	var db bun.IDB = new(bun.DB) // opaque to the executor
	if !verifIsSymbolic() {
		// native replay: real bun over a recording driver; the memento is read back from the INSERT text
		db = bun.NewDB(sql.OpenDB(c10Connector{&captured}), pgdialect.New())
	}
	store := &Store{ledger: l, db: db, tracer: tracenoop.NewTracerProvider().Tracer("verif"), insertLogHistogram: metricnoop.Int64Histogram{}}
	log := ledger.NewLog(payload)
	log.IdempotencyKey = ik
	date, _ := time.ParseTime("2024-03-01T10:20:30.123456Z")
	log.Date = date
	c10Stored = nil
	err := store.InsertLog(context.Background(), &log)
	if !verifIsSymbolic() {
		for _, q := range captured {
			if m := c10MementoRe.FindStringSubmatch(q); m != nil {
				if b, derr := hex.DecodeString(m[1]); derr == nil {
					c10Stored = &Log{Memento: b}
				}
			}
		}
	}
	verifAssert("C10:insert-log-reaches-the-insert", err == nil && c10Stored != nil)
	if err != nil || c10Stored == nil {
		return
	}
	// what PostgreSQL hashes for a first log: '{"type":"' || type || '","data":' || encode(memento,'escape') || ',"date":"' ||
	// date || '","idempotencyKey":"' || key || '","id":0,"hash":null}' followed by a newline
	sqlText := `{"type":"` + log.Type.String() + `","data":` + string(c10Stored.Memento) + `,"date":"2024-03-01T10:20:30.123456Z","idempotencyKey":"` + ik + `","id":0,"hash":null}` + "\n"
	h := sha256.New()
	h.Write([]byte(sqlText))
	want := h.Sum(nil)
	log.ComputeHash(nil)
	verifAssert("C10:stored-memento-hashes-to-what-ComputeHash-computes", bytes.Equal(want, log.Hash))
	// the same obligation read as C09: the hash the database stores for the log is the documented one (recomputable from an export)
	verifAssert("C09:the-stored-hash-is-the-documented-hash-of-the-log", bytes.Equal(want, log.Hash))
	verifReach("end")
}

func Harness_C10_memento_created_transaction() {
	tx := ledger.NewTransaction().WithPostings(ledger.NewPosting("world", "bank", "USD/2", big.NewInt(100)))
	tx.Reference = nondetStr("reference", 3)
	tx.Metadata = metadata.Metadata{nondetStr("mk", 2): nondetStr("mv", 3)}
	id := uint64(1)
	tx.ID = &id
	ts, _ := time.ParseTime("2024-03-01T10:00:00Z")
	tx.Timestamp = ts
	c10Check(ledger.CreatedTransaction{Transaction: tx, AccountMetadata: ledger.AccountMetadata{"bank": {"role": nondetStr("av", 3)}}}, nondetStr("ik", 2))
}

func Harness_C10_memento_saved_metadata() {
	c10Check(ledger.SavedMetadata{TargetType: ledger.MetaTargetTypeAccount, TargetID: "acc", Metadata: metadata.Metadata{"k": nondetStr("v", 3)}}, "")
}

func Harness_C10_memento_deleted_metadata() {
	c10Check(ledger.DeletedMetadata{TargetType: ledger.MetaTargetTypeTransaction, TargetID: uint64(3), Key: nondetStr("key", 3)}, nondetStr("ik", 2))
}
