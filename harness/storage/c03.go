package ledger

// C03: post-commit volumes. The real (*Store).CommitTransaction runs on a Store
// whose three SQL-issuing callees (UpdateVolumes, InsertTransaction, InsertMoves)
// are replaced by models through a method-swap overlay; everything CommitTransaction
// itself computes (transaction PCV, the reverse unwinding that yields each move's
// PCV, move order, effective volumes glue) is the real code.

import (
	"context"
	"math/big"

	"github.com/formancehq/go-libs/v5/pkg/types/time"

	ledger "github.com/formancehq/ledger/internal"
	"github.com/formancehq/ledger/pkg/features"
)

type verifVolKey struct{ account, asset string }

var (
	verifPre        map[verifVolKey]*ledger.Volumes
	verifMoves      []*ledger.Move
	verifUpdateArgs []ledger.AccountsVolumes
	verifMovesCalls int
)

func verifPreVolumes(account, asset string) *ledger.Volumes {
	k := verifVolKey{account, asset}
	if v, ok := verifPre[k]; ok {
		return v
	}
	in := nondetBig("pre.in")
	out := nondetBig("pre.out")
	verifAssume(in.Sign() >= 0)
	verifAssume(out.Sign() >= 0)
	v := &ledger.Volumes{Input: in, Output: out}
	verifPre[k] = v
	return v
}

// model of the accounts_volumes upsert: returns pre + delta for every row given
func (store *Store) UpdateVolumes(ctx context.Context, accountVolumes ...ledger.AccountsVolumes) (ledger.PostCommitVolumes, error) {
	verifUpdateArgs = append(verifUpdateArgs, accountVolumes...)
	ret := ledger.PostCommitVolumes{}
	for _, v := range accountVolumes {
		pre := verifPreVolumes(v.Account, v.Asset)
		if _, ok := ret[v.Account]; !ok {
			ret[v.Account] = ledger.VolumesByAssets{}
		}
		ret[v.Account][v.Asset] = ledger.Volumes{
			Input:  new(big.Int).Add(pre.Input, v.Input),
			Output: new(big.Int).Add(pre.Output, v.Output),
		}
	}
	return ret, nil
}

func (store *Store) InsertTransaction(ctx context.Context, tx *ledger.Transaction) error {
	if tx.ID == nil {
		id := uint64(42)
		tx.ID = &id
	}
	if tx.InsertedAt.IsZero() {
		tx.InsertedAt = time.Now()
	}
	if tx.Timestamp.IsZero() {
		tx.Timestamp = tx.InsertedAt
	}
	return nil
}

func (store *Store) InsertMoves(ctx context.Context, moves ...*ledger.Move) error {
	verifMovesCalls++
	verifMoves = append(verifMoves, moves...)
	// the insert returns post_commit_effective_volumes computed by the triggers; here: opaque values
	for _, m := range moves {
		m.PostCommitEffectiveVolumes = &ledger.Volumes{Input: nondetBig("pcev.in"), Output: nondetBig("pcev.out")}
	}
	return nil
}

func c03Postings(n int) ledger.Postings {
	ps := make(ledger.Postings, n)
	for i := 0; i < n; i++ {
		id := string(rune('0' + i))
		amt := nondetBig("amount" + id)
		verifAssume(amt.Sign() >= 0)
		ps[i] = ledger.Posting{Source: nondetAtom("src" + id), Destination: nondetAtom("dst" + id), Asset: nondetAtom("asset" + id), Amount: amt}
	}
	return ps
}

func c03Check(n int, movesHistory string) {
	verifPre = map[verifVolKey]*ledger.Volumes{}
	verifMoves = nil
	verifUpdateArgs = nil
	verifMovesCalls = 0
	l := ledger.Ledger{Name: "l1", ID: 7}
	l.Features = features.FeatureSet{
		features.FeatureMovesHistory:                           movesHistory,
		features.FeatureMovesHistoryPostCommitEffectiveVolumes: "SYNC",
		features.FeatureHashLogs:                               "SYNC",
		features.FeatureAccountMetadataHistory:                 "SYNC",
		features.FeatureTransactionMetadataHistory:             "SYNC",
	}
	store := &Store{ledger: l}
	ps := c03Postings(n)
	orig := make([]ledger.Posting, n)
	for i := range ps {
		orig[i] = ledger.Posting{Source: ps[i].Source, Destination: ps[i].Destination, Asset: ps[i].Asset, Amount: new(big.Int).Set(ps[i].Amount)}
	}
	tx := ledger.NewTransaction().WithPostings(ps...)
	err := store.CommitTransaction(context.Background(), &tx)
	verifAssert("C03:no-error", err == nil)

	// (i) transaction PCV = pre + the transaction's own deltas, for touched pairs and no others
	for _, p := range orig {
		for _, acc := range []string{p.Source, p.Destination} {
			pre := verifPreVolumes(acc, p.Asset)
			wantIn, wantOut := new(big.Int).Set(pre.Input), new(big.Int).Set(pre.Output)
			for _, q := range orig {
				if q.Asset != p.Asset {
					continue
				}
				if q.Destination == acc {
					wantIn.Add(wantIn, q.Amount)
				}
				if q.Source == acc {
					wantOut.Add(wantOut, q.Amount)
				}
			}
			byAsset, ok := tx.PostCommitVolumes[acc]
			verifAssert("C03:pcv-account-present", ok)
			got, ok := byAsset[p.Asset]
			verifAssert("C03:pcv-asset-present", ok)
			verifAssert("C03:pcv-input", got.Input.Cmp(wantIn) == 0)
			verifAssert("C03:pcv-output", got.Output.Cmp(wantOut) == 0)
		}
	}
	for acc, byAsset := range tx.PostCommitVolumes {
		for asset := range byAsset {
			touched := false
			for _, p := range orig {
				if p.Asset == asset && (p.Source == acc || p.Destination == acc) {
					touched = true
				}
			}
			verifAssert("C03:pcv-only-touched", touched)
		}
	}
	// (iii) preCommitVolumes = PCV - own postings = the pre-state; receiver untouched
	before := tx.PostCommitVolumes.Copy()
	preV := tx.PostCommitVolumes.SubtractPostings(tx.Postings)
	for acc, byAsset := range preV {
		for asset, v := range byAsset {
			pre := verifPreVolumes(acc, asset)
			verifAssert("C03:pre-input", v.Input.Cmp(pre.Input) == 0)
			verifAssert("C03:pre-output", v.Output.Cmp(pre.Output) == 0)
		}
	}
	for acc, byAsset := range before {
		for asset, v := range byAsset {
			now := tx.PostCommitVolumes[acc][asset]
			verifAssert("C03:subtract-does-not-mutate", now.Input.Cmp(v.Input) == 0 && now.Output.Cmp(v.Output) == 0)
		}
	}

	if movesHistory != "ON" {
		verifAssert("C35:no-moves-when-off", verifMovesCalls == 0 && len(verifMoves) == 0)
		verifReach("end")
		return
	}
	// (ii) moves: [source, destination] per posting in posting order, PCV = forward fold
	verifAssert("C03:moves-count", len(verifMoves) == 2*n)
	running := map[verifVolKey]*ledger.Volumes{}
	get := func(acc, asset string) *ledger.Volumes {
		k := verifVolKey{acc, asset}
		if v, ok := running[k]; ok {
			return v
		}
		pre := verifPreVolumes(acc, asset)
		v := &ledger.Volumes{Input: new(big.Int).Set(pre.Input), Output: new(big.Int).Set(pre.Output)}
		running[k] = v
		return v
	}
	for i, p := range orig {
		sm, dm := verifMoves[2*i], verifMoves[2*i+1]
		verifAssert("C03:move-source-shape", sm.IsSource && sm.Account == p.Source && sm.Asset == p.Asset && (*big.Int)(sm.Amount).Cmp(p.Amount) == 0)
		verifAssert("C03:move-dest-shape", !dm.IsSource && dm.Account == p.Destination && dm.Asset == p.Asset && (*big.Int)(dm.Amount).Cmp(p.Amount) == 0)
		verifAssert("C03:move-tx-id", sm.TransactionID == *tx.ID && dm.TransactionID == *tx.ID)
		verifAssert("C03:move-dates", sm.EffectiveDate.Equal(tx.Timestamp) && dm.EffectiveDate.Equal(tx.Timestamp) &&
			sm.InsertionDate.Equal(tx.InsertedAt) && dm.InsertionDate.Equal(tx.InsertedAt))
		s := get(p.Source, p.Asset)
		s.Output.Add(s.Output, p.Amount)
		verifAssert("C03:move-source-pcv", sm.PostCommitVolumes.Input.Cmp(s.Input) == 0 && sm.PostCommitVolumes.Output.Cmp(s.Output) == 0)
		d := get(p.Destination, p.Asset)
		d.Input.Add(d.Input, p.Amount)
		verifAssert("C03:move-dest-pcv", dm.PostCommitVolumes.Input.Cmp(d.Input) == 0 && dm.PostCommitVolumes.Output.Cmp(d.Output) == 0)
	}
	// C01 / C05 (Go glue): a read at an insertion-date point in time takes, per (account, asset), the volumes recorded by the
	// move with the greatest seq, and seq follows the order of the rows handed to the INSERT: the LAST move of each pair must
	// carry the volumes the transaction leaves behind (which are balanced whenever the pre-state is: C01's other halves)
	for acc, byAsset := range tx.PostCommitVolumes {
		for asset, v := range byAsset {
			var last *ledger.Move
			for _, m := range verifMoves {
				if m.Account == acc && m.Asset == asset {
					last = m
				}
			}
			if last != nil {
				ok := last.PostCommitVolumes.Input.Cmp(v.Input) == 0 && last.PostCommitVolumes.Output.Cmp(v.Output) == 0
				verifAssert("C01:the-last-inserted-move-of-a-pair-carries-the-volumes-the-transaction-leaves", ok)
				verifAssert("C05:the-last-inserted-move-of-a-pair-carries-the-volumes-the-transaction-leaves", ok)
			}
		}
	}
	// C04 (Go glue): the transaction's effective volumes are those of the LAST move of each (account, asset)
	for acc, byAsset := range tx.PostCommitEffectiveVolumes {
		for asset, v := range byAsset {
			var last *ledger.Move
			for _, m := range verifMoves {
				if m.Account == acc && m.Asset == asset {
					last = m
				}
			}
			verifAssert("C04:pcev-has-move", last != nil)
			verifAssert("C04:pcev-is-last-move", last.PostCommitEffectiveVolumes.Input.Cmp(v.Input) == 0 && last.PostCommitEffectiveVolumes.Output.Cmp(v.Output) == 0)
		}
	}
	for _, m := range verifMoves {
		_, ok := tx.PostCommitEffectiveVolumes[m.Account][m.Asset]
		verifAssert("C04:pcev-covers-moves", ok)
	}
	verifReach("end")
}

func Harness_C03_Commit_p1()     { c03Check(1, "ON") }
func Harness_C03_Commit_p2()     { c03Check(2, "ON") }
func Harness_C03_Commit_p3()     { c03Check(3, "ON") }
func Harness_C03_Commit_p2_off() { c03Check(2, "OFF") }
