package ledger

// C38, the `expand` query parameter: the v2 API hands every comma-separated value of ?expand= to the resource handler's
// Expand unchanged. A value the resource does not know must be refused (or ignored): it must never take part in the
// statement (the accounts handler builds a column alias from it).
//
// The real Expand methods run on a Store whose bun handle is opaque (the builder calls are recorded, nothing is sent).

import (
	"sort"

	"github.com/uptrace/bun"
	"github.com/uptrace/bun/dialect/pgdialect"

	ledger "github.com/formancehq/ledger/internal"
	"github.com/formancehq/ledger/internal/queries"
	"github.com/formancehq/ledger/internal/storage/common"
	"github.com/formancehq/ledger/pkg/features"
)

func c38Store() *Store {
	l := ledger.Ledger{Name: "l1", ID: 7}
	l.Bucket = "_default"
	l.Features = features.DefaultFeatures
	var db bun.IDB = new(bun.DB) // opaque to the executor
	if !verifIsSymbolic() {
		db = bun.NewDB(nil, pgdialect.New())
	}
	return &Store{ledger: l, db: db}
}

func c38Expand(resource string, known ...string) {
	p := nondetStr("expand", 8)
	for _, k := range known {
		verifAssume(p != k)
	}
	st := c38Store()
	var (
		sel *bun.SelectQuery
		err error
	)
	switch resource {
	case "accounts":
		sel, _, err = accountsResourceHandler{store: st}.Expand(common.ResourceQuery[any]{}, p)
	case "transactions":
		sel, _, err = transactionsResourceHandler{store: st}.Expand(common.ResourceQuery[any]{}, p)
	case "logs":
		sel, _, err = logsResourceHandler{store: st}.Expand(common.ResourceQuery[any]{}, p)
	case "volumes":
		sel, _, err = volumesResourceHandler{store: st}.Expand(common.ResourceQuery[ledger.GetVolumesOptions]{}, p)
	}
	verifAssert("C38:an-unknown-expand-value-is-refused-or-ignored-never-built-into-the-statement", err != nil || sel == nil)
	verifReach("end")
}

func Harness_C38_expand_accounts()     { c38Expand("accounts", "volumes", "effectiveVolumes") }
func Harness_C38_expand_transactions() { c38Expand("transactions", "effectiveVolumes") }
func Harness_C38_expand_logs()         { c38Expand("logs") }
func Harness_C38_expand_volumes()      { c38Expand("volumes") }

// ---- filters: every (field, operator) pair a resource's schema lets through validateFilters must be resolved by the
// handler's ResolveFilter without a panic (ConvertOperatorToSQL panics on an operator it does not know).

type c38Resolver func(operator, property string, value any) (string, []any, error)

func c38FilterOps(schema queries.EntitySchema, resolve c38Resolver) {
	names := make([]string, 0, len(schema.Fields))
	for n := range schema.Fields {
		names = append(names, n)
	}
	sort.Strings(names)
	name := names[nondetChoice("field", len(names))]
	field := schema.Fields[name]
	ops := field.Type.Operators()
	op := ops[nondetChoice("operator", len(ops))]
	property := name
	typ := field.Type
	if field.Type.Index() != nil {
		property = name + "[k1]"
		if nondetChoice("indexed", 2) == 1 {
			property = name // the bare map field (e.g. metadata, balance)
		}
		if op != queries.OperatorExists {
			typ = field.Type.Index()
		}
	}
	var value any
	switch typ.(type) {
	case queries.TypeString:
		value = "users:"
	case queries.TypeDate:
		value = "2024-01-02T03:04:05Z"
	case queries.TypeNumeric:
		value = float64(5)
	case queries.TypeBoolean:
		value = true
	default:
		value = true // $exists on a map
	}
	if op == queries.OperatorIn {
		value = []any{value}
	}
	if err := field.Type.ValidateValue(op, value); err != nil {
		verifReach("end") // validateFilters refuses the pair: it never reaches the handler
		return
	}
	sql, _, err := resolve(op, property, value)
	verifAssert("C38:an-accepted-filter-is-resolved-or-refused-with-an-error", err != nil || sql != "")
	verifReach("end")
}

func Harness_C38_filter_ops_accounts() {
	h := accountsResourceHandler{store: c38Store()}
	c38FilterOps(h.Schema(), func(o, p string, v any) (string, []any, error) {
		return h.ResolveFilter(common.ResourceQuery[any]{}, o, p, v)
	})
}
func Harness_C38_filter_ops_transactions() {
	h := transactionsResourceHandler{store: c38Store()}
	c38FilterOps(h.Schema(), func(o, p string, v any) (string, []any, error) {
		return h.ResolveFilter(common.ResourceQuery[any]{}, o, p, v)
	})
}
func Harness_C38_filter_ops_logs() {
	h := logsResourceHandler{store: c38Store()}
	c38FilterOps(h.Schema(), func(o, p string, v any) (string, []any, error) {
		return h.ResolveFilter(common.ResourceQuery[any]{}, o, p, v)
	})
}
func Harness_C38_filter_ops_schemas() {
	h := schemasResourceHandler{store: c38Store()}
	c38FilterOps(h.Schema(), func(o, p string, v any) (string, []any, error) {
		return h.ResolveFilter(common.ResourceQuery[any]{}, o, p, v)
	})
}
func Harness_C38_filter_ops_volumes() {
	h := volumesResourceHandler{store: c38Store()}
	c38FilterOps(h.Schema(), func(o, p string, v any) (string, []any, error) {
		return h.ResolveFilter(common.ResourceQuery[ledger.GetVolumesOptions]{}, o, p, v)
	})
}
func Harness_C38_filter_ops_aggregated() {
	h := aggregatedBalancesResourceRepositoryHandler{store: c38Store()}
	c38FilterOps(h.Schema(), func(o, p string, v any) (string, []any, error) {
		return h.ResolveFilter(common.ResourceQuery[ledger.GetAggregatedVolumesOptions]{}, o, p, v)
	})
}
