package ledger

// C38, the `expand` query parameter: the v2 API hands every comma-separated value of ?expand= to the resource handler's
// Expand unchanged. A value the resource does not know must be refused (or ignored): it must never take part in the
// statement (the accounts handler builds a column alias from it).
//
// The real Expand methods run on a Store whose bun handle is opaque (the builder calls are recorded, nothing is sent).

import (
	"github.com/uptrace/bun"
	"github.com/uptrace/bun/dialect/pgdialect"

	ledger "github.com/formancehq/ledger/internal"
	"github.com/formancehq/ledger/internal/storage/common"
	"github.com/formancehq/ledger/pkg/features"
)

func c38Store() *Store {
	l := ledger.Ledger{Name: "l1", ID: 7}
	l.Bucket = "_default"
	l.Features = features.DefaultFeatures
	var db bun.IDB = new(bun.DB) // opaque to the executor
	if !verifIsSymbolic() {
		db = bun.NewDB(nil, pgdialect.New())
	}
	return &Store{ledger: l, db: db}
}

func c38Expand(resource string, known ...string) {
	p := nondetStr("expand", 8)
	for _, k := range known {
		verifAssume(p != k)
	}
	st := c38Store()
	var (
		sel *bun.SelectQuery
		err error
	)
	switch resource {
	case "accounts":
		sel, _, err = accountsResourceHandler{store: st}.Expand(common.ResourceQuery[any]{}, p)
	case "transactions":
		sel, _, err = transactionsResourceHandler{store: st}.Expand(common.ResourceQuery[any]{}, p)
	case "logs":
		sel, _, err = logsResourceHandler{store: st}.Expand(common.ResourceQuery[any]{}, p)
	case "volumes":
		sel, _, err = volumesResourceHandler{store: st}.Expand(common.ResourceQuery[ledger.GetVolumesOptions]{}, p)
	}
	verifAssert("C38:an-unknown-expand-value-is-refused-or-ignored-never-built-into-the-statement", err != nil || sel == nil)
	verifReach("end")
}

func Harness_C38_expand_accounts()     { c38Expand("accounts", "volumes", "effectiveVolumes") }
func Harness_C38_expand_transactions() { c38Expand("transactions", "effectiveVolumes") }
func Harness_C38_expand_logs()         { c38Expand("logs") }
func Harness_C38_expand_volumes()      { c38Expand("volumes") }
