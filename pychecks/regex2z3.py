"""Translate a Go/RE2-compatible regular expression (the subset used by the repo) into a z3 regex."""
import z3
try:
    import re._parser as sre_parse  # py3.11+
    import re._constants as sre_c
except ImportError:  # pragma: no cover
    import sre_parse, sre_constants as sre_c


def _char(c):
    return z3.Re(z3.StringVal(chr(c)))


def _cls(items):
    parts = []
    neg = False
    for op, av in items:
        if op == sre_c.NEGATE:
            neg = True
        elif op == sre_c.LITERAL:
            parts.append(_char(av))
        elif op == sre_c.RANGE:
            parts.append(z3.Range(chr(av[0]), chr(av[1])))
        elif op == sre_c.CATEGORY:
            if av == sre_c.CATEGORY_DIGIT:
                parts.append(z3.Range("0", "9"))
            elif av == sre_c.CATEGORY_WORD:
                parts += [z3.Range("0", "9"), z3.Range("a", "z"), z3.Range("A", "Z"), _char(ord("_"))]
            elif av == sre_c.CATEGORY_SPACE:
                parts += [_char(c) for c in (9, 10, 11, 12, 13, 32)]
            else:
                raise ValueError(f"category {av}")
        else:
            raise ValueError(f"class item {op}")
    u = parts[0] if len(parts) == 1 else z3.Union(*parts)
    if neg:
        return z3.Intersect(z3.AllChar(z3.ReSort(z3.StringSort())), z3.Complement(u))
    return u


def _seq(items):
    out = []
    for op, av in items:
        if op == sre_c.LITERAL:
            out.append(_char(av))
        elif op == sre_c.IN:
            out.append(_cls(av))
        elif op == sre_c.ANY:
            out.append(z3.AllChar(z3.ReSort(z3.StringSort())))
        elif op in (sre_c.MAX_REPEAT, sre_c.MIN_REPEAT):
            lo, hi, sub = av
            r = _seq(sub)
            if hi == sre_c.MAXREPEAT:
                if lo == 0:
                    out.append(z3.Star(r))
                elif lo == 1:
                    out.append(z3.Plus(r))
                else:
                    out.append(z3.Concat(z3.Loop(r, lo, lo), z3.Star(r)))
            else:
                out.append(z3.Option(r) if (lo, hi) == (0, 1) else z3.Loop(r, lo, hi))
        elif op == sre_c.SUBPATTERN:
            out.append(_seq(av[3]))
        elif op == sre_c.BRANCH:
            out.append(z3.Union(*[_seq(b) for b in av[1]]))
        elif op == sre_c.AT:
            if av in (sre_c.AT_BEGINNING, sre_c.AT_END, sre_c.AT_BEGINNING_STRING, sre_c.AT_END_STRING):
                continue  # handled by the caller: only whole-string anchors at the two ends are accepted
            raise ValueError(f"anchor {av}")
        elif op == sre_c.CATEGORY:
            out.append(_cls([(op, av)]))
        else:
            raise ValueError(f"regex op {op}")
    if not out:
        return z3.Re(z3.StringVal(""))
    return out[0] if len(out) == 1 else z3.Concat(*out)


def full_match(pattern):
    """z3 regex of the strings s with ^pattern$ matching s (pattern may carry its own ^ and $ at the ends)."""
    p = pattern
    return _seq(list(sre_parse.parse(p)))


def antlr_rule(rule):
    """ANTLR lexer rule body with literals, character classes, ( )* ( )+ ( )? -> Python regex text"""
    import re
    out, i = "", 0
    while i < len(rule):
        c = rule[i]
        if c.isspace():
            i += 1
        elif c == "'":
            j = rule.index("'", i + 1)
            out += re.escape(rule[i + 1:j])
            i = j + 1
        elif c == "[":
            j = rule.index("]", i)
            out += rule[i:j + 1]
            i = j + 1
        elif c in "()*+?|":
            out += c
            i += 1
        else:
            raise ValueError(f"unsupported lexer rule syntax at {rule[i:]!r}")
    return out
