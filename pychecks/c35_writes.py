"""C35 (write half): the statements a write emits do not depend on the feature configuration, except where the
feature is about them.

The write statements of the real store are captured (recording driver) for every feature configuration. Decided per
configuration against the default one: every write statement other than the moves insert and the log lock is the same
text (so that transactions, logs, volumes, accounts and metadata are written identically: equal SQL text on equal
tables gives equal results); the INSERT into moves is emitted iff MOVES_HISTORY=ON; InsertLog takes the advisory lock
iff HASH_LOGS=SYNC. What the feature-dependent triggers do is C04 / C17 / C09; what reads do per configuration is the
read half."""
import re
from common import Harness, write, capture_sql, pick

WRITES = ["UpdateVolumes", "GetBalances", "UpsertAccounts", "UpdateAccountsMetadata", "DeleteAccountMetadata", "RevertTransaction", "RevertTransactionAt",
          "UpdateTransactionMetadata", "DeleteTransactionMetadata", "InsertLog", "CommitTransaction", "CommitTransaction.noReference", "ReadLogWithIdempotencyKey"]


def is_moves(s):
    return bool(re.match(r'\s*insert\s+into\s+"?\w+"?\."?moves"?', s, re.I))


def is_lock(s):
    return bool(re.match(r"\s*select\s+pg_\w*advisory\w*lock", s, re.I))


def run(repo, tier, out):
    recs = capture_sql(repo)
    feats = sorted({r["config"]["features"] for r in recs if "features" in r["config"]})
    hs = []
    for feat in feats:
        if feat == "default":
            continue
        h = Harness("C35_writes_" + feat.replace("=", "_"))
        hs.append(h)
        minimal = feat == "minimal"
        moves_on = not (minimal or "MOVES_HISTORY=OFF" in feat)
        lock_on = not (minimal or "HASH_LOGS=" in feat)
        for name in WRITES:
            for alone in ("false", "true"):
                d = [r for r in pick(recs, name, features="default", alone=alone) if "ledger" not in r["config"]]
                f = [r for r in pick(recs, name, features=feat, alone=alone) if "ledger" not in r["config"]]
                if not d or not f:
                    h.inconclusive.append(f"{name}: capture missing for {feat} / default")
                    continue
                ds, fs = d[0]["sql"], f[0]["sql"]

                def verdict(label, ok, detail):
                    st = h.stat(label)
                    st["checked"] += 1
                    if ok:
                        st["concrete_true"] += 1
                    else:
                        st["sat"] += 1
                        h.violations.append({"harness": h.name, "label": label, "kind": "assert", "model": {}, "detail": detail[:900], "concrete_check": "reproduced",
                                             "concrete_detail": {"default": ds, feat: fs}, "sql_replayed_on_postgres": False})
                def canon(stmt):
                    # the store builds some lists from Go maps (GetBalances' OR branches, VALUES tuples): their order is
                    # not part of the statement's meaning; compare the skeleton and the multiset of innermost groups
                    groups = re.findall(r"\([^()]*\)", stmt)
                    return re.sub(r"\([^()]*\)", "()", stmt), sorted(groups)
                core = lambda l: [canon(s) for s in l if not is_moves(s) and not is_lock(s)]
                verdict(f"C35:write-statements-do-not-depend-on-the-configuration@{feat}", core(ds) == core(fs), f"{name} alone={alone}")
                if name.startswith("CommitTransaction") and any(is_moves(s) for s in ds):
                    verdict(f"C35:moves-are-inserted-iff-MOVES_HISTORY-is-ON@{feat}", any(is_moves(s) for s in fs) == moves_on, f"{name} alone={alone}")
                if name == "InsertLog":
                    verdict(f"C35:log-insert-takes-the-ledger-lock-iff-HASH_LOGS-is-SYNC@{feat}", any(is_lock(s) for s in fs) == lock_on and any(is_lock(s) for s in ds), f"{name} alone={alone}")
        h.encoded = [f"{len(WRITES)} write methods x alone-in-bucket on/off, configuration {feat} against default"]
        h.reach["end"] = 1
    write(out, hs)


if __name__ == "__main__":
    import argparse
    ap = argparse.ArgumentParser()
    ap.add_argument("--repo", default="/repo"); ap.add_argument("--tier", default="quick"); ap.add_argument("--out", required=True)
    a = ap.parse_args()
    run(a.repo, a.tier, a.out)
