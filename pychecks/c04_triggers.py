"""C04: effective volumes honour back-dated inserts.

The current bodies of set_effective_volumes (BEFORE INSERT) and update_effective_volumes (AFTER INSERT)
are resolved from the migration files on every run and executed by the PL/pgSQL interpreter on a symbolic
`moves` table. Inductive step: K rows satisfying InvE (post_commit_effective_volumes(m) = fold of the moves
of m's (ledger, account, asset) that are not after m in (effective_date, seq) order), one more row with the
greatest seq and an arbitrary effective date (past, equal, future), arbitrary account/asset/ledger (so other
partitions and ledgers sit in the same table): before-trigger, insert, after-trigger; InvE must hold on the
K+1 rows. One step covers histories of any length."""
import z3
from common import Harness, write, dump_tables
import sqlsym, sqltables, plpgsql
from sqlsym import DB, Rel, Row
from sqltables import col


def inv_e(moves, rows):
    out = []
    for r in rows:
        inp, outp = z3.IntVal(0), z3.IntVal(0)
        for s in rows:
            notafter = z3.Or(col(moves, s, "effective_date").z < col(moves, r, "effective_date").z,
                             z3.And(col(moves, s, "effective_date").z == col(moves, r, "effective_date").z, col(moves, s, "seq").z <= col(moves, r, "seq").z))
            same = z3.And(s.guard, *[col(moves, s, c).z == col(moves, r, c).z for c in ("ledger", "accounts_address", "asset")], notafter)
            inp = inp + z3.If(z3.And(same, z3.Not(col(moves, s, "is_source").z)), col(moves, s, "amount").z, 0)
            outp = outp + z3.If(z3.And(same, col(moves, s, "is_source").z), col(moves, s, "amount").z, 0)
        pcev = col(moves, r, "post_commit_effective_volumes")
        out.append(z3.Implies(r.guard, z3.And(z3.Not(pcev.null), pcev.z["inputs"].z == inp, pcev.z["outputs"].z == outp)))
    return out


def run(repo, tier, out):
    K = 4 if tier == "quick" else 7
    fns = plpgsql.resolve_functions(repo)
    h = Harness("C04_effective_volume_triggers")
    for need in ("set_effective_volumes", "update_effective_volumes"):
        if need not in fns:
            h.inconclusive.append(f"function {need} not found in the migrations")
    if h.inconclusive:
        return write(out, [h])
    h.encoded = [f"{n} (migration {fns[n]['migration']})" for n in ("set_effective_volumes", "update_effective_volumes")]
    t, cons = sqltables.bucket(K)
    moves = t["moves"]
    pre_rows = moves.rows
    new_rel = sqltables.table("new", 1, sqltables.MOVES)
    new_row = new_rel.rows[0]
    new_rel = Rel([("new", c[1]) for c in new_rel.cols], new_rel.rows)
    cons += [new_row.guard, col(new_rel, new_row, "amount").z >= 0]
    # the new row is the latest insertion
    cons += [z3.Implies(r.guard, col(moves, r, "seq").z < col(new_rel, new_row, "seq").z) for r in pre_rows]
    pre_inv = inv_e(moves, pre_rows)
    db = DB({"moves": moves})
    try:
        trig = plpgsql.Trigger(db, new_rel, new_row, "moves")
        trig.run(fns["set_effective_volumes"]["body"])
        # the row is inserted (the AFTER trigger's UPDATE sees it, and the `effective_date > new.effective_date`
        # predicate decides whether it touches it)
        db.tables["moves"] = Rel(moves.cols, db.tables["moves"].rows + [Row(new_row.guard, list(new_row.vals))])
        trig.run(fns["update_effective_volumes"]["body"])
    except sqlsym.Unsupported as e:
        h.inconclusive.append(f"trigger body outside the PL/pgSQL subset: {e}")
        return write(out, [h])
    post = db.tables["moves"]
    goal = z3.And(*inv_e(post, post.rows))
    h.reachable("end", cons + pre_inv)
    h.prove("C04:one-insert-preserves-the-effective-volume-invariant", cons + pre_inv, goal,
            model_vars=[col(new_rel, new_row, c).z for c in ("effective_date", "seq", "amount")], detail="set_effective_volumes; insert; update_effective_volumes",
            dump=dump_tables({"moves_before": Rel(moves.cols, pre_rows), "new": new_rel, "moves_after": post}), timeout_ms=300000)
    # base case: the first move of a partition
    empty = [z3.Not(r.guard) for r in pre_rows]
    h.prove("C04:first-insert-establishes-the-invariant", cons + empty, goal, detail="empty table")
    write(out, [h])


if __name__ == "__main__":
    import argparse
    ap = argparse.ArgumentParser()
    ap.add_argument("--repo", default="/repo"); ap.add_argument("--tier", default="quick"); ap.add_argument("--out", required=True)
    a = ap.parse_args()
    run(a.repo, a.tier, a.out)
