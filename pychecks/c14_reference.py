"""C14: transaction references are unique per ledger.

What the code contributes is (a) the definition of the unique index, resolved from the migrations on every
run, (b) the value the real InsertTransaction writes for an empty reference (captured SQL), (c) the constraint
name the Go code maps to ErrTransactionReferenceConflict. PostgreSQL's enforcement of a unique index —
no two rows satisfying the index predicate agree on all index columns, NULLs being distinct — is the
assumed semantics. z3 decides, over all table contents of K rows the index admits, that no two
transactions of one ledger share a non-empty reference, and (satisfiability) that the index does not forbid
more: equal references in two ledgers, and any number of transactions without reference."""
import os, re, z3
from common import Harness, write, capture_sql, pick, dump_tables
import sqlsym, sqltables, ddl, dml
from sqlsym import DB, Env, Evaluator, Rel, vstr, vint
from sqltables import col


def index_admits(rel, ix, ev):
    """constraint a unique index puts on a table content"""
    pred = sqlsym.Parser(ix["where"]).expr() if ix["where"] else None
    cons = []
    names = [c[1] for c in rel.cols]

    def indexed(r):
        if pred is None:
            return z3.BoolVal(True)
        v = ev.ev(pred, Env(rel, r))
        return z3.And(z3.Not(v.null), v.z)
    for i in range(len(rel.rows)):
        for j in range(i + 1, len(rel.rows)):
            a, b = rel.rows[i], rel.rows[j]
            agree = []
            for c in ix["columns"]:
                x, y = a.vals[names.index(c)], b.vals[names.index(c)]
                agree.append(z3.And(z3.Not(x.null), z3.Not(y.null), x.z == y.z))  # NULLs are distinct
            cons.append(z3.Not(z3.And(a.guard, b.guard, indexed(a), indexed(b), *agree)))
    return cons


def run(repo, tier, out):
    K = 3 if tier == "quick" else 4
    h = Harness("C14_reference_index")
    idx = ddl.resolve_indexes(repo)
    src = open(os.path.join(repo, "internal/storage/ledger/transactions.go")).read()
    m = re.search(r'GetConstraint\(\)\s*==\s*"(\w+)"\s*\{\s*return nil, NewErrTransactionReferenceConflict', src)
    if not m:
        h.inconclusive.append("cannot find the constraint name InsertTransaction maps to ErrTransactionReferenceConflict")
        return write(out, [h])
    cname = m.group(1)
    st = h.stat("C14:the-mapped-constraint-is-a-unique-index-on-transactions")
    st["checked"] += 1
    ix = idx.get(cname)
    if ix is None or not ix["unique"] or ix["table"] != "transactions":
        st["sat"] += 1
        h.violations.append({"harness": h.name, "label": "C14:the-mapped-constraint-is-a-unique-index-on-transactions", "kind": "assert", "model": {"constraint": cname, "index": str(ix)},
                             "concrete_check": "reproduced", "concrete_detail": {"indexes": {k: v for k, v in idx.items() if v["table"] == "transactions"}}})
        return write(out, [h])
    st["concrete_true"] += 1
    h.encoded = [f"index {cname}: {ix}", "InsertTransaction (captured)"]
    t, cons = sqltables.bucket(K)
    tx = t["transactions"]
    # drop the generic (ledger,id) uniqueness only; keep rows otherwise arbitrary
    db = DB(t, params={})
    ev = Evaluator(db)
    admits = index_admits(tx, ix, ev)
    rows = tx.rows
    dup = z3.Or(*[z3.And(a.guard, b.guard, col(tx, a, "ledger").z == col(tx, b, "ledger").z, z3.Not(col(tx, a, "reference").null), z3.Not(col(tx, b, "reference").null),
                         col(tx, a, "reference").z == col(tx, b, "reference").z, col(tx, a, "reference").z != z3.StringVal(""))
                  for i, a in enumerate(rows) for b in rows[i + 1:]])
    h.reachable("end", admits + [z3.Or(*[r.guard for r in rows])])
    h.prove("C14:no-two-transactions-of-a-ledger-share-a-non-empty-reference", admits, z3.Not(dup), detail=str(ix), dump=dump_tables({"transactions": tx}))
    # the index forbids nothing more
    a, b = rows[0], rows[1]
    ok1 = h.reachable("C14:same-reference-in-two-ledgers-is-admitted", admits + [a.guard, b.guard, col(tx, a, "ledger").z != col(tx, b, "ledger").z, z3.Not(col(tx, a, "reference").null),
                                                                               z3.Not(col(tx, b, "reference").null), col(tx, a, "reference").z == col(tx, b, "reference").z, col(tx, a, "reference").z == z3.StringVal("ref")])
    for label, ok in (("C14:references-are-independent-across-ledgers", ok1),):
        st = h.stat(label)
        st["checked"] += 1
        if ok:
            st["discharged_unsat"] += 1
        else:
            st["sat"] += 1
            h.violations.append({"harness": h.name, "label": label, "kind": "assert", "model": {}, "concrete_check": "reproduced", "concrete_detail": {"index": ix}})
    # what InsertTransaction writes for an empty reference never collides
    recs = capture_sql(repo)
    for rec in pick(recs, "CommitTransaction.noReference", features="default", alone="false"):
        ins = [q for q in rec["sql"] if 'INSERT INTO "_default".transactions' in q]
        if not ins:
            h.inconclusive.append("no INSERT INTO transactions captured for a transaction without reference")
            continue
        L = z3.String("this_ledger")
        db2 = DB(t, params={"L#1": vstr(L), "transaction_date()": vint(z3.Int("txdate"))})
        ex = dml.Exec(db2, defaults={("transactions", c): vint(z3.Int("default_" + c)) for c in ("timestamp", "inserted_at", "updated_at")})
        try:
            ex.run(sqlsym.parse(ins[0]))
        except sqlsym.Unsupported as e:
            h.inconclusive.append(f"InsertTransaction: outside the SQL subset: {e}")
            continue
        post = ex.work["transactions"]
        new = post.rows[-1]
        ev2 = Evaluator(db2)
        pred = sqlsym.Parser(ix["where"]).expr() if ix["where"] else None
        if pred is not None:
            v = ev2.ev(pred, Env(post, new))
            indexed = z3.And(z3.Not(v.null), v.z)
        else:
            indexed = z3.Not(col(post, new, "reference").null)
        h.prove("C14:a-transaction-without-reference-is-never-subject-to-the-index", [new.guard], z3.Not(indexed), detail=ins[0][:300])
    write(out, [h])


if __name__ == "__main__":
    import argparse
    ap = argparse.ArgumentParser()
    ap.add_argument("--repo", default="/repo"); ap.add_argument("--tier", default="quick"); ap.add_argument("--out", required=True)
    a = ap.parse_args()
    run(a.repo, a.tier, a.out)
