"""C20 (row invariants): what the store writes next to an address is the address's segments.

The filter obligations (pychecks/filters.py) treat address_array / sources / destinations / sources_arrays /
destinations_arrays as functions of the addresses they sit next to. Here the statements the real store emits for
accounts and transactions with multi-segment addresses are captured and the literal rows are compared with that
reading: address_array = the ':'-separated segments; sources / destinations = the distinct-preserving lists of the
postings' ends in posting order; *_arrays = per address the object {"0": seg0, ..., "n-1": seg(n-1), "n": null}."""
import json, re
from common import Harness, write, capture_sql, pick


def sql_strings(stmt):
    """the single-quoted literals of a statement, in order"""
    return [m.replace("''", "'") for m in re.findall(r"'((?:[^']|'')*)'", stmt)]


def run(repo, tier, out):
    recs = capture_sql(repo)
    h = Harness("C20_row_invariants")

    def verdict(label, ok, detail):
        st = h.stat(label)
        st["checked"] += 1
        if ok:
            st["concrete_true"] += 1
        else:
            st["sat"] += 1
            h.violations.append({"harness": h.name, "label": label, "kind": "assert", "model": {}, "detail": detail[:1200], "concrete_check": "reproduced",
                                 "concrete_detail": {"statement": detail[:3000]}, "sql_replayed_on_postgres": False})
    for rec in pick(recs, "UpsertAccounts.segments", features="default", alone="false"):
        if not rec["sql"]:
            h.inconclusive.append("UpsertAccounts.segments: nothing captured: " + str(rec.get("error")))
            continue
        stmt = rec["sql"][-1]
        lits = sql_strings(stmt)
        ok = True
        for addr in ("SEG#1:SEG#2:SEG#3", "SEG#4"):
            want = json.dumps(addr.split(":"), separators=(",", ":"))
            # the tuple of that address carries its segment array
            ok = ok and addr in lits and any(json.dumps(json.loads(l), separators=(",", ":")) == want for l in lits if l.startswith("["))
        verdict("C20:accounts-are-written-with-the-segments-of-their-address", ok, stmt)
        h.encoded.append("UpsertAccounts (multi-segment addresses)")
    for rec in pick(recs, "CommitTransaction.segments", features="default", alone="false"):
        ins = [s for s in rec["sql"] if re.match(r'\s*insert\s+into\s+"?\w+"?\."?transactions"?', s, re.I)]
        if not ins:
            h.inconclusive.append("CommitTransaction.segments: no INSERT INTO transactions captured")
            continue
        stmt = ins[-1]
        cols = [c.strip().strip('"') for c in re.search(r"\(([^)]*)\)\s*VALUES", stmt, re.I).group(1).split(",")]
        lits = sql_strings(stmt)
        arrays = [json.loads(l) for l in lits if l.startswith("[")]
        postings = [("SEG#1:SEG#2", "SEG#3"), ("SEG#3", "SEG#4:SEG#5:SEG#6"), ("SEG#1:SEG#2", "SEG#7")]

        def explode(a):
            segs = a.split(":")
            d = {str(i): s for i, s in enumerate(segs)}
            d[str(len(segs))] = None
            return d
        srcs, dsts = [p[0] for p in postings], [p[1] for p in postings]
        want = {"sources": srcs, "destinations": dsts, "sources_arrays": [explode(a) for a in srcs], "destinations_arrays": [explode(a) for a in dsts]}
        for name, w in want.items():
            # as sets of elements (the store may or may not de-duplicate; filters only ask for membership)
            def norm(l):
                return sorted({json.dumps(x, sort_keys=True) for x in l})
            ok = name in cols and any(isinstance(a, list) and norm(a) == norm(w) for a in arrays)
            verdict(f"C20:transactions-are-written-with-{name.replace('_', '-')}-of-their-postings", ok, stmt)
        h.encoded.append("InsertTransaction (multi-segment addresses)")
    h.reach["end"] = 1
    write(out, [h])


if __name__ == "__main__":
    import argparse
    ap = argparse.ArgumentParser()
    ap.add_argument("--repo", default="/repo"); ap.add_argument("--tier", default="quick"); ap.add_argument("--out", required=True)
    a = ap.parse_args()
    run(a.repo, a.tier, a.out)
