"""Migration resolver and a small PL/pgSQL interpreter on top of sqlsym (trigger functions)."""
import os, re, z3
import sqlsym
from sqlsym import V, Rel, Row, Env, Evaluator, Unsupported, Parser, ite_v


def resolve_functions(repo):
    """last definition of every function / procedure in the bucket migrations, in numeric order: name -> body text"""
    base = os.path.join(repo, "internal/storage/bucket/migrations")
    dirs = sorted([d for d in os.listdir(base) if re.match(r"\d+-", d)], key=lambda d: int(d.split("-")[0]))
    fns = {}
    for d in dirs:
        p = os.path.join(base, d, "up.sql")
        if not os.path.exists(p):
            continue
        src = open(p).read()
        for m in re.finditer(r"create\s+(?:or\s+replace\s+)?(function|procedure)\s+([a-zA-Z_\.\"{}]+)\s*\((.*?)\)(.*?)\$\$(.*?)\$\$", src, re.S | re.I):
            name = m.group(2).split(".")[-1].strip('"').lower()
            fns[name] = {"kind": m.group(1).lower(), "args": m.group(3), "header": m.group(4), "body": m.group(5), "migration": d}
    return fns


def split_statements(body):
    """top-level statements of a PL/pgSQL block body (between begin and end)"""
    m = re.search(r"\bbegin\b(.*)\bend\s*;?\s*$", body.strip(), re.S | re.I)
    if not m:
        raise Unsupported("no begin/end block")
    decl = body[:body.lower().find("begin")]
    text = m.group(1)
    out, depth, cur, i = [], 0, "", 0
    toks = re.split(r"(;|\bif\b|\bend\s+if\b|\bloop\b|\bend\s+loop\b|\(|\))", text, flags=re.I)
    ifdepth = 0
    for t in toks:
        low = t.lower().strip() if t else ""
        if t == "(":
            depth += 1
        elif t == ")":
            depth -= 1
        elif re.fullmatch(r"if", low) and depth == 0:
            ifdepth += 1
        elif re.fullmatch(r"end\s+if", low):
            ifdepth -= 1
        if t == ";" and depth == 0 and ifdepth == 0:
            if cur.strip():
                out.append(cur.strip())
            cur = ""
        else:
            cur += t if t else ""
    if cur.strip():
        out.append(cur.strip())
    return decl, out


class Trigger:
    """executes a row-trigger function body on symbolic tables; `new` is a one-row relation"""

    def __init__(self, db, new_rel, new_row, table_name):
        self.db = db
        self.new_rel, self.new_row = new_rel, new_row
        self.table = table_name
        self.ev = Evaluator(db)

    def env(self):
        return Env(self.new_rel, self.new_row)

    def run(self, body):
        _, stmts = split_statements(body)
        for st in stmts:
            low = st.lower()
            if low.startswith("return"):
                return
            m = re.match(r"new\.(\w+)\s*:?=\s*(.*)$", st, re.S | re.I)
            if m:
                p = Parser(m.group(2))
                e = p.expr()
                if not p.at("eof"):
                    raise Unsupported(f"trailing tokens in assignment: {p.t[p.i:p.i+4]}")
                v = self.ev.ev(e, self.env())
                idx = [c[1] for c in self.new_rel.cols].index(m.group(1))
                self.new_row.vals[idx] = v
                continue
            if low.startswith("update"):
                self.update(sqlsym.parse(st))
                continue
            if low.startswith("insert"):
                self.insert(sqlsym.parse(st))
                continue
            raise Unsupported(f"PL/pgSQL statement {st[:60]!r}")

    def insert(self, ast):
        """INSERT INTO t (cols) VALUES (exprs) [, ...]: the expressions see NEW; columns not named get NULL"""
        ins = ast[1]
        if ins["conflict"] is not None or ins["src"][0] != "values":
            raise Unsupported("trigger INSERT other than plain VALUES")
        rel = self.db.tables[ins["table"]]
        names = [c[1] for c in rel.cols]
        rows = list(rel.rows)
        for tup in ins["src"][1]:
            vals = [None] * len(names)
            for cname, e in zip(ins["cols"], tup):
                vals[names.index(cname)] = self.ev.ev(e, self.env())
            for i, v in enumerate(vals):
                if v is None:
                    like = rel.rows[0].vals[i] if rel.rows else sqlsym.vnull("int")
                    vals[i] = sqlsym.null_like(like)
                elif v.kind == "opaque" and v.z is None and rel.rows:
                    vals[i] = sqlsym.null_like(rel.rows[0].vals[i]) if z3.is_true(v.null) else v
            rows.append(Row(z3.BoolVal(True), vals))
        self.db.tables[ins["table"]] = Rel(rel.cols, rows)

    def update(self, ast):
        u = ast[1]
        rel = self.db.tables[u["table"]]
        names = [c[1] for c in rel.cols]
        new_rows = []
        for r in rel.rows:
            env = Env(Rel([(u["alias"], n) for n in names], None), r, self.env())
            cond = self.ev.ev(u["where"], env) if u["where"] is not None else sqlsym.vbool(True)
            hit = z3.And(r.guard, z3.Not(cond.null), cond.z)
            vals = list(r.vals)
            for cname, e in u["sets"]:
                i = names.index(cname)
                vals[i] = ite_v(hit, self.ev.ev(e, env), r.vals[i])
            new_rows.append(Row(r.guard, vals))
        self.db.tables[u["table"]] = Rel(rel.cols, new_rows)
