"""C16 (SQL half): ids versus commit order, decided on the statements the real store emits.

The statement list of one write — CommitTransaction (transaction id from nextval) then InsertLog (optional
advisory lock statement, log id from nextval) — is captured from the real store on every run, for two ledgers
of one bucket and for HASH_LOGS=SYNC / DISABLED. Each of W concurrent writers executes that list inside one SQL
transaction and then commits or rolls back. The schedule is symbolic: every statement and every commit has an
integer instant; instants are distinct; a writer's own events are in program order. PostgreSQL semantics used
(trusted, stated):
  * nextval on one sequence hands out increasing values in the real-time order of the calls, never rolled back;
  * pg_advisory_xact_lock(k) blocks until no other transaction holds k and holds it to the end of the transaction;
    pg_try_advisory_xact_lock(k) never waits (its result is what the caller makes of it: the statement text captured
    here discards it); pg_advisory_lock(k) is session-level (not released at commit: treated as unknown -> inconclusive).
z3 decides, for every schedule, every assignment of writers to the two ledgers and every commit/rollback choice:
  log ids of one ledger increase in commit order; transaction ids likewise; ids of different ledgers come from
  different sequences and different lock keys (independence)."""
import re, z3
from common import Harness, write, capture_sql, pick

LOCKS = {"pg_advisory_xact_lock": "blocking", "pg_try_advisory_xact_lock": "try", "pg_advisory_lock": "session", "pg_try_advisory_lock": "session"}


def classify(stmts):
    """[(kind, detail)] kind: lock(kind,key) | nextval(seq, table) | other"""
    out = []
    for s in stmts:
        m = re.match(r"\s*select\s+(pg_\w*advisory\w*)\s*\(\s*(-?\d+|hashtext\('[^']*'\))\s*\)", s, re.I)
        if m:
            out.append(("lock", LOCKS.get(m.group(1).lower(), "unknown"), m.group(2)))
            continue
        t = re.match(r'\s*insert\s+into\s+"?[\w]+"?\."?(\w+)"?', s, re.I)
        seqs = re.findall(r"nextval\('([^']+)'\)", s)
        if t and seqs:
            out.append(("nextval", t.group(1), seqs[0]))
        else:
            out.append(("other", t.group(1) if t else "", ""))
    return out


def sequence_options(repo):
    """{base name: option text} of the per-ledger sequences, from the ledger setup scripts (create sequence "<bucket>"."<base>_<id>" <options> owned by ...)"""
    import os
    src = open(os.path.join(repo, "internal/storage/bucket/default_bucket.go")).read()
    out = {}
    for m in re.finditer(r'create\s+sequence\s+(?:if\s+not\s+exists\s+)?"\{\{\.Bucket\}\}"\."(\w+?)_\{\{\.ID\}\}"([^;]*);', src, re.I):
        out[m.group(1)] = " ".join(m.group(2).split()).lower()
    return out


def in_call_order(opts):
    """nextval hands out values in the real-time order of the calls iff the sequence ascends, does not cycle and keeps no
    per-session cache (CACHE 1, the default): with CACHE n every session pre-allocates n values and serves them later"""
    if opts is None:
        return None
    if re.search(r"(?<!no )\bcycle\b", opts):
        return False
    m = re.search(r"\bincrement(?:\s+by)?\s+(-?\d+)", opts)
    if m and int(m.group(1)) <= 0:
        return False
    m = re.search(r"\bcache\s+(\d+)", opts)
    if m and int(m.group(1)) > 1:
        return False
    return True


def run(repo, tier, out):
    W = 2 if tier == "quick" else 3
    recs = capture_sql(repo)
    seqopts = sequence_options(repo)
    hs = []
    for feat in ("default", "HASH_LOGS=DISABLED"):
        h = Harness("C16_ids_" + feat.replace("=", "_"))
        hs.append(h)
        per_ledger = {}
        for led, sel in (("1", None), ("2", "2")):
            def one(name):
                rs = [r for r in pick(recs, name, features=feat, alone="false") if r["config"].get("ledger") == sel]
                return rs[0] if rs else None
            ct, il = one("CommitTransaction.noReference" if sel is None else "CommitTransaction"), one("InsertLog")
            if ct is None or il is None:
                h.inconclusive.append(f"captures missing for ledger {led}")
                continue
            per_ledger[led] = classify(ct["sql"]) + classify(il["sql"])
        if len(per_ledger) != 2:
            continue
        h.encoded = [f"ledger {k}: " + " ; ".join(f"{e[0]}:{e[1]}:{e[2]}" for e in v if e[0] != "other") for k, v in per_ledger.items()]
        shape = lambda evs: [(e[0], e[1]) for e in evs]
        if shape(per_ledger["1"]) != shape(per_ledger["2"]):
            h.inconclusive.append("the two ledgers do not emit the same statement shapes")
            continue
        evs1, evs2 = per_ledger["1"], per_ledger["2"]
        if any(e[0] == "lock" and e[1] in ("session", "unknown") for e in evs1):
            h.inconclusive.append("a session-level or unknown advisory lock is used: its release point is not modelled")
            continue
        n = len(evs1)
        # symbolic schedule
        led = [z3.Int(f"w{i}.ledger") for i in range(W)]          # 1 or 2
        commits = [z3.Bool(f"w{i}.commits") for i in range(W)]
        t = [[z3.Int(f"w{i}.t{k}") for k in range(n)] + [z3.Int(f"w{i}.end")] for i in range(W)]
        cons = []
        for i in range(W):
            cons += [z3.Or(led[i] == 1, led[i] == 2), t[i][0] >= 0]
            cons += [t[i][k] < t[i][k + 1] for k in range(n)]
        allt = [x for i in range(W) for x in t[i]]
        cons.append(z3.Distinct(*allt))
        # per event: resource names of writer i (by its ledger)
        def res(i, k):
            return z3.If(led[i] == 1, z3.StringVal(evs1[k][2]), z3.StringVal(evs2[k][2]))
        ids = {}
        for k in range(n):
            if evs1[k][0] == "nextval":
                for i in range(W):
                    ids[(i, k)] = z3.Int(f"w{i}.id.{evs1[k][1]}")
                base = re.sub(r"_\d+$", "", evs1[k][2].split(".")[-1].strip('"'))
                ordered = in_call_order(seqopts.get(base))
                if ordered is None:
                    h.inconclusive.append(f"no CREATE SEQUENCE found for {evs1[k][2]} in the ledger setup scripts")
                h.encoded.append(f"sequence {base}: options [{seqopts.get(base)}] -> values in call order: {ordered}")
                for i in range(W):
                    for j in range(W):
                        if i != j:
                            if ordered:
                                # one sequence: values follow the real-time order of the calls
                                cons.append(z3.Implies(res(i, k) == res(j, k), (ids[(i, k)] < ids[(j, k)]) == (t[i][k] < t[j][k])))
                            else:
                                # cached / descending / cycling sequence: sessions serve pre-allocated values, only distinctness is left
                                cons.append(z3.Implies(res(i, k) == res(j, k), ids[(i, k)] != ids[(j, k)]))
            if evs1[k][0] == "lock" and evs1[k][1] == "blocking":
                for i in range(W):
                    for j in range(W):
                        if i != j:
                            # j acquires after i  ->  j acquires after i's transaction ended
                            cons.append(z3.Implies(z3.And(res(i, k) == res(j, k), t[i][k] < t[j][k]), t[i][n] < t[j][k]))
        h.reachable("end", cons + [z3.And(*commits)] + ([led[0] == led[1]] if W >= 2 else []))
        tag = "" if feat == "default" else "@" + feat
        for k in range(n):
            if evs1[k][0] != "nextval":
                continue
            what = {"logs": "log", "transactions": "transaction"}.get(evs1[k][1], evs1[k][1])
            goals, uniq = [], []
            for i in range(W):
                for j in range(W):
                    if i != j:
                        both = z3.And(commits[i], commits[j], led[i] == led[j])
                        goals.append(z3.Implies(z3.And(both, t[i][n] < t[j][n]), ids[(i, k)] < ids[(j, k)]))
                        uniq.append(z3.Implies(led[i] == led[j], ids[(i, k)] != ids[(j, k)]))

            def dump(m, k=k):
                return {"writers": [{"ledger": str(m.eval(led[i], model_completion=True)), "commits": str(m.eval(commits[i], model_completion=True)),
                                     "statement_instants": [str(m.eval(x, model_completion=True)) for x in t[i][:n]], "end_of_transaction": str(m.eval(t[i][n], model_completion=True)),
                                     "id": str(m.eval(ids[(i, k)], model_completion=True))} for i in range(W)],
                        "statements": [f"{e[0]}:{e[1]}:{e[2]}" for e in evs1]}
            h.prove(f"C16:{what}-ids-are-unique-per-ledger{tag}", cons, z3.And(*uniq), model_vars=led, dump=dump)
            h.prove(f"C16:{what}-ids-increase-in-commit-order{tag}", cons, z3.And(*goals), model_vars=led + commits, dump=dump,
                    detail=" ; ".join(f"{e[0]}:{e[1]}:{e[2]}" for e in evs1 if e[0] != "other"))
        # independence: different ledgers never share a sequence or a lock key
        diff = all(a[2] != b[2] for a, b in zip(evs1, evs2) if a[0] in ("lock", "nextval"))
        st = h.stat(f"C16:sequences-and-lock-keys-are-per-ledger{tag}")
        st["checked"] += 1
        if diff:
            st["concrete_true"] += 1
        else:
            st["sat"] += 1
            h.violations.append({"harness": h.name, "label": f"C16:sequences-and-lock-keys-are-per-ledger{tag}", "kind": "assert", "model": {}, "detail": str(h.encoded),
                                 "concrete_check": "reproduced", "concrete_detail": {"ledger1": [list(e) for e in evs1], "ledger2": [list(e) for e in evs2]}, "sql_replayed_on_postgres": False})
    write(out, hs)


if __name__ == "__main__":
    import argparse
    ap = argparse.ArgumentParser()
    ap.add_argument("--repo", default="/repo"); ap.add_argument("--tier", default="quick"); ap.add_argument("--out", required=True)
    a = ap.parse_args()
    run(a.repo, a.tier, a.out)
