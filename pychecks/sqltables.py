"""Symbolic tables of the bucket schema (the columns the store's statements touch)."""
import z3
from sqlsym import V, vint, vstr, vbool, Rel, Row

JSONKEYS = ("k1", "k2")
POSTINGS = 2  # posting slots per transaction row


def vjson(prefix, keys=JSONKEYS, null=None):
    return V("json", {k: (z3.Bool(f"{prefix}.has.{k}"), z3.String(f"{prefix}.{k}")) for k in keys}, null)


def vcomp(prefix, null=None):
    return V("comp", {"inputs": vint(z3.Int(prefix + ".in")), "outputs": vint(z3.Int(prefix + ".out"))}, null)


def opaque():
    return V("opaque", None)


def table(name, K, cols, tag=""):
    """cols: list of (column, kind[, nullable]) ; kinds: str int bool json comp opaque"""
    rows = []
    for i in range(K):
        p = f"{name}{tag}{i}"
        vals = []
        for c in cols:
            cname, kind = c[0], c[1]
            nullable = len(c) > 2 and c[2] is True
            null = z3.Bool(f"{p}.{cname}.null") if nullable else None
            n = f"{p}.{cname}"
            if kind == "str":
                vals.append(vstr(z3.String(n), null))
            elif kind == "int":
                vals.append(vint(z3.Int(n), null))
            elif kind == "bool":
                vals.append(vbool(z3.Bool(n), null))
            elif kind == "json":
                vals.append(vjson(n, null=null))
            elif kind == "comp":
                vals.append(vcomp(n, null))
            elif kind == "arr":
                # the segment array of the address in column c[2] of the same row
                vals.append(V("arr", z3.String(f"{p}.{c[2]}")))
            elif kind == "addrset":
                # the addresses of one end (c[2]: src | dst) of the row's posting slots
                vals.append(V("addrset", [(z3.Bool(f"{p}.posting{j}.present"), z3.String(f"{p}.posting{j}.{c[2]}")) for j in range(POSTINGS)]))
            else:
                vals.append(opaque())
        rows.append(Row(z3.Bool(f"{p}.present"), vals))
    return Rel([(name, c[0]) for c in cols], rows)


def col(rel, row, name):
    return row.vals[[c[1] for c in rel.cols].index(name)]


def unique(rel, keycols):
    cons = []
    idx = [[c[1] for c in rel.cols].index(k) for k in keycols]
    for i in range(len(rel.rows)):
        for j in range(i + 1, len(rel.rows)):
            a, b = rel.rows[i], rel.rows[j]
            cons.append(z3.Implies(z3.And(a.guard, b.guard), z3.Not(z3.And(*[a.vals[k].z == b.vals[k].z for k in idx]))))
    return cons


MOVES = [("ledger", "str"), ("seq", "int"), ("transactions_id", "int"), ("accounts_address", "str"), ("asset", "str"), ("amount", "int"),
         ("is_source", "bool"), ("insertion_date", "int"), ("effective_date", "int"), ("post_commit_volumes", "comp", True),
         ("post_commit_effective_volumes", "comp", True), ("accounts_address_array", "opaque")]
ACCOUNTS_VOLUMES = [("ledger", "str"), ("accounts_address", "str"), ("asset", "str"), ("input", "int"), ("output", "int")]
ACCOUNTS = [("ledger", "str"), ("address", "str"), ("address_array", "arr", "address"), ("first_usage", "int"), ("insertion_date", "int"),
            ("updated_at", "int"), ("metadata", "json")]
ACCOUNTS_METADATA = [("ledger", "str"), ("accounts_address", "str"), ("revision", "int"), ("date", "int"), ("metadata", "json")]
TRANSACTIONS = [("ledger", "str"), ("id", "int"), ("timestamp", "int"), ("reference", "str", True), ("inserted_at", "int"), ("updated_at", "int"),
                ("reverted_at", "int", True), ("postings", "opaque"), ("sources", "addrset", "src"), ("destinations", "addrset", "dst"), ("sources_arrays", "addrset", "src"),
                ("destinations_arrays", "addrset", "dst"), ("template", "opaque"), ("metadata", "json"), ("post_commit_volumes", "opaque")]
TRANSACTIONS_METADATA = [("ledger", "str"), ("transactions_id", "int"), ("revision", "int"), ("date", "int"), ("metadata", "json")]
LOGS = [("ledger", "str"), ("id", "int"), ("seq", "int"), ("type", "str"), ("date", "int"), ("idempotency_key", "str", True), ("idempotency_hash", "str"),
        ("hash", "str", True), ("data", "opaque"), ("memento", "opaque"), ("schema_version", "opaque")]


def bucket(K, tag=""):
    t = {
        "moves": table("moves", K, MOVES, tag),
        "accounts_volumes": table("accounts_volumes", K, ACCOUNTS_VOLUMES, tag),
        "accounts": table("accounts", K, ACCOUNTS, tag),
        "accounts_metadata": table("accounts_metadata", K, ACCOUNTS_METADATA, tag),
        "transactions": table("transactions", K, TRANSACTIONS, tag),
        "transactions_metadata": table("transactions_metadata", K, TRANSACTIONS_METADATA, tag),
        "logs": table("logs", K, LOGS, tag),
    }
    cons = []
    cons += unique(t["moves"], ["seq"])
    cons += unique(t["accounts_volumes"], ["ledger", "accounts_address", "asset"])
    cons += unique(t["accounts"], ["ledger", "address"])
    cons += unique(t["accounts_metadata"], ["ledger", "accounts_address", "revision"])
    cons += unique(t["transactions"], ["ledger", "id"])
    cons += unique(t["transactions_metadata"], ["ledger", "transactions_id", "revision"])
    cons += unique(t["logs"], ["ledger", "id"])
    for r in t["moves"].rows:
        cons.append(col(t["moves"], r, "amount").z >= 0)
    return t, cons
