"""C17 (history triggers): what the metadata history tables hold after a write, as the reads interpret them.

The bodies of insert_/update_account_metadata_history and insert_/update_transaction_metadata_history are resolved
from the migrations on every run, and the triggers that fire them are read from default_bucket.go (AFTER INSERT /
AFTER UPDATE ... FOR EACH ROW WHEN new.ledger = <ledger>, present iff the *_METADATA_HISTORY feature is SYNC). They
are executed by the PL/pgSQL interpreter on a symbolic history table that holds revisions of any ledgers / entities.

as_of(H, key, t) is what the PIT reads compute (decided in C17's read half): the metadata of the revision with the
greatest revision number among those of `key` dated <= t, if any. One inductive step, for an arbitrary table content
with unique (ledger, entity, revision):
  * AFTER UPDATE with NEW (metadata M, updated_at d not before any recorded date of the entity):
        as_of(H', key, t) = M for t >= d ; = as_of(H, key, t) for t < d ; every other entity's history is unchanged;
  * AFTER INSERT of an entity without history: as_of(H', key, t) = M for t >= the creation date, nothing before.
One step covers metadata write sequences of any length."""
import os, re, z3
from common import Harness, write, dump_tables
import sqlsym, sqltables, plpgsql
from sqlsym import DB, Rel, Row
from sqltables import col


def as_of(hist, keycol, ledger, key, t):
    """(found, metadata V): greatest revision among rows of (ledger, key) dated <= t"""
    found, best = z3.BoolVal(False), None
    for r in hist.rows:
        elig = z3.And(r.guard, col(hist, r, "ledger").z == ledger, col(hist, r, keycol).z == key, col(hist, r, "date").z <= t)
        top = z3.And(elig, *[z3.Not(z3.And(s.guard, col(hist, s, "ledger").z == ledger, col(hist, s, keycol).z == key, col(hist, s, "date").z <= t,
                                            col(hist, s, "revision").z > col(hist, r, "revision").z)) for s in hist.rows if s is not r])
        found = z3.Or(found, elig)
        md = col(hist, r, "metadata")
        best = md if best is None else sqlsym.ite_v(top, md, best)
    return found, best


def json_eq(a, b):
    return z3.And(*[z3.And(a.z[k][0] == b.z[k][0], z3.Implies(a.z[k][0], a.z[k][1] == b.z[k][1])) for k in a.z])


def triggers_of(repo):
    """{function name: (timing, event, table)} from the per-ledger setup scripts"""
    src = open(os.path.join(repo, "internal/storage/bucket/default_bucket.go")).read()
    out = {}
    for m in re.finditer(r'create trigger "(\w+?)_\{\{\.ID\}\}"\s+(before|after)\s+(insert|update)\s+on "\{\{\.Bucket\}\}"\."(\w+)"\s+for each row\s+(when \((.*?)\)\s+)?execute procedure "\{\{\.Bucket\}\}"\.(\w+)\(\)', src, re.S | re.I):
        out[m.group(7)] = (m.group(2).lower(), m.group(3).lower(), m.group(4), (m.group(6) or "").strip())
    return out


def run(repo, tier, out):
    K = 3 if tier == "quick" else 4
    fns = plpgsql.resolve_functions(repo)
    trig = triggers_of(repo)
    hs = []
    for entity, table, hist_name, keycol, newkey, hist_cols, ins_date in (
            ("account", "accounts", "accounts_metadata", "accounts_address", "address", sqltables.ACCOUNTS_METADATA, "insertion_date"),
            ("transaction", "transactions", "transactions_metadata", "transactions_id", "id", sqltables.TRANSACTIONS_METADATA, "timestamp")):
        h = Harness(f"C17_{entity}_metadata_history")
        hs.append(h)
        fi, fu = f"insert_{entity}_metadata_history", f"update_{entity}_metadata_history"
        for f, ev in ((fi, "insert"), (fu, "update")):
            if f not in fns:
                h.inconclusive.append(f"function {f} not found in the migrations")
            elif f not in trig or trig[f][:3] != ("after", ev, table):
                h.inconclusive.append(f"no AFTER {ev.upper()} row trigger on {table} executes {f} (found: {trig.get(f)})")
        if h.inconclusive:
            continue
        h.encoded = [f"{f} (migration {fns[f]['migration']}); trigger {trig[f]}" for f in (fi, fu)]
        t, cons = sqltables.bucket(K)
        hist = t[hist_name]
        cols = sqltables.ACCOUNTS if entity == "account" else sqltables.TRANSACTIONS
        new_rel = sqltables.table("new", 1, cols)
        new_row = new_rel.rows[0]
        new_rel = Rel([("new", c[1]) for c in new_rel.cols], new_rel.rows)
        L, KEY = col(new_rel, new_row, "ledger").z, col(new_rel, new_row, newkey).z
        M = col(new_rel, new_row, "metadata")
        tq = z3.Int("t")

        def run_trigger(fn):
            db = DB({hist_name: hist}, jsonkeys=sqltables.JSONKEYS)
            tr = plpgsql.Trigger(db, new_rel, new_row, table)
            tr.run(fns[fn]["body"])
            return db.tables[hist_name]

        def others_unchanged(post):
            # every revision that existed is still there, unchanged; exactly one row was added, and it is of (L, KEY)
            g = [z3.And(a.guard == b.guard, *[sqlsym.same_v(x, y) for x, y in zip(a.vals, b.vals) if x.kind != "opaque"]) for a, b in zip(hist.rows, post.rows[:len(hist.rows)])]
            added = post.rows[len(hist.rows):]
            g.append(z3.BoolVal(len(added) == 1))
            for r in added:
                g.append(z3.And(r.guard, col(post, r, "ledger").z == L, col(post, r, keycol).z == KEY))
                # the unique key (ledger, entity, revision) still holds (a duplicate would make the write fail)
                for o in hist.rows:
                    g.append(z3.Implies(z3.And(o.guard, col(hist, o, "ledger").z == L, col(hist, o, keycol).z == KEY), col(hist, o, "revision").z != col(post, r, "revision").z))
            return z3.And(*g)
        try:
            # ---- update
            post = run_trigger(fu)
            d = col(new_rel, new_row, "updated_at").z
            mine = lambda r: z3.And(r.guard, col(hist, r, "ledger").z == L, col(hist, r, keycol).z == KEY)
            monotone = [z3.Implies(mine(r), col(hist, r, "date").z <= d) for r in hist.rows]
            f0, m0 = as_of(hist, keycol, L, KEY, tq)
            f1, m1 = as_of(post, keycol, L, KEY, tq)
            goal = z3.And(z3.Implies(tq >= d, z3.And(f1, json_eq(m1, M))),
                          z3.Implies(tq < d, z3.And(f1 == f0, z3.Implies(f0, json_eq(m1, m0)))),
                          others_unchanged(post))
            h.reachable("end", cons + monotone + [z3.Or(*[mine(r) for r in hist.rows])])
            h.prove(f"C17:{entity}-metadata-update-extends-the-history-from-its-date-on", cons + monotone, goal, model_vars=[tq, d],
                    detail=fns[fu]["body"][:500], dump=dump_tables({"history_before": hist, "new": new_rel, "history_after": post}))
            # ---- insert (no history yet for the entity)
            post = run_trigger(fi)
            d0 = col(new_rel, new_row, ins_date).z
            fresh = [z3.Not(mine(r)) for r in hist.rows]
            f1, m1 = as_of(post, keycol, L, KEY, tq)
            goal = z3.And(z3.Implies(tq >= d0, z3.And(f1, json_eq(m1, M))), z3.Implies(tq < d0, z3.Not(f1)), others_unchanged(post))
            h.prove(f"C17:{entity}-creation-starts-the-history-at-its-date", cons + fresh, goal, model_vars=[tq, d0],
                    detail=fns[fi]["body"][:500], dump=dump_tables({"history_before": hist, "new": new_rel, "history_after": post}))
        except sqlsym.Unsupported as e:
            h.inconclusive.append(f"trigger body outside the PL/pgSQL subset: {e}")
    write(out, hs)


if __name__ == "__main__":
    import argparse
    ap = argparse.ArgumentParser()
    ap.add_argument("--repo", default="/repo"); ap.add_argument("--tier", default="quick"); ap.add_argument("--out", required=True)
    a = ap.parse_args()
    run(a.repo, a.tier, a.out)
