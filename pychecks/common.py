"""Shared plumbing of the Python (z3) units: result files in the same shape as gosym's, so that
bin/check aggregates them alike.

A unit is a python module with run(repo, tier, out) -> None that writes
  {"harnesses": [ {name, paths, paths_completed, reach{}, asserts{label: stat}, violations[], inconclusive[],
                   queries, solver_s, max_query_s, wall_s, functions_executed[], intrinsics_used[], stubs_used[], samples[], witnesses[]} ]}
"""
import json, time, z3


class Harness:
    def __init__(self, name):
        self.name = name
        self.t0 = time.time()
        self.asserts = {}
        self.reach = {}
        self.violations = []
        self.inconclusive = []
        self.queries = 0
        self.solver_s = 0.0
        self.max_query_s = 0.0
        self.encoded = []
        self.samples = []
        self.notes = []

    def stat(self, label):
        return self.asserts.setdefault(label, {"checked": 0, "discharged_unsat": 0, "concrete_true": 0,
                                               "concrete_under_symbolic_path_condition": 0, "sat": 0, "unknown": 0})

    def check(self, solver, timeout_ms=60000):
        solver.set("timeout", timeout_ms)
        t = time.time()
        r = solver.check()
        dt = time.time() - t
        self.queries += 1
        self.solver_s += dt
        self.max_query_s = max(self.max_query_s, dt)
        return r

    def prove(self, label, assumptions, goal, model_vars=None, native=None, replay_harness=None, timeout_ms=60000, detail=""):
        """goal must hold under assumptions: asks for a model of assumptions ∧ ¬goal."""
        st = self.stat(label)
        st["checked"] += 1
        s = z3.Solver()
        for a in assumptions:
            s.add(a)
        s.add(z3.Not(goal))
        r = self.check(s, timeout_ms)
        if r == z3.unsat:
            st["discharged_unsat"] += 1
            if len(self.samples) < 6:
                self.samples.append({"obligation": label, "result": "unsat", "assertions": len(s.assertions()), "goal": str(goal)[:300]})
            return True, None
        if r == z3.sat:
            st["sat"] += 1
            m = s.model()
            mv = {}
            for v in (model_vars or []):
                mv[str(v)] = str(m.eval(v, model_completion=True))
            viol = {"harness": self.name, "label": label, "kind": "assert", "model": mv, "detail": detail}
            if native is not None:
                viol["native"] = native(m)
            if replay_harness:
                viol["replay_harness"] = replay_harness
            self.violations.append(viol)
            return False, m
        st["unknown"] += 1
        self.inconclusive.append(f'assert "{label}": solver answered {r} ({s.reason_unknown()})')
        return None, None

    def reachable(self, label, constraints, timeout_ms=30000):
        """vacuity guard: the constraints must be satisfiable"""
        s = z3.Solver()
        for a in constraints:
            s.add(a)
        r = self.check(s, timeout_ms)
        if r == z3.sat:
            self.reach[label] = self.reach.get(label, 0) + 1
            return True
        if r == z3.unknown:
            self.inconclusive.append(f'reachability "{label}": solver answered unknown')
        return False

    def result(self):
        return {"name": self.name, "paths": max(1, sum(v["checked"] for v in self.asserts.values())),
                "paths_completed": max(1, sum(v["checked"] for v in self.asserts.values())),
                "paths_with_symbolic_pc": sum(v["checked"] for v in self.asserts.values()),
                "reach": self.reach, "asserts": self.asserts, "violations": self.violations, "inconclusive": self.inconclusive,
                "notes": self.notes, "queries": self.queries, "solver_s": self.solver_s, "max_query_s": self.max_query_s,
                "wall_s": time.time() - self.t0, "functions_executed": self.encoded, "intrinsics_used": [], "stubs_used": [],
                "samples": self.samples, "witnesses": []}


def write(out, harnesses, errors=None):
    json.dump({"harnesses": [h.result() for h in harnesses], "errors": errors or []}, open(out, "w"), indent=1)
