"""Shared plumbing of the Python (z3) units: result files in the same shape as gosym's, so that
bin/check aggregates them alike.

A unit is a python module with run(repo, tier, out) -> None that writes
  {"harnesses": [ {name, paths, paths_completed, reach{}, asserts{label: stat}, violations[], inconclusive[],
                   queries, solver_s, max_query_s, wall_s, functions_executed[], intrinsics_used[], stubs_used[], samples[], witnesses[]} ]}
"""
import json, time, z3


class Harness:
    def __init__(self, name):
        self.name = name
        self.t0 = time.time()
        self.asserts = {}
        self.reach = {}
        self.violations = []
        self.inconclusive = []
        self.queries = 0
        self.solver_s = 0.0
        self.max_query_s = 0.0
        self.encoded = []
        self.samples = []
        self.notes = []

    def stat(self, label):
        return self.asserts.setdefault(label, {"checked": 0, "discharged_unsat": 0, "concrete_true": 0,
                                               "concrete_under_symbolic_path_condition": 0, "sat": 0, "unknown": 0})

    def check(self, solver, timeout_ms=60000):
        solver.set("timeout", timeout_ms)
        t = time.time()
        r = solver.check()
        dt = time.time() - t
        self.queries += 1
        self.solver_s += dt
        self.max_query_s = max(self.max_query_s, dt)
        return r

    def prove(self, label, assumptions, goal, model_vars=None, native=None, replay_harness=None, timeout_ms=60000, detail="", dump=None):
        """goal must hold under assumptions: asks for a model of assumptions ∧ ¬goal."""
        st = self.stat(label)
        st["checked"] += 1
        s = z3.Solver()
        for a in assumptions:
            s.add(a)
        s.add(z3.Not(goal))
        r = self.check(s, timeout_ms)
        if r == z3.unsat:
            st["discharged_unsat"] += 1
            if len(self.samples) < 6:
                self.samples.append({"obligation": label, "result": "unsat", "assertions": len(s.assertions()), "goal": str(goal)[:300]})
            return True, None
        if r == z3.sat:
            st["sat"] += 1
            m = s.model()
            mv = {}
            for v in (model_vars or []):
                mv[str(v)] = str(m.eval(v, model_completion=True))
            viol = {"harness": self.name, "label": label, "kind": "assert", "model": mv, "detail": detail}
            if dump is not None:
                # model-level counterexample (SQL cannot be executed here): re-evaluate the goal on the concrete
                # instance and keep the instance so that it can be run on a PostgreSQL elsewhere
                ok = z3.is_false(m.eval(goal, model_completion=True))
                viol["concrete_check"] = "reproduced" if ok else "not-reproduced"
                viol["concrete_detail"] = dump(m)
                viol["sql_replayed_on_postgres"] = False
            if native is not None:
                viol["native"] = native(m)
            if replay_harness:
                viol["replay_harness"] = replay_harness
            self.violations.append(viol)
            return False, m
        st["unknown"] += 1
        self.inconclusive.append(f'assert "{label}": solver answered {r} ({s.reason_unknown()})')
        return None, None

    def reachable(self, label, constraints, timeout_ms=30000):
        """vacuity guard: the constraints must be satisfiable"""
        s = z3.Solver()
        for a in constraints:
            s.add(a)
        r = self.check(s, timeout_ms)
        if r == z3.sat:
            self.reach[label] = self.reach.get(label, 0) + 1
            return True
        if r == z3.unknown:
            self.inconclusive.append(f'reachability "{label}": solver answered unknown')
        return False

    def result(self):
        return {"name": self.name, "paths": max(1, sum(v["checked"] for v in self.asserts.values())),
                "paths_completed": max(1, sum(v["checked"] for v in self.asserts.values())),
                "paths_with_symbolic_pc": sum(v["checked"] for v in self.asserts.values()),
                "reach": self.reach, "asserts": self.asserts, "violations": self.violations, "inconclusive": self.inconclusive,
                "notes": self.notes, "queries": self.queries, "solver_s": self.solver_s, "max_query_s": self.max_query_s,
                "wall_s": time.time() - self.t0, "functions_executed": self.encoded, "intrinsics_used": [], "stubs_used": [],
                "samples": self.samples, "witnesses": []}


def write(out, harnesses, errors=None):
    json.dump({"harnesses": [h.result() for h in harnesses], "errors": errors or []}, open(out, "w"), indent=1)


# ----------------------------------------------------------------------------------------------
# sqlcap: the SQL the real store sends (captured by a native go test with a recording driver)

import os, subprocess, tempfile

VERIF = os.path.dirname(os.path.dirname(os.path.abspath(__file__)))


def capture_sql(repo, filter_cases=None, page_cases=None):
    """runs harness/sqlcap/sqlcap_test.go as an overlay test of internal/storage/ledger in `repo`; returns the records.
    With filter_cases (list of dicts: id, resource, filter, pit, oot, insertionDate, features, alone, op) the statements
    for those filter ASTs are captured instead."""
    d = tempfile.mkdtemp(prefix="sqlcap-")
    try:
        ov = os.path.join(d, "overlay.json")
        out = os.path.join(d, "out.jsonl")
        json.dump({"Replace": {os.path.join(repo, "internal/storage/ledger/zz_verif_sqlcap_test.go"): os.path.join(VERIF, "harness/sqlcap/sqlcap_test.go")}}, open(ov, "w"))
        env = dict(os.environ, GOFLAGS="-mod=mod", GOPROXY="off", VERIF_SQLCAP_OUT=out)
        env.pop("GOTOOLCHAIN", None) if env.get("GOTOOLCHAIN") == "local" else None
        env.pop("GOSUMDB", None) if env.get("GOSUMDB") == "off" else None
        test = "^TestVerifSQLCap$"
        if filter_cases is not None:
            fin = os.path.join(d, "filters.json")
            json.dump(filter_cases, open(fin, "w"))
            env["VERIF_SQLCAP_FILTERS"] = fin
            test = "^TestVerifSQLCapFilters$"
        if page_cases is not None:
            fin = os.path.join(d, "pages.json")
            json.dump(page_cases, open(fin, "w"))
            env["VERIF_SQLCAP_PAGES"] = fin
            test = "^TestVerifSQLCapPages$"
        p = subprocess.run(["go", "test", "-vet=off", "-count=1", "-overlay", ov, "-run", test, "./internal/storage/ledger/"],
                           cwd=repo, env=env, capture_output=True, text=True, timeout=900)
        if p.returncode != 0 or not os.path.exists(out):
            raise RuntimeError("sqlcap failed: " + (p.stdout + p.stderr)[-2000:])
        return [json.loads(l) for l in open(out)]
    finally:
        import shutil
        shutil.rmtree(d, ignore_errors=True)


def pick(records, name, **cfg):
    out = []
    for r in records:
        if r["name"] != name:
            continue
        if all(r["config"].get(k) == v for k, v in cfg.items()):
            out.append(r)
    return out


def dump_tables(tables):
    """returns a function model -> {table: [rows]} listing the present rows of symbolic tables"""
    def f(m):
        out = {}
        for name, rel in tables.items():
            rows = []
            for r in rel.rows:
                if z3.is_true(m.eval(r.guard, model_completion=True)):
                    row = {}
                    for (q, c), v in zip(rel.cols, r.vals):
                        if z3.is_true(m.eval(v.null, model_completion=True)):
                            row[c] = None
                        elif v.kind in ("int", "str", "bool"):
                            row[c] = str(m.eval(v.z, model_completion=True))
                        elif v.kind == "comp":
                            row[c] = {k: str(m.eval(x.z, model_completion=True)) for k, x in v.z.items()}
                        elif v.kind == "addrset":
                            row[c] = [str(m.eval(x, model_completion=True)) for g, x in v.z if z3.is_true(m.eval(g, model_completion=True))]
                        elif v.kind == "arr":
                            import sqlsym as _s
                            n = m.eval(_s.NSEG(v.z), model_completion=True)
                            row[c] = {"n": str(n), "segments": [str(m.eval(_s.SEG(v.z, z3.IntVal(i)), model_completion=True)) for i in range(max(0, min(4, n.as_long() if z3.is_int_value(n) else 0)))]}
                        elif v.kind == "json":
                            row[c] = {k: str(m.eval(val, model_completion=True)) for k, (pres, val) in v.z.items() if z3.is_true(m.eval(pres, model_completion=True))}
                    rows.append(row)
            out[name] = rows
        return out
    return f
