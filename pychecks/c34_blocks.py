"""C34: async log blocks cover every committed log exactly once.

create_block's row-selection query is extracted from the current body of the function (resolved from the
migrations on every run) and evaluated by sqlsym on a symbolic logs table in which every row carries a
'committed at the time of the first run' bit: log ids come from a sequence drawn before commit and, unless
HASH_LOGS=SYNC, InsertLog takes no lock, so id order and commit order are unconstrained (READ COMMITTED: a
run sees exactly the committed rows). The procedure is run on the rows visible first, then every row becomes
visible and it is run again. Obligation: every block's content (the rows its hash was computed over) is
exactly the committed logs of the ledger with from_id < id <= to_id, and the ranges partition the ids."""
import re, z3
from common import Harness, write, dump_tables
import sqlsym, sqltables, plpgsql
from sqlsym import DB, Evaluator, Rel, Row, vint, vstr
from sqltables import col


def selection_subquery(body):
    """the text of the parenthesised sub-query `from ( select ... from logs ... ) logs` (balanced parentheses)"""
    for m in re.finditer(r"from\s*\(\s*(?=select\b)", body, re.I):
        i, depth = m.end(), 1
        while i < len(body) and depth:
            depth += {"(": 1, ")": -1}.get(body[i], 0)
            i += 1
        if depth == 0 and re.match(r"\s*logs\b", body[i:], re.I) and re.search(r"from\s+logs\b", body[m.end():i - 1], re.I):
            return body[m.end():i - 1].strip()
    return None


def run(repo, tier, out):
    K = 3 if tier == "quick" else 4
    h = Harness("C34_log_blocks")
    fns = plpgsql.resolve_functions(repo)
    if "create_block" not in fns or "create_blocks" not in fns:
        h.inconclusive.append("create_block / create_blocks not found in the migrations")
        return write(out, [h])
    body = fns["create_block"]["body"]
    m = selection_subquery(body)
    if not m or "max(id)" not in body.replace(" ", "").lower().replace("selectmax(id)", "max(id)") or not re.search(r"insert\s+into\s+logs_blocks\s*\(\s*ledger\s*,\s*previous\s*,\s*from_id\s*,\s*to_id", body, re.I) \
            or not re.search(r"values\s*\(\s*_ledger\s*,\s*previous_block\.block_id\s*,\s*previous_block\.max_log_id\s*,\s*max_log_id", body, re.I):
        h.inconclusive.append("create_block no longer has the shape this check interprets (selection sub-query; insert of (previous max id, max id of the selection))")
        return write(out, [h])
    sel = m
    h.encoded = [f"create_block (migration {fns['create_block']['migration']}): {' '.join(sel.split())}", "create_blocks: loop until an empty selection"]
    # symbolic logs table; visible1[i] = committed when the first run happens
    t, cons = sqltables.bucket(K)
    logs = t["logs"]
    L = z3.String("this_ledger")
    N = z3.Int("max_block_size")
    cons.append(N >= 1)
    vis1 = [z3.Bool(f"log{i}.committed_before_first_run") for i in range(K)]
    for r in logs.rows:
        cons.append(col(logs, r, "id").z >= 1)

    def run_blocks(visible, prev_max, tag):
        """create_blocks: list of (guard, from_id, to_id, included[row] bools)"""
        blocks = []
        cur = prev_max
        for step in range(K + 1):
            rows = [Row(z3.And(r.guard, v), r.vals) for r, v in zip(logs.rows, visible)]
            db = DB({"logs": Rel(logs.cols, rows)}, params={})
            ev = Evaluator(db)
            prm = Rel([("previous_block", "max_log_id"), (None, "_ledger"), (None, "max_block_size")], None)
            env = sqlsym.Env(prm, Row(z3.BoolVal(True), [vint(cur), vstr(L), vint(N)]))
            res = ev.rel(sqlsym.parse(sel), env)
            names = [c[1] for c in res.cols]
            inc = [r.guard for r in res.rows]
            anyrow = z3.Or(*inc)
            ids = [r.vals[names.index("id")].z for r in res.rows]
            mx = cur
            for g, i in zip(inc, ids):
                mx = z3.If(z3.And(g, i > mx), i, mx)
            blocks.append((anyrow, cur, mx, inc))
            cur = z3.If(anyrow, mx, cur)
        return blocks, cur
    try:
        b1, max1 = run_blocks(vis1, z3.IntVal(0), "a")
        b2, _ = run_blocks([z3.BoolVal(True)] * K, max1, "b")
    except sqlsym.Unsupported as e:
        h.inconclusive.append(f"create_block's selection is outside the SQL subset: {e}")
        return write(out, [h])
    blocks = b1 + b2
    mine = [z3.And(r.guard, col(logs, r, "ledger").z == L) for r in logs.rows]
    ids = [col(logs, r, "id").z for r in logs.rows]
    goals_cover, goals_content = [], []
    for i in range(K):
        inside = [z3.And(g, f < ids[i], ids[i] <= to) for (g, f, to, inc) in blocks]
        goals_cover.append(z3.Implies(mine[i], z3.Sum([z3.If(x, 1, 0) for x in inside]) == 1))
        for (g, f, to, inc) in blocks:
            goals_content.append(z3.Implies(z3.And(g, mine[i], f < ids[i], ids[i] <= to), inc[i]))
            goals_content.append(z3.Implies(z3.And(g, inc[i]), z3.And(mine[i], f < ids[i], ids[i] <= to)))
    h.reachable("end", cons + [z3.Or(*mine)])
    dump = dump_tables({"logs": logs})

    def dump2(m):
        d = dump(m)
        d["committed_before_first_run"] = [str(m.eval(v, model_completion=True)) for v in vis1]
        d["blocks"] = [{"exists": str(m.eval(g, model_completion=True)), "from": str(m.eval(f, model_completion=True)), "to": str(m.eval(to, model_completion=True)),
                        "hashed_rows": [str(m.eval(x, model_completion=True)) for x in inc]} for (g, f, to, inc) in blocks]
        return d
    # (1) when id order and commit order agree (every row committed before the first run has a smaller id than every later one)
    in_order = [z3.Implies(z3.And(mine[i], mine[j], vis1[i], z3.Not(vis1[j])), ids[i] < ids[j]) for i in range(K) for j in range(K) if i != j]
    h.prove("C34:blocks-partition-the-log-ids-when-ids-commit-in-order", cons + in_order, z3.And(*goals_cover), model_vars=[N], detail=sel, dump=dump2)
    h.prove("C34:block-content-is-the-committed-logs-of-its-range-when-ids-commit-in-order", cons + in_order, z3.And(*goals_content), model_vars=[N], detail=sel, dump=dump2)
    # (2) any commit order
    h.prove("C34:block-content-is-the-committed-logs-of-its-range", cons, z3.And(*(goals_cover + goals_content)), model_vars=[N], detail=sel, dump=dump2)
    write(out, [h])


if __name__ == "__main__":
    import argparse
    ap = argparse.ArgumentParser()
    ap.add_argument("--repo", default="/repo"); ap.add_argument("--tier", default="quick"); ap.add_argument("--out", required=True)
    a = ap.parse_args()
    run(a.repo, a.tier, a.out)
