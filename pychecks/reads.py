"""Read obligations over the SQL the real store emits (captured on every run), evaluated by sqlsym on
bounded symbolic tables and compared with reference folds written directly in z3.

Labels carry the property they belong to:
  C05  point-in-time / window reads equal the history fold
  C17  metadata reads: current metadata, or metadata as of t
  C35  feature flags: a read is answered correctly for the tables as that configuration populates them, or refused
  C01  conservation in aggregated reads
  C19  ledger isolation: rows of another ledger of the bucket never influence a result

usage: reads.py --props C05,C17 ...   (one module, selected obligations)
"""
import sys, z3
from common import Harness, write, capture_sql, pick, dump_tables
import sqlsym, sqltables
from sqlsym import V, vint, vstr, vbool, Rel, Row, DB, Evaluator
from sqltables import col

PIT_S, OOT_S = "2001-01-01T00:00:01Z", "2000-01-01T00:00:01Z"


class Ctx:
    def __init__(self, K, features, tag=""):
        self.K = K
        self.features = features
        self.t, self.cons = sqltables.bucket(K, tag)
        self.L = z3.String("this_ledger")
        self.pit, self.oot = z3.Int("pit"), z3.Int("oot")
        self.acc1, self.ast1, self.mv1 = z3.String("acc1"), z3.String("ast1"), z3.String("mv1")
        self.amount = z3.Int("filter_amount")
        self.params = {"L#1": vstr(self.L), PIT_S: vint(self.pit), OOT_S: vint(self.oot), "ACC#1": vstr(self.acc1), "ACC#2": vstr(z3.String("acc2")),
                       "AST#1": vstr(self.ast1), "MK#1": "k1", "MV#1": vstr(self.mv1), "700000006": vint(self.amount)}
        # the tables as this configuration populates them
        f = features
        if "MOVES_HISTORY=OFF" in f:
            self.cons += [z3.Not(r.guard) for r in self.t["moves"].rows]
        if "MOVES_HISTORY_POST_COMMIT_EFFECTIVE_VOLUMES=DISABLED" in f or "MOVES_HISTORY=OFF" in f:
            self.cons += [col(self.t["moves"], r, "post_commit_effective_volumes").null for r in self.t["moves"].rows]
        else:
            self.cons += [z3.Not(col(self.t["moves"], r, "post_commit_effective_volumes").null) for r in self.t["moves"].rows]
        self.cons += [z3.Not(col(self.t["moves"], r, "post_commit_volumes").null) for r in self.t["moves"].rows]
        if "ACCOUNT_METADATA_HISTORY=DISABLED" in f:
            self.cons += [z3.Not(r.guard) for r in self.t["accounts_metadata"].rows]
        if "TRANSACTION_METADATA_HISTORY=DISABLED" in f:
            self.cons += [z3.Not(r.guard) for r in self.t["transactions_metadata"].rows]

    def db(self):
        return DB(self.t, params=self.params, jsonkeys=sqltables.JSONKEYS)

    def mine(self, rel, r):
        return z3.And(r.guard, col(rel, r, "ledger").z == self.L)

    # ---- row invariants established elsewhere (C03: post_commit_volumes by insertion order; C04: effective volumes)
    def inv_pcv(self):
        """post_commit_volumes(m) = fold of the moves of the same (ledger, account, asset) with seq <= seq(m);
        insertion_date is non-decreasing in seq (both are assigned at insertion)"""
        m = self.t["moves"]
        out = []
        for r in m.rows:
            inp, outp = z3.IntVal(0), z3.IntVal(0)
            for s in m.rows:
                same = z3.And(s.guard, *[col(m, s, c).z == col(m, r, c).z for c in ("ledger", "accounts_address", "asset")], col(m, s, "seq").z <= col(m, r, "seq").z)
                inp = inp + z3.If(z3.And(same, z3.Not(col(m, s, "is_source").z)), col(m, s, "amount").z, 0)
                outp = outp + z3.If(z3.And(same, col(m, s, "is_source").z), col(m, s, "amount").z, 0)
                out.append(z3.Implies(z3.And(r.guard, s.guard, col(m, s, "seq").z < col(m, r, "seq").z), col(m, s, "insertion_date").z <= col(m, r, "insertion_date").z))
            pcv = col(m, r, "post_commit_volumes").z
            out.append(z3.Implies(r.guard, z3.And(pcv["inputs"].z == inp, pcv["outputs"].z == outp)))
        return out

    def inv_pcev(self):
        """post_commit_effective_volumes(m) = fold of the moves of the same (ledger, account, asset) that are
        not after m in (effective_date, seq) order  (InvE, established by the C04 check)"""
        m = self.t["moves"]
        out = []
        for r in m.rows:
            inp, outp = z3.IntVal(0), z3.IntVal(0)
            for s in m.rows:
                notafter = z3.Or(col(m, s, "effective_date").z < col(m, r, "effective_date").z,
                                 z3.And(col(m, s, "effective_date").z == col(m, r, "effective_date").z, col(m, s, "seq").z <= col(m, r, "seq").z))
                same = z3.And(s.guard, *[col(m, s, c).z == col(m, r, c).z for c in ("ledger", "accounts_address", "asset")], notafter)
                inp = inp + z3.If(z3.And(same, z3.Not(col(m, s, "is_source").z)), col(m, s, "amount").z, 0)
                outp = outp + z3.If(z3.And(same, col(m, s, "is_source").z), col(m, s, "amount").z, 0)
            pcev = col(m, r, "post_commit_effective_volumes")
            out.append(z3.Implies(z3.And(r.guard, z3.Not(pcev.null)), z3.And(pcev.z["inputs"].z == inp, pcev.z["outputs"].z == outp)))
        return out

    def fold_moves(self, acc, asset, datecol, window):
        """(exists, input, output) of the moves of (this ledger, acc, asset) in the window"""
        m = self.t["moves"]
        ex, inp, outp = z3.BoolVal(False), z3.IntVal(0), z3.IntVal(0)
        for r in m.rows:
            d = col(m, r, datecol).z
            inw = z3.BoolVal(True)
            if "pit" in window:
                inw = z3.And(inw, d <= self.pit)
            if "oot" in window:
                inw = z3.And(inw, d >= self.oot)
            hit = z3.And(self.mine(m, r), inw, col(m, r, "asset").z == asset)
            if acc is not None:
                hit = z3.And(hit, col(m, r, "accounts_address").z == acc)
            ex = z3.Or(ex, hit)
            src = col(m, r, "is_source").z
            inp = inp + z3.If(z3.And(hit, z3.Not(src)), col(m, r, "amount").z, 0)
            outp = outp + z3.If(z3.And(hit, src), col(m, r, "amount").z, 0)
        return ex, inp, outp

    def meta_as_of(self, hist, keycol, key, t):
        """metadata of the revision with the greatest revision number among those dated <= t: (found, json V)"""
        found = z3.BoolVal(False)
        best = None
        rows = hist.rows
        for r in rows:
            elig = z3.And(self.mine(hist, r), col(hist, r, keycol).z == key, col(hist, r, "date").z <= t)
            top = z3.And(elig, *[z3.Not(z3.And(self.mine(hist, s), col(hist, s, keycol).z == key, col(hist, s, "date").z <= t,
                                                col(hist, s, "revision").z > col(hist, r, "revision").z)) for s in rows if s is not r])
            found = z3.Or(found, elig)
            md = col(hist, r, "metadata")
            best = md if best is None else sqlsym.ite_v(top, md, best)
        return found, best


def json_eq(a, b):
    return z3.And(*[z3.And(a.z[k][0] == b.z[k][0], z3.Implies(a.z[k][0], a.z[k][1] == b.z[k][1])) for k in a.z])


def json_empty(a):
    return z3.And(*[z3.Not(a.z[k][0]) for k in a.z])


def evaluate(h, ctx, rec, label):
    if not rec["sql"]:
        return None
    try:
        ev = Evaluator(ctx.db())
        res = ev.rel(sqlsym.parse(rec["sql"][-1]))
        ctx.cons = ctx.cons + ev.db.assumes
        return res, ev
    except sqlsym.Unsupported as e:
        h.inconclusive.append(f"{label}: statement outside the SQL subset: {e}")
        return None


def names(rel):
    return [c[1] for c in rel.cols]


def count_rows(res, pred):
    return z3.Sum([z3.If(z3.And(r.guard, pred(r)), 1, 0) for r in res.rows]) if res.rows else z3.IntVal(0)


# ---------------------------------------------------------------------------------------------- volumes


def ob_volumes(h, ctx, rec):
    cfg = rec["config"]
    window = cfg["window"]
    datecol = "insertion_date" if cfg["insertionDate"] == "true" else "effective_date"
    label = f"C05:volumes[{window},{datecol}]"
    moves_needed = window != "none"
    if rec.get("error"):
        if moves_needed and "MOVES_HISTORY=OFF" in ctx.features:
            h.stat("C35:window-read-refused-without-moves-history")["checked"] += 1
            h.stat("C35:window-read-refused-without-moves-history")["concrete_true"] += 1
        else:
            h.inconclusive.append(f"{label}: the store refused the query: {rec['error']}")
        return
    out = evaluate(h, ctx, rec, label)
    if out is None:
        return
    res, _ = out
    n = names(res)
    vols = ctx.t["accounts_volumes"]

    def ref(acc, asset):
        if window == "none":
            ex, inp, outp = z3.BoolVal(False), z3.IntVal(0), z3.IntVal(0)
            for r in vols.rows:
                hit = z3.And(ctx.mine(vols, r), col(vols, r, "accounts_address").z == acc, col(vols, r, "asset").z == asset)
                ex = z3.Or(ex, hit)
                inp = inp + z3.If(hit, col(vols, r, "input").z, 0)
                outp = outp + z3.If(hit, col(vols, r, "output").z, 0)
            return ex, inp, outp
        return ctx.fold_moves(acc, asset, datecol, window)

    goals = []
    for r in res.rows:
        acc, asset = r.vals[n.index("account")].z, r.vals[n.index("asset")].z
        ex, inp, outp = ref(acc, asset)
        goals.append(z3.Implies(r.guard, z3.And(ex, r.vals[n.index("input")].z == inp, r.vals[n.index("output")].z == outp, r.vals[n.index("balance")].z == inp - outp)))
    src = vols if window == "none" else ctx.t["moves"]
    for r in src.rows:
        acc, asset = col(src, r, "accounts_address").z, col(src, r, "asset").z
        ex, _, _ = ref(acc, asset)
        goals.append(z3.Implies(z3.And(ctx.mine(src, r), ex), count_rows(res, lambda o: z3.And(o.vals[n.index("account")].z == acc, o.vals[n.index("asset")].z == asset)) == 1))
    h.encoded.append(f"Volumes.Paginate {cfg}")
    h.reachable("end", ctx.cons + [z3.Or(*[r.guard for r in res.rows])])
    lab = label if ctx.features == "default" else f"C35:{label[4:]}@{ctx.features}"
    h.prove(lab, ctx.cons, z3.And(*goals), model_vars=[ctx.pit, ctx.oot, ctx.L], detail=rec["sql"][-1][:700], dump=dump_tables(ctx.t))


# ---------------------------------------------------------------------------------------------- aggregated volumes


def obj_entries(v):
    """aggregate_objects(json_build_object(asset, json_build_object('input', x, 'output', y))) -> [(asset, input, output, guard)]"""
    out = []
    for key, val, g in v.z:
        if val.kind == "comp":
            out.append((key, val.z["inputs"], val.z["outputs"], g))
            continue
        d = {}
        for k2, v2, g2 in val.z:
            d[str(k2.z).strip('"')] = v2
        out.append((key, d["input"], d["output"], g))
    return out


def ob_aggregated(h, ctx, rec):
    cfg = rec["config"]
    window = cfg["window"]
    insertion = cfg["insertionDate"] == "true"
    datecol = "insertion_date" if insertion else "effective_date"
    label = f"C05:aggregated[{window},{datecol}]"
    if rec.get("error") and rec["error"] != "not found":
        if "pit" in window and ("MOVES_HISTORY=OFF" in ctx.features or (not insertion and "EFFECTIVE_VOLUMES=DISABLED" in ctx.features)):
            st = h.stat("C35:pit-aggregate-refused-without-the-feature")
            st["checked"] += 1
            st["concrete_true"] += 1
        else:
            h.inconclusive.append(f"{label}: the store refused the query: {rec['error']}")
        return
    out = evaluate(h, ctx, rec, label)
    if out is None:
        return
    res, _ = out
    if "pit" not in window:
        # current volumes: the accounts_volumes table (an OOT alone is ignored by the store: outside the property)
        if window != "none":
            return
        vols = ctx.t["accounts_volumes"]
        ents = [e for r in res.rows for e in [(r.guard, obj_entries(r.vals[0]))]]
        goals = []
        for g, es in ents:
            for key, inp, outp, eg in es:
                tin = z3.Sum([z3.If(z3.And(ctx.mine(vols, r), col(vols, r, "asset").z == key.z), col(vols, r, "input").z, 0) for r in vols.rows])
                tout = z3.Sum([z3.If(z3.And(ctx.mine(vols, r), col(vols, r, "asset").z == key.z), col(vols, r, "output").z, 0) for r in vols.rows])
                # several entries may carry the same asset (one per group row); only the group representative is guarded true
                goals.append(z3.Implies(z3.And(g, eg), z3.And(inp.z == tin, outp.z == tout)))
        h.prove("C02:aggregated-balances-are-the-sums-of-the-volume-rows", ctx.cons, z3.And(*goals), model_vars=[ctx.L], detail=rec["sql"][-1][:700], dump=dump_tables(ctx.t))
        return
    # PIT: first_value(post_commit[_effective]_volumes) per (account, asset): exact given the row invariants
    inv = ctx.inv_pcv() if insertion else ctx.inv_pcev()
    goals = []
    for r in res.rows:
        for key, inp, outp, eg in obj_entries(r.vals[0]):
            ex, tin, tout = ctx.fold_moves(None, key.z, datecol, "pit")
            goals.append(z3.Implies(z3.And(r.guard, eg), z3.And(ex, inp.z == tin, outp.z == tout)))
    h.encoded.append(f"AggregatedVolumes.GetOne {cfg}")
    lab = label if ctx.features == "default" else f"C35:{label[4:]}@{ctx.features}"
    h.prove(lab, ctx.cons + inv, z3.And(*goals), model_vars=[ctx.pit, ctx.L], detail=rec["sql"][-1][:700], dump=dump_tables(ctx.t))
    # C01: what is reported is conserved per asset when every move has its twin (pairing established by C03)
    if ctx.features == "default":
        m = ctx.t["moves"]
        paired = []
        for r in m.rows:
            twins = [z3.And(s.guard, col(m, s, "is_source").z != col(m, r, "is_source").z, *[col(m, s, c).z == col(m, r, c).z for c in ("ledger", "asset", "amount", "transactions_id", "insertion_date", "effective_date")]) for s in m.rows if s is not r]
            paired.append(z3.Implies(r.guard, z3.Sum([z3.If(t, 1, 0) for t in twins]) == 1 if twins else z3.BoolVal(False)))
        # (pairing as a bijection is approximated by "exactly one twin"; sufficient for K <= 4)
        goals2 = []
        for r in res.rows:
            for key, inp, outp, eg in obj_entries(r.vals[0]):
                goals2.append(z3.Implies(z3.And(r.guard, eg), inp.z == outp.z))
        h.prove(f"C01:aggregated[{window},{datecol}]-is-conserved-per-asset", ctx.cons + inv + paired, z3.And(*goals2), model_vars=[ctx.pit], detail=rec["sql"][-1][:400], dump=dump_tables(ctx.t))


# ---------------------------------------------------------------------------------------------- accounts


def ob_accounts(h, ctx, rec):
    cfg = rec["config"]
    window, expand = cfg["window"], cfg.get("expand", "")
    label = f"accounts[{window}{',' + expand if expand else ''}]"
    if rec.get("error") and rec["error"] != "not found":
        h.inconclusive.append(f"{label}: the store refused the query: {rec['error']}")
        return
    out = evaluate(h, ctx, rec, label)
    if out is None:
        return
    res, _ = out
    n = names(res)
    acc = ctx.t["accounts"]
    hist = ctx.t["accounts_metadata"]
    pit = window == "pit"
    history_on = "ACCOUNT_METADATA_HISTORY=DISABLED" not in ctx.features and ctx.features != "minimal"
    goals_exist, goals_meta = [], []
    for a in acc.rows:
        addr = col(acc, a, "address").z
        should = ctx.mine(acc, a)
        if pit:
            should = z3.And(should, col(acc, a, "first_usage").z <= ctx.pit)
        cnt = count_rows(res, lambda o: o.vals[n.index("address")].z == addr)
        goals_exist.append(z3.If(should, cnt == 1, z3.Implies(z3.Not(z3.Or(*[z3.And(ctx.mine(acc, b), col(acc, b, "address").z == addr, (col(acc, b, "first_usage").z <= ctx.pit) if pit else z3.BoolVal(True)) for b in acc.rows])), cnt == 0)))
        # metadata of the returned row
        if pit and history_on:
            found, best = ctx.meta_as_of(hist, "accounts_address", addr, ctx.pit)
            for o in res.rows:
                md = o.vals[n.index("metadata")]
                goals_meta.append(z3.Implies(z3.And(should, o.guard, o.vals[n.index("address")].z == addr),
                                             z3.If(found, json_eq(md, best), json_empty(md))))
        else:
            cur = col(acc, a, "metadata")
            for o in res.rows:
                md = o.vals[n.index("metadata")]
                goals_meta.append(z3.Implies(z3.And(should, o.guard, o.vals[n.index("address")].z == addr), json_eq(md, cur)))
    for o in res.rows:
        goals_exist.append(z3.Implies(o.guard, z3.Or(*[z3.And(ctx.mine(acc, a), col(acc, a, "address").z == o.vals[n.index("address")].z) for a in acc.rows])))
    h.encoded.append(f"{rec['name']} {cfg}")
    suffix = "" if ctx.features == "default" else "@" + ctx.features
    h.reachable("end", ctx.cons + [z3.Or(*[r.guard for r in res.rows])])
    if expand == "":
        h.prove(("C05:" if ctx.features == "default" else "C35:") + label + "-lists-exactly-the-accounts-in-use-by-then" + suffix, ctx.cons, z3.And(*goals_exist),
                model_vars=[ctx.pit, ctx.L], detail=rec["sql"][-1][:700], dump=dump_tables(ctx.t))
        h.prove(("C17:" if ctx.features == "default" else "C35:") + label + ("-metadata-as-of-the-instant" if pit and history_on else "-current-metadata") + suffix, ctx.cons, z3.And(*goals_meta),
                model_vars=[ctx.pit, ctx.L], detail=rec["sql"][-1][:700], dump=dump_tables(ctx.t))
        return
    # expand volumes / effectiveVolumes: per account, the object {asset: {input, output}}
    colname = "volumes" if expand == "volumes" else "effective_volumes"
    if pit:
        datecol = "insertion_date" if expand == "volumes" else "effective_date"
        inv = ctx.inv_pcv() if expand == "volumes" else ctx.inv_pcev()
    goals = []
    vols = ctx.t["accounts_volumes"]
    for o in res.rows:
        v = o.vals[n.index(colname)]
        if v.kind != "obj":
            continue
        addr = o.vals[n.index("address")].z
        for key, inp, outp, eg in obj_entries(v):
            if pit:
                ex, tin, tout = ctx.fold_moves(addr, key.z, datecol, "pit")
            else:
                if expand == "effectiveVolumes":
                    return  # current effective volumes: the last move by (effective_date, seq); covered by the PIT form
                ex = z3.Or(*[z3.And(ctx.mine(vols, r), col(vols, r, "accounts_address").z == addr, col(vols, r, "asset").z == key.z) for r in vols.rows])
                tin = z3.Sum([z3.If(z3.And(ctx.mine(vols, r), col(vols, r, "accounts_address").z == addr, col(vols, r, "asset").z == key.z), col(vols, r, "input").z, 0) for r in vols.rows])
                tout = z3.Sum([z3.If(z3.And(ctx.mine(vols, r), col(vols, r, "accounts_address").z == addr, col(vols, r, "asset").z == key.z), col(vols, r, "output").z, 0) for r in vols.rows])
            goals.append(z3.Implies(z3.And(o.guard, z3.Not(v.null), eg), z3.And(ex, inp.z == tin, outp.z == tout)))
    if goals:
        h.prove(("C05:" if ctx.features == "default" else "C35:") + label + "-expanded-volumes-equal-the-fold" + suffix, ctx.cons + (inv if pit else []), z3.And(*goals),
                model_vars=[ctx.pit, ctx.L], detail=rec["sql"][-1][:700], dump=dump_tables(ctx.t))


# ---------------------------------------------------------------------------------------------- transactions


def ob_transactions_expand(h, ctx, rec):
    """expand=effectiveVolumes on the transactions listing (the read side of C04): for every listed transaction the object
    {account: {asset: {input, output}}} holds, for exactly the (account, asset) pairs the transaction moved, the
    post-commit effective volumes recorded by the LAST move (greatest seq) of that transaction on the pair."""
    cfg = rec["config"]
    label = f"transactions[{cfg['window']},effectiveVolumes]"
    if rec.get("error"):
        h.inconclusive.append(f"{label}: the store refused the query: {rec['error']}")
        return
    out = evaluate(h, ctx, rec, label)
    if out is None:
        return
    res, _ = out
    n = names(res)
    m = ctx.t["moves"]
    goals, complete = [], []
    for o in res.rows:
        v = o.vals[n.index("post_commit_effective_volumes")]
        txid = o.vals[n.index("id")].z
        entries = []
        if v.kind == "obj":
            for akey, inner, ag in v.z:
                if inner.kind != "obj":
                    h.inconclusive.append(f"{label}: unexpected shape of the expanded object")
                    return
                for skey, inp, outp, sg in obj_entries(inner):
                    entries.append((akey.z, skey.z, inp.z, outp.z, z3.And(ag, sg)))
        for a, s_, inp, outp, g in entries:
            wit = []
            for r in m.rows:
                of_tx = lambda x: z3.And(ctx.mine(m, x), col(m, x, "transactions_id").z == txid, col(m, x, "accounts_address").z == a, col(m, x, "asset").z == s_)
                last = z3.And(of_tx(r), *[z3.Not(z3.And(of_tx(x), col(m, x, "seq").z > col(m, r, "seq").z)) for x in m.rows if x is not r])
                pcev = col(m, r, "post_commit_effective_volumes")
                wit.append(z3.And(last, z3.Not(pcev.null), pcev.z["inputs"].z == inp, pcev.z["outputs"].z == outp))
            goals.append(z3.Implies(z3.And(o.guard, z3.Not(v.null), g), z3.Or(*wit) if wit else z3.BoolVal(False)))
        # completeness: every pair the transaction moved is reported, once
        for r in m.rows:
            a, s_ = col(m, r, "accounts_address").z, col(m, r, "asset").z
            cnt = z3.Sum([z3.If(z3.And(g, ea == a, es == s_), 1, 0) for ea, es, _, _, g in entries]) if entries else z3.IntVal(0)
            complete.append(z3.Implies(z3.And(o.guard, ctx.mine(m, r), col(m, r, "transactions_id").z == txid), z3.And(z3.Not(v.null), cnt == 1)))
    h.encoded.append(f"{rec['name']} {cfg}")
    h.reachable("end", ctx.cons + [z3.Or(*[r.guard for r in res.rows])])
    pre = "C04:" if ctx.features == "default" else "C35:"
    suffix = "" if ctx.features == "default" else "@" + ctx.features
    nonnull = [z3.Not(col(m, r, "post_commit_effective_volumes").null) for r in m.rows]
    h.prove(pre + label + "-are-those-recorded-by-the-transaction's-last-move-on-the-pair" + suffix, ctx.cons + nonnull, z3.And(*goals) if goals else z3.BoolVal(True),
            model_vars=[ctx.pit, ctx.L], detail=rec["sql"][-1][:700], dump=dump_tables(ctx.t))
    h.prove(pre + label + "-cover-every-pair-the-transaction-moved" + suffix, ctx.cons + nonnull, z3.And(*complete) if complete else z3.BoolVal(True),
            model_vars=[ctx.pit, ctx.L], detail=rec["sql"][-1][:700], dump=dump_tables(ctx.t))


def ob_transactions(h, ctx, rec):
    cfg = rec["config"]
    window = cfg["window"]
    if cfg.get("expand", "") == "effectiveVolumes":
        ob_transactions_expand(h, ctx, rec)
        return
    if cfg.get("expand", "") != "":
        return
    label = f"transactions[{window}]"
    if rec.get("error") and rec["error"] != "not found":
        h.inconclusive.append(f"{label}: the store refused the query: {rec['error']}")
        return
    out = evaluate(h, ctx, rec, label)
    if out is None:
        return
    res, _ = out
    n = names(res)
    tx = ctx.t["transactions"]
    hist = ctx.t["transactions_metadata"]
    pit = window == "pit"
    history_on = "TRANSACTION_METADATA_HISTORY=DISABLED" not in ctx.features and ctx.features != "minimal"
    g_exist, g_meta, g_rev = [], [], []
    for t in tx.rows:
        tid = col(tx, t, "id").z
        should = ctx.mine(tx, t)
        if pit:
            should = z3.And(should, col(tx, t, "timestamp").z <= ctx.pit)
        cnt = count_rows(res, lambda o: o.vals[n.index("id")].z == tid)
        g_exist.append(z3.Implies(should, cnt == 1))
        g_exist.append(z3.Implies(z3.And(ctx.mine(tx, t), z3.Not(should)), cnt == 0))
        for o in res.rows:
            here = z3.And(should, o.guard, o.vals[n.index("id")].z == tid)
            md = o.vals[n.index("metadata")]
            if pit and history_on:
                found, best = ctx.meta_as_of(hist, "transactions_id", tid, ctx.pit)
                g_meta.append(z3.Implies(here, z3.If(found, json_eq(md, best), json_empty(md))))
            else:
                g_meta.append(z3.Implies(here, json_eq(md, col(tx, t, "metadata"))))
            rv = o.vals[n.index("reverted_at")]
            stored = col(tx, t, "reverted_at")
            if pit:
                visible = z3.And(z3.Not(stored.null), stored.z <= ctx.pit)
                g_rev.append(z3.Implies(here, z3.If(visible, z3.And(z3.Not(rv.null), rv.z == stored.z), rv.null)))
            else:
                g_rev.append(z3.Implies(here, z3.And(rv.null == stored.null, z3.Implies(z3.Not(stored.null), rv.z == stored.z))))
    h.encoded.append(f"{rec['name']} {cfg}")
    suffix = "" if ctx.features == "default" else "@" + ctx.features
    h.reachable("end", ctx.cons + [z3.Or(*[r.guard for r in res.rows])])
    p5 = "C05:" if ctx.features == "default" else "C35:"
    p17 = "C17:" if ctx.features == "default" else "C35:"
    h.prove(p5 + label + "-lists-exactly-the-transactions-dated-by-then" + suffix, ctx.cons, z3.And(*g_exist), model_vars=[ctx.pit, ctx.L], detail=rec["sql"][-1][:700], dump=dump_tables(ctx.t))
    h.prove(p5 + label + "-revert-mark-as-of-the-instant" + suffix, ctx.cons, z3.And(*g_rev), model_vars=[ctx.pit, ctx.L], detail=rec["sql"][-1][:700], dump=dump_tables(ctx.t))
    h.prove(p17 + label + ("-metadata-as-of-the-instant" if pit and history_on else "-current-metadata") + suffix, ctx.cons, z3.And(*g_meta), model_vars=[ctx.pit, ctx.L], detail=rec["sql"][-1][:700], dump=dump_tables(ctx.t))


# ---------------------------------------------------------------------------------------------- driver

FEATURE_SETS = ["default", "MOVES_HISTORY=OFF", "MOVES_HISTORY_POST_COMMIT_EFFECTIVE_VOLUMES=DISABLED", "ACCOUNT_METADATA_HISTORY=DISABLED",
                "TRANSACTION_METADATA_HISTORY=DISABLED", "HASH_LOGS=DISABLED", "minimal"]


def refused_ok(h, ctx, rec, what):
    """a read that the store refuses: fine when it names a feature this configuration lacks (that IS the property)"""
    err = rec.get("error") or ""
    lacking = {"MOVES_HISTORY": "MOVES_HISTORY=OFF" in ctx.features or ctx.features == "minimal",
               "MOVES_HISTORY_POST_COMMIT_EFFECTIVE_VOLUMES": "EFFECTIVE_VOLUMES=DISABLED" in ctx.features or "MOVES_HISTORY=OFF" in ctx.features or ctx.features == "minimal",
               "ACCOUNT_METADATA_HISTORY": "ACCOUNT_METADATA_HISTORY=DISABLED" in ctx.features or ctx.features == "minimal",
               "TRANSACTION_METADATA_HISTORY": "TRANSACTION_METADATA_HISTORY=DISABLED" in ctx.features or ctx.features == "minimal"}
    named = [f for f in lacking if f in err]
    # the longest name wins (MOVES_HISTORY is a prefix of the effective-volumes feature)
    named.sort(key=len, reverse=True)
    if "feature" in err and named and lacking[named[0]]:
        st = h.stat(f"C35:{what}-refused-for-the-missing-feature@{ctx.features}")
        st["checked"] += 1
        st["concrete_true"] += 1
        return True
    return False


UNWRITTEN = {"moves": ("MOVES_HISTORY", lambda f: "MOVES_HISTORY=OFF" in f or f == "minimal"),
             "accounts_metadata": ("ACCOUNT_METADATA_HISTORY", lambda f: "ACCOUNT_METADATA_HISTORY=DISABLED" in f or f == "minimal"),
             "transactions_metadata": ("TRANSACTION_METADATA_HISTORY", lambda f: "TRANSACTION_METADATA_HISTORY=DISABLED" in f or f == "minimal"),
             # a column rather than a table: NULL in every move when the effective volumes are not maintained
             "post_commit_effective_volumes": ("MOVES_HISTORY_POST_COMMIT_EFFECTIVE_VOLUMES", lambda f: "EFFECTIVE_VOLUMES=DISABLED" in f or f == "minimal")}


def no_read_of_unwritten_tables(h, ctx, rec, what):
    """A configuration that switches a history feature off never writes the table behind it: a read that is ANSWERED (not
    refused) from such a table reports an empty history as if it were the ledger's. Structural, on the captured statement."""
    import re
    if rec.get("error") or not rec.get("sql"):
        return
    sql = rec["sql"][-1]
    for table, (feature, lacks) in UNWRITTEN.items():
        if not lacks(ctx.features):
            continue
        lab = f"C35:{what}-is-not-answered-from-{table}-when-{feature}-is-off@{ctx.features}"
        st = h.stat(lab)
        st["checked"] += 1
        if re.search(r'[."(]' + table + r'"?\b', sql) or re.search(r"\b(from|join)\s+" + table + r"\b", sql, re.I):
            st["sat"] += 1
            h.violations.append({"harness": h.name, "label": lab, "kind": "assert", "model": {}, "detail": "config=" + str(rec["config"]) + " :: " + sql[:900],
                                 "concrete_check": "reproduced", "concrete_detail": {"statement": sql, "config": rec["config"]}, "sql_replayed_on_postgres": False})
        else:
            st["concrete_true"] += 1


def run(repo, tier, out, props, alone="false"):
    recs = capture_sql(repo)
    K = 3 if tier == "quick" else 4
    hs = []
    feats = ["default"] if props.isdisjoint({"C35"}) else FEATURE_SETS
    isolation = "C19" in props
    for f in feats:
        for al in (["false", "true"] if isolation else [alone]):
            h = Harness("READS_" + f.replace("=", "_") + ("_alone" if al == "true" else ""))
            sel = dict(features=f, alone=al)

            def ctx():
                c = Ctx(K, f)
                if al == "true":
                    # the alone-in-bucket optimisation drops the ledger predicate; it is only switched on while the
                    # bucket holds a single ledger (see the C19 Go harness), i.e. every row belongs to this ledger
                    for rel in c.t.values():
                        c.cons += [z3.Implies(r.guard, col(rel, r, "ledger").z == c.L) for r in rel.rows]
                return c
            for name, ob, extra in (("Volumes.Paginate", ob_volumes, dict(groupLvl="0")), ("AggregatedVolumes.GetOne", ob_aggregated, {}),
                                    ("Accounts.Paginate", ob_accounts, {}), ("Transactions.Paginate", ob_transactions, {})):
                for rec in pick(recs, name, **sel, **extra):
                    c = ctx()
                    before = len(h.inconclusive)
                    ob(h, c, rec)
                    no_read_of_unwritten_tables(h, c, rec, name)
                    # refusals for a missing feature are the documented behaviour
                    kept = []
                    for msg in h.inconclusive[before:]:
                        if "the store refused the query" in msg and refused_ok(h, c, rec, name):
                            continue
                        kept.append(msg)
                    h.inconclusive[before:] = kept
            if isolation:
                # result == a function of this ledger's rows only, for every content of the other ledgers' rows
                h.asserts = {"C19:" + k.split(":", 1)[1] + "-depends-on-this-ledger-only": v for k, v in h.asserts.items() if k.split(":")[0] in ("C05", "C17", "C02")}
                for v in h.violations:
                    v["label"] = "C19:" + v["label"].split(":", 1)[1] + "-depends-on-this-ledger-only"
            else:
                keep = lambda lab: lab.split(":")[0] in props
                h.asserts = {k: v for k, v in h.asserts.items() if keep(k)}
                h.violations = [v for v in h.violations if keep(v["label"])]
            hs.append(h)
    write(out, hs)


if __name__ == "__main__":
    import argparse
    ap = argparse.ArgumentParser()
    ap.add_argument("--repo", default="/repo"); ap.add_argument("--tier", default="quick"); ap.add_argument("--out", required=True)
    ap.add_argument("--props", default="C05,C17,C35,C01,C02")
    a = ap.parse_args()
    run(a.repo, a.tier, a.out, set(a.props.split(",")))
