"""C20 (and C19 / C35 views of it): list filters select exactly the matching entities.

A family of filter ASTs (leaves of every documented kind x $and/$or/$not templates up to depth 3) is generated
here, handed to the real store through a recording SQL driver (harness/sqlcap: real ResourceRepository, real
ResolveFilter / BuildDataset / canPushAddressFilterToLateral, real bun), and the statement the store emits for
each is evaluated by sqlsym on bounded symbolic tables. An independent reference evaluator, written here from
the meaning of the filter language, decides per entity whether it satisfies the AST; z3 decides that the
statement lists exactly those entities (and that the count statement counts them).

Filter values are sentinels mapped to symbolic variables (addresses, segments, metadata values, amounts, dates,
assets, references), distinct per leaf, so that equal and different values are both explored.

Reading of the language used by the reference (the property text is silent on it; stated in DESIGN.md):
  * an atom over an attribute the entity does not have — the balance of an asset the account never held, the
    reverted_at of a non-reverted transaction, the reference of a transaction without one — is neither true nor
    false; $and/$or/$not follow Kleene's logic; an entity is listed iff its filter evaluates to true;
  * metadata atoms are two-valued: an account or transaction without (any) metadata has the empty object;
  * 'a:' / ':b' / 'a::c' fix the number of segments and the non-empty ones; 'a:...' fixes a prefix.
Row invariants assumed (established by the writes, C02/C03/C04/C18): address_array = segments of address
(by construction: segment arrays are functions of the address string); every volumes / moves row has its
accounts row; post-commit effective volumes (InvE)."""
import sys, json, itertools, z3
from common import Harness, write, capture_sql, dump_tables
import sqlsym, sqltables
from sqlsym import V, vint, vstr, vbool, DB, Evaluator, NSEG, SEG
from sqltables import col
from reads import Ctx, json_eq, json_empty, names, count_rows, obj_entries

PIT_S = "2001-01-01T00:00:01Z"

# ------------------------------------------------------------------------------------------ three-valued logic


class T3:
    __slots__ = ("t", "u")

    def __init__(self, t, u=None):
        self.t = t
        self.u = z3.BoolVal(False) if u is None else u

    @property
    def f(self):
        return z3.And(z3.Not(self.t), z3.Not(self.u))


def t_not(a):
    return T3(a.f, a.u)


def t_and(xs):
    t = z3.And(*[x.t for x in xs])
    f = z3.Or(*[x.f for x in xs])
    return T3(t, z3.And(z3.Not(t), z3.Not(f)))


def t_or(xs):
    t = z3.Or(*[x.t for x in xs])
    f = z3.And(*[x.f for x in xs])
    return T3(t, z3.And(z3.Not(t), z3.Not(f)))


OPS = {"$lt": lambda a, b: a < b, "$lte": lambda a, b: a <= b, "$gt": lambda a, b: a > b, "$gte": lambda a, b: a >= b, "$match": lambda a, b: a == b}

# ------------------------------------------------------------------------------------------ leaves
# a leaf: dict(kind=..., ...) ; json(i) -> filter JSON with sentinels of index i ; ref(i, ent, P) -> T3
# P: sentinel -> z3 value


def S(kind, i, sub=""):
    return {"acc": f"ACC#{i}{sub}", "seg": f"SEG#{i}{sub}", "mv": f"MV#{i}", "ast": f"AST#{i}", "ref": f"REF#{i}{sub}", "num": str(700000000 + 10 * i + (1 if sub else 0)),
            "date": f"2002-02-{i + 1:02d}T00:00:01Z"}[kind]


PATTERNS = {
    "a:": lambda i: (f"{S('seg', i)}:", lambda x, P: z3.And(NSEG(x) == 2, SEG(x, z3.IntVal(0)) == P[S("seg", i)])),
    ":b": lambda i: (f":{S('seg', i)}", lambda x, P: z3.And(NSEG(x) == 2, SEG(x, z3.IntVal(1)) == P[S("seg", i)])),
    "a::c": lambda i: (f"{S('seg', i)}::{S('seg', i, 'b')}", lambda x, P: z3.And(NSEG(x) == 3, SEG(x, z3.IntVal(0)) == P[S("seg", i)], SEG(x, z3.IntVal(2)) == P[S("seg", i, "b")])),
    "a:...": lambda i: (f"{S('seg', i)}:...", lambda x, P: z3.And(NSEG(x) >= 1, SEG(x, z3.IntVal(0)) == P[S("seg", i)])),
    "a:b:...": lambda i: (f"{S('seg', i)}:{S('seg', i, 'b')}:...", lambda x, P: z3.And(NSEG(x) >= 2, SEG(x, z3.IntVal(0)) == P[S("seg", i)], SEG(x, z3.IntVal(1)) == P[S("seg", i, "b")])),
}


def addr_pred(leaf, i, P):
    """predicate on an address string"""
    if leaf["form"] == "exact":
        return lambda x: x == P[S("acc", i)]
    if leaf["form"] == "in":
        return lambda x: z3.Or(x == P[S("acc", i)], x == P[S("acc", i, "b")])
    return lambda x: PATTERNS[leaf["form"]](i)[1](x, P)


def addr_json(leaf, i, key):
    if leaf["form"] == "exact":
        return {"$match": {key: S("acc", i)}}
    if leaf["form"] == "in":
        return {"$in": {key: [S("acc", i), S("acc", i, "b")]}}
    return {"$match": {key: PATTERNS[leaf["form"]](i)[0]}}


def leaf_json(leaf, i):
    k = leaf["kind"]
    if k == "addr":
        return addr_json(leaf, i, leaf["key"])
    if k == "meta":
        return {"$match": {f"metadata[MK#{leaf['mk']}]": S("mv", i)}}
    if k == "meta_exists":
        return {"$exists": {"metadata": f"MK#{leaf['mk']}"}}
    if k == "bal_asset":
        return {leaf["op"]: {f"balance[{S('ast', i)}]": int(S("num", i))}}
    if k == "bal":
        return {leaf["op"]: {"balance": int(S("num", i))}}
    if k == "date":
        return {leaf["op"]: {leaf["col"]: S("date", i)}}
    if k == "num":
        return {leaf["op"]: {leaf["col"]: int(S("num", i))}}
    if k == "str":
        return {"$match": {leaf["col"]: S("ref", i)}}
    if k == "str_in":
        return {"$in": {leaf["col"]: [S("ref", i), S("ref", i, "b")]}}
    if k == "reverted":
        return {"$match": {"reverted": leaf["value"]}}
    raise ValueError(k)


def leaf_ref(leaf, i, ent, P):
    k = leaf["kind"]
    if k == "addr":
        pred = addr_pred(leaf, i, P)
        if "role" in leaf:  # transactions: account / source / destination
            sets = {"account": ent["sources"] + ent["destinations"], "source": ent["sources"], "destination": ent["destinations"]}[leaf["role"]]
            if leaf["form"] == "in":
                # $in on transactions: some listed address is a source / destination
                return T3(z3.Or(*[z3.And(g, pred(x)) for g, x in sets]))
            return T3(z3.Or(*[z3.And(g, pred(x)) for g, x in sets]))
        return T3(pred(ent["addr"]))
    if k == "meta":
        pres, val = ent["meta"].z["k%d" % leaf["mk"]]
        return T3(z3.And(pres, val == P[S("mv", i)]))
    if k == "meta_exists":
        return T3(ent["meta"].z["k%d" % leaf["mk"]][0])
    if k == "bal_asset":
        if "asset" in ent:  # a volumes row: the row's own asset and balance
            return T3(z3.And(ent["asset"] == P[S("ast", i)], OPS[leaf["op"]](ent["balance"], P[S("num", i)])))
        ex, bal = ent["balance_of"](P[S("ast", i)])
        return T3(z3.And(ex, OPS[leaf["op"]](bal, P[S("num", i)])), z3.Not(ex))
    if k == "bal":
        if "asset" in ent:
            return T3(OPS[leaf["op"]](ent["balance"], P[S("num", i)]))
        ex, bal = ent["balance_single"]()
        return T3(z3.And(ex, OPS[leaf["op"]](bal, P[S("num", i)])), z3.Not(ex))
    if k == "date" or k == "num":
        v = ent[leaf["col"]]
        val = P[S("date" if k == "date" else "num", i)]
        if isinstance(v, V):
            return T3(z3.And(z3.Not(v.null), OPS[leaf["op"]](v.z, val)), v.null)
        return T3(OPS[leaf["op"]](v, val))
    if k == "str":
        v = ent[leaf["col"]]
        if isinstance(v, V):
            return T3(z3.And(z3.Not(v.null), v.z == P[S("ref", i)]), v.null)
        return T3(v == P[S("ref", i)])
    if k == "str_in":
        v = ent[leaf["col"]]
        if isinstance(v, V):
            return T3(z3.And(z3.Not(v.null), z3.Or(v.z == P[S("ref", i)], v.z == P[S("ref", i, "b")])), v.null)
        return T3(z3.Or(v == P[S("ref", i)], v == P[S("ref", i, "b")]))
    if k == "reverted":
        r = ent["reverted_at"]
        isrev = z3.Not(r.null)
        return T3(isrev if leaf["value"] else z3.Not(isrev))
    raise ValueError(k)


# ------------------------------------------------------------------------------------------ ASTs

def ast_json(a, counter):
    if a[0] == "leaf":
        i = next(counter)
        return leaf_json(a[1], i)
    if a[0] == "not":
        return {"$not": ast_json(a[1], counter)}
    return {"$" + a[0]: [ast_json(x, counter) for x in a[1]]}


def ast_ref(a, counter, ent, P):
    if a[0] == "leaf":
        return leaf_ref(a[1], next(counter), ent, P)
    if a[0] == "not":
        return t_not(ast_ref(a[1], counter, ent, P))
    xs = [ast_ref(x, counter, ent, P) for x in a[1]]
    return t_and(xs) if a[0] == "and" else t_or(xs)


def L(**kw):
    return ("leaf", kw)


def templates(leaves, deep_leaves, tier):
    """ASTs over `leaves` (all alone and negated), pairs and triples over `deep_leaves`"""
    out = []
    for l in leaves:
        out.append(l)
        out.append(("not", l))
    pairs = list(itertools.permutations(deep_leaves, 2)) if tier == "thorough" else list(itertools.combinations(deep_leaves, 2))
    for a, b in pairs:
        out += [("and", [a, b]), ("or", [a, b]), ("not", ("and", [a, b])), ("not", ("or", [a, b])), ("or", [a, ("not", b)]), ("and", [a, ("not", b)])]
        if tier == "thorough":
            out += [("or", [("not", a), b]), ("or", [("or", [a]), b])]
    triples = list(itertools.permutations(deep_leaves, 3)) if tier == "thorough" else [t for t in itertools.permutations(deep_leaves[:3], 3)]
    for a, b, c in triples:
        out += [("or", [a, ("and", [b, ("not", c)])]), ("and", [a, ("or", [b, c])])]
        if tier == "thorough":
            out += [("or", [("and", [a, b]), c]), ("not", ("or", [a, ("and", [b, c])]))]
    return out


def family(resource, tier):
    if resource == "accounts":
        leaves = [L(kind="addr", key="address", form=f) for f in ("exact", "in", "a:", ":b", "a::c", "a:...", "a:b:...")]
        leaves += [L(kind="meta", mk=1), L(kind="meta_exists", mk=2), L(kind="bal_asset", op="$gt"), L(kind="bal_asset", op="$lte"), L(kind="bal", op="$lt"),
                   L(kind="date", col="first_usage", op="$lt"), L(kind="date", col="insertion_date", op="$gte"), L(kind="date", col="updated_at", op="$match")]
        deep = [leaves[2], leaves[7], leaves[9], leaves[0]]
    elif resource == "transactions":
        leaves = [L(kind="addr", key=r, role=r, form=f) for r in ("account", "source", "destination") for f in ("exact", "a:", "a:...")]
        leaves += [L(kind="addr", key="account", role="account", form="in"), L(kind="addr", key="source", role="source", form="in"), L(kind="addr", key="destination", role="destination", form="a::c")]
        leaves += [L(kind="num", col="id", op="$gte"), L(kind="num", col="id", op="$match"), L(kind="str", col="reference"), L(kind="date", col="timestamp", op="$lt"),
                   L(kind="date", col="inserted_at", op="$gte"), L(kind="date", col="updated_at", op="$lte"), L(kind="reverted", value=True), L(kind="reverted", value=False),
                   L(kind="date", col="reverted_at", op="$lt"), L(kind="meta", mk=1), L(kind="meta_exists", mk=1), L(kind="str_in", col="reference")]
        deep = [leaves[0], leaves[4], leaves[21], leaves[18]]
    elif resource == "volumes":
        leaves = [L(kind="addr", key="account", form=f) for f in ("exact", "in", "a:", ":b", "a::c", "a:...")] + [L(kind="addr", key="address", form="a:")]
        leaves += [L(kind="meta", mk=1), L(kind="meta_exists", mk=1), L(kind="bal_asset", op="$gt"), L(kind="bal", op="$lte"), L(kind="date", col="first_usage", op="$lt")]
        deep = [leaves[2], leaves[5], leaves[7], leaves[9], leaves[0]]
    elif resource == "aggregated":
        leaves = [L(kind="addr", key="address", form=f) for f in ("exact", "in", "a:", ":b", "a::c", "a:...")] + [L(kind="meta", mk=1), L(kind="meta_exists", mk=2)]
        deep = [leaves[2], leaves[5], leaves[6], leaves[0]]
    elif resource == "logs":
        leaves = [L(kind="num", col="id", op="$gt"), L(kind="num", col="id", op="$match"), L(kind="date", col="date", op="$lte"), L(kind="str", col="type"), L(kind="str_in", col="type")]
        deep = leaves[:3]
    else:
        raise ValueError(resource)
    return templates(leaves, deep, tier)


# ------------------------------------------------------------------------------------------ contexts

def make_ctx(K, features, nleaves):
    c = Ctx(K, features)
    P = {}
    for i in range(nleaves):
        for sub in ("", "b"):
            for kind, mk in (("acc", z3.String), ("seg", z3.String)):
                P[S(kind, i, sub)] = mk(f"p.{kind}{i}{sub}")
        P[S("mv", i)] = z3.String(f"p.mv{i}")
        P[S("ast", i)] = z3.String(f"p.ast{i}")
        P[S("ref", i)] = z3.String(f"p.ref{i}")
        P[S("ref", i, "b")] = z3.String(f"p.ref{i}b")
        P[S("num", i)] = z3.Int(f"p.num{i}")
        P[S("date", i)] = z3.Int(f"p.date{i}")
    for k, v in P.items():
        c.params[k] = vstr(v) if v.sort() == z3.StringSort() else vint(v)
    c.params["MK#2"] = "k2"
    c.P = P
    # referential invariant: every volumes / moves row has its accounts row (same ledger, same address)
    acc = c.t["accounts"]
    for tn in ("accounts_volumes", "moves"):
        rel = c.t[tn]
        for r in rel.rows:
            c.cons.append(z3.Implies(r.guard, z3.Or(*[z3.And(a.guard, col(acc, a, "ledger").z == col(rel, r, "ledger").z, col(acc, a, "address").z == col(rel, r, "accounts_address").z) for a in acc.rows])))
    return c


def account_row(c, addr):
    """(found, first_usage, current metadata V) of this ledger's accounts row with that address"""
    acc = c.t["accounts"]
    found, fu, md = z3.BoolVal(False), z3.IntVal(0), None
    for a in acc.rows:
        hit = z3.And(c.mine(acc, a), col(acc, a, "address").z == addr)
        found = z3.Or(found, hit)
        fu = z3.If(hit, col(acc, a, "first_usage").z, fu)
        md = col(acc, a, "metadata") if md is None else sqlsym.ite_v(hit, col(acc, a, "metadata"), md)
    return found, fu, md


def history_on(c, which):
    return f"{which}_METADATA_HISTORY=DISABLED" not in c.features and c.features != "minimal"


def meta_of_account(c, addr, pit):
    found, _, cur = account_row(c, addr)
    if not pit or not history_on(c, "ACCOUNT"):
        # without the history feature a point-in-time read can only see the current metadata (as C17/C35 read it)
        return cur
    f, best = c.meta_as_of(c.t["accounts_metadata"], "accounts_address", addr, c.pit)
    empty = V("json", {k: (z3.BoolVal(False), z3.StringVal("")) for k in sqltables.JSONKEYS})
    return sqlsym.ite_v(f, best, empty)


# ------------------------------------------------------------------------------------------ obligations per resource

def evaluate(h, c, rec, label):
    if not rec["sql"]:
        return None
    try:
        ev = Evaluator(c.db())
        res = ev.rel(sqlsym.parse(rec["sql"][-1]))
        c.cons = c.cons + ev.db.assumes
        return res, ev
    except sqlsym.Unsupported as e:
        h.inconclusive.append(f"{label}: statement outside the SQL subset: {e} :: {rec['sql'][-1][:300]}")
        return None


def side_conditions(ev):
    return [cond for name, cond in ev.db.side]


def entities(c, resource, pit):
    """[(present Bool, key tuple of z3 values, ent dict)]"""
    out = []
    if resource == "accounts":
        acc, vols = c.t["accounts"], c.t["accounts_volumes"]
        for a in acc.rows:
            addr = col(acc, a, "address").z
            present = c.mine(acc, a)
            if pit:
                present = z3.And(present, col(acc, a, "first_usage").z <= c.pit)

            def balance_of(asset, addr=addr):
                if pit:
                    ex, i, o = c.fold_moves(addr, asset, "effective_date", "pit")
                    return ex, i - o
                ex, bal = z3.BoolVal(False), z3.IntVal(0)
                for r in vols.rows:
                    hit = z3.And(c.mine(vols, r), col(vols, r, "accounts_address").z == addr, col(vols, r, "asset").z == asset)
                    ex = z3.Or(ex, hit)
                    bal = z3.If(hit, col(vols, r, "input").z - col(vols, r, "output").z, bal)
                return ex, bal

            def balance_single(addr=addr):
                # `balance` without an asset: defined when the account holds exactly one asset
                if pit:
                    m = c.t["moves"]
                    hits = [z3.And(c.mine(m, r), col(m, r, "accounts_address").z == addr, col(m, r, "effective_date").z <= c.pit) for r in m.rows]
                    ex = z3.Or(*hits)
                    # the single asset's balance
                    asset = z3.StringVal("")
                    for r, hgt in zip(m.rows, hits):
                        asset = z3.If(hgt, col(m, r, "asset").z, asset)
                    _, i, o = c.fold_moves(addr, asset, "effective_date", "pit")
                    return ex, i - o
                ex, bal = z3.BoolVal(False), z3.IntVal(0)
                for r in vols.rows:
                    hit = z3.And(c.mine(vols, r), col(vols, r, "accounts_address").z == addr)
                    ex = z3.Or(ex, hit)
                    bal = z3.If(hit, col(vols, r, "input").z - col(vols, r, "output").z, bal)
                return ex, bal
            ent = {"addr": addr, "meta": meta_of_account(c, addr, pit), "balance_of": balance_of, "balance_single": balance_single,
                   "first_usage": col(acc, a, "first_usage").z, "insertion_date": col(acc, a, "insertion_date").z, "updated_at": col(acc, a, "updated_at").z}
            out.append((present, (addr,), ent))
    elif resource == "transactions":
        tx = c.t["transactions"]
        for t in tx.rows:
            present = c.mine(tx, t)
            if pit:
                present = z3.And(present, col(tx, t, "timestamp").z <= c.pit)
            tid = col(tx, t, "id").z
            if pit and not history_on(c, "TRANSACTION"):
                md = col(tx, t, "metadata")
                rv = col(tx, t, "reverted_at")
                rv = V("int", rv.z, z3.Or(rv.null, z3.Not(rv.z <= c.pit)))
            elif pit:
                f, best = c.meta_as_of(c.t["transactions_metadata"], "transactions_id", tid, c.pit)
                empty = V("json", {k: (z3.BoolVal(False), z3.StringVal("")) for k in sqltables.JSONKEYS})
                md = sqlsym.ite_v(f, best, empty)
                rv = col(tx, t, "reverted_at")
                rv = V("int", rv.z, z3.Or(rv.null, z3.Not(rv.z <= c.pit)))
            else:
                md = col(tx, t, "metadata")
                rv = col(tx, t, "reverted_at")
            ent = {"sources": col(tx, t, "sources").z, "destinations": col(tx, t, "destinations").z, "meta": md, "id": tid, "reference": col(tx, t, "reference"),
                   "timestamp": col(tx, t, "timestamp").z, "inserted_at": col(tx, t, "inserted_at").z, "updated_at": col(tx, t, "updated_at").z, "reverted_at": rv}
            out.append((present, (tid,), ent))
    elif resource == "logs":
        lg = c.t["logs"]
        for r in lg.rows:
            ent = {"id": col(lg, r, "id").z, "date": col(lg, r, "date").z, "type": col(lg, r, "type").z}
            out.append((c.mine(lg, r), (col(lg, r, "id").z,), ent))
    elif resource in ("volumes", "aggregated"):
        if not pit:
            vols = c.t["accounts_volumes"]
            for r in vols.rows:
                addr, asset = col(vols, r, "accounts_address").z, col(vols, r, "asset").z
                _, fu, _ = account_row(c, addr)
                ent = {"addr": addr, "asset": asset, "balance": col(vols, r, "input").z - col(vols, r, "output").z, "input": col(vols, r, "input").z, "output": col(vols, r, "output").z,
                       "meta": meta_of_account(c, addr, False), "first_usage": fu}
                out.append((c.mine(vols, r), (addr, asset), ent))
        else:
            m = c.t["moves"]
            for r in m.rows:
                addr, asset = col(m, r, "accounts_address").z, col(m, r, "asset").z
                ex, i, o = c.fold_moves(addr, asset, "effective_date", "pit")
                _, fu, _ = account_row(c, addr)
                # the representative of a (account, asset) group: the in-window move with the smallest seq
                inw = z3.And(c.mine(m, r), col(m, r, "effective_date").z <= c.pit)
                first = z3.And(inw, *[z3.Not(z3.And(c.mine(m, s), col(m, s, "effective_date").z <= c.pit, col(m, s, "accounts_address").z == addr, col(m, s, "asset").z == asset,
                                                     col(m, s, "seq").z < col(m, r, "seq").z)) for s in m.rows if s is not r])
                ent = {"addr": addr, "asset": asset, "balance": i - o, "input": i, "output": o, "meta": meta_of_account(c, addr, True), "first_usage": fu}
                out.append((first, (addr, asset), ent))
    return out


KEYCOLS = {"accounts": ["address"], "transactions": ["id"], "logs": ["id"], "volumes": ["account", "asset"]}


def check_case(h, resource, case, ast, rec, crec, K, features, prefix, tag):
    pit = case["pit"]
    nleaves = case["nleaves"]
    label = f"{prefix}:{resource}{'[pit]' if pit else ''}-filter-selects-exactly-the-matching-entities{tag}"
    err = rec.get("error") or ""
    if not rec["sql"] or (err and err != "not found"):
        from reads import refused_ok

        class _C:
            pass
        cc = _C()
        cc.features = features
        if features != "default" and refused_ok(h, cc, rec, f"{resource}{'[pit]' if pit else ''}-filtered-read"):
            return
        h.inconclusive.append(f"{label}: the store refused {json.dumps(case['filter'])}: {err}")
        return
    c = make_ctx(K, features, nleaves)
    out = evaluate(h, c, rec, label)
    if out is None:
        return
    res, ev = out
    n = names(res)
    cons = list(c.cons)
    if pit:
        cons += c.inv_pcev()
    ents = entities(c, resource, pit)
    should = []
    for present, key, ent in ents:
        v = ast_ref(ast, itertools.count(), ent, c.P)
        should.append(z3.And(present, v.t))
    # SQL errors (a scalar sub-query yielding several rows) are a failure of the read, checked on their own
    sides = side_conditions(ev)
    if sides and prefix != "C20":
        cons.append(z3.Not(z3.Or(*sides)))
    elif sides:
        kinds = sorted(set(leaf_kinds(ast)))
        h.prove(f"{prefix}:{resource}{'[pit]' if pit else ''}-filtered-read-does-not-fail-in-sql{tag}/{'+'.join(kinds)}", cons, z3.Not(z3.Or(*sides)), model_vars=[c.L], detail=json.dumps(case["filter"]) + " :: " + rec["sql"][-1][:600], dump=dump_tables(c.t))
        cons.append(z3.Not(z3.Or(*sides)))
    goals = []
    if resource == "aggregated":
        entries = [e for r in res.rows for e in [(r.guard, obj_entries(r.vals[0]))]]
        # soundness of each entry, completeness per asset
        for g, es in entries:
            for key, inp, outp, eg in es:
                tin = z3.Sum([z3.If(z3.And(s, ent["asset"] == key.z), ent["input"], 0) for s, (_, _, ent) in zip(should, ents)])
                tout = z3.Sum([z3.If(z3.And(s, ent["asset"] == key.z), ent["output"], 0) for s, (_, _, ent) in zip(should, ents)])
                anyrow = z3.Or(*[z3.And(s, ent["asset"] == key.z) for s, (_, _, ent) in zip(should, ents)])
                goals.append(z3.Implies(z3.And(g, eg), z3.And(anyrow, inp.z == tin, outp.z == tout)))
        for s, (_, _, ent) in zip(should, ents):
            hit = z3.Or(*[z3.And(g, eg, key.z == ent["asset"]) for g, es in entries for key, inp, outp, eg in es]) if entries else z3.BoolVal(False)
            goals.append(z3.Implies(s, hit))
    else:
        kc = KEYCOLS[resource]
        for s, (present, key, ent) in zip(should, ents):
            cnt = count_rows(res, lambda o: z3.And(*[o.vals[n.index(kn)].z == kv for kn, kv in zip(kc, key)]))
            # several symbolic rows may stand for one entity only in the moves-based view (representative rows)
            goals.append(z3.Implies(s, cnt == 1))
            same_key_should = z3.Or(*[z3.And(s2, *[a == b for a, b in zip(key, key2)]) for s2, (_, key2, _) in zip(should, ents)])
            goals.append(z3.Implies(z3.And(present, z3.Not(same_key_should)), cnt == 0))
        for o in res.rows:
            goals.append(z3.Implies(o.guard, z3.Or(*[z3.And(s, *[o.vals[n.index(kn)].z == kv for kn, kv in zip(kc, key)]) for s, (_, key, _) in zip(should, ents)])))
    h.encoded.append(f"{resource} {json.dumps(case['filter'])}{' PIT' if pit else ''}")
    h.reachable("end", cons + [z3.Or(*should)])
    h.prove(label, cons, z3.And(*goals), model_vars=[c.L, c.pit] + list(c.P.values())[:0], detail=json.dumps(case["filter"]) + " :: " + rec["sql"][-1][:900], dump=dump_with_params(c))
    # count
    if crec is not None and crec.get("sql") and resource != "aggregated":
        c2 = make_ctx(K, features, nleaves)
        out2 = evaluate(h, c2, crec, label + "(count)")
        if out2 is not None:
            res2, ev2 = out2
            cons2 = list(c2.cons) + (c2.inv_pcev() if pit else [])
            s2 = side_conditions(ev2)
            if s2:
                cons2.append(z3.Not(z3.Or(*s2)))
            ents2 = entities(c2, resource, pit)
            should2 = [z3.And(p, ast_ref(ast, itertools.count(), e, c2.P).t) for p, _, e in ents2]
            total = z3.Sum([z3.If(s, 1, 0) for s in should2])
            g = z3.And(*[z3.Implies(r.guard, r.vals[0].z == total) for r in res2.rows] + [z3.Or(*[r.guard for r in res2.rows])])
            h.prove(f"{prefix}:{resource}{'[pit]' if pit else ''}-count-equals-the-number-of-matching-entities{tag}", cons2, g, model_vars=[c2.L], detail=json.dumps(case["filter"]) + " :: " + crec["sql"][-1][:900], dump=dump_with_params(c2))


def dump_with_params(c):
    base = dump_tables(c.t)

    def f(m):
        d = base(m)
        d["filter_values"] = {k: str(m.eval(v, model_completion=True)) for k, v in c.P.items() if any(k.endswith(x) for x in ("#0", "#0b", "#1", "#1b", "#2")) or k[0].isdigit()}
        d["pit"] = str(m.eval(c.pit, model_completion=True))
        d["this_ledger"] = str(m.eval(c.L, model_completion=True))
        return d
    return f


def leaf_kinds(a):
    if a[0] == "leaf":
        return [a[1]["kind"]]
    if a[0] == "not":
        return leaf_kinds(a[1])
    return [k for x in a[1] for k in leaf_kinds(x)]


def nleaves(a):
    if a[0] == "leaf":
        return 1
    if a[0] == "not":
        return nleaves(a[1])
    return sum(nleaves(x) for x in a[1])


def run(repo, tier, out, props, resources):
    K = 2 if tier == "quick" else 3
    prefix = "C19" if props == {"C19"} else ("C35" if props == {"C35"} else "C20")
    feature_sets = ["default"]
    if prefix == "C35":
        from reads import FEATURE_SETS
        feature_sets = [f for f in FEATURE_SETS if f != "default"]
    cases, asts = [], []
    for resource in resources:
        # the joins of the volumes / aggregated statements make each obligation several times costlier: the larger tables
        # of the thorough tier are combined with the quick family there
        fam = family(resource, "quick" if resource in ("volumes", "aggregated") else tier)
        if prefix == "C35":
            # per configuration: single leaves and their negations (the feature gates sit in the leaf resolvers and dataset builders)
            fam = [a for a in fam if nleaves(a) == 1]
        for a in fam:
            for pit in ([False, True] if resource != "logs" else [False]):
                if pit and tier == "quick" and nleaves(a) > 2:
                    continue
                for alone in ([False, True] if prefix == "C19" else [False]):
                    for feat in feature_sets:
                        fj = ast_json(a, itertools.count())
                        base = dict(resource=resource, filter=fj, pit=pit, oot=False, insertionDate=False, features=feat, alone=alone, nleaves=nleaves(a))
                        cases.append(dict(base, id=f"{len(cases)}", op="getone" if resource == "aggregated" else "paginate"))
                        asts.append(a)
                        cases.append(dict(base, id=f"{len(cases)}", op="count"))
                        asts.append(a)
    recs = capture_sql(repo, cases)
    if len(recs) != len(cases):
        raise RuntimeError("capture returned a different number of records")
    hs = {}
    for i in range(0, len(cases), 2):
        case, rec, crec, ast = cases[i], recs[i], recs[i + 1], asts[i]
        hn = f"FILTERS_{case['resource']}" + ("_alone" if case["alone"] else "") + ("" if case["features"] == "default" else "_" + case["features"].replace("=", "_"))
        h = hs.setdefault(hn, Harness(hn))
        tag = "" if prefix != "C19" else "-on-this-ledger's-rows-only"
        if prefix == "C35":
            tag = "@" + case["features"]

        # the PIT form of the aggregated statement (moves joined with accounts, grouped twice) does not finish at K=3
        # within the per-query timeout: it keeps the K=2 tables in the thorough tier
        def do(c_K=(2 if case["resource"] == "aggregated" and case["pit"] else K)):
            check_case(h, case["resource"], case, ast, rec, crec if case["resource"] != "aggregated" else None, c_K, case["features"], prefix, tag)
        if prefix == "C35":
            # structural: a filtered read that is answered (not refused) must not draw on a table / column this configuration never writes
            import types
            from reads import no_read_of_unwritten_tables
            for r_, what in ((rec, f"{case['resource']}.filtered" + ("[pit]" if case["pit"] else "")), (crec, f"{case['resource']}.filtered-count" + ("[pit]" if case["pit"] else ""))):
                if r_ is not None:
                    no_read_of_unwritten_tables(h, types.SimpleNamespace(features=case["features"]), r_, what)
        if case["alone"]:
            # alone in its bucket: every row belongs to this ledger (see reads.py); patch make_ctx through a flag
            global _ALONE
            _ALONE = True
            try:
                do()
            finally:
                _ALONE = False
        else:
            do()
    write(out, list(hs.values()))


_ALONE = False
_make_ctx = make_ctx


def make_ctx(K, features, nleaves):  # noqa: F811  (wrapper adding the alone-in-bucket assumption)
    c = _make_ctx(K, features, nleaves)
    if _ALONE:
        for rel in c.t.values():
            c.cons += [z3.Implies(r.guard, col(rel, r, "ledger").z == c.L) for r in rel.rows]
    return c


if __name__ == "__main__":
    import argparse
    ap = argparse.ArgumentParser()
    ap.add_argument("--repo", default="/repo"); ap.add_argument("--tier", default="quick"); ap.add_argument("--out", required=True)
    ap.add_argument("--props", default="C20"); ap.add_argument("--resources", default="accounts,transactions,volumes,aggregated,logs")
    a = ap.parse_args()
    run(a.repo, a.tier, a.out, set(a.props.split(",")), a.resources.split(","))
