"""Write obligations over the SQL the real store emits: each statement is executed by the DML executor on
symbolic tables and its effect compared with the documented effect, written directly in z3.

  C01/C02  UpdateVolumes upsert: row(account, asset) += deltas, nothing else changes, RETURNING = post values,
           conservation is preserved
  C17      metadata writes: merge is last-write-wins per key, delete removes the key, nothing else changes
  C18      account upserts: insert-if-absent with the given first usage, least(first_usage) otherwise
  C15      revert update: exactly the row (id, ledger) with reverted_at null; modified=false otherwise
  C19      rows of other ledgers are never modified (part of every obligation: 'nothing else changes')
"""
import z3
from common import Harness, write, capture_sql, pick, dump_tables
import sqlsym, sqltables, dml
from sqlsym import V, vint, vstr, vbool, Rel, Row, DB
from sqltables import col

PIT_S = "2001-01-01T00:00:01Z"


def setup(K):
    t, cons = sqltables.bucket(K)
    P = {"L": z3.String("this_ledger"), "acc1": z3.String("acc1"), "acc2": z3.String("acc2"), "ast1": z3.String("ast1"), "mv1": z3.String("mv1"),
         "dv1": z3.String("dv1"), "date": z3.Int("given_date"), "txdate": z3.Int("transaction_date"), "txid": z3.Int("txid"), "ref": z3.String("ref1")}
    amounts = {f"70000000{i}": z3.Int(f"amount{i}") for i in range(1, 6)}
    params = {"L#1": vstr(P["L"]), "ACC#1": vstr(P["acc1"]), "ACC#2": vstr(P["acc2"]), "AST#1": vstr(P["ast1"]), "MK#1": "k1", "MV#1": vstr(P["mv1"]),
              "DK#1": "k2", "DV#1": vstr(P["dv1"]), PIT_S: vint(P["date"]), "transaction_date()": vint(P["txdate"]), "900001": vint(P["txid"]),
              "900002": vint(z3.Int("txid2")), "REF#1": vstr(P["ref"]), "0": vint(0), "1": vint(1)}
    for k, v in amounts.items():
        params[k] = vint(v)
        cons.append(v >= 0)
    cons.append(P["acc1"] != P["acc2"])
    return t, cons, P, params, amounts


def mine(rel, r, L):
    return z3.And(r.guard, col(rel, r, "ledger").z == L)


def same_row(rel, a, b, skip=()):
    conds = [a.guard == b.guard]
    for (q, n), x, y in zip(rel.cols, a.vals, b.vals):
        if n in skip or x.kind == "opaque":
            continue
        conds.append(z3.Implies(a.guard, sqlsym.same_v(x, y)))
    return z3.And(*conds)


def ob_update_volumes(h, rec, K):
    t, cons, P, params, amt = setup(K)
    db = DB(t, params=params, jsonkeys=sqltables.JSONKEYS)
    ex = dml.Exec(db)
    try:
        ret = ex.run(sqlsym.parse(rec["sql"][-1]))
    except sqlsym.Unsupported as e:
        h.inconclusive.append(f"UpdateVolumes: outside the SQL subset: {e}")
        return
    pre, post = t["accounts_volumes"], ex.work["accounts_volumes"]
    L = P["L"]
    deltas = [(P["acc1"], amt["700000001"], amt["700000002"]), (P["acc2"], amt["700000003"], amt["700000004"])]
    goals = []

    def total(rel, acc, which):
        return z3.Sum([z3.If(z3.And(mine(rel, r, L), col(rel, r, "accounts_address").z == acc, col(rel, r, "asset").z == P["ast1"]), col(rel, r, which).z, 0) for r in rel.rows])

    def count(rel, acc):
        return z3.Sum([z3.If(z3.And(mine(rel, r, L), col(rel, r, "accounts_address").z == acc, col(rel, r, "asset").z == P["ast1"]), 1, 0) for r in rel.rows])
    for i, (acc, din, dout) in enumerate(deltas):
        goals.append(count(post, acc) == 1)
        goals.append(total(post, acc, "input") == total(pre, acc, "input") + din)
        goals.append(total(post, acc, "output") == total(pre, acc, "output") + dout)
        # RETURNING: the post-commit volumes of that row, in input order
        goals.append(z3.And(ret.rows[i].guard, ret.rows[i].vals[0].z == total(post, acc, "input"), ret.rows[i].vals[1].z == total(post, acc, "output")))
    # nothing else changes: every pre row that is not one of the two keys is still there, identical; no other new row
    for i, r in enumerate(pre.rows):
        touched = z3.And(col(pre, r, "ledger").z == L, col(pre, r, "asset").z == P["ast1"], z3.Or(col(pre, r, "accounts_address").z == P["acc1"], col(pre, r, "accounts_address").z == P["acc2"]))
        goals.append(z3.Implies(z3.Not(touched), same_row(pre, r, post.rows[i])))
    for r in post.rows[len(pre.rows):]:
        goals.append(z3.Implies(r.guard, z3.And(col(post, r, "ledger").z == L, col(post, r, "asset").z == P["ast1"])))
    h.encoded.append("UpdateVolumes")
    h.reachable("end", cons)
    h.prove("C02:volume-upsert-adds-the-deltas-and-returns-the-post-values", cons, z3.And(*goals), model_vars=list(amt.values()), detail=rec["sql"][-1][:600], dump=dump_tables({"before": pre, "after": post}))
    # conservation (C01): pre conserved per asset and balanced deltas => post conserved
    def net(rel, asset):
        return z3.Sum([z3.If(z3.And(mine(rel, r, L), col(rel, r, "asset").z == asset), col(rel, r, "input").z - col(rel, r, "output").z, 0) for r in rel.rows])
    some_asset = z3.String("some_asset")
    balanced = amt["700000001"] + amt["700000003"] == amt["700000002"] + amt["700000004"]
    h.prove("C01:volume-upsert-preserves-conservation", cons + [net(pre, some_asset) == 0, balanced], net(post, some_asset) == 0, model_vars=[some_asset], detail=rec["sql"][-1][:300], dump=dump_tables({"before": pre, "after": post}))


def ob_get_balances(h, rec, K):
    """GetBalances: WITH ins AS (INSERT zero rows ON CONFLICT DO NOTHING) SELECT ... FOR UPDATE: the rows read (and
    locked) are this ledger's existing rows of the requested (account, asset) pairs, carrying the stored volumes, and
    no other row — in particular no row of another ledger"""
    t, cons, P, params, amt = setup(K)
    db = DB(t, params=params, jsonkeys=sqltables.JSONKEYS)
    ex = dml.Exec(db)
    try:
        ret = ex.run(sqlsym.parse(rec["sql"][-1]))
    except sqlsym.Unsupported as e:
        h.inconclusive.append(f"GetBalances: outside the SQL subset: {e}")
        return
    pre = t["accounts_volumes"]
    L = P["L"]
    n = [c[1] for c in ret.cols]
    goals = []
    for acc in (P["acc1"], P["acc2"]):
        hit = [z3.And(mine(pre, r, L), col(pre, r, "accounts_address").z == acc, col(pre, r, "asset").z == P["ast1"]) for r in pre.rows]
        stored_in = z3.Sum([z3.If(x, col(pre, r, "input").z, 0) for x, r in zip(hit, pre.rows)])
        stored_out = z3.Sum([z3.If(x, col(pre, r, "output").z, 0) for x, r in zip(hit, pre.rows)])
        rows = [z3.And(o.guard, o.vals[n.index("accounts_address")].z == acc, o.vals[n.index("asset")].z == P["ast1"]) for o in ret.rows]
        # (the zero row the CTE inserts for a pair never used is not visible to the SELECT of the same statement:
        #  such a pair yields no row, which the Go code reads as zero volumes)
        goals.append(z3.Sum([z3.If(x, 1, 0) for x in rows]) == z3.If(z3.Or(*hit), 1, 0))
        for x, o in zip(rows, ret.rows):
            goals.append(z3.Implies(x, z3.And(o.vals[n.index("input")].z == stored_in, o.vals[n.index("output")].z == stored_out)))
    for o in ret.rows:
        goals.append(z3.Implies(o.guard, z3.And(o.vals[n.index("asset")].z == P["ast1"], z3.Or(o.vals[n.index("accounts_address")].z == P["acc1"], o.vals[n.index("accounts_address")].z == P["acc2"]))))
    h.encoded.append("GetBalances")
    h.prove("C06:balance-read-returns-exactly-the-requested-pairs-of-this-ledger", cons, z3.And(*goals), model_vars=[L], detail=rec["sql"][-1][:700], dump=dump_tables({"accounts_volumes": pre}))


def json_of(v):
    return v


def ob_account_metadata(h, recs, K):
    # UpdateAccountsMetadata
    for rec in pick(recs, "UpdateAccountsMetadata", features="default", alone="false"):
        t, cons, P, params, amt = setup(K)
        db = DB(t, params=params, jsonkeys=sqltables.JSONKEYS)
        ex = dml.Exec(db)
        try:
            ex.run(sqlsym.parse(rec["sql"][-1]))
        except sqlsym.Unsupported as e:
            h.inconclusive.append(f"UpdateAccountsMetadata: outside the SQL subset: {e}")
            continue
        pre, post = t["accounts"], ex.work["accounts"]
        L, acc = P["L"], P["acc1"]
        goals = []
        target = lambda rel, r: z3.And(mine(rel, r, L), col(rel, r, "address").z == acc)
        existed = z3.Or(*[target(pre, r) for r in pre.rows])
        goals.append(z3.Sum([z3.If(target(post, r), 1, 0) for r in post.rows]) == 1)
        for i, r in enumerate(post.rows):
            md = col(post, r, "metadata")
            # last write wins on the written key, the other key keeps its value
            goals.append(z3.Implies(target(post, r), z3.And(md.z["k1"][0], md.z["k1"][1] == P["mv1"])))
            if i < len(pre.rows):
                old = col(pre, pre.rows[i], "metadata")
                goals.append(z3.Implies(target(post, r), z3.And(md.z["k2"][0] == old.z["k2"][0], z3.Implies(old.z["k2"][0], md.z["k2"][1] == old.z["k2"][1]))))
                fu_old, fu_new = col(pre, pre.rows[i], "first_usage").z, col(post, r, "first_usage").z
                goals.append(z3.Implies(target(post, r), z3.And(fu_new <= fu_old, z3.Or(fu_new == fu_old, fu_new == P["date"]))))
                goals.append(z3.Implies(z3.Not(target(pre, pre.rows[i])), same_row(pre, pre.rows[i], r)))
            else:
                goals.append(z3.Implies(r.guard, z3.And(z3.Not(existed), target(post, r), z3.Not(md.z["k2"][0]), col(post, r, "first_usage").z == P["date"])))
        h.encoded.append("UpdateAccountsMetadata")
        h.prove("C17:account-metadata-write-is-a-last-write-wins-merge", cons, z3.And(*goals), model_vars=[acc], detail=rec["sql"][-1][:600], dump=dump_tables({"before": pre, "after": post}))
    for rec in pick(recs, "DeleteAccountMetadata", features="default", alone="false"):
        t, cons, P, params, amt = setup(K)
        db = DB(t, params=params, jsonkeys=sqltables.JSONKEYS)
        ex = dml.Exec(db)
        try:
            ex.run(sqlsym.parse(rec["sql"][-1]))
        except sqlsym.Unsupported as e:
            h.inconclusive.append(f"DeleteAccountMetadata: outside the SQL subset: {e}")
            continue
        pre, post = t["accounts"], ex.work["accounts"]
        goals = []
        for a, b in zip(pre.rows, post.rows):
            tgt = z3.And(mine(pre, a, P["L"]), col(pre, a, "address").z == P["acc1"])
            mda, mdb = col(pre, a, "metadata"), col(post, b, "metadata")
            goals.append(z3.Implies(tgt, z3.And(b.guard, z3.Not(mdb.z["k1"][0]), mdb.z["k2"][0] == mda.z["k2"][0], z3.Implies(mda.z["k2"][0], mdb.z["k2"][1] == mda.z["k2"][1]))))
            goals.append(z3.Implies(z3.Not(tgt), same_row(pre, a, b)))
        goals.append(z3.BoolVal(len(post.rows) == len(pre.rows)))
        h.encoded.append("DeleteAccountMetadata")
        h.prove("C17:account-metadata-delete-removes-exactly-the-key", cons, z3.And(*goals), detail=rec["sql"][-1][:300], dump=dump_tables({"before": pre, "after": post}))


def ob_tx_updates(h, recs, K):
    for name, label in (("UpdateTransactionMetadata", "C17:transaction-metadata-write-is-a-last-write-wins-merge"),
                        ("DeleteTransactionMetadata", "C17:transaction-metadata-delete-removes-exactly-the-key"),
                        ("RevertTransaction", "C15:revert-update-marks-exactly-the-unreverted-row"),
                        ("RevertTransactionAt", "C15:revert-update-at-a-given-date-marks-exactly-the-unreverted-row")):
        for rec in pick(recs, name, features="default", alone="false"):
            t, cons, P, params, amt = setup(K)
            db = DB(t, params=params, jsonkeys=sqltables.JSONKEYS)
            ex = dml.Exec(db)
            try:
                ret = ex.run(sqlsym.parse(rec["sql"][-1]))
            except sqlsym.Unsupported as e:
                h.inconclusive.append(f"{name}: outside the SQL subset: {e}")
                continue
            pre, post = t["transactions"], ex.work["transactions"]
            L, txid = P["L"], P["txid"]
            goals = [z3.BoolVal(len(post.rows) == len(pre.rows))]
            rn = [c[1] for c in ret.cols]
            returned = z3.Sum([z3.If(r.guard, 1, 0) for r in ret.rows])
            exists = z3.Or(*[z3.And(mine(pre, a, L), col(pre, a, "id").z == txid) for a in pre.rows])
            goals.append(returned == z3.If(exists, 1, 0))
            for a, b in zip(pre.rows, post.rows):
                tgt = z3.And(mine(pre, a, L), col(pre, a, "id").z == txid)
                mda, mdb = col(pre, a, "metadata"), col(post, b, "metadata")
                if name == "UpdateTransactionMetadata":
                    goals.append(z3.Implies(tgt, z3.And(b.guard, mdb.z["k1"][0], mdb.z["k1"][1] == P["mv1"], mdb.z["k2"][0] == mda.z["k2"][0], z3.Implies(mda.z["k2"][0], mdb.z["k2"][1] == mda.z["k2"][1]))))
                    changed = z3.Not(z3.And(mda.z["k1"][0], mda.z["k1"][1] == P["mv1"]))
                elif name == "DeleteTransactionMetadata":
                    goals.append(z3.Implies(tgt, z3.And(b.guard, z3.Not(mdb.z["k1"][0]), mdb.z["k2"][0] == mda.z["k2"][0], z3.Implies(mda.z["k2"][0], mdb.z["k2"][1] == mda.z["k2"][1]))))
                    changed = mda.z["k1"][0]
                else:
                    ra, rb = col(pre, a, "reverted_at"), col(post, b, "reverted_at")
                    when = P["txdate"] if name == "RevertTransaction" else P["date"]
                    goals.append(z3.Implies(tgt, z3.If(ra.null, z3.And(z3.Not(rb.null), rb.z == when), z3.And(z3.Not(rb.null), rb.z == ra.z))))
                    goals.append(z3.Implies(tgt, json_same(mda, mdb)))
                    changed = ra.null
                goals.append(z3.Implies(z3.Not(tgt), same_row(pre, a, b)))
                # the returned row is the target row, flagged modified iff it changed
                for r in ret.rows:
                    goals.append(z3.Implies(z3.And(r.guard, tgt), z3.And(r.vals[rn.index("id")].z == txid, r.vals[rn.index("modified")].z == changed)))
            h.encoded.append(name)
            h.prove(label, cons, z3.And(*goals), model_vars=[txid], detail=rec["sql"][-1][:600], dump=dump_tables({"before": pre, "after": post}))


def json_same(a, b):
    return z3.And(*[z3.And(a.z[k][0] == b.z[k][0], z3.Implies(a.z[k][0], a.z[k][1] == b.z[k][1])) for k in a.z])


def ob_upsert_accounts(h, recs, K):
    for rec in pick(recs, "UpsertAccounts", features="default", alone="false"):
        t, cons, P, params, amt = setup(K)
        db = DB(t, params=params, jsonkeys=sqltables.JSONKEYS)
        ex = dml.Exec(db)
        try:
            ex.run(sqlsym.parse(rec["sql"][-1]))
        except sqlsym.Unsupported as e:
            h.inconclusive.append(f"UpsertAccounts: outside the SQL subset: {e}")
            continue
        pre, post = t["accounts"], ex.work["accounts"]
        L = P["L"]
        goals = []
        # batch: ACC#1 (metadata {k1: mv1}, first_usage = given date, default metadata {k2: dv1}) ; ACC#2 (no metadata, no date)
        for acc, has_md, date, has_def in ((P["acc1"], True, P["date"], True), (P["acc2"], False, P["txdate"], False)):
            target = lambda rel, r: z3.And(mine(rel, r, L), col(rel, r, "address").z == acc)
            existed = z3.Or(*[target(pre, r) for r in pre.rows])
            goals.append(z3.Sum([z3.If(target(post, r), 1, 0) for r in post.rows]) == 1)
            for i, r in enumerate(post.rows):
                md = col(post, r, "metadata")
                if i < len(pre.rows):
                    old = pre.rows[i]
                    omd = col(pre, old, "metadata")
                    t_here = target(pre, old)
                    # present: metadata merged (given keys win), defaults NOT applied, first_usage = least(old, new)
                    if has_md:
                        goals.append(z3.Implies(t_here, z3.And(md.z["k1"][0], md.z["k1"][1] == P["mv1"])))
                    else:
                        goals.append(z3.Implies(t_here, z3.And(md.z["k1"][0] == omd.z["k1"][0], z3.Implies(omd.z["k1"][0], md.z["k1"][1] == omd.z["k1"][1]))))
                    goals.append(z3.Implies(t_here, z3.And(md.z["k2"][0] == omd.z["k2"][0], z3.Implies(omd.z["k2"][0], md.z["k2"][1] == omd.z["k2"][1]))))
                    fo, fn = col(pre, old, "first_usage").z, col(post, r, "first_usage").z
                    if has_md:  # the row that carries a date
                        goals.append(z3.Implies(t_here, fn == z3.If(date < fo, date, fo)))
                    else:
                        goals.append(z3.Implies(t_here, fn == fo))
                    goals.append(z3.Implies(t_here, col(post, r, "insertion_date").z == col(pre, old, "insertion_date").z))
                else:
                    # absent: inserted with defaults || metadata and the given (or transaction) date
                    cond = z3.And(r.guard, col(post, r, "address").z == acc)
                    goals.append(z3.Implies(cond, z3.And(z3.Not(existed), col(post, r, "ledger").z == L, col(post, r, "first_usage").z == date)))
                    if has_md:
                        goals.append(z3.Implies(cond, z3.And(md.z["k1"][0], md.z["k1"][1] == P["mv1"], md.z["k2"][0], md.z["k2"][1] == P["dv1"])))
                    else:
                        goals.append(z3.Implies(cond, z3.And(z3.Not(md.z["k1"][0]), z3.Not(md.z["k2"][0]))))
        for i, a in enumerate(pre.rows):
            untouched = z3.Not(z3.And(col(pre, a, "ledger").z == L, z3.Or(col(pre, a, "address").z == P["acc1"], col(pre, a, "address").z == P["acc2"])))
            goals.append(z3.Implies(untouched, same_row(pre, a, post.rows[i])))
        for r in post.rows[len(pre.rows):]:
            goals.append(z3.Implies(r.guard, z3.And(col(post, r, "ledger").z == L, z3.Or(col(post, r, "address").z == P["acc1"], col(post, r, "address").z == P["acc2"]))))
        h.encoded.append("UpsertAccounts")
        h.prove("C18:account-upsert-inserts-if-absent-and-keeps-the-least-first-usage", cons, z3.And(*goals), model_vars=[P["date"], P["txdate"]], detail=rec["sql"][-1][:900],
                dump=dump_tables({"before": pre, "after": post}), timeout_ms=300000)


def ob_read_log_ik(h, recs, K):
    """ReadLogWithIdempotencyKey: returns a log iff THIS ledger holds a log with the key, and then that very log (the unique
    index on (ledger, idempotency_key) makes it unique: assumed here, resolved from the DDL under C14)"""
    for rec in pick(recs, "ReadLogWithIdempotencyKey", features="default", alone="false"):
        if rec["config"].get("ledger"):
            continue
        t, cons, P, params, amt = setup(K)
        key = z3.String("ik")
        params = dict(params, **{"IK#1": vstr(key)})
        logs = t["logs"]
        db = DB(t, params=params, jsonkeys=sqltables.JSONKEYS)
        db.exact_limit = True
        try:
            res = sqlsym.Evaluator(db).rel(sqlsym.parse(rec["sql"][-1]))
        except sqlsym.Unsupported as e:
            h.inconclusive.append(f"ReadLogWithIdempotencyKey: outside the SQL subset: {e}")
            return
        cons = cons + db.assumes
        L = P["L"]
        has = lambda r: z3.And(mine(logs, r, L), z3.Not(col(logs, r, "idempotency_key").null), col(logs, r, "idempotency_key").z == key)
        uniq = [z3.Not(z3.And(has(a), has(b))) for i, a in enumerate(logs.rows) for b in logs.rows[i + 1:]]
        n = [c[1] for c in res.cols]
        cnt = z3.Sum([z3.If(o.guard, 1, 0) for o in res.rows]) if res.rows else z3.IntVal(0)
        goals = [cnt == z3.If(z3.Or(*[has(r) for r in logs.rows]), 1, 0)]
        for o in res.rows:
            goals.append(z3.Implies(o.guard, z3.Or(*[z3.And(has(r), o.vals[n.index("id")].z == col(logs, r, "id").z, o.vals[n.index("ledger")].z == L) for r in logs.rows])))
        h.encoded.append("ReadLogWithIdempotencyKey")
        h.reachable("end", cons + uniq + [z3.Or(*[has(r) for r in logs.rows])])
        h.prove("C13:the-idempotency-lookup-returns-this-ledger's-log-with-that-key-and-no-other", cons + uniq, z3.And(*goals), model_vars=[L, key],
                detail=rec["sql"][-1][:700], dump=dump_tables({"logs": logs}))


def run(repo, tier, out, props):
    recs = capture_sql(repo)
    K = 3 if tier == "quick" else 4
    h = Harness("WRITES")
    ob_read_log_ik(h, recs, K)
    for rec in pick(recs, "UpdateVolumes", features="default", alone="false"):
        ob_update_volumes(h, rec, K)
    for rec in pick(recs, "GetBalances", features="default", alone="false"):
        ob_get_balances(h, rec, K)
    ob_account_metadata(h, recs, K)
    ob_tx_updates(h, recs, K)
    ob_upsert_accounts(h, recs, K)
    if "C19" in props:
        h.asserts = {"C19:" + k.split(":", 1)[1] + "-and-leaves-other-ledgers-alone": v for k, v in h.asserts.items()}
        for v in h.violations:
            v["label"] = "C19:" + v["label"].split(":", 1)[1] + "-and-leaves-other-ledgers-alone"
    else:
        keep = lambda lab: lab.split(":")[0] in props
        h.asserts = {k: v for k, v in h.asserts.items() if keep(k)}
        h.violations = [v for v in h.violations if keep(v["label"])]
    write(out, [h])


if __name__ == "__main__":
    import argparse
    ap = argparse.ArgumentParser()
    ap.add_argument("--repo", default="/repo"); ap.add_argument("--tier", default="quick"); ap.add_argument("--out", required=True)
    ap.add_argument("--props", default="C01,C02,C15,C17,C18")
    a = ap.parse_args()
    run(a.repo, a.tier, a.out, set(a.props.split(",")))
