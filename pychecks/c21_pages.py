"""C21 (SQL half): the statement a paginator emits returns the page its cursor logic assumes.

For every (resource, order, reverse, pagination id present / absent, page size) and every (resource, order, offset,
page size) the statement is captured from the real store (real columnPaginator.Paginate / OffsetPaginator.Paginate,
real PaginatedResourceRepository.Paginate) and evaluated by sqlsym with exact LIMIT / OFFSET semantics on a symbolic
table. z3 decides that the rows returned are exactly
    column paginator: the ledger's rows on the requested side of the pagination id (>=, <=, <, > by order and reverse),
                      the first pageSize+1 of them in the effective order (order, reversed when reverse is set);
    offset paginator: rows number offset .. offset+pageSize of the ledger's rows in the requested order;
and that the outermost ORDER BY is the effective order on the pagination column. This is the page specification the
Go harness (harness/common/c21.go) feeds to the real BuildCursor / cursor encoding."""
import z3
from common import Harness, write, capture_sql, dump_tables
import sqlsym, sqltables
from sqlsym import DB, Evaluator, vint, vstr
from sqltables import col
from reads import Ctx, names

TABLE = {"transactions": ("transactions", "id", "id"), "logs": ("logs", "id", "id"), "accounts": ("accounts", "address", "address"), "volumes": ("accounts_volumes", "accounts_address", "account")}


def outer_order(ast):
    """(column, desc) of the outermost ORDER BY"""
    node = ast
    while node[0] == "with":
        node = node[2]
    if node[0] != "select" or not node[1]["order"]:
        return None
    e, desc = node[1]["order"][0]
    return (e[2] if e[0] == "col" else None), bool(desc)


def run(repo, tier, out):
    K = 4 if tier == "quick" else 5
    sizes = (1, 2) if tier == "quick" else (1, 2, 3)
    cases = []
    for res in ("transactions", "logs"):
        for order in ("asc", "desc"):
            for rev in (False, True):
                for pid in (None, 900001):
                    if rev and pid is None:
                        continue
                    for ps in sizes:
                        cases.append(dict(id=str(len(cases)), resource=res, kind="column", column="id", order=order, reverse=rev, paginationID=pid, pageSize=ps, offset=0))
    for res in ("accounts", "volumes"):
        for order in ("asc", "desc"):
            for off in (0, 1, 2, 3):
                for ps in sizes:
                    cases.append(dict(id=str(len(cases)), resource=res, kind="offset", column="address" if res == "accounts" else "account", order=order, reverse=False, paginationID=None, pageSize=ps, offset=off))
    # the initial query (no cursor yet) must be the column / offset query with nothing set
    for res in ("transactions", "logs", "accounts", "volumes"):
        cases.append(dict(id=str(len(cases)), resource=res, kind="initial", column="", order="desc" if res in ("transactions", "logs") else "asc", reverse=False, paginationID=None, pageSize=2, offset=0))
    recs = capture_sql(repo, page_cases=cases)
    hs = {}
    for case, rec in zip(cases, recs):
        h = hs.setdefault("C21_pages_" + case["resource"], Harness("C21_pages_" + case["resource"]))
        desc = f"{case['resource']} {case['kind']} order={case['order']} reverse={case['reverse']} id={'set' if case['paginationID'] else 'none'} size={case['pageSize']} offset={case['offset']}"
        if not rec["sql"]:
            h.inconclusive.append(f"no statement captured for {desc}: {rec.get('error')}")
            continue
        # string sort keys (account addresses) are costlier for the solver than integer ids: one row less there
        c = Ctx(K if case["resource"] in ("transactions", "logs") or tier == "quick" else K - 1, "default")
        pid = z3.Int("pagination_id")
        c.params["900001"] = vint(pid)
        db = c.db()
        db.exact_limit = True
        try:
            ast = sqlsym.parse(rec["sql"][-1])
            ev = Evaluator(db)
            res = ev.rel(ast)
        except sqlsym.Unsupported as e:
            h.inconclusive.append(f"{desc}: statement outside the SQL subset: {e}")
            continue
        tname, keycol, outcol = TABLE[case["resource"]]
        T = c.t[tname]
        n = names(res)
        desc_order = case["order"] == "desc"
        eff_desc = desc_order != case["reverse"]
        cons = list(c.cons)
        keys = [col(T, r, keycol).z for r in T.rows]
        mine = [c.mine(T, r) for r in T.rows]
        if case["resource"] == "volumes":
            # order key 'account' is not unique per row (one row per asset): ties are outside the claim
            for i in range(len(T.rows)):
                for j in range(i + 1, len(T.rows)):
                    cons.append(z3.Implies(z3.And(mine[i], mine[j]), keys[i] != keys[j]))
        sel = []
        for i in range(len(T.rows)):
            s = mine[i]
            if case["paginationID"] is not None:
                if case["reverse"]:
                    s = z3.And(s, keys[i] > pid if desc_order else keys[i] < pid)
                else:
                    s = z3.And(s, keys[i] <= pid if desc_order else keys[i] >= pid)
            sel.append(s)
        page = []
        for i in range(len(T.rows)):
            before = [z3.And(sel[j], (keys[j] > keys[i]) if eff_desc else (keys[j] < keys[i])) for j in range(len(T.rows)) if j != i]
            rank = z3.Sum([z3.If(b, 1, 0) for b in before])
            lo = case["offset"] if case["kind"] == "offset" else 0
            page.append(z3.And(sel[i], rank >= lo, rank < lo + case["pageSize"] + 1))
        goals = []
        for i in range(len(T.rows)):
            cnt = z3.Sum([z3.If(z3.And(o.guard, o.vals[n.index(outcol)].z == keys[i]), 1, 0) for o in res.rows])
            goals.append(z3.Implies(page[i], cnt == 1))
            goals.append(z3.Implies(z3.And(mine[i], z3.Not(page[i])), cnt == 0))
        for o in res.rows:
            goals.append(z3.Implies(o.guard, z3.Or(*[z3.And(page[i], o.vals[n.index(outcol)].z == keys[i]) for i in range(len(T.rows))])))
        h.encoded.append(desc)
        h.reachable("end", cons + [z3.Or(*page)])
        kind = "initial-query" if case["kind"] == "initial" else case["kind"] + "-paginator"
        h.prove(f"C21:{kind}-statement-returns-the-specified-page", cons, z3.And(*goals), model_vars=[pid, c.L], detail=desc + " :: " + rec["sql"][-1][:700], dump=dump_tables({tname: T}))
        oo = outer_order(ast)
        st = h.stat(f"C21:{kind}-statement-orders-the-page-in-the-effective-order")
        st["checked"] += 1
        if oo is not None and oo[0] == outcol and oo[1] == eff_desc:
            st["concrete_true"] += 1
        else:
            st["sat"] += 1
            h.violations.append({"harness": h.name, "label": f"C21:{kind}-statement-orders-the-page-in-the-effective-order", "kind": "assert", "model": {}, "detail": desc + " :: " + rec["sql"][-1][:700],
                                 "concrete_check": "reproduced", "concrete_detail": {"outer_order": str(oo), "expected": [outcol, eff_desc]}, "sql_replayed_on_postgres": False})
    write(out, list(hs.values()))


if __name__ == "__main__":
    import argparse
    ap = argparse.ArgumentParser()
    ap.add_argument("--repo", default="/repo"); ap.add_argument("--tier", default="quick"); ap.add_argument("--out", required=True)
    a = ap.parse_args()
    run(a.repo, a.tier, a.out)
