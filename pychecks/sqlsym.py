"""sqlsym: a parser for the PostgreSQL subset the ledger's store emits, and a bounded symbolic
evaluator over z3.

Tables are lists of guarded rows (a `present` Bool and one value per column); every operator is
evaluated without forking, so one evaluation stands for every table content with at most K rows.
SQL three-valued logic is kept (each value carries a `null` Bool). Anything outside the subset
raises Unsupported: the obligation is then inconclusive, never silently skipped.

Semantics implemented here are the documented PostgreSQL semantics as I understand them; they cannot
be tested against an engine in this sandbox (trusted base, see DESIGN.md).
"""
import re, z3

# ----------------------------------------------------------------------------------------------
# lexer


class Unsupported(Exception):
    pass


TOKEN_RE = re.compile(r"""
    (?P<ws>\s+|--[^\n]*)
  | (?P<str>'(?:[^']|'')*')
  | (?P<qid>"(?:[^"]|"")*")
  | (?P<num>\d+(?:\.\d+)?)
  | (?P<op>::|<>|!=|<=|>=|->>|->|@>|@@|\|\||\?\||[-+*/<>=(),.;\[\]:?])
  | (?P<id>[A-Za-z_][A-Za-z_0-9$]*)
""", re.X)

KEYWORDS = {"select", "from", "where", "group", "by", "order", "limit", "offset", "as", "on", "join", "left", "lateral", "inner",
            "and", "or", "not", "is", "null", "true", "false", "case", "when", "then", "else", "end", "in", "distinct", "with",
            "insert", "into", "values", "update", "set", "returning", "conflict", "do", "nothing", "for", "desc", "asc", "over",
            "partition", "union", "all", "exists", "between", "like", "default", "delete", "having"}


def lex(sql):
    out, pos = [], 0
    while pos < len(sql):
        m = TOKEN_RE.match(sql, pos)
        if not m:
            raise Unsupported(f"cannot tokenize at {sql[pos:pos+40]!r}")
        pos = m.end()
        k = m.lastgroup
        t = m.group(k)
        if k == "ws":
            continue
        if k == "str":
            out.append(("str", t[1:-1].replace("''", "'")))
        elif k == "qid":
            out.append(("id", t[1:-1]))
        elif k == "num":
            out.append(("num", t))
        elif k == "op":
            out.append(("op", t))
        else:
            low = t.lower()
            out.append(("kw", low) if low in KEYWORDS else ("id", t))
    out.append(("eof", ""))
    return out


# ----------------------------------------------------------------------------------------------
# parser (AST as tuples)


class Parser:
    def __init__(self, sql):
        self.t = lex(sql)
        self.i = 0

    def peek(self, k=0):
        return self.t[self.i + k]

    def next(self):
        tok = self.t[self.i]
        self.i += 1
        return tok

    def at(self, kind, val=None):
        k, v = self.peek()
        return k == kind and (val is None or v == val)

    def at_kw(self, *vals):
        k, v = self.peek()
        return k == "kw" and v in vals

    def accept(self, kind, val=None):
        if self.at(kind, val):
            return self.next()
        return None

    def expect(self, kind, val=None):
        if not self.at(kind, val):
            raise Unsupported(f"expected {kind} {val!r}, got {self.peek()} near token {self.i}")
        return self.next()

    # ---- statements
    def statement(self):
        if self.at_kw("with"):
            self.next()
            ctes = []
            while True:
                name = self.expect("id")[1]
                cols = None
                if self.accept("op", "("):
                    cols = [self.expect("id")[1]]
                    while self.accept("op", ","):
                        cols.append(self.expect("id")[1])
                    self.expect("op", ")")
                self.expect("kw", "as")
                self.expect("op", "(")
                body = self.statement()
                self.expect("op", ")")
                ctes.append((name, cols, body))
                if not self.accept("op", ","):
                    break
            body = self.statement()
            return ("with", ctes, body)
        if self.at("op", "("):
            first = self.paren_stmt()
            while self.at_kw("union"):
                self.next()
                self.expect("kw", "all")
                other = self.paren_stmt() if self.at("op", "(") else self.statement()
                first = ("union_all", first, other)
            return first
        if self.at_kw("select"):
            return self.select()
        if self.at_kw("values"):
            return self.values()
        if self.at_kw("insert"):
            return self.insert()
        if self.at_kw("update"):
            return self.update()
        raise Unsupported(f"statement starting with {self.peek()}")

    def values(self):
        self.expect("kw", "values")
        rows = []
        while True:
            self.expect("op", "(")
            row = [self.expr()]
            while self.accept("op", ","):
                row.append(self.expr())
            self.expect("op", ")")
            rows.append(row)
            if not self.accept("op", ","):
                break
        return ("values", rows)

    def select(self):
        self.expect("kw", "select")
        distinct_on = None
        if self.accept("kw", "distinct"):
            self.expect("kw", "on")
            self.expect("op", "(")
            distinct_on = [self.expr()]
            while self.accept("op", ","):
                distinct_on.append(self.expr())
            self.expect("op", ")")
        items = []
        while True:
            if self.at("op", "*"):
                self.next()
                items.append(("star", None, None))
            else:
                e = self.expr()
                alias = None
                if self.accept("kw", "as"):
                    alias = self.next()[1]
                elif self.at("id"):
                    alias = self.next()[1]
                if e[0] == "col" and e[2] == "*":
                    items.append(("star", e[1], None))
                else:
                    items.append(("expr", e, alias))
            if not self.accept("op", ","):
                break
        frm = []
        if self.accept("kw", "from"):
            frm.append(("first", self.from_item(), None))
            while True:
                if self.accept("op", ","):
                    frm.append(("cross", self.from_item(), None))
                    continue
                left = False
                if self.at_kw("left"):
                    self.next()
                    left = True
                    self.expect("kw", "join")
                elif self.at_kw("inner"):
                    self.next()
                    self.expect("kw", "join")
                elif self.at_kw("join"):
                    self.next()
                else:
                    break
                item = self.from_item()
                self.expect("kw", "on")
                cond = self.expr()
                frm.append(("left" if left else "inner", item, cond))
        where = None
        if self.accept("kw", "where"):
            where = self.expr()
        group = None
        if self.accept("kw", "group"):
            self.expect("kw", "by")
            group = [self.expr()]
            while self.accept("op", ","):
                group.append(self.expr())
        order = None
        if self.accept("kw", "order"):
            self.expect("kw", "by")
            order = self.order_list()
        limit = None
        if self.accept("kw", "limit"):
            limit = self.expr()
        offset = None
        if self.accept("kw", "offset"):
            offset = self.expr()
        for_update = False
        if self.accept("kw", "for"):
            self.expect("kw", "update")
            for_update = True
        node = ("select", dict(distinct_on=distinct_on, items=items, frm=frm, where=where, group=group, order=order, limit=limit,
                               offset=offset, for_update=for_update))
        if self.at_kw("union"):
            self.next()
            self.expect("kw", "all")
            other = self.statement() if not self.at("op", "(") else self.paren_stmt()
            return ("union_all", node, other)
        return node

    def paren_stmt(self):
        self.expect("op", "(")
        s = self.statement()
        self.expect("op", ")")
        return s

    def order_list(self):
        out = []
        while True:
            e = self.expr()
            desc = False
            if self.accept("kw", "desc"):
                desc = True
            else:
                self.accept("kw", "asc")
            out.append((e, desc))
            if not self.accept("op", ","):
                break
        return out

    def from_item(self):
        lateral = bool(self.accept("kw", "lateral"))
        if self.at("op", "("):
            self.next()
            sub = self.statement()
            self.expect("op", ")")
            self.accept("kw", "as")
            alias = self.next()[1] if self.at_kw("values") else self.expect("id")[1]
            return ("subquery", sub, alias, lateral)
        name = self.expect("id")[1]
        schema = None
        if self.accept("op", "."):
            schema, name = name, self.expect("id")[1]
        alias = name
        if self.accept("kw", "as"):
            alias = self.expect("id")[1]
        elif self.at("id"):
            alias = self.next()[1]
        return ("table", schema, name, alias)

    def insert(self):
        self.expect("kw", "insert")
        self.expect("kw", "into")
        name = self.expect("id")[1]
        if self.accept("op", "."):
            name = self.expect("id")[1]
        alias = name
        if self.accept("kw", "as"):
            alias = self.expect("id")[1]
        cols = []
        if self.accept("op", "("):
            cols.append(self.expect("id")[1])
            while self.accept("op", ","):
                cols.append(self.expect("id")[1])
            self.expect("op", ")")
        if self.at_kw("values"):
            src = self.values()
        else:
            src = self.statement()
        conflict = None
        if self.accept("kw", "on"):
            self.expect("kw", "conflict")
            target = None
            if self.accept("op", "("):
                target = [self.expect("id")[1]]
                while self.accept("op", ","):
                    target.append(self.expect("id")[1])
                self.expect("op", ")")
            self.expect("kw", "do")
            if self.accept("kw", "nothing"):
                conflict = ("nothing", target)
            else:
                self.expect("kw", "update")
                self.expect("kw", "set")
                sets = self.set_list()
                cw = None
                if self.accept("kw", "where"):
                    cw = self.expr()
                conflict = ("update", target, sets, cw)
        ret = None
        if self.accept("kw", "returning"):
            ret = self.returning()
        return ("insert", dict(table=name, alias=alias, cols=cols, src=src, conflict=conflict, returning=ret))

    def set_list(self):
        sets = []
        while True:
            col = self.expect("id")[1]
            self.expect("op", "=")
            sets.append((col, self.expr()))
            if not self.accept("op", ","):
                break
        return sets

    def returning(self):
        items = []
        while True:
            if self.at("op", "*"):
                self.next()
                items.append(("star", None, None))
            else:
                e = self.expr()
                alias = None
                if self.accept("kw", "as"):
                    alias = self.next()[1]
                if e[0] == "col" and e[2] == "*":
                    items.append(("star", e[1], None))
                else:
                    items.append(("expr", e, alias))
            if not self.accept("op", ","):
                break
        return items

    def update(self):
        self.expect("kw", "update")
        name = self.expect("id")[1]
        if self.accept("op", "."):
            name = self.expect("id")[1]
        alias = name
        if self.accept("kw", "as"):
            alias = self.expect("id")[1]
        elif self.at("id"):
            alias = self.next()[1]
        self.expect("kw", "set")
        sets = self.set_list()
        frm = None
        if self.accept("kw", "from"):
            frm = self.from_item()
        where = None
        if self.accept("kw", "where"):
            where = self.expr()
        ret = None
        if self.accept("kw", "returning"):
            ret = self.returning()
        return ("update", dict(table=name, alias=alias, sets=sets, frm=frm, where=where, returning=ret))

    # ---- expressions (precedence climbing)
    def expr(self):
        return self.or_()

    def or_(self):
        e = self.and_()
        while self.accept("kw", "or"):
            e = ("or", e, self.and_())
        return e

    def and_(self):
        e = self.not_()
        while self.accept("kw", "and"):
            e = ("and", e, self.not_())
        return e

    def not_(self):
        if self.accept("kw", "not"):
            return ("not", self.not_())
        return self.cmp()

    def cmp(self):
        e = self.add()
        while True:
            if self.at("op") and self.peek()[1] in ("=", "<>", "!=", "<", "<=", ">", ">=", "@>", "@@", "?|"):
                op = self.next()[1]
                e = ("cmp", op, e, self.add())
            elif self.at_kw("is"):
                self.next()
                neg = bool(self.accept("kw", "not"))
                self.expect("kw", "null")
                e = ("isnull", e, neg)
            elif self.at_kw("in") or (self.at_kw("not") and self.peek(1) == ("kw", "in")):
                neg = bool(self.accept("kw", "not"))
                self.expect("kw", "in")
                self.expect("op", "(")
                if self.at_kw("select", "with"):
                    sub = self.statement()
                    self.expect("op", ")")
                    e = ("in_sub", e, sub, neg)
                else:
                    items = [self.expr()]
                    while self.accept("op", ","):
                        items.append(self.expr())
                    self.expect("op", ")")
                    e = ("in_list", e, items, neg)
            else:
                return e

    def add(self):
        e = self.mul()
        while self.at("op") and self.peek()[1] in ("+", "-", "||"):
            op = self.next()[1]
            e = ("bin", op, e, self.mul())
        return e

    def mul(self):
        e = self.unary()
        while self.at("op") and self.peek()[1] in ("*", "/"):
            op = self.next()[1]
            e = ("bin", op, e, self.unary())
        return e

    def unary(self):
        if self.accept("op", "-"):
            return ("neg", self.unary())
        return self.postfix()

    def type_name(self):
        parts = [self.next()[1]]
        if self.accept("op", "."):
            parts = [parts[0] + "." + self.next()[1]]
        # multi-word types
        while self.at("id") and self.peek()[1].lower() in ("without", "time", "zone", "varying", "precision"):
            parts.append(self.next()[1])
        while self.at_kw("with"):
            break
        if self.accept("op", "("):
            while not self.accept("op", ")"):
                self.next()
        return " ".join(parts).lower()

    def postfix(self):
        e = self.primary()
        while True:
            if self.accept("op", "::"):
                e = ("cast", e, self.type_name())
            elif self.at("op", "->") or self.at("op", "->>"):
                op = self.next()[1]
                e = ("bin", op, e, self.primary())
            elif self.at("op", "["):
                self.next()
                idx = self.expr()
                if self.accept("op", ":"):
                    hi = self.expr()
                    self.expect("op", "]")
                    e = ("slice", e, idx, hi)
                else:
                    self.expect("op", "]")
                    e = ("index", e, idx)
            elif self.at("op", ".") and e[0] == "paren":
                self.next()
                e = ("field", e[1], self.next()[1])
            else:
                return e

    def primary(self):
        k, v = self.peek()
        if k == "num":
            self.next()
            return ("num", v)
        if k == "str":
            self.next()
            return ("str", v)
        if k == "kw" and v in ("null", "true", "false", "default"):
            self.next()
            return (v,)
        if k == "kw" and v == "case":
            self.next()
            whens = []
            while self.accept("kw", "when"):
                c = self.expr()
                self.expect("kw", "then")
                whens.append((c, self.expr()))
            els = None
            if self.accept("kw", "else"):
                els = self.expr()
            self.expect("kw", "end")
            return ("case", whens, els)
        if k == "kw" and v == "exists":
            self.next()
            self.expect("op", "(")
            sub = self.statement()
            self.expect("op", ")")
            return ("exists", sub)
        if k == "op" and v == "(":
            self.next()
            if self.at_kw("select", "with"):
                sub = self.statement()
                self.expect("op", ")")
                return ("scalar_sub", sub)
            first = self.expr()
            if self.accept("op", ","):
                items = [first, self.expr()]
                while self.accept("op", ","):
                    items.append(self.expr())
                self.expect("op", ")")
                return ("row", items)
            self.expect("op", ")")
            return ("paren", first)
        if k == "op" and v == "?":
            self.next()
            return ("param",)
        if k == "id" and v.lower() == "array" and self.peek(1) == ("op", "["):
            self.next()
            self.next()
            items = []
            if not self.at("op", "]"):
                items.append(self.expr())
                while self.accept("op", ","):
                    items.append(self.expr())
            self.expect("op", "]")
            return ("array", items)
        if k == "id":
            self.next()
            name = v
            # qualified names and function calls
            parts = [name]
            while self.at("op", ".") and (self.peek(1)[0] == "id" or self.peek(1) == ("op", "*")):
                self.next()
                parts.append(self.next()[1])
            if self.at("op", "("):
                self.next()
                args = []
                if not self.at("op", ")"):
                    if self.at("op", "*"):
                        self.next()
                        args.append(("star",))
                    else:
                        args.append(self.expr())
                    while self.accept("op", ","):
                        args.append(self.expr())
                self.expect("op", ")")
                fn = ".".join(parts).lower()
                over = None
                if self.accept("kw", "over"):
                    self.expect("op", "(")
                    part, order = [], []
                    if self.accept("kw", "partition"):
                        self.expect("kw", "by")
                        pe = self.expr()
                        part = pe[1] if pe[0] == "row" else [pe[1] if pe[0] == "paren" else pe]
                        while self.accept("op", ","):
                            part.append(self.expr())
                    if self.accept("kw", "order"):
                        self.expect("kw", "by")
                        order = self.order_list()
                    self.expect("op", ")")
                    over = (part, order)
                return ("call", fn, args, over)
            if len(parts) == 1:
                return ("col", None, parts[0])
            return ("col", parts[-2], parts[-1])
        raise Unsupported(f"unexpected token {self.peek()} in expression")


def parse(sql):
    p = Parser(sql)
    s = p.statement()
    p.accept("op", ";")
    if not p.at("eof"):
        raise Unsupported(f"trailing tokens: {p.t[p.i:p.i+6]}")
    return s


# ----------------------------------------------------------------------------------------------
# values


# An account address is a string; its segments (the jsonb arrays address_array / sources_arrays / ... the store keeps next
# to it) are uninterpreted functions of that string, so that every copy of one address has the same segments.
NSEG = z3.Function("nseg", z3.StringSort(), z3.IntSort())
SEG = z3.Function("seg", z3.StringSort(), z3.IntSort(), z3.StringSort())


class V:
    """kind: int | str | bool | json (dict key -> (present, V str)) | comp (dict field -> V) | obj (list of (key V, val V, guard)) | opaque
    | arr (z = the address string whose segment array this is) | addrset (z = list of (guard, address string): a jsonb array of
    addresses, or of their exploded forms) | strlist (z = list of V str: an array[...] constructor)"""
    __slots__ = ("kind", "z", "null")

    def __init__(self, kind, z, null=None):
        self.kind, self.z = kind, z
        self.null = z3.BoolVal(False) if null is None else null

    def __repr__(self):
        return f"V({self.kind},{self.z},{self.null})"


def vint(z, null=None):
    return V("int", z if z3.is_expr(z) else z3.IntVal(z), null)


def vstr(z, null=None):
    return V("str", z if z3.is_expr(z) else z3.StringVal(z), null)


def vbool(z, null=None):
    return V("bool", z if z3.is_expr(z) else z3.BoolVal(z), null)


def vnull(kind="int"):
    z = {"int": z3.IntVal(0), "str": z3.StringVal(""), "bool": z3.BoolVal(False)}.get(kind, None)
    return V(kind, z, z3.BoolVal(True))


def null_like(v):
    if v.kind in ("int", "str", "bool"):
        return vnull(v.kind)
    if v.kind == "json":
        return V("json", {k: (z3.BoolVal(False), z3.StringVal("")) for k in v.z}, z3.BoolVal(True))
    if v.kind == "comp":
        return V("comp", {k: null_like(x) for k, x in v.z.items()}, z3.BoolVal(True))
    return V(v.kind, v.z, z3.BoolVal(True))


def ite_v(c, a, b):
    """If(c, a, b) on values of the same kind; an untyped NULL takes the kind of the other side"""
    if a.kind == "opaque" and a.z is None and b.kind != "opaque":
        a = null_like(b)
    if b.kind == "opaque" and b.z is None and a.kind != "opaque":
        b = null_like(a)
    if a.kind == "comp" or b.kind == "comp":
        if a.kind != "comp":
            a = V("comp", {k: vnull(v.kind) for k, v in b.z.items()}, a.null)
        if b.kind != "comp":
            b = V("comp", {k: vnull(v.kind) for k, v in a.z.items()}, b.null)
        return V("comp", {k: ite_v(c, a.z[k], b.z[k]) for k in a.z}, z3.If(c, a.null, b.null))
    if a.kind == "json" or b.kind == "json":
        if a.kind != "json":
            a = V("json", {k: (z3.BoolVal(False), z3.StringVal("")) for k in b.z}, a.null)
        if b.kind != "json":
            b = V("json", {k: (z3.BoolVal(False), z3.StringVal("")) for k in a.z}, b.null)
        return V("json", {k: (z3.If(c, a.z[k][0], b.z[k][0]), z3.If(c, a.z[k][1], b.z[k][1])) for k in a.z}, z3.If(c, a.null, b.null))
    if a.kind == "opaque" or b.kind == "opaque":
        return V("opaque", None, z3.If(c, a.null, b.null))
    if a.kind == "arr" and b.kind == "arr":
        return V("arr", z3.If(c, a.z, b.z), z3.If(c, a.null, b.null))
    if a.kind == "arr" or b.kind == "arr":
        other = b if a.kind == "arr" else a
        if other.z is None or other.kind != "arr":
            keep = a if a.kind == "arr" else b
            return V("arr", keep.z, z3.If(c, a.null, b.null))
    if a.kind == "addrset" or b.kind == "addrset":
        if a.kind == "addrset" and b.kind == "addrset" and len(a.z) == len(b.z):
            return V("addrset", [(z3.If(c, ga, gb), z3.If(c, xa, xb)) for (ga, xa), (gb, xb) in zip(a.z, b.z)], z3.If(c, a.null, b.null))
        keep = a if a.kind == "addrset" else b
        return V("addrset", keep.z, z3.If(c, a.null, b.null))
    if a.z is None:
        a = vnull(b.kind)
    if b.z is None:
        b = vnull(a.kind)
    return V(a.kind, z3.If(c, a.z, b.z), z3.If(c, a.null, b.null))


def eq_v(a, b):
    """SQL '=' as (value Bool, null Bool)"""
    null = z3.Or(a.null, b.null)
    if a.kind == "comp":
        return vbool(z3.And(*[eq_v(a.z[k], b.z[k]).z for k in a.z]), null)
    if a.kind == "json":
        return vbool(z3.And(*[z3.And(a.z[k][0] == b.z[k][0], z3.Implies(a.z[k][0], a.z[k][1] == b.z[k][1])) for k in a.z]), null)
    return vbool(a.z == b.z, null)


def same_v(a, b):
    """IS NOT DISTINCT FROM, as a plain Bool (used for grouping / comparing results)"""
    e = eq_v(a, b)
    return z3.Or(z3.And(a.null, b.null), z3.And(z3.Not(a.null), z3.Not(b.null), e.z))


# ----------------------------------------------------------------------------------------------
# relations


class Row:
    __slots__ = ("guard", "vals")

    def __init__(self, guard, vals):
        self.guard, self.vals = guard, vals


class Rel:
    def __init__(self, cols, rows):
        self.cols = cols  # list of (qualifier, name)
        self.rows = rows

    def find(self, q, name):
        hits = [i for i, (cq, cn) in enumerate(self.cols) if cn == name and (q is None or cq == q)]
        return hits


class Env:
    def __init__(self, rel=None, row=None, outer=None):
        self.rel, self.row, self.outer = rel, row, outer

    def lookup(self, q, name):
        e = self
        while e is not None:
            if e.rel is not None:
                hits = e.rel.find(q, name)
                if len(hits) >= 1:
                    # SQL would raise 'ambiguous' for several hits of an unqualified name in distinct relations; the
                    # store's statements qualify where needed, identical duplicates come from SELECT *
                    return e.row.vals[hits[0]]
            e = e.outer
        raise Unsupported(f"unknown column {q}.{name}" if q else f"unknown column {name}")


class DB:
    """base tables: name -> Rel ; params: sentinel literal -> V ; jsonkeys: key universe of jsonb objects"""

    def __init__(self, tables, params=None, jsonkeys=("k1", "k2")):
        self.tables = tables
        self.params = params or {}
        self.jsonkeys = list(jsonkeys)
        self.fresh = 0
        self.side = []  # side conditions (e.g. a scalar sub-query yielding several rows)
        self.assumes = []  # assumptions introduced by the evaluation (page size not smaller than the result)

    def json_const(self, text):
        import json as _json
        obj = _json.loads(text)
        if not isinstance(obj, dict):
            return V("opaque", None)
        z = {}
        for k in self.jsonkeys:
            z[k] = (z3.BoolVal(False), z3.StringVal(""))
        for k, v in obj.items():
            pk = self.params.get(k)
            key = pk if isinstance(pk, str) else k
            if key not in z:
                raise Unsupported(f"jsonb key {k!r} outside the key universe {self.jsonkeys}")
            pv = self.params.get(v) if isinstance(v, str) else None
            z[key] = (z3.BoolVal(True), pv.z if isinstance(pv, V) else z3.StringVal(str(v)))
        return V("json", z)


AGGS = {"sum", "count", "max", "min", "array_agg", "public.aggregate_objects", "aggregate_objects", "bool_or", "bool_and"}


def has_agg(e):
    if not isinstance(e, tuple):
        return False
    if e[0] == "call" and e[1] in AGGS and e[3] is None:
        return True
    return any(has_agg(x) for x in e[1:] if isinstance(x, (tuple, list))) or any(
        has_agg(y) for x in e[1:] if isinstance(x, list) for y in x)


class Evaluator:
    def __init__(self, db):
        self.db = db
        self.ctes = {}
        self.dml = []  # data-modifying CTEs met while evaluating a read (name, ast)

    # ---- expressions
    def ev(self, e, env, group=None):
        """group: list of (Env) of the rows of the current group, when evaluating aggregate select items"""
        k = e[0]
        if k == "num":
            p = self.db.params.get(e[1])
            return p if p is not None else vint(int(e[1]))
        if k == "str":
            p = self.db.params.get(e[1])
            if isinstance(p, V):
                return p
            if e[1].startswith("{") and e[1].endswith("}"):
                try:
                    return self.db.json_const(e[1])  # a jsonb literal written as a plain string
                except Unsupported:
                    return V("opaque", None)
                except ValueError:
                    pass
            if e[1].startswith("[") and e[1].endswith("]"):
                return V("opaque", None)
            return vstr(e[1])
        if k == "null":
            return V("opaque", None, z3.BoolVal(True))
        if k == "true":
            return vbool(True)
        if k == "false":
            return vbool(False)
        if k == "paren":
            return self.ev(e[1], env, group)
        if k == "col":
            return env.lookup(e[1], e[2])
        if k == "cast":
            v = self.ev(e[1], env, group)
            t = e[2]
            if e[1][0] == "str" and "json" in t and v.kind == "str" and not isinstance(self.db.params.get(e[1][1]), V):
                return self.db.json_const(e[1][1])
            if v.kind == "opaque" and v.z is None:
                return v
            if e[1][0] == "row" or (v.kind == "comp" and "volumes" in t):
                return v
            return v  # value-preserving on the modelled domain
        if k == "row":
            vals = [self.ev(x, env, group) for x in e[1]]
            if len(vals) == 2:
                return V("comp", {"inputs": vals[0], "outputs": vals[1]})
            raise Unsupported("row constructor of arity != 2")
        if k == "field":
            v = self.ev(e[1], env, group)
            if v.kind != "comp":
                raise Unsupported(f"field access on {v.kind}")
            f = v.z[e[2]]
            return V(f.kind, f.z, z3.Or(v.null, f.null))
        if k == "neg":
            v = self.ev(e[1], env, group)
            return vint(-v.z, v.null)
        if k == "bin":
            op = e[1]
            a, b = self.ev(e[2], env, group), self.ev(e[3], env, group)
            null = z3.Or(a.null, b.null)
            if op == "-" and a.kind == "json":
                key = self.json_key(e[3], b)
                return V("json", {kk: ((z3.BoolVal(False), z3.StringVal("")) if kk == key else a.z[kk]) for kk in a.z}, a.null)
            if op in ("+", "-", "*"):
                z = {"+": a.z + b.z, "-": a.z - b.z, "*": a.z * b.z}[op]
                return vint(z, null)
            if op == "||":
                if a.kind == "json" and b.kind == "json":
                    return V("json", {kk: (z3.Or(a.z[kk][0], b.z[kk][0]), z3.If(b.z[kk][0], b.z[kk][1], a.z[kk][1])) for kk in a.z}, null)
                if a.kind == "str" and b.kind == "str":
                    return vstr(z3.Concat(a.z, b.z), null)
                raise Unsupported(f"|| on {a.kind},{b.kind}")

            if op in ("->", "->>"):
                if a.kind != "json":
                    raise Unsupported(f"-> on {a.kind}")
                key = self.json_key(e[3], b)
                pres, val = a.z[key]
                return vstr(val, z3.Or(a.null, z3.Not(pres)))
            raise Unsupported(f"operator {op}")
        if k == "array":
            return V("strlist", [self.ev(x, env, group) for x in e[1]])
        if k == "cmp" and e[1] == "@@":
            a = self.ev(e[2], env, group)
            if a.kind != "arr":
                raise Unsupported(f"@@ on {a.kind}")
            lit = e[3]
            while lit[0] in ("cast", "paren"):
                lit = lit[1]
            import re as _re
            m = _re.fullmatch(r'\$\[(\d+)\] == "(.*)"', lit[1]) if lit[0] == "str" else None
            if not m:
                raise Unsupported(f"jsonpath {lit}")
            i, seg = int(m.group(1)), self.strparam(m.group(2).replace('\\"', '"').replace("\\\\", "\\"))
            return vbool(z3.And(NSEG(a.z) > i, SEG(a.z, z3.IntVal(i)) == seg.z), a.null)
        if k == "cmp" and e[1] in ("@>", "?|"):
            a = self.ev(e[2], env, group)
            if a.kind == "addrset":
                return self.addrset_op(e[1], a, e[3], env, group)
        if k == "cmp":
            op = e[1]
            a, b = self.ev(e[2], env, group), self.ev(e[3], env, group)
            if a.kind == "opaque" and a.z is None and b.kind != "opaque":
                a = null_like(b) if z3.is_true(a.null) else a
            if b.kind == "opaque" and b.z is None and a.kind != "opaque":
                b = null_like(a) if z3.is_true(b.null) else b
            null = z3.Or(a.null, b.null)
            if op == "=":
                return eq_v(a, b)
            if op in ("<>", "!="):
                x = eq_v(a, b)
                return vbool(z3.Not(x.z), x.null)
            if op in ("<", "<=", ">", ">="):
                if a.kind != "int" or b.kind != "int":
                    if a.kind == "str" and b.kind == "str":
                        z = {"<": a.z < b.z, "<=": a.z <= b.z, ">": b.z < a.z, ">=": b.z <= a.z}[op]
                        return vbool(z, null)
                    raise Unsupported(f"{op} on {a.kind},{b.kind}")
                z = {"<": a.z < b.z, "<=": a.z <= b.z, ">": a.z > b.z, ">=": a.z >= b.z}[op]
                return vbool(z, null)
            if op == "@>":
                if a.kind == "json" and b.kind == "str" and e[3][0] == "str":
                    b = self.db.json_const(e[3][1])
                if a.kind == "json" and b.kind == "json":
                    return vbool(z3.And(*[z3.Implies(b.z[kk][0], z3.And(a.z[kk][0], a.z[kk][1] == b.z[kk][1])) for kk in a.z]), null)
                raise Unsupported(f"@> on {a.kind},{b.kind}")
            raise Unsupported(f"comparison {op}")
        if k == "isnull":
            v = self.ev(e[1], env, group)
            return vbool(z3.Not(v.null) if e[2] else v.null)
        if k == "not":
            v = self.ev(e[1], env, group)
            return vbool(z3.Not(v.z), v.null)
        if k == "and":
            a, b = self.ev(e[1], env, group), self.ev(e[2], env, group)
            false_a, false_b = z3.And(z3.Not(a.null), z3.Not(a.z)), z3.And(z3.Not(b.null), z3.Not(b.z))
            return vbool(z3.And(a.z, b.z), z3.And(z3.Or(a.null, b.null), z3.Not(false_a), z3.Not(false_b)))
        if k == "or":
            a, b = self.ev(e[1], env, group), self.ev(e[2], env, group)
            true_a, true_b = z3.And(z3.Not(a.null), a.z), z3.And(z3.Not(b.null), b.z)
            return vbool(z3.Or(true_a, true_b), z3.And(z3.Or(a.null, b.null), z3.Not(true_a), z3.Not(true_b)))
        if k == "case":
            res = self.ev(e[2], env, group) if e[2] is not None else None
            for cond, val in reversed(e[1]):
                c = self.ev(cond, env, group)
                v = self.ev(val, env, group)
                if res is None:
                    res = vnull(v.kind) if v.kind in ("int", "str", "bool") else V(v.kind, v.z, z3.BoolVal(True))
                res = ite_v(z3.And(z3.Not(c.null), c.z), v, res)
            return res
        if k == "in_list":
            a = self.ev(e[1], env, group)
            hit = z3.BoolVal(False)
            for it in e[2]:
                hit = z3.Or(hit, eq_v(a, self.ev(it, env, group)).z)
            return vbool(z3.Not(hit) if e[3] else hit, a.null)
        if k == "in_sub":
            a = self.ev(e[1], env, group)
            rel = self.rel(e[2], env)
            hit = z3.Or(*[z3.And(r.guard, z3.Not(r.vals[0].null), eq_v(a, r.vals[0]).z) for r in rel.rows]) if rel.rows else z3.BoolVal(False)
            return vbool(z3.Not(hit) if e[3] else hit, a.null)
        if k == "exists":
            rel = self.rel(e[1], env)
            return vbool(z3.Or(*[r.guard for r in rel.rows]) if rel.rows else z3.BoolVal(False))
        if k == "scalar_sub":
            rel = self.rel(e[1], env)
            # a scalar sub-query yields NULL for no row; more than one row is an SQL error, reported through side conditions
            if not rel.rows:
                return V("opaque", None, z3.BoolVal(True))
            res = None
            for r in reversed(rel.rows):
                v = r.vals[0]
                res = ite_v(r.guard, v, res if res is not None else (vnull(v.kind) if v.kind in ("int", "str", "bool") else V(v.kind, v.z, z3.BoolVal(True))))
            many = z3.Or(*[z3.And(rel.rows[i].guard, rel.rows[j].guard) for i in range(len(rel.rows)) for j in range(i + 1, len(rel.rows))]) if len(rel.rows) > 1 else z3.BoolVal(False)
            self.db.side.append(("scalar-subquery-more-than-one-row", many))
            return res
        if k == "call":
            return self.call(e, env, group)
        if k == "index":
            base = e[1]
            if base[0] == "paren" and base[1][0] == "call" and base[1][1] == "array_agg":
                # (array_agg(x))[1]: the value of x in one (the first) row of the group
                return self.ev(("call", "__any", base[1][2], None), env, group)
            raise Unsupported("array index")
        raise Unsupported(f"expression {k}")

    def strparam(self, text):
        p = self.db.params.get(text)
        return p if isinstance(p, V) else vstr(text)

    def addrset_op(self, op, a, rhs, env, group):
        """jsonb containment / any-key on a set of addresses (sources, destinations) or of exploded addresses (*_arrays)"""
        import json as _json

        def some(pred):
            return z3.Or(*[z3.And(g, pred(x)) for g, x in a.z]) if a.z else z3.BoolVal(False)
        if op == "?|":
            b = self.ev(rhs, env, group)
            if b.kind != "strlist":
                raise Unsupported("?| needs an array[...] on the right")
            return vbool(z3.Or(*[some(lambda x, s=s: x == s.z) for s in b.z]) if b.z else z3.BoolVal(False), a.null)
        lit = rhs
        while lit[0] in ("cast", "paren"):
            lit = lit[1]
        if lit[0] != "str":
            raise Unsupported("@> on an address set needs a literal")
        items = _json.loads(lit[1])
        if not isinstance(items, list):
            raise Unsupported("@> on an address set needs a json array")
        conj = []
        for it in items:
            if isinstance(it, str):
                s = self.strparam(it)
                conj.append(some(lambda x, s=s: x == s.z))
            elif isinstance(it, dict):
                def match(x, it=it):
                    cs = []
                    for key, val in it.items():
                        i = int(key)
                        if val is None:
                            cs.append(NSEG(x) == i)
                        else:
                            cs.append(z3.And(NSEG(x) > i, SEG(x, z3.IntVal(i)) == self.strparam(val).z))
                    return z3.And(*cs) if cs else z3.BoolVal(True)
                conj.append(some(match))
            else:
                raise Unsupported(f"@> element {it!r}")
        return vbool(z3.And(*conj) if conj else z3.BoolVal(True), a.null)

    def json_key(self, ast, val):
        if ast[0] == "str":
            p = self.db.params.get(ast[1])
            key = p if isinstance(p, str) else ast[1]
            if key in self.db.jsonkeys:
                return key
        raise Unsupported(f"jsonb key {ast}")

    def call(self, e, env, group):
        fn, args, over = e[1], e[2], e[3]
        if over is not None:
            raise Unsupported("window function outside a select list")
        if fn in AGGS or fn == "__any":
            if group is None:
                raise Unsupported(f"aggregate {fn} outside a grouped select")
            if fn == "sum":
                tot = z3.IntVal(0)
                anyv = z3.BoolVal(False)
                for g, genv in group:
                    v = self.ev(args[0], genv)
                    inc = z3.And(g, z3.Not(v.null))
                    tot = tot + z3.If(inc, v.z, 0)
                    anyv = z3.Or(anyv, inc)
                return vint(tot, z3.Not(anyv))
            if fn == "count":
                tot = z3.IntVal(0)
                for g, genv in group:
                    if args[0] == ("star",):
                        tot = tot + z3.If(g, 1, 0)
                    else:
                        v = self.ev(args[0], genv)
                        tot = tot + z3.If(z3.And(g, z3.Not(v.null)), 1, 0)
                return vint(tot)
            if fn in ("max", "min"):
                res = None
                for g, genv in group:
                    v = self.ev(args[0], genv)
                    inc = z3.And(g, z3.Not(v.null))
                    if res is None:
                        res = V("int", v.z, z3.Not(inc))
                    else:
                        better = (v.z > res.z) if fn == "max" else (v.z < res.z)
                        take = z3.And(inc, z3.Or(res.null, better))
                        res = V("int", z3.If(take, v.z, res.z), z3.And(res.null, z3.Not(inc)))
                return res
            if fn in ("__any", "array_agg"):
                res = None
                for g, genv in reversed(group):
                    v = self.ev(args[0], genv)
                    res = ite_v(g, v, res if res is not None else (vnull(v.kind) if v.kind in ("int", "str", "bool") else V(v.kind, v.z, z3.BoolVal(True))))
                return res
            if fn in ("public.aggregate_objects", "aggregate_objects"):
                entries = []
                for g, genv in group:
                    v = self.ev(args[0], genv)
                    if v.kind != "obj":
                        raise Unsupported("aggregate_objects over a non-object")
                    for (kk, vv, gg) in v.z:
                        entries.append((kk, vv, z3.And(g, gg)))
                return V("obj", entries)
        if fn == "jsonb_array_length":
            v = self.ev(args[0], env, group)
            if v.kind != "arr":
                raise Unsupported(f"jsonb_array_length on {v.kind}")
            return vint(NSEG(v.z), v.null)
        if fn == "json_build_object":
            entries = []
            for i in range(0, len(args), 2):
                entries.append((self.ev(args[i], env, group), self.ev(args[i + 1], env, group), z3.BoolVal(True)))
            return V("obj", entries)
        if fn == "coalesce":
            vals = [self.ev(a, env, group) for a in args]
            res = vals[-1]
            for v in reversed(vals[:-1]):
                res = ite_v(z3.Not(v.null), v, res)
            return res
        if fn in ("least", "greatest"):
            vals = [self.ev(a, env, group) for a in args]
            typed = [v for v in vals if v.kind == "int"]
            vals = [vnull("int") if (v.kind == "opaque" and v.z is None) else v for v in vals] if typed else vals
        if fn == "least":
            res = vals[0]
            for v in vals[1:]:
                # LEAST ignores NULLs
                take = z3.And(z3.Not(v.null), z3.Or(res.null, v.z < res.z))
                res = V("int", z3.If(take, v.z, res.z), z3.And(res.null, v.null))
            return res
        if fn == "greatest":
            res = vals[0]
            for v in vals[1:]:
                take = z3.And(z3.Not(v.null), z3.Or(res.null, v.z > res.z))
                res = V("int", z3.If(take, v.z, res.z), z3.And(res.null, v.null))
            return res
        if fn in ("pg_advisory_xact_lock", "pg_advisory_lock", "pg_advisory_unlock", "hashtext", "nextval"):
            return V("opaque", None)
        if fn.split(".")[-1] == "transaction_date":
            p = self.db.params.get("transaction_date()")
            if p is None:
                raise Unsupported("transaction_date() without a parameter")
            return p
        raise Unsupported(f"function {fn}")

    # ---- relations
    def rel(self, stmt, outer=None, ctes=None):
        k = stmt[0]
        if k == "with":
            saved = dict(self.ctes)
            try:
                for name, cols, body in stmt[1]:
                    if body[0] in ("insert", "update"):
                        # a data-modifying CTE: its effects are not visible to the other parts of the statement
                        # (same snapshot); without RETURNING it yields no rows
                        self.dml.append((name, body))
                        self.ctes[name] = Rel([], [])
                        continue
                    r = self.rel(body, outer)
                    if cols:
                        r = Rel([(name, c) for c in cols], r.rows)
                    else:
                        r = Rel([(name, c[1]) for c in r.cols], r.rows)
                    self.ctes[name] = r
                return self.rel(stmt[2], outer)
            finally:
                self.ctes = saved
        ctes = self.ctes
        if k == "values":
            rows = []
            for row in stmt[1]:
                rows.append(Row(z3.BoolVal(True), [self.ev(x, Env(outer=outer)) for x in row]))
            for ci in range(len(rows[0].vals)):
                typed = [r.vals[ci] for r in rows if not (r.vals[ci].kind == "opaque" and r.vals[ci].z is None)]
                if typed:
                    for r in rows:
                        if r.vals[ci].kind == "opaque" and r.vals[ci].z is None:
                            r.vals[ci] = null_like(typed[0])
            return Rel([(None, f"column{i+1}") for i in range(len(stmt[1][0]))], rows)
        if k == "union_all":
            a, b = self.rel(stmt[1], outer, ctes), self.rel(stmt[2], outer, ctes)
            return Rel(a.cols, a.rows + b.rows)
        if k != "select":
            raise Unsupported(f"relation from {k}")
        s = stmt[1]
        # FROM
        cur = None  # list of (guard, Rel-shaped combined row)
        cols = []
        rows = [Row(z3.BoolVal(True), [])]
        for kind, item, cond in s["frm"]:
            lateral = item[0] == "subquery" and (item[3] or True)  # sub-queries may reference earlier items only when LATERAL; harmless to allow
            new_rows = []
            new_cols = None
            if item[0] == "table":
                base = ctes.get(item[2]) if item[1] is None and item[2] in ctes else None
                if base is None:
                    if item[2] not in self.db.tables:
                        raise Unsupported(f"unknown table {item[2]}")
                    base = self.db.tables[item[2]]
                right_cols = [(item[3], c[1]) for c in base.cols]
                right_rows_for = lambda env: base.rows
            else:
                sub_stmt, alias = item[1], item[2]
                probe = None
                right_cols = None

                def right_rows_for(env, sub_stmt=sub_stmt):
                    return self.rel(sub_stmt, env, ctes)
            for r in rows:
                env = Env(Rel(cols, None), r, outer) if cols else Env(outer=outer)
                if item[0] == "table":
                    rrows = base.rows
                else:
                    sub = right_rows_for(env)
                    right_cols = [(item[2], c[1]) for c in sub.cols]
                    rrows = sub.rows
                matched_any = z3.BoolVal(False)
                for rr in rrows:
                    g = z3.And(r.guard, rr.guard)
                    combined = Row(g, r.vals + rr.vals)
                    if cond is not None and not (cond == ("true",)):
                        cenv = Env(Rel(cols + right_cols, None), combined, outer)
                        c = self.ev(cond, cenv)
                        ok = z3.And(z3.Not(c.null), c.z)
                        combined = Row(z3.And(g, ok), combined.vals)
                        matched_any = z3.Or(matched_any, z3.And(rr.guard, ok))
                    else:
                        matched_any = z3.Or(matched_any, rr.guard)
                    new_rows.append(combined)
                if kind == "left":
                    nulls = []
                    sample = rrows[0].vals if rrows else None
                    if sample is None:
                        if item[0] == "table":
                            sample = [vnull("int")] * len(right_cols)
                        else:
                            sample = [V("opaque", None, z3.BoolVal(True))] * len(right_cols)
                    for v in sample:
                        if v.kind in ("int", "str", "bool"):
                            nulls.append(vnull(v.kind))
                        elif v.kind == "json":
                            nulls.append(V("json", {kk: (z3.BoolVal(False), z3.StringVal("")) for kk in v.z}, z3.BoolVal(True)))
                        elif v.kind == "comp":
                            nulls.append(V("comp", {kk: vnull(vv.kind) for kk, vv in v.z.items()}, z3.BoolVal(True)))
                        else:
                            nulls.append(V(v.kind, v.z, z3.BoolVal(True)))
                    new_rows.append(Row(z3.And(r.guard, z3.Not(matched_any)), r.vals + nulls))
                new_cols = cols + right_cols
            if new_cols is None:
                new_cols = cols + (right_cols or [])
            cols, rows = new_cols, new_rows
        rel = Rel(cols, rows)
        # WHERE
        if s["where"] is not None:
            out = []
            for r in rel.rows:
                c = self.ev(s["where"], Env(rel, r, outer))
                out.append(Row(z3.And(r.guard, z3.Not(c.null), c.z), r.vals))
            rel = Rel(rel.cols, out)
        items = s["items"]
        grouped = s["group"] is not None or any(it[0] == "expr" and has_agg(it[1]) for it in items)
        # window functions in the select list
        def is_window(e):
            return isinstance(e, tuple) and e[0] == "call" and e[3] is not None
        if grouped:
            keys = s["group"] or []
            out_rows = []
            out_cols = []
            for idx, r in enumerate(rel.rows):
                env = Env(rel, r, outer)
                kv = [self.ev(kx, env) for kx in keys]
                same = []
                for jdx, r2 in enumerate(rel.rows):
                    env2 = Env(rel, r2, outer)
                    kv2 = [self.ev(kx, env2) for kx in keys]
                    same.append(z3.And(r2.guard, *[same_v(a, b) for a, b in zip(kv, kv2)]))
                first = z3.And(r.guard, z3.Not(z3.Or(*same[:idx])) if idx > 0 else z3.BoolVal(True))
                group = [(same[j], Env(rel, rel.rows[j], outer)) for j in range(len(rel.rows))]
                vals = []
                for it in items:
                    if it[0] != "expr":
                        raise Unsupported("* in a grouped select")
                    vals.append(self.ev(it[1], env, group))
                out_rows.append(Row(first, vals))
            if not keys and not rel.rows:
                # aggregate over an empty input still yields one row
                out_rows.append(Row(z3.BoolVal(True), [self.ev(it[1], Env(outer=outer), []) for it in items]))
            elif not keys:
                # no GROUP BY: exactly one output row even when no input row is present
                none_present = z3.Not(z3.Or(*[r.guard for r in rel.rows]))
                out_rows.append(Row(none_present, [self.ev(it[1], Env(rel, rel.rows[0], outer), [(z3.BoolVal(False), Env(rel, rel.rows[0], outer))]) for it in items]))
            for n, it in enumerate(items):
                name = it[2] or (it[1][2] if it[1][0] == "col" else f"?column{n}")
                out_cols.append((None, name))
            res = Rel(out_cols, out_rows)
        else:
            out_cols, out_rows = [], [Row(r.guard, []) for r in rel.rows]
            for n, it in enumerate(items):
                if it[0] == "star":
                    for ci, (cq, cn) in enumerate(rel.cols):
                        if it[1] is None or cq == it[1]:
                            out_cols.append((cq, cn))
                            for ri, r in enumerate(rel.rows):
                                out_rows[ri].vals.append(r.vals[ci])
                    continue
                e = it[1]
                name = it[2] or (e[2] if e[0] == "col" else (e[2] if e[0] == "field" else f"?column{n}"))
                out_cols.append((e[1] if e[0] == "col" and it[2] is None else None, name))
                if is_window(e):
                    wv = self.window(e, rel, outer)
                    for ri in range(len(rel.rows)):
                        out_rows[ri].vals.append(wv[ri])
                else:
                    for ri, r in enumerate(rel.rows):
                        out_rows[ri].vals.append(self.ev(e, Env(rel, r, outer)))
            res = Rel(out_cols, out_rows)
            # evaluate DISTINCT ON / ORDER BY keys in the input environment extended with output aliases
            rel_for_keys = Rel(rel.cols + [(None, c[1]) for c in out_cols], [Row(r.guard, r.vals + o.vals) for r, o in zip(rel.rows, out_rows)])
            if s["distinct_on"]:
                res = self.distinct_on(res, rel_for_keys, s["distinct_on"], s["order"], outer)
                rel_for_keys = Rel(rel_for_keys.cols, [Row(r.guard, k.vals) for r, k in zip(res.rows, rel_for_keys.rows)])
        if grouped:
            rel_for_keys = res
            if s["distinct_on"]:
                res = self.distinct_on(res, res, s["distinct_on"], s["order"], outer)
                rel_for_keys = res
        # ORDER BY / LIMIT / OFFSET: results are compared as sets of rows; a LIMIT is honoured only when it cannot cut
        if getattr(self.db, "exact_limit", False) and (s["limit"] is not None or s.get("offset") is not None) and s["order"]:
            # exact LIMIT / OFFSET with ORDER BY: a row is kept iff offset <= (number of present rows sorting strictly before it) < offset + limit
            # (ties are broken arbitrarily by SQL; callers use this on unique order keys or state the tie rule)
            n = len(res.rows)
            lim = self.ev(s["limit"], Env(outer=outer)).z if s["limit"] is not None else None
            off = self.ev(s["offset"], Env(outer=outer)).z if s.get("offset") is not None else z3.IntVal(0)
            ok = [self.order_key(s["order"], rel_for_keys, rel_for_keys.rows[i], outer) for i in range(n)]
            kept = []
            for i in range(n):
                rank = z3.Sum([z3.If(z3.And(res.rows[j].guard, self.before(ok[j], ok[i])), 1, 0) for j in range(n) if j != i]) if n > 1 else z3.IntVal(0)
                cond = rank >= off
                if lim is not None:
                    cond = z3.And(cond, rank < off + lim)
                kept.append(Row(z3.And(res.rows[i].guard, cond), res.rows[i].vals))
            return Rel(res.cols, kept)
        if s["limit"] is not None:
            lim = self.ev(s["limit"], Env(outer=outer))
            n = len(res.rows)
            if z3.is_int_value(lim.z) and lim.z.as_long() >= n:
                pass
            elif z3.is_int_value(lim.z) and lim.z.as_long() == 1:
                res = self.limit_one(res, rel_for_keys, s["order"], outer)
            elif not z3.is_int_value(lim.z) and s["order"]:
                # symbolic LIMIT n with ORDER BY: a row is kept iff fewer than n present rows sort strictly before it
                # (ties: the order keys used with a symbolic limit are unique keys in the store's statements)
                ok = [self.order_key(s["order"], rel_for_keys, rel_for_keys.rows[i], outer) for i in range(n)]
                kept = []
                for i in range(n):
                    rank = z3.Sum([z3.If(z3.And(res.rows[j].guard, self.before(ok[j], ok[i])), 1, 0) for j in range(n) if j != i]) if n > 1 else z3.IntVal(0)
                    kept.append(Row(z3.And(res.rows[i].guard, rank < lim.z), res.rows[i].vals))
                res = Rel(res.cols, kept)
            elif z3.is_int_value(lim.z):
                # more row slots than the limit (joins multiply slots): the evaluation is restricted to contents whose
                # result fits the page; recorded as an assumption of the obligation
                self.db.assumes.append(z3.Sum([z3.If(r.guard, 1, 0) for r in res.rows]) <= lim.z)
            else:
                raise Unsupported("LIMIT that may cut the result")
        return res

    def order_key(self, order, rel, row, outer):
        return [(self.ev(e, Env(rel, row, outer)), desc) for e, desc in order]

    @staticmethod
    def before(ka, kb):
        """strict lexicographic 'a sorts before b' for order keys [(V, desc)] (NULLS LAST for asc, FIRST for desc as in PostgreSQL)"""
        res = z3.BoolVal(False)
        for (a, desc), (b, _) in reversed(list(zip(ka, kb))):
            if a.kind == "int":
                lt = a.z < b.z
            elif a.kind == "str":
                lt = a.z < b.z
            elif a.kind == "bool":
                lt = z3.And(z3.Not(a.z), b.z)
            else:
                raise Unsupported(f"ORDER BY on {a.kind}")
            if desc:
                lt_eff = z3.If(z3.Or(a.null, b.null), z3.And(a.null, z3.Not(b.null)), (b.z < a.z) if a.kind != "bool" else z3.And(a.z, z3.Not(b.z)))
            else:
                lt_eff = z3.If(z3.Or(a.null, b.null), z3.And(z3.Not(a.null), b.null), lt)
            res = z3.Or(lt_eff, z3.And(same_v(a, b), res))
        return res

    def window(self, e, rel, outer):
        fn, args, (part, order) = e[1], e[2], e[3]
        if fn != "first_value":
            raise Unsupported(f"window function {fn}")
        n = len(rel.rows)
        envs = [Env(rel, r, outer) for r in rel.rows]
        pk = [[self.ev(p, envs[i]) for p in part] for i in range(n)]
        ok = [self.order_key(order, rel, rel.rows[i], outer) for i in range(n)]
        vals = [self.ev(args[0], envs[i]) for i in range(n)]
        out = []
        for i in range(n):
            res = None
            for j in reversed(range(n)):
                samepart = z3.And(rel.rows[j].guard, *[same_v(a, b) for a, b in zip(pk[i], pk[j])])
                # j is the first row of i's partition: no present row of the partition sorts strictly before it
                nobody_before = z3.And(*[z3.Not(z3.And(rel.rows[l].guard, z3.And(*[same_v(a, b) for a, b in zip(pk[i], pk[l])]), self.before(ok[l], ok[j]))) for l in range(n) if l != j]) if n > 1 else z3.BoolVal(True)
                top = z3.And(samepart, nobody_before)
                v = vals[j]
                res = ite_v(top, v, res if res is not None else (vnull(v.kind) if v.kind in ("int", "str", "bool") else V(v.kind, v.z, z3.BoolVal(True))))
            out.append(res)
        return out

    def distinct_on(self, res, keyrel, keys, order, outer):
        """keep, per key, the first row in ORDER BY order (any row when no ORDER BY distinguishes them)"""
        n = len(res.rows)
        kv = [[self.ev(k, Env(keyrel, keyrel.rows[i], outer)) for k in keys] for i in range(n)]
        ok = [self.order_key(order, keyrel, keyrel.rows[i], outer) if order else [] for i in range(n)]
        out = []
        for i in range(n):
            beaten = []
            for j in range(n):
                if j == i:
                    continue
                same = z3.And(res.rows[j].guard, *[same_v(a, b) for a, b in zip(kv[i], kv[j])])
                if order:
                    j_first = z3.Or(self.before(ok[j], ok[i]), z3.And(z3.Not(self.before(ok[i], ok[j])), z3.BoolVal(j < i)))
                else:
                    j_first = z3.BoolVal(j < i)
                beaten.append(z3.And(same, j_first))
            out.append(Row(z3.And(res.rows[i].guard, z3.Not(z3.Or(*beaten)) if beaten else z3.BoolVal(True)), res.rows[i].vals))
        return Rel(res.cols, out)

    def limit_one(self, res, keyrel, order, outer):
        """ORDER BY ... LIMIT 1; order keys are evaluated on keyrel (input columns + output aliases)"""
        n = len(res.rows)
        if not order:
            out = []
            for i in range(n):
                out.append(Row(z3.And(res.rows[i].guard, z3.Not(z3.Or(*[res.rows[j].guard for j in range(i)])) if i else z3.BoolVal(True)), res.rows[i].vals))
            return Rel(res.cols, out)
        ok = [self.order_key(order, keyrel, keyrel.rows[i], outer) for i in range(n)]
        out = []
        for i in range(n):
            beaten = [z3.And(res.rows[j].guard, z3.Or(self.before(ok[j], ok[i]), z3.And(z3.Not(self.before(ok[i], ok[j])), z3.BoolVal(j < i)))) for j in range(n) if j != i]
            out.append(Row(z3.And(res.rows[i].guard, z3.Not(z3.Or(*beaten)) if beaten else z3.BoolVal(True)), res.rows[i].vals))
        return Rel(res.cols, out)
