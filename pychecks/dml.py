"""Data-modifying statements on symbolic tables (on top of sqlsym).

All parts of one statement read the same snapshot (the tables as they were when the statement
started), as PostgreSQL specifies for data-modifying CTEs; effects are accumulated in `work`."""
import z3
import sqlsym
from sqlsym import V, Rel, Row, Env, Evaluator, Unsupported, ite_v, vint, vstr, vbool, null_like


class Exec:
    def __init__(self, db, defaults=None):
        self.db = db                      # snapshot (read side)
        self.work = dict(db.tables)       # effects
        self.ev = Evaluator(db)
        self.defaults = defaults or {}    # (table, column) -> V for DEFAULT / missing columns
        self.errors = []                  # (name, condition): runtime errors the statement would raise
        self.inserted = {}                # table -> list of appended Row (for conflict detection inside one statement)

    # ---- helpers
    def names(self, table):
        return [c[1] for c in self.db.tables[table].cols]

    def default_for(self, table, column, like):
        d = self.defaults.get((table, column))
        if d is not None:
            return d
        return null_like(like)

    # ---- UPDATE
    def update(self, u, outer=None):
        table = u["table"]
        snap = self.db.tables[table]
        names = self.names(table)
        alias = u["alias"]
        frm_rel = None
        if u["frm"] is not None:
            item = u["frm"]
            if item[0] != "table" or item[2] not in self.ev.ctes:
                raise Unsupported("UPDATE ... FROM something else than a CTE")
            src = self.ev.ctes[item[2]]
            frm_rel = Rel([(item[3], c[1]) for c in src.cols], src.rows)
        work = self.work[table]
        new_rows, ret_rows = [], []
        ret_cols = None
        for i, r in enumerate(snap.rows):
            w = work.rows[i]
            cands = frm_rel.rows if frm_rel is not None else [None]
            vals = list(w.vals)
            hit_any = z3.BoolVal(False)
            ret_vals_acc = None
            for d in cands:
                if d is None:
                    rel = Rel([(alias, n) for n in names], None)
                    env = Env(rel, r, outer)
                    g = r.guard
                else:
                    rel = Rel([(alias, n) for n in names] + frm_rel.cols, None)
                    env = Env(rel, Row(z3.And(r.guard, d.guard), r.vals + d.vals), outer)
                    g = z3.And(r.guard, d.guard)
                cond = self.ev.ev(u["where"], env) if u["where"] is not None else vbool(True)
                hit = z3.And(g, z3.Not(cond.null), cond.z)
                newvals = list(r.vals)
                for cname, e in u["sets"]:
                    k = names.index(cname)
                    newvals[k] = self.ev.ev(e, env)
                for k in range(len(vals)):
                    if newvals[k] is not r.vals[k]:
                        vals[k] = ite_v(hit, newvals[k], vals[k])
                hit_any = z3.Or(hit_any, hit)
                if u["returning"] is not None:
                    # RETURNING sees the new row version (and the FROM row)
                    renv_row = Row(hit, newvals + (d.vals if d is not None else []))
                    renv = Env(rel, renv_row, outer)
                    rv, rc = self.returning(u["returning"], rel, renv_row, renv, alias)
                    ret_cols = rc
                    ret_rows.append(Row(hit, rv))
            new_rows.append(Row(w.guard, vals))
        self.work[table] = Rel(work.cols, new_rows + work.rows[len(snap.rows):])
        return Rel(ret_cols or [], ret_rows)

    def returning(self, items, rel, row, env, alias):
        vals, cols = [], []
        for it in items:
            if it[0] == "star":
                for ci, (q, n) in enumerate(rel.cols):
                    if it[1] is None or q == it[1]:
                        if it[1] is None and q != alias and alias is not None and False:
                            continue
                        vals.append(row.vals[ci])
                        cols.append((None, n))
            else:
                e = it[1]
                vals.append(self.ev.ev(e, env))
                cols.append((None, it[2] or (e[2] if e[0] == "col" else "?column?")))
        return vals, cols

    # ---- INSERT
    def insert(self, ins, outer=None):
        table = ins["table"]
        snap = self.db.tables[table]
        names = self.names(table)
        alias = ins["alias"]
        src = self.ev.rel(ins["src"], outer) if ins["src"][0] != "values" else None
        if src is None:
            rows = []
            for vals in ins["src"][1]:
                rows.append(Row(z3.BoolVal(True), [("default",) if x == ("default",) else self.ev.ev(x, Env(outer=outer)) for x in vals]))
            src_rows = rows
        else:
            src_rows = src.rows
        cols = ins["cols"] or names
        conflict = ins["conflict"]
        ret_rows, ret_cols = [], None
        work = self.work[table]
        for s in src_rows:
            # the candidate row
            cand = []
            for k, n in enumerate(names):
                like = snap.rows[0].vals[k] if snap.rows else V("opaque", None)
                if n in cols:
                    v = s.vals[cols.index(n)]
                    if v == ("default",):
                        v = self.default_for(table, n, like)
                    elif v.kind == "opaque" and v.z is None and like.kind != "opaque":
                        v = null_like(like) if z3.is_true(v.null) else like.__class__(like.kind, like.z, v.null)
                    elif like.kind == "json" and v.kind == "str":
                        raise Unsupported(f"string literal into jsonb column {n}")
                    elif like.kind == "int" and v.kind == "str":
                        raise Unsupported(f"untranslated literal into numeric column {n}")
                    cand.append(v)
                else:
                    cand.append(self.default_for(table, n, like))
            existing = work.rows  # includes rows inserted earlier by this statement
            target = None
            if conflict is not None:
                target = conflict[1]
            if conflict is not None and target is None:
                # ON CONFLICT DO NOTHING without a target: any unique constraint; callers give the key through `unique_keys`
                target = self.defaults.get(("__unique__", table))
            conf_rows = []
            if target:
                ti = [names.index(c) for c in target]
                for e in existing:
                    conf_rows.append(z3.And(e.guard, *[sqlsym.same_v(e.vals[k], cand[k]) for k in ti]))
            conflict_any = z3.Or(*conf_rows) if conf_rows else z3.BoolVal(False)
            if conflict is None or conflict[0] == "nothing":
                if conflict is None and target is None:
                    pass
                work = Rel(work.cols, work.rows + [Row(z3.And(s.guard, z3.Not(conflict_any)), cand)])
                if ins["returning"] is not None:
                    rel = Rel([(alias, n) for n in names], None)
                    row = Row(z3.And(s.guard, z3.Not(conflict_any)), cand)
                    rv, rc = self.returning(ins["returning"], rel, row, Env(rel, row, outer), alias)
                    ret_cols = rc
                    ret_rows.append(Row(row.guard, rv))
                continue
            # DO UPDATE
            _, _, sets, cw = conflict
            new_existing = []
            upd_ret = None
            for e, c in zip(existing, conf_rows):
                rel = Rel([(alias, n) for n in names] + [("excluded", n) for n in names], None)
                env = Env(rel, Row(e.guard, e.vals + cand), outer)
                ok = z3.And(s.guard, c)
                if cw is not None:
                    w = self.ev.ev(cw, env)
                    ok = z3.And(ok, z3.Not(w.null), w.z)
                vals = list(e.vals)
                for cname, ex in sets:
                    k = names.index(cname)
                    vals[k] = ite_v(ok, self.ev.ev(ex, env), e.vals[k])
                new_existing.append(Row(e.guard, vals))
                if ins["returning"] is not None:
                    rrel = Rel([(alias, n) for n in names], None)
                    rrow = Row(ok, vals)
                    rv, rc = self.returning(ins["returning"], rrel, rrow, Env(rrel, rrow, outer), alias)
                    ret_cols = rc
                    upd_ret = rv if upd_ret is None else [ite_v(ok, a, b) for a, b in zip(rv, upd_ret)]
            ins_guard = z3.And(s.guard, z3.Not(conflict_any))
            work = Rel(work.cols, new_existing + [Row(ins_guard, cand)])
            if ins["returning"] is not None:
                rrel = Rel([(alias, n) for n in names], None)
                rrow = Row(ins_guard, cand)
                rv, rc = self.returning(ins["returning"], rrel, rrow, Env(rrel, rrow, outer), alias)
                ret_cols = rc
                final = rv if upd_ret is None else [ite_v(ins_guard, a, b) for a, b in zip(rv, upd_ret)]
                ret_rows.append(Row(s.guard, final))
        self.work[table] = work
        return Rel(ret_cols or [], ret_rows)

    # ---- whole statements
    def run(self, ast):
        k = ast[0]
        if k == "insert":
            return self.insert(ast[1])
        if k == "update":
            return self.update(ast[1])
        if k == "with":
            saved = dict(self.ev.ctes)
            try:
                for name, cols, body in ast[1]:
                    if body[0] == "insert":
                        r = self.insert(body[1])
                    elif body[0] == "update":
                        r = self.update(body[1])
                    else:
                        r = self.ev.rel(body)
                    if cols:
                        r = Rel([(name, c) for c in cols], r.rows)
                    else:
                        r = Rel([(name, c[1]) for c in r.cols], r.rows)
                    self.ev.ctes[name] = r
                if ast[2][0] in ("insert", "update"):
                    return self.run(ast[2])
                return self.ev.rel(ast[2])
            finally:
                self.ev.ctes = saved
        return self.ev.rel(ast)
