"""C10 / C09 (framing): the text PostgreSQL hashes for a log equals the text Log.ComputeHash hashes.

Both framings are read from the current source on every run:
  SQL: the `'{' || ... ` concatenation in the body of the trigger function set_log_hash (resolved from the
       migrations), and the same in compute_hash;
  Go : the anonymous struct encoded by Log.ComputeHash (field order, json names, omitempty) in internal/log.go.
With the free fields as symbolic strings (type, idempotency key, schema version over an alphabet that needs no
JSON escaping; payload text and date text as opaque strings shared by both sides), z3 decides whether the two
byte strings can differ.

Not encoded (outside the claim): encode(memento,'escape'), to_json(date), jsonb key order and number formatting
inside the payload, and the JSON escaping Go applies to the idempotency key / schema version (the SQL side
concatenates them raw) — strings needing escapes are excluded from the quantification and listed as outside."""
import os, re, z3
from common import Harness, write
import plpgsql


def split_concat(expr):
    parts, cur, depth, i, q = [], "", 0, 0, False
    while i < len(expr):
        c = expr[i]
        if q:
            cur += c
            if c == "'":
                if i + 1 < len(expr) and expr[i + 1] == "'":
                    cur += "'"
                    i += 1
                else:
                    q = False
        elif c == "'":
            q = True
            cur += c
        elif c == "(":
            depth += 1
            cur += c
        elif c == ")":
            depth -= 1
            cur += c
        elif c == "|" and expr[i:i + 2] == "||" and depth == 0:
            parts.append(cur.strip())
            cur = ""
            i += 1
        else:
            cur += c
        i += 1
    if cur.strip():
        parts.append(cur.strip())
    return parts


def sql_pieces(body, rowvar):
    """[(kind, value)] kind in lit | field ; handles the optional schemaVersion suffix of compute_hash"""
    m = re.search(r"select\s+('\{'.*?)\s+into\s+marshalledAsJSON", body, re.S | re.I)
    if not m:
        raise ValueError("no marshalledAsJSON concatenation")
    pieces = []
    for p in split_concat(m.group(1)):
        if p.startswith("'") and p.endswith("'"):
            pieces.append(("lit", p[1:-1].replace("''", "'")))
        elif "memento" in p:
            pieces.append(("field", "data"))
        elif "date" in p:
            pieces.append(("field", "date"))
        elif "idempotency_key" in p:
            pieces.append(("field", "ik"))
        elif re.search(r"\btype\b", p):
            pieces.append(("field", "type"))
        else:
            raise ValueError(f"unrecognised piece {p!r}")
    # compute_hash appends ,"schemaVersion":"..." when not null, then '}'
    opt = re.search(r"if\s+" + rowvar + r"\.schema_version\s+is\s+not\s+null\s+then\s+marshalledAsJSON\s*:=\s*marshalledAsJSON\s*\|\|\s*(.*?);\s*end\s+if", body, re.S | re.I)
    tail = re.search(r"marshalledAsJSON\s*:=\s*marshalledAsJSON\s*\|\|\s*'\}'", body)
    opt_pieces = None
    if opt:
        opt_pieces = []
        for p in split_concat(opt.group(1)):
            if p.startswith("'"):
                opt_pieces.append(("lit", p[1:-1]))
            elif "schema_version" in p:
                opt_pieces.append(("field", "sv"))
            else:
                raise ValueError(f"unrecognised piece {p!r}")
    return pieces, opt_pieces, bool(tail)


def go_fields(repo):
    src = open(os.path.join(repo, "internal/log.go")).read()
    m = re.search(r"func \(l \*Log\) ComputeHash.*?enc\.Encode\(struct \{(.*?)\}\{(.*?)\}\)", src, re.S)
    if not m:
        raise ValueError("ComputeHash struct not found")
    fields = []
    for line in m.group(1).splitlines():
        fm = re.match(r"\s*(\w+)\s+(\S+)\s+`json:\"([^\"]+)\"`", line)
        if fm:
            name, typ, tag = fm.groups()
            parts = tag.split(",")
            fields.append({"go": name, "type": typ, "json": parts[0], "omitempty": "omitempty" in parts[1:]})
    init = dict(re.findall(r"(\w+):\s*([^,\n]+),", m.group(2)))
    return fields, init


def run(repo, tier, out, prop="C10"):
    L = 2 if tier == "quick" else 3
    h = Harness(prop + "_hash_framing")
    fns = plpgsql.resolve_functions(repo)
    T, D, DATE, IK, SV = z3.String("type"), z3.String("data_text"), z3.String("date_text"), z3.String("idempotency_key"), z3.String("schema_version")
    safe = z3.Star(z3.Union(z3.Range("a", "z"), z3.Range("A", "Z"), z3.Range("0", "9"), z3.Re(z3.StringVal("_")), z3.Re(z3.StringVal("-"))))
    pre = [z3.InRe(IK, safe), z3.InRe(SV, safe), z3.InRe(T, safe), z3.Length(IK) <= L, z3.Length(SV) <= L, z3.Length(T) <= 12]
    val = {"type": T, "data": D, "date": DATE, "ik": IK, "sv": SV}
    try:
        fields, init = go_fields(repo)
    except ValueError as e:
        h.inconclusive.append(str(e))
        return write(out, [h])
    # Go text: struct fields in order; strings quoted, ID is the constant 0, Hash of a log being hashed is nil -> null
    go = z3.StringVal("{")
    first = True
    for f in fields:
        j = f["json"]
        if f["go"] == "SchemaVersion":
            piece = z3.Concat(z3.StringVal(',"' + j + '":"'), SV, z3.StringVal('"'))
            go = z3.Concat(go, z3.If(SV == z3.StringVal(""), z3.StringVal(""), piece)) if f["omitempty"] else z3.Concat(go, piece)
            continue
        sep = "" if first else ","
        first = False
        if f["go"] == "Type":
            go = z3.Concat(go, z3.StringVal(sep + '"' + j + '":"'), T, z3.StringVal('"'))
        elif f["go"] == "Data":
            go = z3.Concat(go, z3.StringVal(sep + '"' + j + '":'), D)
        elif f["go"] == "Date":
            go = z3.Concat(go, z3.StringVal(sep + '"' + j + '":"'), DATE, z3.StringVal('"'))
        elif f["go"] == "IdempotencyKey":
            go = z3.Concat(go, z3.StringVal(sep + '"' + j + '":"'), IK, z3.StringVal('"'))
        elif f["go"] == "ID":
            go = z3.Concat(go, z3.StringVal(sep + '"' + j + '":' + init.get("ID", "0").strip()))
        elif f["go"] == "Hash":
            go = z3.Concat(go, z3.StringVal(sep + '"' + j + '":null'))
        else:
            h.inconclusive.append(f"ComputeHash has a field this check does not know: {f}")
            return write(out, [h])
    go = z3.Concat(go, z3.StringVal("}"))
    h.encoded = ["Log.ComputeHash struct: " + ", ".join(f["json"] + ("?" if f["omitempty"] else "") for f in fields)]

    def sql_text(name, rowvar):
        pcs, opt, tail = sql_pieces(fns[name]["body"], rowvar)
        s = z3.StringVal("")
        for k, v in pcs:
            # the date piece of the SQL side is `to_json(date)#>>'{}' || 'Z'`: DATE stands for that whole rendering
            s = z3.Concat(s, z3.StringVal(v) if k == "lit" else val[v])
        if opt is not None:
            o = z3.StringVal("")
            for k, v in opt:
                o = z3.Concat(o, z3.StringVal(v) if k == "lit" else val[v])
            # SQL: appended when schema_version IS NOT NULL; the Go zero value "" is stored as NULL (bun nullzero)
            s = z3.Concat(s, z3.If(SV == z3.StringVal(""), z3.StringVal(""), o))
        if tail:
            s = z3.Concat(s, z3.StringVal("}"))
        return s
    labels = (("set_log_hash", "new", "C10:the-insert-trigger-hashes-the-text-ComputeHash-hashes"), ("compute_hash", "r", "C10:compute_hash-hashes-the-text-ComputeHash-hashes"))
    if prop == "C09":
        # the same obligation read as C09's last clause: recomputing a stored hash with Log.ComputeHash (what ChainLog / import do) reproduces it
        labels = (("set_log_hash", "new", "C09:recomputing-with-ComputeHash-reproduces-the-hash-stored-by-the-insert-trigger"),
                  ("compute_hash", "r", "C09:recomputing-with-ComputeHash-reproduces-the-documented-sql-hash-compute_hash"))
    for name, rowvar, label in labels:
        if name not in fns:
            h.inconclusive.append(f"{name} not found in the migrations")
            continue
        try:
            sql = sql_text(name, rowvar)
        except ValueError as e:
            h.inconclusive.append(f"{name}: {e}")
            continue
        h.encoded.append(f"{name} (migration {fns[name]['migration']})")
        # the SQL date piece ends with 'Z"' literal already: DATE on the Go side includes the trailing Z
        sql_norm = z3.simplify(sql)
        go_z = z3.substitute(go, (DATE, z3.Concat(DATE, z3.StringVal("Z"))))
        h.reachable("end", pre)
        h.prove(label, pre, go_z == sql_norm, model_vars=[T, IK, SV], detail=f"{name} from migration {fns[name]['migration']}", dump=lambda m, g=go_z, s=sql_norm: {"go": str(m.eval(g, model_completion=True)), "sql": str(m.eval(s, model_completion=True))})
        h.prove(label + "-for-logs-without-schema-version", pre + [SV == z3.StringVal("")], go_z == sql_norm, model_vars=[T, IK], detail=name)
    write(out, [h])


if __name__ == "__main__":
    import argparse
    ap = argparse.ArgumentParser()
    ap.add_argument("--repo", default="/repo"); ap.add_argument("--tier", default="quick"); ap.add_argument("--out", required=True)
    ap.add_argument("--prop", default="C10")
    a = ap.parse_args()
    run(a.repo, a.tier, a.out, a.prop)
