"""Index / constraint resolver over the bucket migrations (numeric order): create [unique] index, drop index,
alter index rename. Returns name -> {table, unique, columns, where}."""
import os, re


def resolve_indexes(repo):
    base = os.path.join(repo, "internal/storage/bucket/migrations")
    dirs = sorted([d for d in os.listdir(base) if re.match(r"\d+-", d)], key=lambda d: int(d.split("-")[0]))
    idx = {}
    for d in dirs:
        p = os.path.join(base, d, "up.sql")
        if not os.path.exists(p):
            continue
        src = re.sub(r"\{\{.*?\}\}", "", open(p).read())
        src = re.sub(r"--[^\n]*", "", src)
        for st in src.split(";"):
            s = " ".join(st.split())
            m = re.match(r"create (unique )?index (?:concurrently )?(?:if not exists )?\"?(\w+)\"? on (?:\"?\w*\"?\.)?\"?(\w+)\"? (?:using \w+ )?\((.*?)\)( include \(.*?\))?( where (.*))?$", s, re.I)
            if m:
                idx[m.group(2)] = {"table": m.group(3), "unique": bool(m.group(1)), "columns": [c.strip().strip('"') for c in m.group(4).split(",")],
                                   "where": m.group(7), "migration": d}
                continue
            m = re.match(r"drop index (?:concurrently )?(?:if exists )?\"?(\w+)\"?", s, re.I)
            if m:
                idx.pop(m.group(1), None)
                continue
            m = re.match(r"alter index \"?(\w+)\"? rename to \"?(\w+)\"?", s, re.I)
            if m and m.group(1) in idx:
                idx[m.group(2)] = idx.pop(m.group(1))
    return idx
