"""C05: point-in-time and window reads equal the history fold.

The statements are the ones the real store emits (captured on every run); each is evaluated by
sqlsym over a symbolic `moves` / `accounts_volumes` table of at most K rows (two ledgers in the
bucket, several accounts and assets, arbitrary dates so "exactly on a recorded date" is covered)
with symbolic PIT / OOT, and compared with the fold of the moves in the window written directly
in z3."""
import sys, z3
from common import Harness, write, capture_sql, pick, dump_tables
import sqlsym
from sqlsym import V, vint, vstr, vbool, Rel, Row, DB, Evaluator


def moves_table(K, tag=""):
    rows = []
    cols = ["ledger", "seq", "transactions_id", "accounts_address", "asset", "amount", "is_source", "insertion_date", "effective_date",
            "post_commit_volumes", "post_commit_effective_volumes"]
    cons = []
    for i in range(K):
        n = lambda c: f"m{tag}{i}.{c}"
        pres = z3.Bool(n("present"))
        amount = z3.Int(n("amount"))
        cons.append(amount >= 0)
        vals = [vstr(z3.String(n("ledger"))), vint(z3.Int(n("seq"))), vint(z3.Int(n("tx"))), vstr(z3.String(n("account"))), vstr(z3.String(n("asset"))),
                vint(amount), vbool(z3.Bool(n("is_source"))), vint(z3.Int(n("insertion_date"))), vint(z3.Int(n("effective_date"))),
                V("comp", {"inputs": vint(z3.Int(n("pcv.in"))), "outputs": vint(z3.Int(n("pcv.out")))}),
                V("comp", {"inputs": vint(z3.Int(n("pcev.in"))), "outputs": vint(z3.Int(n("pcev.out")))}, z3.Bool(n("pcev.null")))]
        rows.append(Row(pres, vals))
    # seq is the primary key
    for i in range(K):
        for j in range(i + 1, K):
            cons.append(z3.Implies(z3.And(rows[i].guard, rows[j].guard), rows[i].vals[1].z != rows[j].vals[1].z))
    return Rel([("moves", c) for c in cols], rows), cons


def volumes_table(K):
    rows, cons = [], []
    cols = ["ledger", "accounts_address", "asset", "input", "output"]
    for i in range(K):
        n = lambda c: f"v{i}.{c}"
        vals = [vstr(z3.String(n("ledger"))), vstr(z3.String(n("account"))), vstr(z3.String(n("asset"))), vint(z3.Int(n("input"))), vint(z3.Int(n("output")))]
        rows.append(Row(z3.Bool(n("present")), vals))
    for i in range(K):
        for j in range(i + 1, K):  # unique (ledger, account, asset)
            cons.append(z3.Implies(z3.And(rows[i].guard, rows[j].guard), z3.Not(z3.And(*[rows[i].vals[c].z == rows[j].vals[c].z for c in range(3)]))))
    return Rel([("accounts_volumes", c) for c in cols], rows), cons


def col(rel, row, name):
    return row.vals[[c[1] for c in rel.cols].index(name)]


def check_volumes(h, rec, K):
    cfg = rec["config"]
    label = f"C05:volumes[{cfg['window']},{'insertion' if cfg['insertionDate']=='true' else 'effective'}]"
    if rec.get("error"):
        h.inconclusive.append(f"{label}: the store refused the query: {rec['error']}")
        return
    sql = rec["sql"][-1]
    L = z3.String("this_ledger")
    pit, oot = z3.Int("pit"), z3.Int("oot")
    moves, c1 = moves_table(K)
    vols, c2 = volumes_table(K)
    db = DB({"moves": moves, "accounts_volumes": vols}, params={"L#1": vstr(L), "2001-01-01T00:00:01Z": vint(pit), "2000-01-01T00:00:01Z": vint(oot)})
    try:
        res = Evaluator(db).rel(sqlsym.parse(sql))
    except sqlsym.Unsupported as e:
        h.inconclusive.append(f"{label}: statement outside the SQL subset: {e}")
        return
    h.encoded.append(f"Volumes.Paginate {cfg}")
    pre = c1 + c2
    names = [c[1] for c in res.cols]
    window = cfg["window"]
    datecol = "insertion_date" if cfg["insertionDate"] == "true" else "effective_date"

    def ref_for(acc, asset):
        """reference fold for (account, asset): (exists, input, output)"""
        if window == "none":
            ex, inp, outp = z3.BoolVal(False), z3.IntVal(0), z3.IntVal(0)
            for r in vols.rows:
                hit = z3.And(r.guard, col(vols, r, "ledger").z == L, col(vols, r, "accounts_address").z == acc, col(vols, r, "asset").z == asset)
                ex = z3.Or(ex, hit)
                inp = inp + z3.If(hit, col(vols, r, "input").z, 0)
                outp = outp + z3.If(hit, col(vols, r, "output").z, 0)
            return ex, inp, outp
        ex, inp, outp = z3.BoolVal(False), z3.IntVal(0), z3.IntVal(0)
        for r in moves.rows:
            d = col(moves, r, datecol).z
            inw = z3.BoolVal(True)
            if "pit" in window:
                inw = z3.And(inw, d <= pit)
            if "oot" in window:
                inw = z3.And(inw, d >= oot)
            hit = z3.And(r.guard, col(moves, r, "ledger").z == L, col(moves, r, "accounts_address").z == acc, col(moves, r, "asset").z == asset, inw)
            ex = z3.Or(ex, hit)
            src = col(moves, r, "is_source").z
            inp = inp + z3.If(z3.And(hit, z3.Not(src)), col(moves, r, "amount").z, 0)
            outp = outp + z3.If(z3.And(hit, src), col(moves, r, "amount").z, 0)
        return ex, inp, outp

    # (a) every returned row is right
    goals = []
    for r in res.rows:
        acc, asset = r.vals[names.index("account")].z, r.vals[names.index("asset")].z
        ex, inp, outp = ref_for(acc, asset)
        goals.append(z3.Implies(r.guard, z3.And(ex, r.vals[names.index("input")].z == inp, r.vals[names.index("output")].z == outp,
                                                r.vals[names.index("balance")].z == inp - outp)))
    # (b) every (account, asset) with history in the window is returned, once
    src_rows = vols.rows if window == "none" else moves.rows
    src_rel = vols if window == "none" else moves
    for r in src_rows:
        acc, asset = col(src_rel, r, "accounts_address").z, col(src_rel, r, "asset").z
        ex, _, _ = ref_for(acc, asset)
        mine = z3.And(r.guard, col(src_rel, r, "ledger").z == L)
        if window != "none":
            d = col(moves, r, datecol).z
            if "pit" in window:
                mine = z3.And(mine, d <= pit)
            if "oot" in window:
                mine = z3.And(mine, d >= oot)
        cnt = z3.Sum([z3.If(z3.And(o.guard, o.vals[names.index("account")].z == acc, o.vals[names.index("asset")].z == asset), 1, 0) for o in res.rows])
        goals.append(z3.Implies(mine, cnt == 1))
    h.reachable("end", pre + [z3.Or(*[r.guard for r in res.rows])])
    h.prove(label, pre, z3.And(*goals), model_vars=[pit, oot, L], detail=sql[:600], dump=dump_tables({"moves": moves, "accounts_volumes": vols}))


def run(repo, tier, out):
    recs = capture_sql(repo)
    K = 3 if tier == "quick" else 4
    h = Harness("C05_volumes_windows")
    for rec in pick(recs, "Volumes.Paginate", features="default", alone="false", groupLvl="0"):
        check_volumes(h, rec, K)
    write(out, [h])


if __name__ == "__main__":
    import argparse
    ap = argparse.ArgumentParser()
    ap.add_argument("--repo", default="/repo"); ap.add_argument("--tier", default="quick"); ap.add_argument("--out", required=True)
    a = ap.parse_args()
    run(a.repo, a.tier, a.out)
