"""C28(a): every literal the Numscript lexer accepts as an account / asset matches the documented
pattern of well-formed postings. Both sides are read from /repo on every run:
  NumScript.g4 lexer rules ACCOUNT and ASSET  vs  pkg/accounts.Pattern and pkg/assets.Pattern.
The solver is asked for a string in L(lexer rule) \\ L(pattern)."""
import re, os, sys, z3
from common import Harness, write
import regex2z3


def go_consts(path):
    """string constants of a Go file: name -> value (handles "..", `..` and + concatenation of names/literals)"""
    src = open(path).read()
    consts = {}
    tok = re.compile(r'\s*(?:"((?:[^"\\]|\\.)*)"|`([^`]*)`|([A-Za-z_]\w*)|(\+))')
    for m in re.finditer(r'const\s+(\w+)\s*=\s*(.+)', src):
        name, expr = m.group(1), m.group(2).strip()
        val, pos = "", 0
        while pos < len(expr):
            t = tok.match(expr, pos)
            if not t:
                break
            pos = t.end()
            if t.group(1) is not None:
                val += bytes(t.group(1), "utf-8").decode("unicode_escape")
            elif t.group(2) is not None:
                val += t.group(2)
            elif t.group(3) is not None:
                val += consts[t.group(3)]
        consts[name] = val
    return consts


def run(repo, tier, out):
    g4 = open(os.path.join(repo, "internal/machine/script/NumScript.g4")).read()
    rules = {m.group(1): m.group(2).strip() for m in re.finditer(r'^([A-Z_]+):\s*([^;]+);', g4, re.M)}
    acc_pat = go_consts(os.path.join(repo, "pkg/accounts/accounts.go"))["Pattern"]
    asset_pat = "^" + go_consts(os.path.join(repo, "pkg/assets/asset.go"))["Pattern"] + "$"
    hs = []
    for name, rule, pat, strip, harness in (
            ("C28_lexer_account_literals", rules["ACCOUNT"], acc_pat, "@", "Replay_C28_literal_account"),
            ("C28_lexer_asset_literals", rules["ASSET"], asset_pat, "", "Replay_C28_literal_asset")):
        h = Harness(name)
        h.encoded = ["NumScript.g4:" + name.split("_")[2].upper(), "pattern " + pat]
        lex_re = regex2z3.antlr_rule(rule)
        if strip:
            assert lex_re.startswith(re.escape(strip)) or lex_re.startswith(strip)
            lex_re = lex_re[len(re.escape(strip)):] if lex_re.startswith(re.escape(strip)) else lex_re[len(strip):]
        L = regex2z3.full_match(lex_re)
        P = regex2z3.full_match(pat)
        s = z3.String("literal")
        bound = 6 if tier == "quick" else 10
        pre = [z3.InRe(s, L), z3.Length(s) <= bound]
        if not strip:
            # a token that is certainly lexed as ASSET (NUMBER is declared first and wins on all-digit input;
            # '/' alone starts other tokens): begin with an upper-case letter
            pre.append(z3.InRe(z3.SubString(s, 0, 1), z3.Range("A", "Z")))
        # what the compiler does with the literal, read from the current source of VisitLit: when the branch
        # of this literal kind calls machine.Validate<Kind>, only literals matching the validator's pattern
        # (read from internal/machine/<kind>.go -> pkg/<kind>s) survive compilation
        comp = open(os.path.join(repo, "internal/machine/script/compiler/compiler.go")).read()
        kind = "Asset" if not strip else "Account"
        m = re.search(r"case \*parser\.Lit" + kind + r"Context:(.*?)\n\tcase \*parser\.", comp, re.S)
        branch = m.group(1) if m else ""
        validated = re.search(r"machine\.Validate" + ("Asset" if kind == "Asset" else "AccountAddress") + r"\(", branch) is not None
        if validated:
            vsrc = open(os.path.join(repo, "internal/machine", "asset.go" if kind == "Asset" else "account.go")).read()
            uses = re.search(r"(assets|accounts)\.Regexp\.MatchString", vsrc)
            if uses:
                vpat = asset_pat if kind == "Asset" else acc_pat
                pre.append(z3.InRe(s, regex2z3.full_match(vpat)))
                h.notes.append(f"VisitLit validates {kind} literals with machine.Validate{kind}* (pattern {vpat!r}): modelled as a filter")
            else:
                h.inconclusive.append("VisitLit calls a validator whose pattern could not be read from the source")
        h.reachable("end", pre)
        h.prove("C28:literal-accepted-by-the-lexer-matches-the-pattern", pre, z3.InRe(s, P), model_vars=[s],
                native=lambda m, s=s: {"values": {"literal": m.eval(s, model_completion=True).as_string().encode("latin-1", "replace").hex()}, "choices": []},
                replay_harness=harness, detail=f"lexer rule {rule!r} vs pattern {pat!r}, length <= {bound}")
        hs.append(h)
    write(out, hs)


if __name__ == "__main__":
    import argparse
    ap = argparse.ArgumentParser()
    ap.add_argument("--repo", default="/repo"); ap.add_argument("--tier", default="quick"); ap.add_argument("--out", required=True)
    a = ap.parse_args()
    run(a.repo, a.tier, a.out)
